import subprocess, shutil, os
MUTS = {
 "seed R10-C05": ("patch", "/verif/seeded/R10-C05-string-token-escaped-quote/patch.diff"),
 "block comments do not nest": ("sub", "\t\t\telse if walker.consume_str(\";*\")\n\t\t\t{\n\t\t\t\tnesting += 1;\n\t\t\t}", "\t\t\telse if walker.consume_str(\";*\")\n\t\t\t{\n\t\t\t}"),
 "line comment swallows the line break": ("sub", "\t\twalker.consume_until_char('\\n');\n    \treturn Some((TokenKind::Comment, walker.length));", "\t\twalker.consume_until_char('\\n');\n\t\twalker.advance();\n    \treturn Some((TokenKind::Comment, walker.length));"),
 "binary literal accepts 2": ("sub", "(c >= '0' && c <= '1') ||", "(c >= '0' && c <= '2') ||"),
 "tab is not a blank": ("sub", "\tc == ' '  ||\n\tc == '\\t' ||\n\tc == '\\r'", "\tc == ' '  ||\n\tc == '\\r'"),
 "harmless: renamed local": ("sub", "let mut cloned = self.clone();\n\n\t\tfor c in wanted.chars()\n\t\t{\n\t\t\tif !cloned.consume_char(c)", "let mut cloned = self.clone();\n\n\t\tfor c in wanted.chars()\n\t\t{\n\t\t\tif !cloned.consume_char( c )"),
}
for name, m in MUTS.items():
    shutil.rmtree("/tmp/mut", ignore_errors=True)
    subprocess.run(["rsync", "-a", "--exclude", "target", "--exclude", ".git", "/repo/", "/tmp/mut/"], check=True)
    if m[0] == "patch":
        subprocess.run("patch -p1 -s < %s" % m[1], shell=True, cwd="/tmp/mut", check=True)
    else:
        p = "/tmp/mut/src/syntax/token.rs"; s = open(p).read()
        if s.count(m[1]) != 1: print(name, "ANCHOR", s.count(m[1])); continue
        open(p, "w").write(s.replace(m[1], m[2]))
    r = subprocess.run(["./check", "--unit", "U-token"], cwd="/verif", env=dict(os.environ, VERIF_REPO="/tmp/mut"), capture_output=True, text=True)
    l = [x for x in r.stdout.split("\n") if x.startswith("FAILED") or x.startswith("UNDEC")]
    print("%-40s -> %s" % (name, l[0][:170] if l else "verified"))
shutil.rmtree("/tmp/mut", ignore_errors=True)
