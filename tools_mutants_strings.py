import subprocess, shutil, os
MUTS = {
 "seed R10-C13": ("patch", "/verif/seeded/R10-C13-escape-span-char-index/patch.diff"),
 "\\n decodes to CR": ("sub", "Some('n')  => '\\n',", "Some('n')  => '\\r',"),
 "\\x accepts above 0x7f": ("sub", "if byte > 0x7f", "if byte > 0xff"),
 "\\u takes 8 digits": ("sub", "if i > 6", "if i > 8"),
 "unknown escape kept literally": ("sub", "\t\t\t\tSome(_) |\n\t\t\t\tNone => return Err(report.error_span(\"invalid escape sequence\", span))", "\t\t\t\tSome(other) => other,\n\t\t\t\tNone => return Err(report.error_span(\"invalid escape sequence\", span))"),
 "harmless: renamed local": ("sub", "result.push(unescaped);", "result.push(unescaped );"),
}
for name, m in MUTS.items():
    shutil.rmtree("/tmp/mut", ignore_errors=True)
    subprocess.run(["rsync", "-a", "--exclude", "target", "--exclude", ".git", "/repo/", "/tmp/mut/"], check=True)
    if m[0] == "patch":
        subprocess.run("patch -p1 -s < %s" % m[1], shell=True, cwd="/tmp/mut", check=True)
    else:
        p = "/tmp/mut/src/syntax/excerpt.rs"; s = open(p).read()
        if s.count(m[1]) != 1: print(name, "ANCHOR", s.count(m[1])); continue
        open(p, "w").write(s.replace(m[1], m[2]))
    r = subprocess.run(["./check", "--unit", "U-strings"], cwd="/verif", env=dict(os.environ, VERIF_REPO="/tmp/mut"), capture_output=True, text=True)
    l = [x for x in r.stdout.split("\n") if x.startswith("FAILED") or x.startswith("UNDEC")]
    print("%-34s -> %s" % (name, l[0][:170] if l else "verified"))
shutil.rmtree("/tmp/mut", ignore_errors=True)
