"""Seed R13-C14 and hand variants (the #once memory between root files), run against U-include on a scratch copy."""
import subprocess, shutil, os
P = "src/asm/parser/mod.rs"
MUTS = {
 "seed R13-C14 (once set declared per root file)": ("patch", "/verif/seeded/R13-C14-once-set-per-root/patch.diff"),
 "once set cleared after every root file": ("sub", "        result.nodes.extend(ast.nodes);\n", "        result.nodes.extend(ast.nodes);\n        once_filenames = std::collections::HashSet::new();\n"),
 "harmless: comment": ("sub", "        result.nodes.extend(ast.nodes);\n", "        // append\n        result.nodes.extend(ast.nodes);\n"),
}
for name, m in MUTS.items():
    shutil.rmtree("/tmp/mut", ignore_errors=True)
    subprocess.run(["rsync", "-a", "--exclude", "target", "--exclude", ".git", "/repo/", "/tmp/mut/"], check=True)
    if m[0] == "patch":
        subprocess.run("patch -p1 -s < %s" % m[1], shell=True, cwd="/tmp/mut", check=True)
    else:
        p = "/tmp/mut/" + P; s = open(p).read()
        if s.count(m[1]) != 1: print(name, "ANCHOR", s.count(m[1])); continue
        open(p, "w").write(s.replace(m[1], m[2]))
    r = subprocess.run(["./check", "--unit", "U-include"], cwd="/verif", env=dict(os.environ, VERIF_REPO="/tmp/mut"), capture_output=True, text=True)
    l = [x for x in r.stdout.split("\n") if x.startswith("FAILED") or x.startswith("UNDEC")]
    print("%-50s -> %s" % (name, l[0][:220] if l else "verified"))
shutil.rmtree("/tmp/mut", ignore_errors=True)
