"""Seed R12-C17 and hand-made mutants of eval_asm::resolve_once's value accumulation, run against U-asmblock on a scratch copy."""
import subprocess, shutil, os
OLD = """                result = result.concat(
                    (result.size.unwrap(), 0),
                    &encodings[0].1,
                    (size, 0));"""
MUTS = {
 "seed R12-C17 (shl + or instead of concat)": ("patch", "/verif/seeded/R12-C17-asm-concat-shl-or/patch.diff"),
 "new piece goes on top": ("sub", OLD, "                result = encodings[0].1.concat(\n                    (size, 0),\n                    &result,\n                    (result.size.unwrap(), 0));"),
 "one bit of the piece dropped": ("sub", OLD, "                result = result.concat(\n                    (result.size.unwrap(), 0),\n                    &encodings[0].1,\n                    (size, if size > 8 { 1 } else { 0 }));"),
 "second candidate encoding used": ("sub", OLD, OLD.replace("&encodings[0].1", "&encodings[encodings.len() - 1].1")),
 "harmless: comment": ("sub", OLD, "                // join\n" + OLD),
}
for name, m in MUTS.items():
    shutil.rmtree("/tmp/mut", ignore_errors=True)
    subprocess.run(["rsync", "-a", "--exclude", "target", "--exclude", ".git", "/repo/", "/tmp/mut/"], check=True)
    if m[0] == "patch":
        subprocess.run("patch -p1 -s < %s" % m[1], shell=True, cwd="/tmp/mut", check=True)
    else:
        p = "/tmp/mut/src/asm/resolver/eval_asm.rs"; s = open(p).read()
        if s.count(m[1]) != 1: print(name, "ANCHOR", s.count(m[1])); continue
        open(p, "w").write(s.replace(m[1], m[2]))
    r = subprocess.run(["./check", "--unit", "U-asmblock"], cwd="/verif", env=dict(os.environ, VERIF_REPO="/tmp/mut"), capture_output=True, text=True)
    l = [x for x in r.stdout.split("\n") if x.startswith("FAILED") or x.startswith("UNDEC")]
    print("%-45s -> %s" % (name, l[0][:200] if l else "verified"))
shutil.rmtree("/tmp/mut", ignore_errors=True)
