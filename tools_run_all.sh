#!/bin/bash
# runs every registered check (quick tier by default) on /repo as it is and validates MANIFEST + evidence
cd "$(dirname "$0")"
TIER=${1:-quick}
rc=0
for p in $(python3 -c "import json;print(' '.join(c['property_id'] for c in json.load(open('MANIFEST.json'))['checks']))"); do
  ./check $p --tier $TIER > /tmp/verif_run_$p.log 2>&1; r=$?
  tail -1 /tmp/verif_run_$p.log | cut -c1-150
  [ $r -ne 0 ] && { rc=1; grep "VIOLATION\|UNDECIDED" /tmp/verif_run_$p.log | head -5; }
done
python3-vt tools_validate.py | tail -1
exit $rc
