// Kani harnesses: BOUNDED cross-checks (on the real num-bigint crate) of contracts the Verus units assume.
// Run by the thorough tier (vfw/kani.py): check_min_size_sign_i32, check_get_bit_i16, check_nb_tryfrom_cmp_i32.
// The remaining harnesses did not terminate within 400 s on this machine (measured) and are not run.
// Injected into a scratch copy only (never committed to /repo).
use crate::*;

fn stub_addcarry_u64(c_in: u8, a: u64, b: u64, out: &mut u64) -> u8 {
    let (s1, o1) = a.overflowing_add(b);
    let (s2, o2) = s1.overflowing_add(c_in as u64);
    *out = s2;
    (o1 || o2) as u8
}
fn stub_subborrow_u64(c_in: u8, a: u64, b: u64, out: &mut u64) -> u8 {
    let (s1, o1) = a.overflowing_sub(b);
    let (s2, o2) = s1.overflowing_sub(c_in as u64);
    *out = s2;
    (o1 || o2) as u8
}

fn bitlen64(mut n: u64) -> u64 { let mut c = 0; while n > 0 { c += 1; n >>= 1; } c }

fn min_size_spec(v: i64) -> u64 {
    if v == 0 { 1 } else if v > 0 { bitlen64(v as u64) } else { bitlen64((-(v + 1)) as u64) + 1 }
}

#[kani::proof]
#[kani::unwind(34)]
#[kani::stub(core::arch::x86_64::_addcarry_u64, stub_addcarry_u64)]
#[kani::stub(core::arch::x86_64::_subborrow_u64, stub_subborrow_u64)]
fn check_min_size_sign_i32() {
    let x: i32 = kani::any();
    let b = util::BigInt::from(x);
    assert!(b.min_size() as u64 == min_size_spec(x as i64));
    assert!(b.sign() == (if x < 0 { -1 } else if x == 0 { 0 } else { 1 }));
}

#[kani::proof]
#[kani::unwind(34)]
#[kani::stub(core::arch::x86_64::_addcarry_u64, stub_addcarry_u64)]
#[kani::stub(core::arch::x86_64::_subborrow_u64, stub_subborrow_u64)]
fn check_get_bit_i16() {
    let x: i16 = kani::any();
    let i: u8 = kani::any();
    kani::assume(i < 24);
    let b = util::BigInt::from(x);
    // two's complement bit i (arithmetic shift on i64 sign-extends)
    let expect = (((x as i64) >> i) & 1) == 1;
    assert!(b.get_bit(i as usize) == expect);
}

type NB = num_bigint::BigInt;

macro_rules! nb_harness {
    ($name:ident, $body:block) => {
        #[kani::proof]
        #[kani::unwind(34)]
        #[kani::stub(core::arch::x86_64::_addcarry_u64, stub_addcarry_u64)]
        #[kani::stub(core::arch::x86_64::_subborrow_u64, stub_subborrow_u64)]
        fn $name() $body
    };
}

nb_harness!(check_nb_add_sub_i16, {
    let a: i16 = kani::any(); let b: i16 = kani::any();
    assert!(NB::from(a).checked_add(&NB::from(b)) == Some(NB::from(a as i64 + b as i64)));
    assert!(NB::from(a).checked_sub(&NB::from(b)) == Some(NB::from(a as i64 - b as i64)));
});

nb_harness!(check_nb_mul_i8, {
    let a: i8 = kani::any(); let b: i8 = kani::any();
    assert!(NB::from(a).checked_mul(&NB::from(b)) == Some(NB::from(a as i64 * b as i64)));
});

nb_harness!(check_nb_div_rem_i8, {
    let a: i8 = kani::any(); let b: i8 = kani::any();
    if b == 0 {
        assert!(NB::from(a).checked_div(&NB::from(b)).is_none());
    } else {
        // Rust's `/` and `%` on primitives truncate toward zero / take the dividend's sign
        assert!(NB::from(a).checked_div(&NB::from(b)) == Some(NB::from((a as i64) / (b as i64))));
        assert!(&NB::from(a) % &NB::from(b) == NB::from((a as i64) % (b as i64)));
    }
});

nb_harness!(check_nb_shl_shr_i16, {
    let a: i16 = kani::any(); let k: u8 = kani::any();
    kani::assume(k < 16);
    assert!(&NB::from(a) << (k as usize) == NB::from((a as i64) << k));
    // arithmetic shift right on i64 floors
    assert!(&NB::from(a) >> (k as usize) == NB::from((a as i64) >> k));
});

nb_harness!(check_nb_set_bit_i16, {
    let a: i16 = kani::any(); let i: u8 = kani::any(); let v: bool = kani::any(); let j: u8 = kani::any();
    kani::assume(i < 20); kani::assume(j < 24);
    let mut x = NB::from(a);
    x.set_bit(i as u64, v);
    let old = (((a as i64) >> j) & 1) == 1;
    assert!(x.bit(j as u64) == (if i == j { v } else { old }));
});

nb_harness!(check_nb_bitops_neg_i16, {
    let a: i16 = kani::any(); let b: i16 = kani::any();
    assert!(&NB::from(a) & &NB::from(b) == NB::from((a & b) as i64));
    assert!(&NB::from(a) | &NB::from(b) == NB::from((a | b) as i64));
    assert!(&NB::from(a) ^ &NB::from(b) == NB::from((a ^ b) as i64));
    assert!(-&NB::from(a) == NB::from(-(a as i64)));
});

nb_harness!(check_nb_tryfrom_cmp_i32, {
    let a: i32 = kani::any(); let b: i32 = kani::any();
    let r: Result<usize, _> = (&NB::from(a)).try_into();
    assert!(r.is_ok() == (a >= 0));
    if a >= 0 { assert!(r.unwrap() == a as usize); }
    let r32: Result<u32, _> = (&NB::from(a)).try_into();
    assert!(r32.is_ok() == (a >= 0));
    assert!((NB::from(a) < NB::from(b)) == (a < b));
    assert!((NB::from(a) == NB::from(b)) == (a == b));
});
