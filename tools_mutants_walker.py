import subprocess, shutil, os, sys
MUTS = {
 "seed R7-C03": ("patch", "/verif/seeded/R7-C03-lookahead-steps-by-byte/patch.diff"),
 "seed R7-C07": ("patch", "/verif/seeded/R7-C07-lookahead-case-sensitive/patch.diff"),
 "maybe_expect does not advance": ("sub", "            let token = token.clone();\n            self.advance_to_token_end(&token);\n\t\t\tSome(token)", "            let token = token.clone();\n\t\t\tSome(token)"),
 "next_linebreak stops at comments": ("sub", "            if !token.kind.is_ignorable()\n                { return None; }", "            if token.kind != syntax::TokenKind::Whitespace\n                { return None; }"),
 "linebreak is a useful token": ("sub", "\t\tself == TokenKind::Comment ||\n\t\tself == TokenKind::LineBreak", "\t\tself == TokenKind::Comment"),
 "cursor span one byte wide": ("sub", "self.get_span(self.cursor_index, self.cursor_index)", "self.get_span(self.cursor_index, self.cursor_index + 1)"),
 "expect reports at the token": ("sub", "                    format!(\"expected {}\", kind.printable()),\n                    self.get_cursor_span());", "                    format!(\"expected {}\", kind.printable()),\n                    self.next_useful_token().span);"),
 "harmless: local renamed": ("sub", "        let token = self.next_nth_useful_token(nth);\n        token.kind == kind", "        let tk = self.next_nth_useful_token(nth);\n        tk.kind == kind"),
}
for name, m in MUTS.items():
    shutil.rmtree("/tmp/mut", ignore_errors=True)
    subprocess.run(["rsync", "-a", "--exclude", "target", "--exclude", ".git", "/repo/", "/tmp/mut/"], check=True)
    if m[0] == "patch":
        subprocess.run("patch -p1 -s < %s" % m[1], shell=True, cwd="/tmp/mut", check=True)
    else:
        done = False
        for f in ("src/syntax/walker.rs", "src/syntax/token.rs"):
            p = "/tmp/mut/" + f
            s = open(p).read()
            if s.count(m[1]) == 1:
                open(p, "w").write(s.replace(m[1], m[2])); done = True; break
        if not done:
            print(name, "ANCHOR not found"); continue
    r = subprocess.run(["./check", "--unit", "U-walker"], cwd="/verif", env=dict(os.environ, VERIF_REPO="/tmp/mut"), capture_output=True, text=True)
    lines = [l for l in r.stdout.split("\n") if l.startswith("FAILED") or l.startswith("UNDECIDED")]
    print("%-40s -> %s" % (name, (lines[0][:170] if lines else "verified")))
shutil.rmtree("/tmp/mut", ignore_errors=True)
