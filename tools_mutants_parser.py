import subprocess, shutil, os, sys
MUTS = {
 "seed R3-C05": ("patch", "/verif/seeded/R3-C05-and-xor-precedence/patch.diff"),
 "seed R4-C19": ("patch", "/verif/seeded/R4-C19-ternary-else-depth/patch.diff"),
 "seed R4-C13": ("patch", "/verif/seeded/R4-C13-expected-expr-next-token/patch.diff"),
 "swap add/sub ops": ("sub", "(syntax::TokenKind::Plus,  expr::BinaryOp::Add),\n\t\t\t\t(syntax::TokenKind::Minus, expr::BinaryOp::Sub)", "(syntax::TokenKind::Plus,  expr::BinaryOp::Sub),\n\t\t\t\t(syntax::TokenKind::Minus, expr::BinaryOp::Add)"),
 "call across line break": ("sub", "let leaf = self.parse_leaf()?;\n\t\t\n\t\tif self.walker.next_linebreak().is_some()\n\t\t\t{ return Ok(leaf); }\n", "let leaf = self.parse_leaf()?;\n"),
 "slice bounds swapped": ("sub", "Box::new(leftmost),\n\t\t\tBox::new(rightmost),", "Box::new(rightmost),\n\t\t\tBox::new(leftmost),"),
 "unary without depth": ("sub", "\t\t\tself.recursion_depth += 1;\n\t\t\tself.check_recursion_limit()?;\n\t\t\t\n\t\t\tlet inner = self.parse_unary_ops(ops, parse_inner)?;\n\t\t\tlet span = tk_span.join(inner.span());\n\t\t\t\n\t\t\tself.recursion_depth -= 1;", "\t\t\tlet inner = self.parse_unary_ops(ops, parse_inner)?;\n\t\t\tlet span = tk_span.join(inner.span());"),
 "missing else uses cond span": ("sub", "expr::Expr::Block(true_branch.span(), Vec::new())", "expr::Expr::Block(cond.span(), Vec::new())"),
 "right side of assignment is concat level": ("sub", "let rhs = self.parse_expr()?;\n\t\t\tlet span = lhs.span().join(rhs.span());\n\t\t\t\n\t\t\tlhs = expr::Expr::BinaryOp(span, op_match.0", "let rhs = parse_inner(self)?;\n\t\t\tlet span = lhs.span().join(rhs.span());\n\t\t\t\n\t\t\tlhs = expr::Expr::BinaryOp(span, op_match.0"),
 "block: comma optional": ("sub", "\t\t\tif self.walker.next_useful_is(0, syntax::TokenKind::BraceClose)\n\t\t\t\t{ break; }\n\t\t\t\t\n\t\t\tself.walker.expect(self.report, syntax::TokenKind::Comma)?;\n\t\t}\n\t\t\n\t\tlet tk_close = self.walker.expect(self.report, syntax::TokenKind::BraceClose)?;", "\t\t\tif self.walker.next_useful_is(0, syntax::TokenKind::BraceClose)\n\t\t\t\t{ break; }\n\t\t\t\t\n\t\t\tself.walker.maybe_expect(syntax::TokenKind::Comma);\n\t\t}\n\t\t\n\t\tlet tk_close = self.walker.expect(self.report, syntax::TokenKind::BraceClose)?;"),
 "variable: level counts from 1": ("sub", "let mut hierarchy_level = 0;", "let mut hierarchy_level = 1;"),
 "harmless: renamed local": ("sub", "let maybe_expr = self.parse_ternary_conditional();\n\n\t\tself.recursion_depth -= 1;\n\n\t\tmaybe_expr", "let result = self.parse_ternary_conditional();\n\n\t\tself.recursion_depth -= 1;\n\n\t\tresult"),
 "harmless: reordered independent statements": ("sub", "let slice_span = tk_open.span.join(tk_close_span);\n\t\tlet span = inner.span().join(tk_close_span);", "let span = inner.span().join(tk_close_span);\n\t\tlet slice_span = tk_open.span.join(tk_close_span);"),
}
unit = sys.argv[1] if len(sys.argv) > 1 else "U-parser"
for name, m in MUTS.items():
    shutil.rmtree("/tmp/mut", ignore_errors=True)
    subprocess.run(["rsync", "-a", "--exclude", "target", "--exclude", ".git", "/repo/", "/tmp/mut/"], check=True)
    if m[0] == "patch":
        subprocess.run("patch -p1 -s < %s" % m[1], shell=True, cwd="/tmp/mut", check=True)
    else:
        p = "/tmp/mut/src/expr/parser.rs"
        s = open(p).read()
        if s.count(m[1]) != 1:
            print(name, "ANCHOR count", s.count(m[1])); continue
        open(p, "w").write(s.replace(m[1], m[2]))
    r = subprocess.run(["./check", "--unit", unit], cwd="/verif", env=dict(os.environ, VERIF_REPO="/tmp/mut"), capture_output=True, text=True)
    lines = [l for l in r.stdout.split("\n") if l.startswith("FAILED") or l.startswith("UNDECIDED")]
    print("%-45s -> %s" % (name, (lines[0][:170] if lines else "verified")))
shutil.rmtree("/tmp/mut", ignore_errors=True)
