#!/bin/bash
# usage: tools_seed_eval.sh <seed-id> <worktree> <prop> [more props...]
# confirms a seeded change (tests pass, demo fails with / passes without), then runs the checks on /repo with the patch applied.
ID=$1; WT=$2; shift 2; PROPS="$@"
OUT=/verif/seeded/$ID
mkdir -p $OUT
cp -r $WT/seed_out/* $OUT/ 2>/dev/null
export CARGO_TARGET_DIR=$WT/target CARGO_NET_OFFLINE=true
cd $WT || exit 2
git diff -- src > $OUT/patch.diff
echo "== changed tree: build + tests"
cargo build --offline 2>&1 | tail -1
T=$(cargo test --workspace --no-fail-fast --offline 2>&1 | grep "test result" | head -1); echo "$T"
bash $OUT/demo.sh $WT/target/debug/customasm >/dev/null 2>&1; DC=$?; echo "demo on changed tree: exit $DC (expect 1)"
git apply -R $OUT/patch.diff || { echo "cannot revert patch in worktree"; exit 2; }
cargo build --offline 2>&1 | tail -1
bash $OUT/demo.sh $WT/target/debug/customasm >/dev/null 2>&1; DU=$?; echo "demo on unchanged tree: exit $DU (expect 0)"
git apply $OUT/patch.diff
echo "== checks on /repo with the patch applied"
cd /repo && git apply $OUT/patch.diff || { echo "patch does not apply to /repo"; exit 2; }
RES=""
for p in $PROPS; do
  cd /verif && ./check $p > $OUT/check_$p.log 2>&1; rc=$?
  echo "check $p -> exit $rc"; grep "VIOLATION\|UNDECIDED\|obligation failed" $OUT/check_$p.log | head -8
  RES="$RES $p:$rc"
done
cd /repo && git checkout -- . && git status --short | head -3
cd /verif && git checkout -- evidence 2>/dev/null
echo "tests=[$T] demo_changed=$DC demo_unchanged=$DU checks=[$RES]" > $OUT/eval_summary.txt
cat $OUT/eval_summary.txt
