"""Hand-made mutants of the command-line driver (src/driver.rs), run against U-command / U-define on a scratch copy."""
import subprocess, shutil, os
MUTS = {
 # (unit, old, new)
 "D43 fix reverted: derived name may be a later input": ("U-command", "if command.input_filenames.contains(&derived_filename)", "if false && command.input_filenames.contains(&derived_filename)"),
 "derived name from the LAST input": ("U-command", "&command.input_filenames[0])?;", "&command.input_filenames[command.input_filenames.len() - 1])?;"),
 "default format binary even when printing": ("U-command", "group.format = Some(OutputFormat::Annotated {\n\t\t\t\t\tbase: 16,\n\t\t\t\t\tgroup: 2,\n\t\t\t\t});", "group.format = Some(OutputFormat::Binary);"),
 "annotated default group 4": ("U-command", "base: 16,\n\t\t\t\t\tgroup: 2,\n\t\t\t\t});\n\t\t\t}\n\t\t\telse", "base: 16,\n\t\t\t\t\tgroup: 4,\n\t\t\t\t});\n\t\t\t}\n\t\t\telse"),
 "quiet only from the last group": ("U-command", "command.quiet |= parsed.opt_present(\"q\");", "command.quiet = parsed.opt_present(\"q\");"),
 "help flag reads -v": ("U-command", "command.show_help |= parsed.opt_present(\"h\");", "command.show_help |= parsed.opt_present(\"v\");"),
 "--iters=0 accepted": ("U-command", "Err(_) | Ok(0) =>", "Err(_) =>"),
 "--color=off turns colours on": ("U-command", "Some(\"off\") => false,", "Some(\"off\") => true,"),
 "print flag leaks into the next group": ("U-command", "let mut group = CommandOutput {\n\t\t\tformat: None,\n\t\t\toutput_filename: None,\n\t\t\tprintout: false,", "let mut group = CommandOutput {\n\t\t\tformat: None,\n\t\t\toutput_filename: None,\n\t\t\tprintout: command.output_groups.len() > 0 && command.output_groups[command.output_groups.len() - 1].printout,"),
 "derive when printing too": ("U-command", "if !group.printout &&\n\t\t\tgroup.output_filename.is_none() &&", "if group.output_filename.is_none() &&"),
 "no-optimize-static clears the matcher switch": ("U-command", "command.opts.optimize_instruction_matching &=\n\t\t\t!parsed.opt_present(\"debug-no-optimize-matcher\");", "command.opts.optimize_instruction_matching &=\n\t\t\t!parsed.opt_present(\"debug-no-optimize-static\");"),
 "harmless: blank lines": ("U-command", "\t\tcommand.output_groups.push(group);\n", "\n\t\tcommand.output_groups.push(group);\n"),
 "define: bare name defines false": ("U-define", "name,\n\t\t\tvalue: expr::Value::make_bool(true),", "name,\n\t\t\tvalue: expr::Value::make_bool(false),"),
 "define: sign dropped": ("U-define", "if has_negative_sign { value.neg() } else { value }", "if has_negative_sign { value } else { value }"),
 "define: extra = tolerated": ("U-define", "if split.len() != 2", "if split.len() < 2"),
 "define: `false` defines true": ("U-define", "else if value_str == \"false\"\n\t\t{\n\t\t\texpr::Value::make_bool(false)", "else if value_str == \"false\"\n\t\t{\n\t\t\texpr::Value::make_bool(true)"),
 "define: name is the value part": ("U-define", "let name = split[0].to_string();", "let name = split[split.len() - 1].to_string();"),
 "derive: symbols get .bin": ("U-define", "OutputFormat::SymbolsMesenMlb => \"mlb\",", "OutputFormat::SymbolsMesenMlb => \"mlb\",\n\t\t\tOutputFormat::Symbols => \"bin\","),
 "derive: same name accepted": ("U-define", "if output_filename == input_filename\n\t{", "if false && output_filename == input_filename\n\t{"),
}
for name, (unit, old, new) in MUTS.items():
    shutil.rmtree("/tmp/mut", ignore_errors=True)
    subprocess.run(["rsync", "-a", "--exclude", "target", "--exclude", ".git", "/repo/", "/tmp/mut/"], check=True)
    p = "/tmp/mut/src/driver.rs"; s = open(p).read()
    if s.count(old) != 1: print(name, "ANCHOR", s.count(old)); continue
    open(p, "w").write(s.replace(old, new))
    r = subprocess.run(["./check", "--unit", unit], cwd="/verif", env=dict(os.environ, VERIF_REPO="/tmp/mut"), capture_output=True, text=True)
    l = [x for x in r.stdout.split("\n") if x.startswith("FAILED") or x.startswith("UNDEC")]
    print("%-50s -> %s" % (name, l[0][:150] if l else "verified"))
shutil.rmtree("/tmp/mut", ignore_errors=True)
