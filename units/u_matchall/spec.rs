        // ---- matcher::match_all (C02/C08: when is an instruction frozen after the first pass)
        /// R29 helpers; the closures are passed unchanged
        #[verifier::external_body]
        pub fn verif_all_known<F: Fn(&asm::InstructionMatch) -> bool>(v: &Vec<asm::InstructionMatch>, f: F) -> (r: bool)
            requires forall|m: &asm::InstructionMatch, b: bool| call_ensures(f, (m,), b) ==> b == m.encoding_statically_known
            ensures r == (forall|i: int| 0 <= i < v@.len() ==> (#[trigger] v@[i]).encoding_statically_known)
        { unimplemented!() }
        #[verifier::external_body]
        pub fn verif_any_known<F: Fn(&asm::InstructionMatch) -> bool>(v: &Vec<asm::InstructionMatch>, f: F) -> (r: bool)
            requires forall|m: &asm::InstructionMatch, b: bool| call_ensures(f, (m,), b) ==> b == m.encoding_statically_known
            ensures r == (exists|i: int| 0 <= i < v@.len() && (#[trigger] v@[i]).encoding_statically_known)
        { unimplemented!() }
        #[verifier::external_body]
        pub fn verif_max_by_size<'a, F: FnMut(&&'a asm::InstructionMatch) -> usize>(v: &'a Vec<asm::InstructionMatch>, f: F) -> (r: Option<&'a asm::InstructionMatch>)
            requires forall|m: &&asm::InstructionMatch, n: usize| call_ensures(f, (m,), n) ==> n == m.encoding_size
            ensures
                (r is None) == (v@.len() == 0),
                r is Some ==> (exists|i: int| 0 <= i < v@.len() && *r->0 == #[trigger] v@[i]) && (forall|i: int| 0 <= i < v@.len() ==> (#[trigger] v@[i]).encoding_size <= r->0.encoding_size),
        { unimplemented!() }
        /// what match_all stores for one instruction: frozen only if every match is statically known, sized by the
        /// largest statically known match size
        pub open spec fn instr_summary_ok(i: asm::Instruction) -> bool {
            &&& i.matches@.len() >= 1
            &&& i.encoding_statically_known == (forall|k: int| 0 <= k < i.matches@.len() ==> (#[trigger] i.matches@[k]).encoding_statically_known)
            &&& i.encoding.size is Some
            &&& (forall|k: int| 0 <= k < i.matches@.len() ==> (#[trigger] i.matches@[k]).encoding_size <= i.encoding.size->0)
            &&& (exists|k: int| 0 <= k < i.matches@.len() && (#[trigger] i.matches@[k]).encoding_size == i.encoding.size->0)
            &&& i.encoding.val() == 0
        }
