from vfw.spec import Unit, Fn, Type, Impl, C, Loop, Rewrite, Insert
from units.u_resolver import unit as ur
from units.u_symbols import unit as us
from units import contracts_bigint as cb
from units.u_evalvar import unit as uev
from units.u_collect import unit as uco

FM = "src/asm/matcher/mod.rs"
WHY29 = "iterator adapter -> prelude wrapper taking the closure unchanged; assumed: what the std adapter computes from a closure that meets the stated requirement"
CL = r"(\|\w+\| (?:[^()]|\((?:[^()]|\([^()]*\))*\))*?)"

error_on_no_matches = Fn(FM, "error_on_no_matches", slot="asm", ret="res", key="matcher::error_on_no_matches", props=["C03"],
    ensures=ur.LOUD + [C("err_iff_no_match", "res is Err <==> matches@.len() == 0", ["C03"]),
                       C("a_toplevel_error", "res is Err && old(report).parents() == 0 ==> final(report).errors() == old(report).errors() + 1", ["C03"])])
match_instr = Fn(FM, "match_instr", slot="asm", mode="stub", ret="res", key="matcher::match_instr", ensures=[])
known = Fn(FM, "get_match_statically_known", slot="asm", mode="stub", ret="res", key="matcher::get_match_statically_known", ensures=[])
static_size = Fn(FM, "get_match_static_size", slot="asm", mode="stub", ret="res", key="matcher::get_match_static_size", ensures=[])

INSTR_OK = "(match #[trigger] ast.nodes@[j] { asm::AstAny::Instruction(n) => n.item_ref is Some && (n.item_ref->0).0 < %s.instructions.defs@.len() && %s.instructions.defs@[(n.item_ref->0).0 as int] is Some, asm::AstAny::Symbol(s) => s.item_ref is Some && (s.item_ref->0).0 < decls.symbols.decls@.len(), _ => true })"
match_all = Fn(FM, "match_all", slot="asm", ret="res", key="matcher::match_all", props=["C02", "C08", "C03"],
    requires=[C("fresh_report_context", "old(report).parents() == 0 && old(report).errors() == 0", ["C03"]),
              C("nodes_refer_to_defined_items", "forall|j: int| 0 <= j < ast.nodes@.len() ==> " + INSTR_OK % ("old(defs)", "old(defs)"), ["C03"]),
              C("distinct_instruction_refs", "forall|i: int, j: int| 0 <= i < j < ast.nodes@.len() ==> (match (#[trigger] ast.nodes@[i], #[trigger] ast.nodes@[j]) { (asm::AstAny::Instruction(a), asm::AstAny::Instruction(b)) => a.item_ref != b.item_ref, _ => true })", ["C03"])],
    ensures=[
        C("err_is_loud", "res is Err ==> final(report).msgs() > old(report).msgs()", ["C03"]),
        C("parents_balanced", "final(report).parents() == old(report).parents()", ["C03"]),
        C("frozen_only_if_every_match_is_static_and_sized_by_the_largest", "res is Ok ==> forall|j: int| 0 <= j < ast.nodes@.len() ==> (match #[trigger] ast.nodes@[j] {"
          " asm::AstAny::Instruction(n) => instr_summary_ok(final(defs).instructions.defs@[(n.item_ref->0).0 as int]->0), _ => true })", ["C02", "C08"]),
        C("only_instructions_change", "final(defs).symbols == old(defs).symbols && final(defs).bankdefs == old(defs).bankdefs && final(defs).instructions.defs@.len() == old(defs).instructions.defs@.len()", ["C02"]),
    ],
    rewrites=[
        Rewrite(r"println!\((?:[^()]|\((?:[^()]|\((?:[^()]|\([^()]*\))*\))*\))*\);", "", regex=True, rule="R7", why="debug printing statement deleted", count=1),
        Rewrite(r"instr\.matches\.iter\(\)\s*\.(all|any)\(" + CL + r"\)", r"verif_\1_known(&instr.matches, \2)", regex=True, rule="R29", why=WHY29 + " (`all` and `any` each have their wrapper, so swapping the adapter is decided, not lost)"),
        Rewrite(r"instr\.matches\s*\.iter\(\)\s*\.max_by_key\(" + CL + r"\)", r"verif_max_by_size(&instr.matches, \1)", regex=True, rule="R29", why=WHY29),
    ],
    closures={1: ("|m: &asm::InstructionMatch| -> (r: bool)\n            ensures r == m.encoding_statically_known\n       ", ""),
              2: ("|m: &&asm::InstructionMatch| -> (r: usize)\n            ensures r == m.encoding_size\n       ", "")},
    inserts=[Insert("                continue;", "                proof { had_no_match = true; }\n", where="before")],
    for_to_while=[1, 2],
    loops={
        1: Loop(invariant=[
            C("cursor", "verif_vec_1@ == ast.nodes@ && verif_next_1 <= verif_vec_1@.len()"),
            C("report", "report.msgs() >= old(report).msgs() && report.parents() == 0"),
            C("loud_once_an_instruction_had_no_match", "(had_no_match ==> report.msgs() > old(report).msgs() && report.errors() > 0) && (!had_no_match ==> report.errors() == 0)"),
            C("frame", "defs.symbols == old(defs).symbols && defs.bankdefs == old(defs).bankdefs && defs.instructions.defs@.len() == old(defs).instructions.defs@.len()"),
            C("refs", "forall|j: int| 0 <= j < ast.nodes@.len() ==> " + INSTR_OK % ("defs", "defs")),
            C("summaries_so_far", "!had_no_match ==> forall|j: int| 0 <= j < verif_next_1 ==> (match #[trigger] ast.nodes@[j] {"
              " asm::AstAny::Instruction(n) => instr_summary_ok(defs.instructions.defs@[(n.item_ref->0).0 as int]->0), _ => true })"),
        ], decreases="verif_vec_1@.len() - verif_next_1",
           before="    let ghost mut had_no_match: bool = false;"),
        2: Loop(invariant=[C("len", "verif_next_2 <= matches@.len() && matches@.len() >= 1 && defs.symbols == old(defs).symbols && defs.bankdefs == old(defs).bankdefs && defs.instructions.defs@.len() == old(defs).instructions.defs@.len()")],
                decreases="matches@.len() - verif_next_2"),
    },
)

UNIT = Unit(
    "U-matchall", "u_matchall/skeleton.rs",
    items=ur.COMMON + uev.SYMS + [uco.new_global,
        Type(FM, "struct", "InstructionMatch", slot="asm"), Type(FM, "enum", "InstructionMatchResolution", slot="asm"),
        Type(FM, "struct", "InstructionArgument", slot="asm"), Type(FM, "enum", "InstructionArgumentKind", slot="asm"),
        error_on_no_matches, match_instr, known, static_size, match_all,
    ],
    serves=["C02", "C08", "C03"],
    description="asm::matcher::match_all: what is stored per instruction before the first pass",
)
