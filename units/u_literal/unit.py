from vfw.spec import Unit, Fn, Type, Impl, C, Loop, Rewrite, Insert
from units.contracts_report import report_fns
from units import contracts_bigint as cb

F = "src/syntax/excerpt.rs"
R16 = Rewrite("excerpt.chars().collect();", "verif_chars(excerpt);", rule="R16",
              why="`str::chars().collect()` (iterator adapter) -> prelude wrapper with the ASSUMED contract `result@ == excerpt@`")

parse_radix = Fn(F, "parse_radix", slot="syntax", ret="res", props=["C05", "C03"],
    requires=[C("in_range", "chars@.len() >= 1 && index == 0", ["C03"])],
    ensures=[C("radix_prefix_rule", "(res.0 as int, res.1 as int) == radix_of(chars@)", ["C05"]),
             C("radix_supported", "(res.0 == 2 || res.0 == 8 || res.0 == 10 || res.0 == 16) && res.1 <= chars@.len()", ["C05", "C03"])])

excerpt_as_usize = Fn(F, "excerpt_as_usize", slot="syntax", ret="res", props=["C05", "C19", "C03"],
    requires=[C("non_empty", "excerpt@.len() >= 1", ["C03"])],
    ensures=[
        C("value", "res is Ok ==> res->Ok_0 as int == lit_value(excerpt@, radix_of(excerpt@).1, excerpt@.len() as int, radix_of(excerpt@).0)"
                   " && all_digits(excerpt@, radix_of(excerpt@).1, excerpt@.len() as int, radix_of(excerpt@).0)", ["C05"]),
        C("err_is_loud", "res is Err ==> final(report).msgs() > old(report).msgs()", ["C03", "C19"]),
        C("ok_is_clean", "res is Ok ==> final(report).msgs() == old(report).msgs() && final(report).errors() == old(report).errors()", ["C03"]),
        C("rejects_only_bad_digits_or_overflow", "res is Err ==> !all_digits(excerpt@, radix_of(excerpt@).1, excerpt@.len() as int, radix_of(excerpt@).0)"
                   " || lit_value(excerpt@, radix_of(excerpt@).1, excerpt@.len() as int, radix_of(excerpt@).0) > usize::MAX", ["C05", "C19"]),
    ],
    rewrites=[R16],
    loops={1: Loop(invariant=[
        C("state", "chars@ == excerpt@ && radix_of(chars@) == (radix as int, start as int) && (radix == 2 || radix == 8 || radix == 10 || radix == 16) && start <= index <= chars@.len()"),
        C("value", "value as int == lit_value(chars@, start as int, index as int, radix as int) && all_digits(chars@, start as int, index as int, radix as int)"),
        C("clean", "report.msgs() == old(report).msgs() && report.errors() == old(report).errors()"),
    ], decreases="chars@.len() - index")},
    inserts=[
        Insert("\tlet mut value: usize = 0;", "\tlet ghost start = index;\n", where="before"),
        Insert("\t\t\t\treport.error_span(\n\t\t\t\t\t\"value is too large\",", "\t\t\t\tproof { lemma_lit_monotone(chars@, start as int, index as int, chars@.len() as int, radix as int); }\n", where="before", occ=1),
        Insert("\t\t\t\treport.error_span(\n\t\t\t\t\t\"value is too large\",", "\t\t\t\tproof { lemma_lit_monotone(chars@, start as int, index as int, chars@.len() as int, radix as int); }\n", where="before", occ=2),
        Insert("\t\tvalue = match value.checked_mul(radix)", "\t\tproof { broadcast use axiom_to_digit_range; lemma_lit_bounds(chars@, start as int, (index - 1) as int, radix as int); }\n", where="before"),
    ],
)

excerpt_as_bigint = Fn(F, "excerpt_as_bigint", slot="syntax", ret="res", props=["C05", "C03"],
    requires=[C("non_empty", "excerpt@.len() >= 1", ["C03"]), C("length_fits", "4 * excerpt@.len() <= usize::MAX", ["C19"])],
    ensures=[
        C("value", "res is Ok ==> res->Ok_0.val() == lit_value(excerpt@, radix_of(excerpt@).1, excerpt@.len() as int, radix_of(excerpt@).0)"
                   " && all_digits(excerpt@, radix_of(excerpt@).1, excerpt@.len() as int, radix_of(excerpt@).0)", ["C05"]),
        C("size_is_digits_times_bits_per_digit",
          "res is Ok ==> res->Ok_0.size == lit_size(radix_of(excerpt@).0, lit_digits(excerpt@, radix_of(excerpt@).1, excerpt@.len() as int))", ["C05"]),
        C("at_least_one_digit", "res is Ok ==> lit_digits(excerpt@, radix_of(excerpt@).1, excerpt@.len() as int) >= 1", ["C05"]),
        C("rejects_only_bad_digits_or_no_digit", "res is Err ==> !all_digits(excerpt@, radix_of(excerpt@).1, excerpt@.len() as int, radix_of(excerpt@).0)"
                   " || lit_digits(excerpt@, radix_of(excerpt@).1, excerpt@.len() as int) == 0", ["C05", "C16"]),
    ],
    rewrites=[R16],
    loops={1: Loop(invariant=[
        C("state", "chars@ == excerpt@ && radix_of(chars@) == (radix as int, start as int) && (radix == 2 || radix == 8 || radix == 10 || radix == 16) && start <= index <= chars@.len() && 4 * chars@.len() <= usize::MAX"),
        C("value", "value@ == lit_value(chars@, start as int, index as int, radix as int) && all_digits(chars@, start as int, index as int, radix as int) && digit_num as int == lit_digits(chars@, start as int, index as int)"),
    ], decreases="chars@.len() - index",
       body_start="\t\tproof { lemma_lit_bounds(chars@, start as int, index as int, radix as int); }")},
    inserts=[
        Insert("\tlet mut digit_num = 0;", "\tlet ghost start = index;\n", where="before"),
        Insert("\tif digit_num == 0", "\tproof { lemma_lit_bounds(chars@, start as int, chars@.len() as int, radix as int); }\n", where="before"),
        Insert("\tlet size = match radix_bits", "\tproof { if radix_bits is Some { let rb = radix_bits->0 as int; let dn = digit_num as int; let ln = chars@.len() as int; assert(rb * dn <= 4 * ln) by (nonlinear_arith) requires 0 <= rb <= 4, 0 <= dn <= ln; } }\n", where="before"),
    ],
)

UNIT = Unit(
    "U-literal", "u_literal/skeleton.rs",
    items=report_fns("stub", "diagn") + cb.items("stub", "util", only=["new"]) + [parse_radix, excerpt_as_usize, excerpt_as_bigint],
    serves=["C05", "C19", "C03"],
    description="syntax::excerpt: numeric literal parsing (radix prefixes, digit grouping, checked accumulation)",
)
