//@@INCLUDE _shared/header.rs
//@@INCLUDE _shared/ispec.rs
//@@INCLUDE _shared/num_bigint.rs
//@@INCLUDE _shared/diagn_opaque.rs
pub mod util {
    use vstd::prelude::*;
    use vstd::std_specs::convert::*;
    use vstd::std_specs::ops::*;
    use crate::*;
    use crate::ispec::*;
    verus! {
    broadcast use {crate::num_bigint::axiom_into_refl_obeys, crate::num_bigint::axiom_into_refl};
    //@@INCLUDE _shared/util_bigint_spec_min.rs
    //@@ITEMS util
    }
}
pub mod syntax {
    use vstd::prelude::*;
    use vstd::std_specs::convert::*;
    use vstd::std_specs::ops::*;
    use crate::*;
    use crate::ispec::*;
    verus! {
    broadcast use {crate::num_bigint::axiom_into_refl_obeys, crate::num_bigint::axiom_into_refl};

    /// std gap (ASSUMED): char::to_digit is a function of (char, radix) yielding a digit below the radix
    pub uninterp spec fn spec_to_digit(c: char, radix: u32) -> Option<u32>;
    pub broadcast axiom fn axiom_to_digit_range(c: char, radix: u32)
        ensures (#[trigger] spec_to_digit(c, radix)) is Some ==> spec_to_digit(c, radix)->0 < radix;
    pub assume_specification[ char::to_digit ](c: char, radix: u32) -> (r: Option<u32>)
        requires 2 <= radix <= 36
        ensures r == spec_to_digit(c, radix);

    /// R16 helper: stands for `excerpt.chars().collect()` (iterator adapters are outside Verus' subset).
    /// ASSUMED contract: the vector holds the characters of the string, in order.
    #[verifier::external_body]
    pub fn verif_chars(excerpt: &str) -> (r: Vec<char>)
        ensures r@ == excerpt@
    { unimplemented!() }

    //@@INCLUDE _shared/literal_spec.rs
    //@@ITEMS syntax
    }
}
