from vfw.spec import Unit, Fn, Type, Impl, C, Loop, Rewrite, Insert
from units.u_resolver import unit as ur
from units import contracts_bigint as cb
from units.u_constrain import unit as uc

FA = ur.FA
QLOUD = [C("err_is_loud", "res is Err ==> final(query).report.msgs() > old(query).report.msgs()"),
         C("ok_is_clean", "res is Ok ==> final(query).report.msgs() == old(query).report.msgs()"),
         C("parents_balanced", "final(query).report.parents() == old(query).report.parents()")]
parse_subst = Fn(FA, "parse_substitutions", slot="resolver", mode="stub", ret="res", key="parse_substitutions", ensures=ur.LOUD)
perform_subst = Fn(FA, "perform_substitutions", slot="resolver", mode="stub", ret="res", key="perform_substitutions",
    ensures=[C("err_is_loud", "res is Err ==> final(info).report.msgs() > old(info).report.msgs()"),
             C("ok_is_clean", "res is Ok ==> final(info).report.msgs() == old(info).report.msgs() && final(info).report.errors() == old(info).report.errors()"),
             C("parents_balanced", "final(info).report.parents() == old(info).report.parents()"),
             C("query_kept", "final(info).ast == old(info).ast && final(info).span == old(info).span")])

resolve_once = Fn(FA, "resolve_once", slot="resolver", ret="res", key="eval_asm::resolve_once", props=["C17", "C09", "C02", "C03", "C19"], gen_name="asm_resolve_once",
    sig_rewrites=[Rewrite("fn resolve_once(", "fn asm_resolve_once(", rule="R6", why="renamed: two functions called resolve_once live in one flattened module")],
    requires=[C("bank_defined", "bank_ok(defs, ctx.bank_ref) && bank_of(defs, ctx.bank_ref).addr_unit > 0", ["C03"])],
    # the clauses eval_asm::resolve_iteratively relies on are the stub's own clause objects (minus the ghost event)
    ensures=[c for c in ur.asm_resolve_once_stub.ensures if not getattr(c, "stub_only", False)] + [
        C("parents_balanced", "final(query).report.parents() == old(query).report.parents()", ["C03"]),
        C("a_stable_pass_moved_no_label", "res is Ok && !res->Ok_0.unstable ==> labels_unmoved(old(labels), final(labels))", ["C17", "C09", "C02"]),
    ],
    rewrites=[
        Rewrite("labels.get(&ast_symbol.name)", "verif_label_get(labels, &ast_symbol.name)", rule="R8", why="HashMap<String,_>::get -> prelude wrapper (uninterpreted lookup model)"),
        Rewrite(r"labels\.insert\(\s*ast_symbol\.name\.clone\(\),\s*new_value\);", "verif_label_insert(labels, ast_symbol.name.clone(), new_value);", regex=True, rule="R8", why="HashMap<String,_>::insert -> prelude wrapper (uninterpreted lookup model)"),
        Rewrite("prev_value != &new_value", "*prev_value != new_value", rule="R3", why="`!=` on two references -> the same comparison on the referents (operator on reference operands)"),
        Rewrite("for (label_name, label_value) in labels.iter()", "for (label_name, label_value) in verif_label_entries(labels)", rule="R31", why="HashMap::iter() (no Verus support) -> the vector of its entries, order unspecified"),
        Rewrite("asm::resolver::instruction::resolve_encoding(", "resolve_encoding(", rule="R6", why="module path"),
    ],
    inserts=[Insert("                cur_position += size;", "\n                let ghost enc = *encodings@[0].1;\n                proof { pieces = old_pieces.push(enc); }\n", where="after", why="ghost bookkeeping: one more piece (the obligation is the loop invariant)"),
             Insert("                cur_position += size;", "                proof { assume(cur_position + size <= usize::MAX); }\n", where="before", finding="D9a",
                    why="finding guard D9a: the position inside an asm block is advanced without an overflow check")],
    for_to_while=[1],
    loops={1: Loop(invariant=[
        C("kept", "query.report.msgs() == old(query).report.msgs() && query.report.parents() == old(query).report.parents() && query.ast == old(query).ast && query.span == old(query).span"),
        C("cursor", "verif_vec_1@ == old(query).ast.nodes@ && verif_next_1 <= verif_vec_1@.len() && bank_ok(defs, ctx.bank_ref) && bank_of(defs, ctx.bank_ref).addr_unit > 0 && result.size is Some && result.size->0 + position_at_start == cur_position"),
        C("stable_so_far_means_no_label_moved", "!unstable ==> labels_unmoved(old(labels), labels)"),
        C("the_value_so_far_is_the_encodings_resolved_so_far_joined_in_order", "0 <= result.val() < pow2(result.size->0 as nat) && result.size->0 == joined_size(pieces) && (forall|j: nat| bit_of(result.val(), j) == joined_bit(pieces, j as int))", ["C17", "C01"]),
    ], decreases="verif_vec_1@.len() - verif_next_1",
       body_start=" let ghost old_val = result.val(); let ghost ls = result.size->0 as nat; let ghost old_pieces = pieces;",
       body_end=" proof { if pieces.len() != old_pieces.len() { let enc = pieces[pieces.len() - 1]; let size = enc.size->0; assert(pieces.subrange(0, pieces.len() - 1) =~= old_pieces); assert forall|j: nat| bit_of(result.val(), j) == joined_bit(pieces, j as int) by { if j < size { assert(bit_of(result.val(), j) == bit_of(enc.val(), (0 + j) as nat)); assert(joined_bit(pieces, j as int) == bit_of(enc.val(), j)); } else { let i = (j - size) as nat; assert(joined_bit(pieces, j as int) == joined_bit(old_pieces, j - size)); assert(bit_of(old_val, i) == joined_bit(old_pieces, i as int)); assert(bit_of(result.val(), j) == (j < ls + size && bit_of(old_val, (0 + j - (size - 0)) as nat))); if i >= ls { lemma_bit_of_small(old_val, ls, i); } } } } }",
       before="    let ghost mut pieces: Seq<util::BigInt> = Seq::empty();\n    proof { vstd::arithmetic::power2::lemma2_to64(); assert forall|j: nat| !bit_of(0, j) by { lemma_bit_of_zero(j); } }")},
)

depth_stub = Fn("src/expr/eval.rs", "check_recursion_depth_limit", impl="EvalContext", slot="expr", mode="stub", ret="res", key="EvalContext::check_recursion_depth_limit",
    ensures=[C("err_is_loud", "res is Err ==> final(report).msgs() > old(report).msgs()"), C("ok_is_clean", "res is Ok ==> final(report).msgs() == old(report).msgs()"),
             C("parents_kept", "final(report).parents() == old(report).parents()")])
any_span = Fn("src/asm/parser/mod.rs", "span", impl="AstAny", slot="asm", mode="stub", ret="res", key="AstAny::span", ensures=[])
iter_stub = ur.asm_resolve_iteratively.as_stub("resolver")
NODE_KIND = "(match #[trigger] old(query).ast.nodes@[j] { asm::AstAny::Symbol(s) => s.kind is Label && s.hierarchy_level == 0, asm::AstAny::Instruction(_) => true, _ => false })"
eval_asm = Fn(FA, "eval_asm", slot="resolver", ret="res", key="eval_asm::eval_asm", props=["C17", "C03"],
    ensures=[
        C("err_is_loud", "res is Err ==> final(query).report.msgs() > old(query).report.msgs()", ["C03"]),
        C("only_top_level_labels_and_instructions", "res is Ok ==> forall|j: int| 0 <= j < old(query).ast.nodes@.len() ==> " + NODE_KIND, ["C17"]),
        C("laid_out_from_the_current_position_of_the_bank", "res is Ok && !(res->Ok_0 is Unknown) ==> asm_strict_start(final(query).report) == ctx.bank_data.cur_position", ["C17"]),
    ],
    rewrites=[
        Rewrite("let mut labels = std::collections::HashMap::<String, expr::Value>::new();", "let mut labels = verif_label_new();", rule="R8", why="HashMap::new -> prelude wrapper (empty table in the lookup model)"),
        Rewrite(r"labels\.insert\(\s*ast_symbol\.name\.clone\(\),\s*expr::Value::Unknown\);", "verif_label_insert(&mut labels, ast_symbol.name.clone(), expr::Value::Unknown);", regex=True, rule="R8", why="HashMap<String,_>::insert -> prelude wrapper"),
        Rewrite("    resolve_iteratively(\n", "    asm_resolve_iteratively(\n", rule="R6", why="renamed callee (two functions called resolve_iteratively live in one flattened module)"),
    ],
    for_to_while=[1],
    loops={1: Loop(invariant=[
        C("kept", "query.report.msgs() == old(query).report.msgs() && query.report.parents() == old(query).report.parents() && query.ast == old(query).ast && query.span == old(query).span"),
        C("cursor", "verif_vec_1@ == old(query).ast.nodes@ && verif_next_1 <= verif_vec_1@.len()"),
        C("kinds_so_far", "forall|j: int| 0 <= j < verif_next_1 ==> " + NODE_KIND),
    ], decreases="verif_vec_1@.len() - verif_next_1")},
)

UNIT = Unit(
    "U-asmblock", "u_asmblock/skeleton.rs",
    items=ur.COMMON + [ur.asm_query_type, ur.asm_result_type, Type(FA, "struct", "AsmSubstitution", slot="resolver"),
        ur.can_guess.as_stub("resolver"), ur.eval_address.as_stub("resolver"), ur.resolve_encoding_stub,
        [f for f in cb.ALL_FNS if f.name == "concat"][0].as_stub("util"), [f for f in cb.ALL_FNS if f.name == "checked_shl"][0].as_stub("util")] + cb.op_impl_stubs("util") + [ uc.make_integer.as_stub("expr"),
        parse_subst, perform_subst, resolve_once, depth_stub, any_span, iter_stub, ur.get_output_position.as_stub("resolver"), ur.get_address.as_stub("resolver"), eval_asm],
    serves=["C17", "C09", "C02", "C03"],
    description="asm::resolver::eval_asm::resolve_once: one pass over an asm block",
)
