//@@INCLUDE _shared/header.rs
//@@INCLUDE _shared/ispec.rs
//@@INCLUDE _shared/num_bigint.rs
//@@INCLUDE _shared/std_gaps.rs
pub mod diagn {
    use vstd::prelude::*;
    use crate::*;
    verus! {
    /// Opaque stand-in for diagn::Report. Ghost observations:
    ///   msgs()    = messages.len()  (what has_errors()/assemble()'s assert look at)
    ///   errors()  = number of top-level messages of kind Error (what stop_at_errors looks at)
    ///   parents() = parents.len()   (pop_parent unwraps it)
    #[verifier::external_body]
    pub struct Report { _p: u8 }
    impl Report {
        pub uninterp spec fn msgs(&self) -> nat;
        pub uninterp spec fn errors(&self) -> nat;
        pub uninterp spec fn parents(&self) -> nat;
    }
    #[verifier::external_body]
    pub struct Message { _p: u8 }
    /// the message is of kind Error (defined over the real field in U-report)
    pub uninterp spec fn msg_is_error(m: Message) -> bool;
    impl Clone for Message {
        #[verifier::external_body]
        fn clone(&self) -> (r: Message) ensures r == *self { unimplemented!() }
    }
    #[verifier::external_body]
    #[derive(Clone, Copy)]
    pub struct Span { _p: u8 }
    //@@ITEMS diagn
    }
}
pub mod util {
    use vstd::prelude::*;
    use vstd::std_specs::convert::*;
    use vstd::std_specs::ops::*;
    use vstd::std_specs::cmp::*;
    use crate::*;
    use crate::ispec::*;
    use vstd::arithmetic::power2::pow2;
    verus! {
    broadcast use {crate::num_bigint::axiom_into_refl_obeys, crate::num_bigint::axiom_into_refl, crate::std_gaps::axiom_ordering_eq_obeys, crate::std_gaps::axiom_ordering_eq};
    pub trait FileServer {}
    pub type FileServerHandle = usize;
    #[verifier::external_body]
    pub struct SymbolContext { _p: u8 }
    //@@INCLUDE _shared/util_bigint_spec.rs
    //@@INCLUDE _shared/util_bigint_cmp.rs
    //@@ITEMS util
    }
}
pub mod expr {
    use vstd::prelude::*;
    use vstd::std_specs::convert::*;
    use vstd::std_specs::cmp::*;
    use crate::*;
    use crate::ispec::*;
    verus! {
    #[verifier::external_body]
    pub struct Expr { _p: u8 }
    #[verifier::external_body]
    pub struct EvalContext { _p: u8 }
    impl Expr {
        #[verifier::external_body]
        pub fn span(&self) -> diagn::Span { unimplemented!() }
    }
    impl EvalContext {
        #[verifier::external_body]
        pub fn new() -> EvalContext { unimplemented!() }
        #[verifier::external_body]
        pub fn hygienize_locals_for_asm_subst(&self) -> EvalContext { unimplemented!() }
        #[verifier::external_body]
        pub fn set_local<S: Into<String>>(&mut self, name: S, value: Value) { unimplemented!() }
    }
    //@@INCLUDE _shared/value_eq.rs
    //@@ITEMS expr
    }
}
pub mod asm {
    use vstd::prelude::*;
    use crate::*;
    pub use resolver::{ResolutionState, ResolveIterator, ResolverContext, ResolverNode, BankData};
    #[allow(unused_imports)]
    use resolver::*;
    verus! {
    #[verifier::external_body]
    pub struct Ruledef { _p: u8 }
    #[verifier::external_body]
    pub struct RuledefMap { _p: u8 }
    #[verifier::external_body]
    pub struct Function { _p: u8 }
    #[verifier::external_body]
    pub struct InstructionMatch { _p: u8 }
    pub type InstructionMatches = Vec<InstructionMatch>;
    impl<'iter, 'ast, 'decls> Clone for ResolverContext<'iter, 'ast, 'decls> {
        #[verifier::external_body]
        fn clone(&self) -> (r: Self) ensures r == *self { unimplemented!() }
    }
    pub mod matcher {
        use vstd::prelude::*;
        use crate::*;
        verus! {
        #[verifier::external_body]
        pub fn match_instr(opts: &asm::AssemblyOptions, defs: &asm::ItemDefs, span: diagn::Span, src: &str) -> asm::InstructionMatches { unimplemented!() }
        /// ASSUMED (a length test and one error): fails loudly
        #[verifier::external_body]
        pub fn error_on_no_matches(report: &mut diagn::Report, span: diagn::Span, matches: &asm::InstructionMatches) -> (res: Result<(), ()>)
            ensures
                res is Err ==> final(report).msgs() > old(report).msgs(),
                res is Ok ==> final(report).msgs() == old(report).msgs() && final(report).errors() == old(report).errors(),
                final(report).parents() == old(report).parents(),
        { unimplemented!() }
        }
    }
    #[verifier::external_body]
    pub struct ItemDecls { _p: u8 }
    //@@ITEMS asm
    }
    pub mod resolver {
        use vstd::prelude::*;
        use vstd::std_specs::convert::*;
        use crate::*;
        use crate::ispec::*;
        use vstd::arithmetic::power2::pow2;
        verus! {
        broadcast use {crate::num_bigint::axiom_into_refl_obeys, crate::num_bigint::axiom_into_refl, crate::util::axiom_bigint_into_refl_obeys, crate::util::axiom_bigint_into_refl, crate::std_gaps::axiom_vec_len_fits};
        //@@INCLUDE u_resolver/spec.rs
        //@@INCLUDE u_resolver/ifs_spec.rs
        //@@INCLUDE u_asmblock/spec.rs
        //@@ITEMS resolver
        }
    }
}
