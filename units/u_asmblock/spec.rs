        // ---- one pass over an asm block (C17 / C09): when may the pass call itself stable
        /// the value stored under a label name (HashMap<String, Value>; uninterpreted lookup model)
        pub uninterp spec fn label_lookup(m: &std::collections::HashMap<String, expr::Value>, key: Seq<char>) -> Option<expr::Value>;
        /// R8 helpers for the label table
        #[verifier::external_body]
        pub fn verif_label_get<'a>(m: &'a std::collections::HashMap<String, expr::Value>, key: &String) -> (r: Option<&'a expr::Value>)
            ensures (match r { Some(v) => label_lookup(m, key@) == Some(*v), None => label_lookup(m, key@) is None })
        { unimplemented!() }
        #[verifier::external_body]
        pub fn verif_label_insert(m: &mut std::collections::HashMap<String, expr::Value>, key: String, value: expr::Value)
            ensures forall|k: Seq<char>| #[trigger] label_lookup(final(m), k) == (if k == key@ { Some(value) } else { label_lookup(old(m), k) })
        { unimplemented!() }
        #[verifier::external_body]
        pub fn verif_label_new() -> (r: std::collections::HashMap<String, expr::Value>)
            ensures forall|k: Seq<char>| (#[trigger] label_lookup(&r, k)) is None
        { unimplemented!() }
        /// R31 helper: `MAP.iter()` as a vector of its entries (order left unspecified)
        #[verifier::external_body]
        pub fn verif_label_entries<'a>(m: &'a std::collections::HashMap<String, expr::Value>) -> Vec<(&'a String, &'a expr::Value)>
        { unimplemented!() }
        /// no label that had a value before has a different one now
        pub open spec fn labels_unmoved(before: &std::collections::HashMap<String, expr::Value>, now: &std::collections::HashMap<String, expr::Value>) -> bool {
            forall|k: Seq<char>| (#[trigger] label_lookup(before, k)) is Some ==> label_lookup(now, k) is Some && (label_lookup(now, k) == label_lookup(before, k) || expr::value_eq(label_lookup(now, k)->0, label_lookup(before, k)->0))
        }
        // ---- the value of a block (C17): the encodings of its instructions joined in order, the first one on top
        pub open spec fn joined_size(p: Seq<util::BigInt>) -> int decreases p.len() {
            if p.len() == 0 { 0 } else { joined_size(p.subrange(0, p.len() - 1)) + (p[p.len() - 1].size->0) as int }
        }
        /// bit j of the pieces joined: the last piece occupies the lowest bits
        pub open spec fn joined_bit(p: Seq<util::BigInt>, j: int) -> bool decreases p.len() {
            if p.len() == 0 || j < 0 { false } else {
                let last = p[p.len() - 1];
                if j < (last.size->0) as int { bit_of(last.val(), j as nat) } else { joined_bit(p.subrange(0, p.len() - 1), j - (last.size->0) as int) }
            }
        }
