//@@INCLUDE _shared/header.rs
pub mod util {
    use vstd::prelude::*;
    verus! {
    pub type FileServerHandle = usize;
    }
}
pub mod diagn {
    use vstd::prelude::*;
    use crate::*;
    verus! {
    #[verifier::external_body]
    pub struct Report { _p: u8 }
    impl Report {
        pub uninterp spec fn msgs(&self) -> nat;
    }
    impl Clone for Span {
        #[verifier::external_body]
        fn clone(&self) -> (r: Span) ensures r == *self { unimplemented!() }
    }
    impl Copy for Span {}
    impl Span {
        pub open spec fn is_dummy(&self) -> bool { self.location.0 == usize::MAX }
    }
    //@@ITEMS diagn
    }
}
pub mod expr {
    use vstd::prelude::*;
    use crate::*;
    verus! {
    /// the last diagnostic's span (ghost observation recorded by Report::error_span's stub contract; same name as in U-parser)
    pub uninterp spec fn err_span(r: &diagn::Report) -> diagn::Span;
    }
}
pub mod syntax {
    use vstd::prelude::*;
    use vstd::std_specs::cmp::*;
    use crate::*;
    verus! {
    // ---- the text as the walker sees it: bytes with character boundaries (str slicing and `chars()` are outside
    // Verus' reach; `char_at` and `token_at` are the two functions that touch them and are ASSUMED stubs)
    /// byte index i is the first byte of a character of the text (or its length)
    pub uninterp spec fn boundary(src: &str, i: int) -> bool;
    /// the character that starts at byte index i
    pub uninterp spec fn char_from(src: &str, i: int) -> char;
    /// kind and byte length of the token the tokenizer (decide_next_token) cuts at byte index i of the text below `limit`
    pub uninterp spec fn kind_at(src: &str, limit: int, i: int) -> TokenKind;
    pub uninterp spec fn len_at(src: &str, limit: int, i: int) -> int;
    /// char::eq_ignore_ascii_case as a relation (ASSUMED specification below)
    pub uninterp spec fn same_ignoring_ascii_case(a: char, b: char) -> bool;
    pub assume_specification[ char::eq_ignore_ascii_case ](a: &char, b: &char) -> (r: bool)
        ensures r == same_ignoring_ascii_case(*a, *b);
    /// derived PartialEq of TokenKind (ASSUMED to be what #[derive] generates: equal variants)
    impl PartialEqSpecImpl for TokenKind {
        open spec fn obeys_eq_spec() -> bool { true }
        open spec fn eq_spec(&self, other: &TokenKind) -> bool { *self == *other }
    }
    impl PartialEq for TokenKind {
        #[verifier::external_body]
        fn eq(&self, other: &TokenKind) -> (r: bool) { unimplemented!() }
    }
    impl Clone for Token {
        #[verifier::external_body]
        fn clone(&self) -> (r: Token) ensures r == *self { unimplemented!() }
    }
    pub mod token {
        use vstd::prelude::*;
        verus! {
        pub open spec fn is_ws(c: char) -> bool { c == ' ' || c == '\t' || c == '\r' }
        //@@ITEMS token
        }
    }
    //@@INCLUDE _shared/token_stream.rs
    //@@INCLUDE u_walker/spec.rs
    //@@ITEMS syntax
    }
}
