from vfw.spec import Unit, Fn, Type, Impl, C, Loop, Rewrite, Insert

FW = "src/syntax/walker.rs"
FT = "src/syntax/token.rs"
WI = "<'src> Walker<'src>"

char_at = Fn(FW, "char_at", impl=WI, impl_header=WI, slot="syntax", mode="stub", ret="res", key="Walker::char_at",
    requires=[C("on_a_character_boundary", "byte_index >= self.cursor_limit || boundary(self.src, byte_index as int)", ["C03"])],
    ensures=[C("the_character_there", "byte_index >= self.cursor_limit ==> res == '\\0'"),
             C("inside_the_text", "byte_index < self.cursor_limit && boundary(self.src, self.cursor_limit as int) ==> res == char_from(self.src, byte_index as int) && byte_index + res.len_utf8() <= self.cursor_limit && boundary(self.src, byte_index + res.len_utf8())")])
is_whitespace = Fn(FT, "is_whitespace", slot="token", ret="res", key="token::is_whitespace", props=["C07"],
    ensures=[C("blank_tab_cr", "res == is_ws(c)", ["C07"])])
lookahead = Fn(FW, "find_lookahead_char_index", impl=WI, impl_header=WI, slot="syntax", ret="res", key="Walker::find_lookahead_char_index", props=["C07", "C03"],
    requires=[C("well_formed", "self.wf()")],
    ensures=[C("first_position_outside_brackets_ignoring_case", "res == look(self.src, self.cursor_limit as int, wanted_char, self.cursor_index as int, false, 0, 0)", ["C07"]),
             C("inside_the_text_on_a_boundary", "res is Some ==> self.cursor_index <= res->0 < self.cursor_limit && boundary(self.src, res->0 as int)", ["C03"])],
    rewrites=[Rewrite("let mut paren_nesting = 0;", "let mut paren_nesting: usize = 0;", rule="R10", why="type ascription"),
              Rewrite("let mut brace_nesting = 0;", "let mut brace_nesting: usize = 0;", rule="R10", why="type ascription"),
              Rewrite("syntax::token::is_whitespace", "token::is_whitespace", count=None, rule="R6", why="module path")],
    loops={1: Loop(invariant=[
        C("scan", "self.wf() && self.cursor_index <= byte_index && (byte_index < self.cursor_limit ==> boundary(self.src, byte_index as int)) && paren_nesting <= byte_index && brace_nesting <= byte_index"),
        C("the_search_so_far", "look(self.src, self.cursor_limit as int, wanted_char, byte_index as int, seen_tokens, paren_nesting as int, brace_nesting as int) == look(self.src, self.cursor_limit as int, wanted_char, self.cursor_index as int, false, 0, 0)"),
    ], ensures=[C("nothing_found", "look(self.src, self.cursor_limit as int, wanted_char, self.cursor_index as int, false, 0, 0) is None")],
       decreases="self.cursor_limit - byte_index")},
)

from units import contracts_walker as cw
from units.u_charcount import unit as uc
from units.contracts_report import F as RF

LIM = "self.cursor_limit as int"
token_at = Fn(FW, "token_at", impl=WI, impl_header=WI, slot="syntax", mode="stub", ret="res", key="Walker::token_at",
    requires=[C("on_a_character_boundary", "byte_index >= self.cursor_limit || boundary(self.src, byte_index as int)", ["C03"]),
              C("positions_fit", "boundary(self.src, %s) && self.span_offset + self.cursor_limit <= usize::MAX" % LIM, ["C03"])],
    ensures=[C("the_token_there", "res == self.tok(byte_index as int)"),
             C("a_token_inside_the_text_has_at_least_one_byte_and_ends_on_a_boundary",
               "byte_index < self.cursor_limit ==> 1 <= len_at(self.src, %s, byte_index as int) && byte_index + len_at(self.src, %s, byte_index as int) <= self.cursor_limit && boundary(self.src, byte_index + len_at(self.src, %s, byte_index as int))" % (LIM, LIM, LIM))])
is_ignorable = Fn(FT, "is_ignorable", impl="TokenKind", slot="syntax", ret="res", key="TokenKind::is_ignorable", props=["C05"],
    ensures=[C("blank_comment_linebreak", "res == ignorable(self)", ["C05"])])
printable = Fn(FT, "printable", impl="TokenKind", slot="syntax", mode="stub", ret="res", key="TokenKind::printable")
r_error_span = Fn(RF, "error_span", impl="Report", slot="diagn", mode="stub", key="Report::error_span",
    ensures=[C("one_more_message_at_the_span", "final(self).msgs() == old(self).msgs() + 1 && crate::expr::err_span(final(self)) == span")])
NOT_DUMMY = "!span.is_dummy() && span.location.%d >= self.span_offset"
idx_start = Fn(FW, "get_index_at_span_start", impl=WI, impl_header=WI, slot="syntax", ret="res", key="Walker::get_index_at_span_start", props=["C13", "C03"],
    requires=[C("a_span_of_this_text", NOT_DUMMY % 0, ["C03"])], ensures=[C("index", "res == span.location.0 - self.span_offset", ["C13"])])
idx_end = Fn(FW, "get_index_at_span_end", impl=WI, impl_header=WI, slot="syntax", ret="res", key="Walker::get_index_at_span_end", props=["C13", "C03"],
    requires=[C("a_span_of_this_text", NOT_DUMMY % 1, ["C03"])], ensures=[C("index", "res == span.location.1 - self.span_offset", ["C13"])])
is_over = Fn(FW, "is_over", impl=WI, impl_header=WI, slot="syntax", ret="res", key="Walker::is_over", props=["C03"], ensures=[C("at_the_limit", "res == (self.cursor_index >= self.cursor_limit)")])
advance = Fn(FW, "advance_to_token_end", impl=WI, impl_header=WI, slot="syntax", key="Walker::advance_to_token_end", props=["C05", "C03"],
    requires=[C("a_token_of_this_text", "!token.span.is_dummy() && token.span.location.1 >= old(self).span_offset", ["C03"])],
    ensures=[C("cursor_at_the_token_end", "*final(self) == old(self).at(token.span.location.1 - old(self).span_offset)")])
get_span = Fn(FW, "get_span", impl=WI, impl_header=WI, slot="syntax", ret="res", key="Walker::get_span", props=["C13", "C03"],
    requires=[C("positions_fit", "self.span_offset + start_byte_index <= usize::MAX && self.span_offset + end_byte_index <= usize::MAX", ["C03"])],
    ensures=[C("byte_range_in_the_file", "res == self.span_of(start_byte_index as int, end_byte_index as int)", ["C13"])])
W = cw.walker_fns("verify", "syntax")
W["get_cursor_span"].rewrites = []
TOK_FACTS = "proof { lemma_stream_head(*self, self.cursor_index as int, 0); lemma_stream_lb(*self, self.cursor_index as int, 0); }"
nth_useful = W["next_nth_useful_token"]
UP = "self.useful_pos(self.cursor_index as int)"
LP = "self.lb_pos(self.cursor_index as int)"
def facts(pos):
    return ("(%s < self.cursor_limit ==> boundary(self.src, %s) && 1 <= len_at(self.src, LIM, %s) && %s + len_at(self.src, LIM, %s) <= self.cursor_limit && boundary(self.src, %s + len_at(self.src, LIM, %s)))" % ((pos,) * 7)).replace("LIM", LIM)
nth_useful.ensures = nth_useful.ensures + [C("the_first_useful_token_or_the_end_token", "nth == 0 ==> res == self.tok(%s) && %s" % (UP, facts(UP)))]
nth_useful.loops = {1: Loop(invariant=[
    C("scan", "self.inv() && self.cursor_index <= byte_index <= self.cursor_limit && (byte_index < self.cursor_limit ==> boundary(self.src, byte_index as int))"),
    C("only_ignorable_tokens_skipped", "verif_nth0 == 0 ==> nth == 0 && self.useful_pos(byte_index as int) == self.useful_pos(self.cursor_index as int)"),
], body_start=" proof { lemma_stream_head(*self, self.cursor_index as int, 0); }")}
nth_useful.attrs = ["#[verifier::exec_allows_no_decreases_clause]", "#[verifier::loop_isolation(false)]"]
nth_useful.inserts = [Insert("let mut byte_index = self.cursor_index;", "let ghost verif_nth0 = nth;\n        ", where="before")]
next_lb = W["next_linebreak"]
next_lb.ensures = next_lb.ensures + [C("the_line_break_token", "res is Some ==> res->0 == self.tok(self.lb_pos(self.cursor_index as int)) && " + facts(LP) + " && (self.lb_pos(self.cursor_index as int) >= self.cursor_limit || kind_at(self.src, %s, self.lb_pos(self.cursor_index as int)) is LineBreak)" % LIM),
                                 C("no_line_break", "res is None ==> self.lb_pos(self.cursor_index as int) < self.cursor_limit && !(kind_at(self.src, %s, self.lb_pos(self.cursor_index as int)) is LineBreak)" % LIM)]
next_lb.loops = {1: Loop(invariant=[
    C("scan", "self.inv() && self.cursor_index <= byte_index <= self.cursor_limit && (byte_index < self.cursor_limit ==> boundary(self.src, byte_index as int))"),
    C("only_blanks_and_comments_skipped", "self.lb_pos(byte_index as int) == self.lb_pos(self.cursor_index as int)"),
], body_start=" proof { lemma_stream_head(*self, self.cursor_index as int, 0); lemma_stream_lb(*self, self.cursor_index as int, 0); lemma_stream_len(*self, self.cursor_index as int, 0); lemma_stream_lbs(*self, self.step(self.lb_pos(self.cursor_index as int)), 0); }")}
next_lb.attrs = ["#[verifier::exec_allows_no_decreases_clause]", "#[verifier::loop_isolation(false)]"]
next_lb.inserts = []
next_useful = Fn(FW, "next_useful_token", impl=WI, impl_header=WI, slot="syntax", ret="res", key="Walker::next_useful_token", props=["C05"],
    requires=[cw.INV_PRE], ensures=[C("the_first_useful_token_or_the_end_token", "res == self.tok(%s) && %s" % (UP, facts(UP)))])
next_useful_index = Fn(FW, "next_useful_index", impl=WI, impl_header=WI, slot="syntax", ret="res", key="Walker::next_useful_index", props=["C07", "C03"],
    requires=[cw.INV_PRE],
    ensures=[C("where_the_next_useful_token_starts", "res == (if %s < self.cursor_limit { %s } else { self.cursor_limit as int }) && (res < self.cursor_limit ==> boundary(self.src, res as int))" % (UP, UP), ["C07"])],
    inserts=[Insert("{", "\n        proof { lemma_stream_head(*self, self.cursor_index as int, 0); }\n", where="after", occ=1)])
CH = "(if %s < self.cursor_limit { char_from(self.src, %s) } else { '\\0' })" % (UP, UP)
OLDUP = UP.replace("self.", "old(self).")
OLDCH = CH.replace("self.", "old(self).")
maybe_expect_char = Fn(FW, "maybe_expect_char", impl=WI, impl_header=WI, slot="syntax", ret="res", key="Walker::maybe_expect_char", props=["C07", "C03"],
    requires=[cw.INV_PRE_MUT, C("not_the_end_of_text_character", "!same_ignoring_ascii_case('\\0', wanted_char)", ["C03"])],
    ensures=[cw.INV_POST,
             C("takes_the_next_useful_character_ignoring_ascii_case", "res == same_ignoring_ascii_case(%s, wanted_char) && (if res { *final(self) == old(self).at((if %s < old(self).cursor_limit { %s } else { old(self).cursor_limit as int }) + %s.len_utf8()) } else { *final(self) == *old(self) })" % (OLDCH, OLDUP, OLDUP, OLDCH), ["C07"])],
    inserts=[Insert("{", "\n        proof { lemma_stream_head(*self, self.cursor_index as int, 0); }\n", where="after", occ=1)])
W["maybe_expect"].inserts = [Insert("{", "\n        proof { lemma_stream_head(*self, self.cursor_index as int, 0); let p = self.useful_pos(self.cursor_index as int); lemma_at(*self, self.step(p), self.step(p), 0); }\n", where="after", occ=1)]
W["next_useful_is"].inserts = [Insert("{", "\n        proof { lemma_stream_head(*self, self.cursor_index as int, 0); }\n", where="after", occ=1)]
W["maybe_expect_linebreak"].inserts = [Insert("{", "\n        proof { lemma_stream_head(*self, self.cursor_index as int, 0); lemma_stream_lb(*self, self.cursor_index as int, 0);"
    " let q = self.lb_pos(self.cursor_index as int); lemma_stream_lbs(*self, self.step(q), 0); let s0 = self.stream_from(self.step(q), 0); assert(dec_lb(inc_lb(s0)) =~= s0); lemma_at(*self, self.step(q), self.step(q), 0); lemma_at(*self, self.cursor_limit as int, self.cursor_limit as int, 0); }\n", where="after", occ=1)]
for k in W:
    W[k].rewrites = list(W[k].rewrites) + [Rewrite("syntax::TokenKind::", "TokenKind::", count=None, rule="R6", why="module path")]

UNIT = Unit(
    "U-walker", "u_walker/skeleton.rs",
    items=[Type(uc.FS, "struct", "Span", slot="diagn", derive="drop"), uc.span_new.in_slot("diagn"), uc.span_location.in_slot("diagn"), uc.span_length.in_slot("diagn"), r_error_span,
           Type(FT, "struct", "Token", slot="syntax", derive="drop"), Type(FT, "enum", "TokenKind", slot="syntax", derive="Clone, Copy"), is_ignorable, printable,
           Type(FW, "struct", "Walker", slot="syntax", derive="drop"), is_whitespace, char_at, token_at, lookahead,
           is_over, idx_start, idx_end, advance, get_span, W["get_cursor_span"], nth_useful, next_useful, next_useful_index, maybe_expect_char, next_lb, W["next_useful_is"], W["maybe_expect"], W["expect"], W["maybe_expect_linebreak"]],
    serves=["C05", "C13", "C07", "C03"],
    carry_facts_into_loops=False,
    description="syntax::Walker: the token-level operations refine the stream-of-useful-tokens model that U-parser assumes (tokenizer answers uninterpreted); find_lookahead_char_index (case-insensitive, outside brackets, character by character); spans are byte ranges of the file",
)
