    impl<'src> Walker<'src> {
        /// cursor and limit lie on character boundaries inside the text
        pub open spec fn wf(&self) -> bool {
            boundary(self.src, self.cursor_index as int) && boundary(self.src, self.cursor_limit as int)
        }
        /// the walker's invariant: the cursor is inside the text, on a character boundary, and positions in the file fit a machine word
        pub open spec fn inv(&self) -> bool {
            self.wf() && self.cursor_index <= self.cursor_limit && self.span_offset + self.cursor_limit < usize::MAX
        }
        pub open spec fn span_of(&self, a: int, b: int) -> diagn::Span {
            diagn::Span { file_handle: self.file_handle, location: ((self.span_offset + a) as usize, (self.span_offset + b) as usize) }
        }
        /// the token at byte index i; past the limit the walker answers with an empty LineBreak pseudo token
        pub open spec fn tok(&self, i: int) -> Token {
            if i >= self.cursor_limit { Token { span: self.span_of(self.cursor_limit as int, self.cursor_limit as int), kind: TokenKind::LineBreak } }
            else { Token { span: self.span_of(i, i + len_at(self.src, self.cursor_limit as int, i)), kind: kind_at(self.src, self.cursor_limit as int, i) } }
        }
        pub open spec fn step(&self, i: int) -> int {
            if len_at(self.src, self.cursor_limit as int, i) >= 1 { i + len_at(self.src, self.cursor_limit as int, i) } else { i + 1 }
        }
        pub open spec fn measure(&self, i: int) -> int { if self.cursor_limit > i { self.cursor_limit - i } else { 0 } }
        /// THE MODEL U-parser assumes: the useful tokens from byte index i on, each with the number of line breaks in
        /// front of it (`lbs` = line breaks already seen)
        pub open spec fn stream_from(&self, i: int, lbs: nat) -> Seq<UTok> decreases self.measure(i) {
            if i >= self.cursor_limit || i < 0 { Seq::empty() }
            else {
                let k = kind_at(self.src, self.cursor_limit as int, i);
                if k is LineBreak { self.stream_from(self.step(i), lbs + 1) }
                else if ignorable(k) { self.stream_from(self.step(i), lbs) }
                else { seq![UTok { tok: self.tok(i), lbs: lbs }] + self.stream_from(self.step(i), 0) }
            }
        }
        pub open spec fn stream(&self) -> Seq<UTok> { self.stream_from(self.cursor_index as int, 0) }
        pub open spec fn src(&self) -> Seq<char> { self.src@ }
        pub open spec fn cursor_span(&self) -> diagn::Span { self.span_of(self.cursor_index as int, self.cursor_index as int) }
        /// first position from i on whose token is not ignorable (the limit if there is none)
        pub open spec fn useful_pos(&self, i: int) -> int decreases self.measure(i) {
            if i >= self.cursor_limit || i < 0 { self.cursor_limit as int }
            else if ignorable(kind_at(self.src, self.cursor_limit as int, i)) { self.useful_pos(self.step(i)) } else { i }
        }
        /// first position from i on whose token is neither blank nor comment (the limit if there is none)
        pub open spec fn lb_pos(&self, i: int) -> int decreases self.measure(i) {
            if i >= self.cursor_limit || i < 0 { self.cursor_limit as int }
            else if kind_at(self.src, self.cursor_limit as int, i) is Whitespace || kind_at(self.src, self.cursor_limit as int, i) is Comment { self.lb_pos(self.step(i)) } else { i }
        }
        /// the same walker with the cursor elsewhere
        pub open spec fn at(&self, c: int) -> Walker<'src> {
            Walker { src: self.src, file_handle: self.file_handle, span_offset: self.span_offset, cursor_index: c as usize, cursor_limit: self.cursor_limit }
        }
    }
    /// one more line break in front of the first token
    pub open spec fn inc_lb(ws: Seq<UTok>) -> Seq<UTok> {
        if ws.len() > 0 { ws.update(0, UTok { tok: ws[0].tok, lbs: ws[0].lbs + 1 }) } else { ws }
    }
    pub proof fn lemma_stream_lbs(w: Walker, i: int, lbs: nat)
        ensures w.stream_from(i, lbs + 1) =~= inc_lb(w.stream_from(i, lbs))
        decreases w.measure(i)
    {
        if i >= w.cursor_limit || i < 0 {} else {
            let k = kind_at(w.src, w.cursor_limit as int, i);
            if k is LineBreak { lemma_stream_lbs(w, w.step(i), lbs + 1); }
            else if ignorable(k) { lemma_stream_lbs(w, w.step(i), lbs); }
            else {}
        }
    }
    /// the stream does not depend on where the cursor is
    pub proof fn lemma_at(w: Walker, c: int, i: int, lbs: nat)
        ensures w.at(c).stream_from(i, lbs) == w.stream_from(i, lbs)
        decreases w.measure(i)
    {
        let v = w.at(c);
        assert(v.measure(i) == w.measure(i));
        if i >= w.cursor_limit || i < 0 {} else {
            let k = kind_at(w.src, w.cursor_limit as int, i);
            assert(v.step(i) == w.step(i));
            assert(v.tok(i) == w.tok(i));
            if k is LineBreak { lemma_at(w, c, w.step(i), lbs + 1); }
            else if ignorable(k) { lemma_at(w, c, w.step(i), lbs); }
            else { lemma_at(w, c, w.step(i), 0); }
        }
    }
    pub proof fn lemma_stream_len(w: Walker, i: int, lbs: nat)
        ensures w.stream_from(i, lbs).len() <= w.measure(i)
        decreases w.measure(i)
    {
        if i >= w.cursor_limit || i < 0 {} else {
            let k = kind_at(w.src, w.cursor_limit as int, i);
            if k is LineBreak { lemma_stream_len(w, w.step(i), lbs + 1); }
            else if ignorable(k) { lemma_stream_len(w, w.step(i), lbs); }
            else { lemma_stream_len(w, w.step(i), 0); }
        }
    }
    /// the stream from i is the first useful token (if any) followed by the stream behind it
    pub proof fn lemma_stream_head(w: Walker, i: int, lbs: nat)
        requires 0 <= i
        ensures
            i <= w.useful_pos(i) <= w.cursor_limit || (i > w.cursor_limit && w.useful_pos(i) == w.cursor_limit),
            w.useful_pos(i) >= w.cursor_limit ==> w.stream_from(i, lbs).len() == 0,
            w.useful_pos(i) < w.cursor_limit ==> w.stream_from(i, lbs).len() > 0 && w.stream_from(i, lbs)[0].tok == w.tok(w.useful_pos(i))
                && !ignorable(kind_at(w.src, w.cursor_limit as int, w.useful_pos(i)))
                && w.stream_from(i, lbs).drop_first() =~= w.stream_from(w.step(w.useful_pos(i)), 0),
        decreases w.measure(i)
    {
        if i >= w.cursor_limit {} else {
            let k = kind_at(w.src, w.cursor_limit as int, i);
            if k is LineBreak { lemma_stream_head(w, w.step(i), lbs + 1); }
            else if ignorable(k) { lemma_stream_head(w, w.step(i), lbs); }
            else {}
        }
    }
    /// line breaks: whether one comes before the next useful token, and what consuming it leaves
    pub proof fn lemma_stream_lb(w: Walker, i: int, lbs: nat)
        requires 0 <= i
        ensures
            i <= w.lb_pos(i) <= w.cursor_limit || (i > w.cursor_limit && w.lb_pos(i) == w.cursor_limit),
            w.lb_pos(i) >= w.cursor_limit ==> w.stream_from(i, lbs).len() == 0,
            w.lb_pos(i) < w.cursor_limit && kind_at(w.src, w.cursor_limit as int, w.lb_pos(i)) is LineBreak ==> w.stream_from(i, lbs) =~= w.stream_from(w.step(w.lb_pos(i)), lbs + 1),
            w.lb_pos(i) < w.cursor_limit && !(kind_at(w.src, w.cursor_limit as int, w.lb_pos(i)) is LineBreak) ==> w.stream_from(i, lbs).len() > 0 && w.stream_from(i, lbs)[0].lbs == lbs,
        decreases w.measure(i)
    {
        if i >= w.cursor_limit {} else {
            let k = kind_at(w.src, w.cursor_limit as int, i);
            if k is Whitespace || k is Comment { lemma_stream_lb(w, w.step(i), lbs); }
            else {}
        }
    }
    /// C07/C03, the look-ahead for the character that ends an instruction argument: scanning from byte i, the first
    /// position - after at least one non-blank character, outside every parenthesis and brace - whose character equals
    /// `wanted` IGNORING ASCII CASE; an unmatched `)` or `}` ends the search; the scan moves character by character.
    pub open spec fn look(src: &str, limit: int, wanted: char, i: int, seen: bool, paren: int, brace: int) -> Option<usize>
        decreases (if limit > i { limit - i } else { 0 })
    {
        if i >= limit || i < 0 { None }
        else {
            let c = char_from(src, i);
            let len = c.len_utf8() as int;
            let next: int = if len >= 1 { i + len } else { i + 1 };
            let seen2 = seen || !token::is_ws(c);
            if same_ignoring_ascii_case(c, wanted) && seen && paren == 0 && brace == 0 { Some(i as usize) }
            else if c == '(' { look(src, limit, wanted, next, seen2, paren + 1, brace) }
            else if c == ')' { if paren == 0 { None } else { look(src, limit, wanted, next, seen2, paren - 1, brace) } }
            else if c == '{' { look(src, limit, wanted, next, seen2, paren, brace + 1) }
            else if c == '}' { if brace == 0 { None } else { look(src, limit, wanted, next, seen2, paren, brace - 1) } }
            else { look(src, limit, wanted, next, seen2, paren, brace) }
        }
    }
