"""Contract table: util::BitVec (src/util/bitvec.rs)."""
from vfw.spec import Fn, Type, Impl, C, Loop, Rewrite, Insert

F = "src/util/bitvec.rs"
TYPES = [Type(F, "struct", "BitVec"), Type(F, "struct", "BitVecSpan"), Type(F, "struct", "BitVecBlock")]

new = Fn(F, "new", impl="BitVec", ret="res", props=["C06", "C11"],
         ensures=[C("empty", "res.len == 0 && res.spans@.len() == 0 && res.wf() && forall|j: nat| !#[trigger] bit_of(res.v(), j)", ["C06", "C11"])],
         inserts=[Insert("\t\tBitVec {", "\t\tproof { assert forall|j: nat| !bit_of(0, j) by { lemma_bit_of_zero(j); } }\n", where="before")])

write_bit = Fn(F, "write_bit", impl="BitVec", props=["C01", "C06", "C03", "C19"],
               requires=[C("wf", "old(self).wf()")],
               ensures=[
                   C("bit_written", "bit_of(final(self).v(), index as nat) == value", ["C01"]),
                   C("frame", "forall|j: nat| j != index ==> #[trigger] bit_of(final(self).v(), j) == bit_of(old(self).v(), j)", ["C06", "C01"]),
                   C("len", "final(self).len == (if index + 1 > old(self).len { (index + 1) as usize } else { old(self).len })", ["C06"]),
                   C("spans_kept", "final(self).spans == old(self).spans", ["C12"]),
                   C("wf", "final(self).wf()", ["C06"]),
               ],
               inserts=[
                   Insert("        self.data.set_bit(index, value);", "        let ghost prev = self.data.val();\n", where="before"),
                   Insert("        self.data.set_bit(index, value);", "\n        proof { assert forall|j: nat| #[trigger] bit_of(self.data.val(), j) == (if j == index { value } else { bit_of(prev, j) }) by { lemma_set_bit_get(prev, index as nat, value, j); } }\n", where="after"),
                   Insert("        if index + 1 > self.len", "        proof { assume(index + 1 <= usize::MAX); }\n", where="before", finding="D9e",
                          why="finding guard: bit index + 1 overflows usize (known finding D9e)"),
               ])

read_bit = Fn(F, "read_bit", impl="BitVec", ret="res", props=["C11", "C03"],
              ensures=[C("bit", "res == bit_of(self.v(), index as nat)", ["C11", "C01"])])

len_ = Fn(F, "len", impl="BitVec", ret="res", props=["C11"], ensures=[C("len", "res == self.len", ["C11"])])

write_bigint = Fn(
    F, "write_bigint", impl="BitVec", props=["C01", "C06", "C04", "C03", "C19"],
    requires=[C("wf", "old(self).wf()"),
              C("sized", "bigint.size is Some", ["C03"])],
    ensures=[
        C("msb_first", "forall|j: nat| index <= j < index + bigint.size->0 ==> #[trigger] bit_of(final(self).v(), j) == bit_of(bigint.val(), (bigint.size->0 - 1 - (j - index)) as nat)", ["C01", "C04"]),
        C("frame", "forall|j: nat| !(index <= j < index + bigint.size->0) ==> #[trigger] bit_of(final(self).v(), j) == bit_of(old(self).v(), j)", ["C06", "C01"]),
        C("len_is_last_written_bit", "final(self).len == (if bigint.size->0 > 0 && index + bigint.size->0 > old(self).len { (index + bigint.size->0) as usize } else { old(self).len })", ["C06"]),
        C("spans_kept", "final(self).spans == old(self).spans", ["C12"]),
        C("wf", "final(self).wf()", ["C06"]),
    ],
    loops={1: Loop(invariant=[
        C("size", "bigint.size == Some(size) && index + size <= usize::MAX"),
        C("written", "forall|j: nat| index <= j < index + i ==> #[trigger] bit_of(self.v(), j) == bit_of(bigint.val(), (size - 1 - (j - index)) as nat)"),
        C("frame", "forall|j: nat| !(index <= j < index + i) ==> #[trigger] bit_of(self.v(), j) == bit_of(old(self).v(), j)"),
        C("rest", "self.len == old(self).len && self.spans == old(self).spans"),
    ], body_start="            let ghost prev = self.data.val(); let ghost prev_i = i;",
       body_end="            proof { let at = (index + i) as nat; lemma_set_bit_get(prev, at, true, at); lemma_set_bit_get(prev, at, false, at); assert forall|j: nat| #[trigger] bit_of(self.data.val(), j) == (if j == at { bit_of(self.data.val(), at) } else { bit_of(prev, j) }) by { lemma_set_bit_get(prev, at, true, j); lemma_set_bit_get(prev, at, false, j); } }")},
    inserts=[
        Insert("        for i in 0..size", "        proof { assume(index + size <= usize::MAX); }\n", where="before", finding="D9e",
               why="finding guard: output position + item size overflows usize (known finding D9e)"),
        Insert("        if size > 0 && index + size > self.len", "        let ghost mid = self.v();\n", where="before"),
        Insert("            self.len = index + size;\n        }", "\n        proof { assert(self.v() == mid); }\n", where="after"),
    ])

SPAN_PUSHED = "final(self).spans@ == old(self).spans@.push(BitVecSpan { addr: addr, offset: %s, size: %s, span: span })"

write_bigint_with_span = Fn(
    F, "write_bigint_with_span", impl="BitVec", props=["C12", "C01", "C03"],
    requires=[C("wf", "old(self).wf()"), C("sized", "bigint.size is Some", ["C03"])],
    ensures=[
        C("msb_first", "forall|j: nat| offset <= j < offset + bigint.size->0 ==> #[trigger] bit_of(final(self).v(), j) == bit_of(bigint.val(), (bigint.size->0 - 1 - (j - offset)) as nat)", ["C01", "C12"]),
        C("frame", "forall|j: nat| !(offset <= j < offset + bigint.size->0) ==> #[trigger] bit_of(final(self).v(), j) == bit_of(old(self).v(), j)", ["C06"]),
        C("len_is_last_written_bit", "final(self).len == (if bigint.size->0 > 0 && offset + bigint.size->0 > old(self).len { (offset + bigint.size->0) as usize } else { old(self).len })", ["C06"]),
        C("one_span_recorded", SPAN_PUSHED % ("Some(offset)", "bigint.size->0"), ["C12"]),
        C("wf", "final(self).wf()", ["C06"]),
    ],
    inserts=[
        Insert("        self.mark_span(", "        let ghost mid = self.v();\n", where="before"),
        Insert("            addr,\n            span);", "\n        proof { assert(self.v() == mid); }\n", where="after"),
    ])

mark_span = Fn(F, "mark_span", impl="BitVec", props=["C12"],
               ensures=[C("one_span_recorded", SPAN_PUSHED % ("offset", "size"), ["C12"]),
                        C("bits_kept", "final(self).data == old(self).data && final(self).len == old(self).len", ["C06"]),
                        C("wf_kept", "old(self).wf() ==> final(self).wf()", ["C06"])],
               inserts=[Insert("        self.spans.push(BitVecSpan {", "        let ghost before = self.v();\n", where="before"),
                        Insert("            span,\n        });", "\n        proof { assert(self.v() == before); }\n", where="after")])

to_bigint = Fn(
    F, "to_bigint", impl="BitVec", ret="res", props=["C11", "C03"],
    requires=[C("wf", "self.wf()")],
    ensures=[
        C("size", "res.size == Some(self.len)", ["C11"]),
        C("msb_first", "forall|j: nat| j < self.len ==> #[trigger] bit_of(res.val(), j) == bit_of(self.v(), (self.len - 1 - j) as nat)", ["C11"]),
        C("unsigned", "0 <= res.val() < pow2(self.len as nat)", ["C11"]),
    ],
    loops={1: Loop(invariant=[
        C("bits", "forall|j: nat| #[trigger] bit_of(bigint.val(), j) == (self.len - i <= j < self.len && bit_of(self.v(), (self.len - 1 - j) as nat))"),
    ])},
    inserts=[
        Insert("        for i in 0..self.len", "        proof { assert forall|j: nat| !bit_of(0, j) by { lemma_bit_of_zero(j); } }\n", where="before"),
        Insert("            bigint.set_bit(", "            let ghost prev = bigint.val();\n", where="before"),
        Insert("                self.read_bit(i));", "\n            proof { let b = bit_of(self.v(), i as nat); assert forall|j: nat| #[trigger] bit_of(bigint.val(), j) == (if j == self.len - 1 - i { b } else { bit_of(prev, j) }) by { lemma_set_bit_get(prev, (self.len - 1 - i) as nat, b, j); } }\n", where="after"),
        Insert("        bigint.size = Some(self.len);", "        proof { lemma_bits_bound(bigint.val(), self.len as nat); }\n", where="before"),
    ])

ALL = [new, write_bit, read_bit, len_, write_bigint, write_bigint_with_span, mark_span, to_bigint]


def items(mode, slot="util", only=None):
    out = [t.in_slot(slot) for t in TYPES]
    for f in ALL:
        if only is not None and f.name not in only:
            continue
        g = f.in_slot(slot)
        g.mode = mode
        out.append(g)
    return out
