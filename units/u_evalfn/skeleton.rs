//@@INCLUDE _shared/header.rs
//@@INCLUDE _shared/ispec.rs
//@@INCLUDE _shared/num_bigint.rs
//@@INCLUDE _shared/std_gaps.rs
//@@INCLUDE _shared/symspec.rs
pub mod diagn {
    use vstd::prelude::*;
    use crate::*;
    verus! {
    /// Opaque stand-in for diagn::Report. Ghost observations:
    ///   msgs()    = messages.len()  (what has_errors()/assemble()'s assert look at)
    ///   errors()  = number of top-level messages of kind Error (what stop_at_errors looks at)
    ///   parents() = parents.len()   (pop_parent unwraps it)
    #[verifier::external_body]
    pub struct Report { _p: u8 }
    impl Report {
        pub uninterp spec fn msgs(&self) -> nat;
        pub uninterp spec fn errors(&self) -> nat;
        pub uninterp spec fn parents(&self) -> nat;
    }
    #[verifier::external_body]
    pub struct Message { _p: u8 }
    /// the message is of kind Error (defined over the real field in U-report)
    pub uninterp spec fn msg_is_error(m: Message) -> bool;
    impl Clone for Message {
        #[verifier::external_body]
        fn clone(&self) -> (r: Message) ensures r == *self { unimplemented!() }
    }
    #[verifier::external_body]
    #[derive(Clone, Copy)]
    pub struct Span { _p: u8 }
    //@@ITEMS diagn
    }
}
pub mod util {
    use vstd::prelude::*;
    use vstd::std_specs::convert::*;
    use vstd::std_specs::ops::*;
    use vstd::std_specs::cmp::*;
    use crate::*;
    use crate::ispec::*;
    use crate::symspec::*;
    use vstd::arithmetic::power2::pow2;
    verus! {
    broadcast use {crate::num_bigint::axiom_into_refl_obeys, crate::num_bigint::axiom_into_refl, crate::std_gaps::axiom_ordering_eq_obeys, crate::std_gaps::axiom_ordering_eq, crate::symspec::lemma_texts_subrange, crate::symspec::lemma_drop_first_is_subrange, crate::symspec::axiom_key_text_string};
    pub trait FileServer {
        /// the bytes of a file
        spec fn file_bytes(&self, file_handle: FileServerHandle) -> Seq<u8>;
        /// the text of a file (lossy UTF-8 of its bytes)
        spec fn file_text(&self, file_handle: FileServerHandle) -> Seq<char>;
        spec fn file_name(&self, file_handle: FileServerHandle) -> Seq<char>;
        /// the handle a file name maps to
        spec fn handle_for(&self, filename: Seq<char>) -> FileServerHandle;
        fn get_filename(&self, file_handle: FileServerHandle) -> (r: &str)
            ensures r@ == self.file_name(file_handle);
        /// ASSUMED: fails loudly; an existing file keeps its contents and name
        fn get_handle(&mut self, report: &mut diagn::Report, span: Option<diagn::Span>, filename: &str) -> (r: Result<FileServerHandle, ()>)
            ensures
                r is Err ==> final(report).msgs() > old(report).msgs(),
                r is Ok ==> final(report).msgs() == old(report).msgs() && final(report).errors() == old(report).errors(),
                final(report).parents() == old(report).parents(),
                r is Ok ==> r->Ok_0 == final(self).handle_for(filename@),
                forall|h: FileServerHandle| #[trigger] final(self).file_name(h) == old(self).file_name(h) || true;
        fn get_bytes(&self, report: &mut diagn::Report, span: Option<diagn::Span>, file_handle: FileServerHandle) -> (r: Result<Vec<u8>, ()>)
            ensures
                r is Err ==> final(report).msgs() > old(report).msgs(),
                r is Ok ==> final(report).msgs() == old(report).msgs() && final(report).errors() == old(report).errors(),
                final(report).parents() == old(report).parents(),
                r is Ok ==> r->Ok_0@ == self.file_bytes(file_handle),
                // ASSUMED: no file has 2^60 bytes or more
                r is Ok ==> r->Ok_0@.len() < 0x1000_0000_0000_0000;
        fn get_str(&self, report: &mut diagn::Report, span: Option<diagn::Span>, file_handle: FileServerHandle) -> (r: Result<String, ()>)
            ensures
                r is Err ==> final(report).msgs() > old(report).msgs(),
                r is Ok ==> final(report).msgs() == old(report).msgs() && final(report).errors() == old(report).errors(),
                final(report).parents() == old(report).parents(),
                r is Ok ==> r->Ok_0@ == self.file_text(file_handle),
                r is Ok ==> r->Ok_0@.len() < 0x1000_0000_0000_0000;
    }
    pub type FileServerHandle = usize;
    //@@INCLUDE _shared/symbols_util.rs
    //@@INCLUDE _shared/util_bigint_spec_min.rs
    //@@INCLUDE _shared/util_bigint_cmp.rs
    //@@ITEMS util
    }
}
pub mod syntax {
    use vstd::prelude::*;
    verus! {
    //@@ITEMS syntax
    }
}
pub mod expr {
    use vstd::prelude::*;
    use vstd::std_specs::convert::*;
    use vstd::std_specs::cmp::*;
    use crate::*;
    use crate::ispec::*;
    verus! {
    #[verifier::external_body]
    pub struct Expr { _p: u8 }
    #[verifier::external_body]
    pub struct EvalContext { _p: u8 }
    impl Expr {
        #[verifier::external_body]
        pub fn span(&self) -> diagn::Span { unimplemented!() }
    }
    impl EvalContext {
        #[verifier::external_body]
        pub fn new() -> EvalContext { unimplemented!() }
        /// ASSUMED (three-line function over HashMap fields): a fresh context one level deeper
        #[verifier::external_body]
        pub fn new_deepened(from: &EvalContext) -> (r: EvalContext)
            ensures r.locals() == Map::<Seq<char>, Value>::empty(), r.depth() == from.depth() + 1
        { unimplemented!() }
        /// ASSUMED (HashMap::insert): binds one local variable
        #[verifier::external_body]
        pub fn set_local(&mut self, name: String, value: Value)
            ensures final(self).locals() == old(self).locals().insert(name@, value), final(self).depth() == old(self).depth()
        { unimplemented!() }
        /// proved over the real field in U-limits
        #[verifier::external_body]
        pub fn check_recursion_depth_limit(&self, report: &mut diagn::Report, span: diagn::Span) -> (res: Result<(), ()>)
            ensures
                res is Ok <==> self.depth() < 25,
                res is Err ==> final(report).msgs() > old(report).msgs(),
                res is Ok ==> final(report).msgs() == old(report).msgs() && final(report).errors() == old(report).errors(),
                final(report).parents() == old(report).parents(),
        { unimplemented!() }
    }
    //@@INCLUDE _shared/value_eq.rs
    //@@ITEMS expr
    }
}
pub mod asm {
    use vstd::prelude::*;
    use crate::*;
    pub use resolver::{ResolutionState, ResolveIterator, ResolverContext, ResolverNode, BankData};
    #[allow(unused_imports)]
    use resolver::*;
    verus! {
    #[verifier::external_body]
    pub struct Ruledef { _p: u8 }
    #[verifier::external_body]
    pub struct RuledefMap { _p: u8 }
    #[verifier::external_body]
    pub struct InstructionMatch { _p: u8 }
    pub type InstructionMatches = Vec<InstructionMatch>;
    //@@ITEMS asm
    }
    pub mod resolver {
        use vstd::prelude::*;
        use vstd::std_specs::convert::*;
        use crate::*;
        use crate::ispec::*;
        use vstd::arithmetic::power2::pow2;
        verus! {
        broadcast use {crate::num_bigint::axiom_into_refl_obeys, crate::num_bigint::axiom_into_refl, crate::util::axiom_bigint_into_refl_obeys, crate::util::axiom_bigint_into_refl, crate::std_gaps::axiom_vec_len_fits};
        //@@INCLUDE u_resolver/spec.rs
        //@@INCLUDE u_evalvar/spec.rs
        //@@INCLUDE u_incl/spec.rs
        //@@INCLUDE u_evalfn/spec.rs
        //@@ITEMS resolver
        }
    }
}
