from vfw.spec import Unit, Fn, Type, Impl, C, Loop, Rewrite, Insert
from units.u_resolver import unit as ur
from units.u_evalvar import unit as uev
from units.u_incl import unit as ui
from units.u_symbols import unit as us

FF = "src/asm/resolver/eval_fn.rs"
FX = "src/expr/eval.rs"
FD = "src/asm/defs/function.rs"

ensure_arg_number = Fn(FX, "ensure_arg_number", impl=ui.QIMPL, impl_header=ui.QIMPL, slot="expr", ret="res", key="EvalFunctionQuery::ensure_arg_number", props=["C03", "C17"],
    ensures=ui.QLOUD + [C("ok_iff_exact", "res is Ok <==> old(self).args@.len() == expected_arg_number", ["C17"]),
                        C("eval_ctx_kept", "final(self).eval_ctx == old(self).eval_ctx", ["C17"])])

eval_stub = Fn("src/asm/resolver/eval.rs", "eval", slot="resolver", mode="stub", ret="res", key="eval", ensures=ur.LOUD + [
    C("value", "res is Ok ==> res->Ok_0 == eval_value(old(fileserver), opts, decls, defs, ctx, old(eval_ctx).locals(), old(eval_ctx).depth(), expr)")])

FUN = "defs.functions.defs@[old(query).func->Function_0 as int]->0"
eval_fn = Fn(FF, "eval_fn", slot="resolver", ret="res", key="eval_fn", props=["C17", "C19", "C03"],
    requires=[
        C("callable", "old(query).func is AsmBuiltInFunction || old(query).func is Function", ["C03"]),
        C("function_defined", "old(query).func is Function ==> old(query).func->Function_0 < defs.functions.defs@.len() && defs.functions.defs@[old(query).func->Function_0 as int] is Some"
          " && (%s.item_ref).0 < decls.symbols.decls@.len()" % FUN, ["C03"]),
    ],
    ensures=[
        C("err_is_loud", "res is Err ==> final(query).report.msgs() > old(query).report.msgs()", ["C03", "C17"]),
        C("parents_balanced", "final(query).report.parents() == old(query).report.parents()", ["C03"]),
        C("recursion_beyond_the_limit_is_an_error", "old(query).func is Function && old(query).eval_ctx.depth() >= 25 ==> res is Err", ["C17", "C19"]),
        C("wrong_argument_count_is_an_error", "old(query).func is Function && old(query).args@.len() != %s.params@.len() ==> res is Err" % FUN, ["C17"]),
        C("a_call_is_its_body_with_the_arguments_bound_to_the_parameters", "old(query).func is Function && res is Ok ==> res->Ok_0 == eval_value(old(fileserver), opts, decls, defs, ctx,"
          " bound_args(%s.params@, old(query).args@, %s.params@.len() as int), old(query).eval_ctx.depth() + 1, &%s.body)" % (FUN, FUN, FUN), ["C17"]),
    ],
    rewrites=[
        Rewrite("resolve_builtin_fn(name).unwrap()", "verif_resolve_builtin(name)", rule="R17", why="function pointer -> opaque token (function pointers are outside Verus' subset)"),
        Rewrite(r"builtin_fn\(\s*fileserver,", "verif_call_builtin(builtin_fn, fileserver,", regex=True, rule="R17", why="call through a function pointer -> prelude wrapper with an assumed fails-loudly contract"),
    ],
    loops={1: Loop(invariant=[
        C("bound_so_far", "args_ctx.locals() == bound_args(function.params@, query.args@, param_index as int) && args_ctx.depth() == old(query).eval_ctx.depth() + 1"),
        C("kept", "query.args == old(query).args && query.report.msgs() == old(query).report.msgs() && query.report.errors() == old(query).report.errors() && query.report.parents() == old(query).report.parents() && query.args@.len() == function.params@.len()"),
    ])},
)

KNOWN3 = '(query.func == "incbin" || query.func == "incbinstr" || query.func == "inchexstr")'
known_builtin = Fn(FF, "get_statically_known_builtin_fn", slot="resolver", ret="res", key="get_statically_known_builtin_fn", props=["C17", "C02"],
    ensures=[C("only_the_file_inclusion_functions_are_known_before_the_first_pass", "res == " + KNOWN3, ["C17", "C02"])],
    rewrites=[Rewrite("match query.func.as_ref()", "match query.func", rule="R16", why="`str::as_ref()` on a `&str` (the identity; no vstd specification) dropped")],
)

UNIT = Unit(
    "U-evalfn", "u_evalfn/skeleton.rs",
    items=ur.COMMON + uev.SYMS + [
        Type(FX, "struct", "EvalFunctionQuery", slot="expr"), Type(FX, "struct", "EvalFunctionQueryArgument", slot="expr"),
        Type(FD, "struct", "Function", slot="asm"), Type(FD, "struct", "FunctionParameter", slot="asm"),
        Type("src/expr/inspect.rs", "struct", "StaticallyKnownFunctionQuery", slot="expr"),
        ensure_arg_number, eval_stub, eval_fn, known_builtin,
    ],
    serves=["C17", "C19", "C03"],
    description="asm::resolver::eval_fn: calling a user-defined function",
)
