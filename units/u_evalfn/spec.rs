        // ---- user-defined functions (C17)
        impl expr::EvalContext {
            /// the local variables of an evaluation context (name text -> value) and its nesting depth
            pub uninterp spec fn locals(&self) -> Map<Seq<char>, expr::Value>;
            pub uninterp spec fn depth(&self) -> nat;
        }
        /// what asm::resolver::eval computes: a function of the tables, the resolver context, the local
        /// variables, the nesting depth and the expression (ASSUMED; the file server state is passed along)
        pub uninterp spec fn eval_value(fs: &dyn util::FileServer, opts: &asm::AssemblyOptions, decls: &asm::ItemDecls, defs: &asm::ItemDefs,
            ctx: &asm::ResolverContext, locals: Map<Seq<char>, expr::Value>, depth: nat, e: &expr::Expr) -> expr::Value;
        /// the arguments bound to the parameters, in order (a later parameter of the same name wins)
        pub open spec fn bound_args(params: Seq<asm::FunctionParameter>, args: Seq<expr::EvalFunctionQueryArgument>, n: int) -> Map<Seq<char>, expr::Value>
            decreases n
        {
            if n <= 0 { Map::empty() } else { bound_args(params, args, n - 1).insert(params[n - 1].name@, args[n - 1].value) }
        }
        /// R17 helpers: `resolve_builtin_fn(name).unwrap()` yields a function pointer and the next statement calls
        /// through it (function pointers are outside Verus' subset): the pointer becomes an opaque token and the
        /// call a wrapper. ASSUMED: the call fails loudly and keeps the parent stack balanced.
        #[verifier::external_body]
        pub struct VerifBuiltinFn { _p: u8 }
        #[verifier::external_body]
        pub fn verif_resolve_builtin(name: &String) -> VerifBuiltinFn { unimplemented!() }
        #[verifier::external_body]
        pub fn verif_call_builtin(f: VerifBuiltinFn, fileserver: &mut dyn util::FileServer, decls: &asm::ItemDecls, defs: &asm::ItemDefs,
            ctx: &asm::ResolverContext, query: &mut expr::EvalFunctionQuery) -> (res: Result<expr::Value, ()>)
            ensures
                res is Err ==> final(query).report.msgs() > old(query).report.msgs(),
                final(query).report.parents() == old(query).report.parents(),
        { unimplemented!() }
