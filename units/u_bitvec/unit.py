from vfw.spec import Unit
from units.contracts_report import report_fns
from units import contracts_bigint as cb
from units import contracts_bitvec as bv

UNIT = Unit(
    "U-bitvec", "u_bitvec/skeleton.rs",
    items=cb.items("stub", "util", only=["set_bit", "get_bit"]) + bv.items("verify", "util"),
    serves=["C01", "C06", "C11", "C12", "C03", "C19", "C04"],
    carry_facts_into_loops=False,   # this unit's proofs need isolated loops (loop `ensures` clauses, or the solver runs out of resources with the wider context)
    description="util::BitVec: the output bit vector (MSB-first writes, spans)",
)
