//@@INCLUDE _shared/header.rs
//@@INCLUDE _shared/ispec.rs
//@@INCLUDE _shared/num_bigint.rs
//@@INCLUDE _shared/std_gaps.rs
//@@INCLUDE _shared/diagn_opaque.rs
pub mod util {
    use vstd::prelude::*;
    use vstd::std_specs::convert::*;
    use vstd::std_specs::ops::*;
    use vstd::std_specs::cmp::*;
    use crate::*;
    use crate::ispec::*;
    use vstd::arithmetic::power2::pow2;
    verus! {
    broadcast use {crate::num_bigint::axiom_into_refl_obeys, crate::num_bigint::axiom_into_refl};
    //@@INCLUDE _shared/util_bigint_spec_min.rs
    //@@INCLUDE _shared/bitvec_spec.rs
    //@@ITEMS util
    }
}
