//@@INCLUDE _shared/header.rs
//@@INCLUDE _shared/diagn_opaque.rs
pub mod util {
    use vstd::prelude::*;
    use crate::*;
    verus! {
    pub trait FileServer {}
    #[verifier::external_body]
    pub struct BitVec { _p: u8 }
    }
}
pub mod expr {
    use vstd::prelude::*;
    use crate::*;
    verus! {
    #[verifier::external_body]
    pub struct Value { _p: u8 }
    }
}
pub mod asm {
    use vstd::prelude::*;
    use crate::*;
    pub use parser::AstTopLevel;
    pub use decls::ItemDecls;
    pub use defs::ItemDefs;
    verus! {
    /// R33: `assert!(c);` becomes a call whose precondition is `c` (so the verifier has to show the runtime
    /// assertion cannot fire)
    pub fn verif_runtime_assert(c: bool) requires c { }
    /// R16: `Option::as_mut().unwrap()` / `as_ref().unwrap()` on a field known to be `Some`
    //@@ITEMS asm
    }
    pub mod parser {
        use vstd::prelude::*;
        use crate::*;
        verus! {
        /// opaque stand-in: the stages are stubs here, nothing reads the tree
        #[verifier::external_body]
        pub struct AstTopLevel { _p: u8 }
        //@@ITEMS parser
        }
    }
    pub mod decls {
        use vstd::prelude::*;
        use crate::*;
        verus! {
        #[verifier::external_body]
        pub struct ItemDecls { _p: u8 }
        //@@ITEMS decls
        }
    }
    pub mod defs {
        use vstd::prelude::*;
        use crate::*;
        verus! {
        #[verifier::external_body]
        pub struct ItemDefs { _p: u8 }
        //@@ITEMS defs
        }
    }
    pub mod resolver {
        use vstd::prelude::*;
        use crate::*;
        verus! {
        //@@ITEMS resolver
        }
    }
    pub mod matcher {
        use vstd::prelude::*;
        use crate::*;
        verus! {
        //@@ITEMS matcher
        }
    }
    pub mod output {
        use vstd::prelude::*;
        use crate::*;
        verus! {
        //@@ITEMS output
        }
    }
}
