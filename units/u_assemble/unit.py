from vfw.spec import Unit, Fn, Type, Impl, C, Loop, Rewrite, Insert
from units.contracts_report import report_fns
from units.u_resolver import unit as ur
from units.u_matchall import unit as uma
from units.u_output import unit as uo
from units.u_evalvar import unit as uev
from units.u_prepass import unit as up

F = "src/asm/mod.rs"


def pick(fn, *labels):
    """the clause objects of the unit that proves `fn` (shared, not copied)"""
    got = [c for c in fn.ensures if c.label in labels]
    assert len(got) == len(labels), (fn.key, labels, [c.label for c in fn.ensures])
    return got


ASSUMED_LOUD = [C("err_is_loud", "res is Err ==> final(report).msgs() > old(report).msgs()", ["C03"])]

# ---- the stages: signatures cut from /repo; clauses shared with the unit that proves the stage, or ASSUMED
parse_many = Fn("src/asm/parser/mod.rs", "parse_many_and_resolve_includes", slot="parser", mode="stub", ret="res", key="parser::parse_many_and_resolve_includes", ensures=ASSUMED_LOUD)
decls_init = Fn("src/asm/decls/mod.rs", "init", slot="decls", mode="stub", ret="res", key="decls::init", ensures=ASSUMED_LOUD)
decls_collect = Fn("src/asm/decls/mod.rs", "collect", slot="decls", mode="stub", ret="res", key="decls::collect", ensures=ASSUMED_LOUD)
defs_init = Fn("src/asm/defs/mod.rs", "init", slot="defs", mode="stub", ret="res", key="defs::init", ensures=[])
define_symbols = Fn("src/asm/defs/mod.rs", "define_symbols", slot="defs", mode="stub", ret="res", key="defs::define_symbols", ensures=ASSUMED_LOUD)
define_remaining = Fn("src/asm/defs/mod.rs", "define_remaining", slot="defs", mode="stub", ret="res", key="defs::define_remaining", ensures=ASSUMED_LOUD)
consts_simple = Fn("src/asm/resolver/constant.rs", "resolve_constants_simple", slot="resolver", mode="stub", ret="res", key="resolve_constants_simple",
                   ensures=pick(up.rcss, "err_is_loud"))
resolve_ifs = Fn("src/asm/resolver/directive_if.rs", "resolve_ifs", slot="resolver", mode="stub", ret="res", key="resolve_ifs", ensures=pick(ur.resolve_ifs, "err_is_loud"))
leftover_ifs = Fn("src/asm/resolver/directive_if.rs", "check_leftover_ifs", slot="resolver", mode="stub", ret="res", key="check_leftover_ifs", ensures=pick(ur.check_leftover_ifs, "err_is_loud"))
match_all = Fn("src/asm/matcher/mod.rs", "match_all", slot="matcher", mode="stub", ret="res", key="matcher::match_all", ensures=pick(uma.match_all, "err_is_loud"))
resolve_iteratively = Fn("src/asm/resolver/mod.rs", "resolve_iteratively", slot="resolver", mode="stub", ret="res", key="resolve_iteratively",
                         requires=list(ur.resolve_iteratively.requires),
                         ensures=pick(ur.resolve_iteratively, "within_budget", "err_is_loud"))
bank_overlap = Fn("src/asm/output/mod.rs", "check_bank_overlap", slot="output", mode="stub", ret="res", key="check_bank_overlap", ensures=pick(uo.check_bank_overlap, "err_is_loud"))
build_output = Fn("src/asm/output/mod.rs", "build_output", slot="output", mode="stub", ret="res", key="build_output", ensures=pick(uo.build_output, "err_is_loud"))
unused_defines = Fn(F, "check_unused_defines", slot="asm", mode="stub", ret="res", key="check_unused_defines", ensures=pick(uev.check_unused_defines, "err_is_loud"))

result_new = Fn(F, "new", impl="AssemblyResult", slot="asm", ret="res", key="AssemblyResult::new", props=["C09"],
                ensures=[C("empty", "!res.error && res.ast is None && res.decls is None && res.defs is None && res.output is None && res.iterations_taken is None", ["C09"])])

CAPS = [("assembly", "&mut AssemblyResult", "&mut assembly"), ("report", "&mut diagn::Report", "report"), ("opts", "&AssemblyOptions", "opts"),
        ("fileserver", "&mut dyn util::FileServer", "fileserver"), ("root_filenames", "&[S]", "root_filenames")]
GEN = "<S: std::borrow::Borrow<str>>"
UNWRAPS = [
    Rewrite(r"assembly\.(\w+)\.as_(ref|mut)\(\)\.unwrap\(\)", r"verif_some_\2(&\2@@ assembly.\1)", regex=True, count=None, rule="R16",
            why="`OPTION.as_ref().unwrap()` / `OPTION.as_mut().unwrap()` -> prelude wrappers that require `is Some` and return the reference to the content"),
    Rewrite("&ref@@ ", "&", count=None, rule="R16", why="(second half of the rewrite above: shared borrow)"),
    Rewrite("&mut@@ ", "&mut ", count=None, rule="R16", why="(second half of the rewrite above: mutable borrow)"),
]
run = Fn(F, "assemble", slot="asm", ret="res", key="assemble::run", props=["C09", "C03"], gen_name="verif_closure_run",
    lift={"closure": "run", "captures": CAPS, "part": "lifted", "free": True, "generics": GEN},
    requires=[C("budget_at_least_one", "opts.max_iterations >= 1", ["C09"]),
              C("fresh_result", "old(assembly).iterations_taken is None && old(assembly).output is None", ["C09"])],
    ensures=[
        C("reported_passes_within_budget", "final(assembly).iterations_taken is Some ==> 1 <= final(assembly).iterations_taken->0 <= opts.max_iterations", ["C09"]),
        C("success_carries_output_and_pass_count", "res is Ok ==> final(assembly).output is Some && final(assembly).iterations_taken is Some", ["C09"]),
        C("a_failed_stage_leaves_a_message", "res is Err ==> final(report).msgs() > 0", ["C03"]),
        C("error_flag_untouched", "final(assembly).error == old(assembly).error", ["C03"]),
    ],
    rewrites=[],
    attrs=["#[verifier::exec_allows_no_decreases_clause]"],   # termination of the constants/#if prepass loop is not decided here
    loops={1: Loop(invariant=[C("stages", "assembly.ast is Some && assembly.decls is Some && assembly.defs is Some && assembly.iterations_taken is None && assembly.output is None"
                               " && assembly.error == old(assembly).error")])},
)
assemble = Fn(F, "assemble", slot="asm", ret="res", key="assemble", props=["C09", "C03"],
    lift={"closure": "run", "captures": CAPS, "part": "parent", "free": True, "generics": GEN},
    requires=[C("budget_at_least_one", "opts.max_iterations >= 1", ["C09"])],
    ensures=[
        C("reported_passes_within_budget", "res.iterations_taken is Some ==> 1 <= res.iterations_taken->0 <= opts.max_iterations", ["C09"]),
        C("success_carries_output_and_pass_count", "!res.error ==> res.output is Some && res.iterations_taken is Some", ["C09"]),
        C("error_flag_means_the_report_has_a_message", "res.error ==> final(report).msgs() > 0", ["C03"]),
    ],
    rewrites=[Rewrite("assert!(report.has_errors());", "verif_runtime_assert(report.has_errors());", rule="R33",
                      why="runtime `assert!` -> call with the asserted condition as its precondition: the verifier has to show the assertion cannot fire")],
)

UNIT = Unit(
    "U-assemble", "u_assemble/skeleton.rs",
    items=[f for f in report_fns("stub", "diagn") if f.name == "has_errors"] + [
        Type(F, "struct", "AssemblyResult", slot="asm"), Type(F, "struct", "AssemblyOptions", slot="asm"), Type(F, "struct", "DriverSymbolDef", slot="asm"),
        parse_many, decls_init, decls_collect, defs_init, define_symbols, define_remaining, consts_simple, resolve_ifs, leftover_ifs,
        match_all, resolve_iteratively, bank_overlap, build_output, unused_defines, result_new, run, assemble,
    ],
    serves=["C09", "C03"],
    description="asm::assemble: the pass count the result reports is the resolver's (within the budget); a failing stage leaves a message (the run closure is lifted to a function, R25)",
)
