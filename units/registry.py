import importlib

_UNIT_MODULES = [
    "units.u_overlap.unit",
    "units.u_bigint.unit",
]

UNITS = {}
for m in _UNIT_MODULES:
    u = importlib.import_module(m).UNIT
    UNITS[u.name] = u

PROPERTIES = {
    "C06": {
        "units": ["U-overlap"],
        "claim": "OverlapChecker::check_and_insert: Ok implies the new (position,size) shares no output bit with any stored entry, the entry list stays sorted/disjoint and is changed by exactly one insertion; Err leaves it unchanged and pushes a message.",
        "not_reached": "",
    },
}
