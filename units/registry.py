import importlib

_UNIT_MODULES = [
    "units.u_overlap.unit",
    "units.u_bigint.unit",
    "units.u_constrain.unit",
    "units.u_resolver.unit",
    "units.u_bitvec.unit",
    "units.u_output.unit",
    "units.u_output.cursor",
    "units.u_charcount.unit",
    "units.u_symbols.unit",
    "units.u_collect.unit",
    "units.u_listing.unit",
    "units.u_evalvar.unit",
    "units.u_incl.unit",
    "units.u_rulemap.unit",
    "units.u_literal.unit",
    "units.u_format.unit",
    "units.u_inspect.unit",
    "units.u_report.unit",
    "units.u_limits.unit",
]

UNITS = {}
for m in _UNIT_MODULES:
    mod = importlib.import_module(m)
    for u in getattr(mod, "UNITS", [mod.UNIT]):
        UNITS[u.name] = u

NUMBIGINT_TB = ["ASSUMED contracts of the external crate num-bigint 0.4 (units/_shared/num_bigint.rs): sign, bits (< 2^63), bit, set_bit, checked_add/sub/mul/div, %, <<, >>, unary -, & | ^ (bitwise axioms), From<i32/usize/u8>, TryFrom<&BigInt> for usize/u32, comparisons"]
REPORT_TB = ["diagn::Report contracts (units/contracts_report.py: error*/warning*/note*/message add one top-level message and count as an error exactly when the top-level kind is Error; push_parent*/pop_parent change only the parent stack; stop_at_errors is Ok iff no top-level Error) are PROVED over the real fields in unit U-report and used as stubs elsewhere; only Report::wrap_in_parents (iterator adapters) stays assumed: the wrapped message has the kind of the outermost parent, or its own kind without parents"]

RESOLVER_TB = ["ASSUMED contracts of unverified customasm code used by U-resolver/U-iterate: asm::resolver::eval / eval_certain ('Err is loud, Ok is clean'), resolve_constant / resolve_instruction (the per-item pass contract), ResolveIterator::new/next (flags copied; the yielded node refers to defined items), Value::expect_error_or_bigint / expect_bool, DefList::get_mut (frame), derived PartialEq of expr::Value",
               "ghost event `ItemDefs::confirmed()` is produced only by resolve_once's stub clause [confirms] (a name for 'a no-guess pass answered Resolved'); termination of resolve_once's loop is not proved"]

ALL_UNITS = ["U-overlap", "U-bigint", "U-constrain", "U-resolver", "U-iterate", "U-bitvec", "U-output", "U-charcount", "U-symbols", "U-rulemap", "U-literal", "U-format", "U-inspect", "U-report", "U-limits", "U-cursor", "U-collect", "U-listing", "U-evalvar", "U-incl"]

PROPERTIES = {
    "C01": {
        "units": ["U-resolver", "U-bitvec", "U-constrain", "U-cursor", "U-output"],
        "claim": "Address bookkeeping, for all inputs: eval_address/get_address return addr_start + position / addr_unit, and a position that is not a whole number of addresses is rejected when guessing is forbidden; advance_address moves only the current bank, by exactly the size of the item before (instruction / data element / #res), to the next multiple for #align, and to (address - addr_start) * addr_unit for #addr; bits_until_alignment returns the least non-negative distance; resolve_label stores exactly the address of what follows; every defined bank has a positive address unit (proved at bankdef::define); ResolveIterator::next (the AST walk shared by the resolve passes and build_output) keeps its cursor well formed and yields only nodes whose items are defined and whose bank exists, given an AST that refers to defined items. BitVec::write_bigint writes a sized value MSB-first at [index, index+size) and changes no other bit. Typed arguments are accepted exactly on their range (check_and_constrain_argument, see C04). build_output: every sized item recorded at logical address a sits at outp_b + p of a defined bank b with a = addr_b + p / unit_b, inside that bank's window.",
        "not_reached": "rule matching, argument evaluation, choice of the smallest encoding (resolve_encoding), parsing, data-directive evaluation, the loop of build_output that ties the checked pieces together",
        "trusted_base": NUMBIGINT_TB + REPORT_TB + RESOLVER_TB,
    },
    "C02": {
        "units": ["U-iterate", "U-resolver", "U-inspect"],
        "claim": "resolve_iteratively returns Ok(n) only after a pass in which guessing was forbidden answered Resolved (the confirming pass), with no later change to the definitions, for every budget; resolve_once answers Resolved only if every per-item resolver did (merge is conjunction) and an unstable item in a last pass is an error; resolve_label / resolve_res / resolve_align / resolve_addr answer Resolved only when the freshly computed value equals the previous one, and report 'did not converge' otherwise in the last pass. The 'statically known' analysis behind the resolved short-cut (is_value_statically_known) answers true only if every sub-expression the expression evaluates is statically known (blocks: all their expressions, asserts included); the nested loop of asm blocks returns only the value of a stable no-guess inner pass.",
        "not_reached": "that recomputing every instruction selects one unique smallest encoding (resolve_encoding/matcher); resolve_constant and resolve_instruction obey the pass contract by assumption (resolve_data_element, resolve_label/res/align/addr/assert are proved); eval_asm::resolve_once",
        "trusted_base": NUMBIGINT_TB + REPORT_TB + RESOLVER_TB,
    },
    "C03": {
        "units": ALL_UNITS,
        "claim": "Inside the verified set (listed under functions_under_contract): no arithmetic overflow, out-of-range index, unwrap of None, reachable panic!/unreachable!/assert! for any input satisfying the stated preconditions; and every function with a report parameter is loud on Err (a message was pushed) and clean on Ok (no message, no error), with the parent stack balanced. resolve_iteratively: success is clean, failure is loud; a failed #assert fails the assembly.",
        "not_reached": "totality over all input texts (tokenizer, parser, matcher, evaluator are outside the verified set), process exit status, files written, I/O faults, assemble()'s closure and the driver",
        "trusted_base": NUMBIGINT_TB + REPORT_TB + RESOLVER_TB,
    },
    "C11": {
        "units": ["U-bitvec", "U-format", "U-listing"],
        "claim": "Raw binary, bit-string and hex-string formats, for outputs of every length (empty and non-multiple included): format_binary yields ceil(len/8) bytes, byte k being bits [8k, 8k+8) MSB first with zero padding; format_str/binstr/hexstr yield ceil(len/b) lower-case digits, digit k being bits [bk, bk+b) MSB first. Bit and hex dumps (format_dump and its two callers): the whole text equals dump_text(bits, len, digit width, byte width, bytes per line): ceil-many lines (one line for an output shorter than a byte), per line the address column, then for every byte its digits MSB first, a digit being '.' only when it starts at or beyond the end of the data and otherwise the digit of its bits with zero padding, group separators, and the character column (printable ASCII as itself, white space as ' ', the rest '.'); only the text of the two format! calls (address column, its width) is an uninterpreted function of their arguments. MIF, separator, C-array and Logisim formats: the whole text equals a spec function of the bits (mif_text / sep_rows / c_array_text / logisim_text): row, value or chunk k is byte (chunk) k of the store, MSB first and zero padded, in order, none dropped or invented, with the format's fixed header/trailer, separators after every value but the last and line breaks after every 16th byte; the text each format! call produces from (literal, arguments) is left as an uninterpreted function, so digit rendering itself (`{:02X}` etc.) is assumed to be what std prints. All of them are panic-free for every length (the empty output included) and for the radices and chunk widths the driver passes. Contiguous blocks (BitVec::get_blocks, what Intel HEX iterates over): no block is empty, and the set of output bits covered by the blocks is exactly the set of bits covered by the recorded items that have an output position (no bit dropped, none invented), for any span list. Bit-store layer: BitVec::read_bit returns bit i of the store and false at or beyond len (representation invariant wf, preserved by every write); BitVec::to_bigint is the MSB-first value of exactly len bits.",
        "not_reached": "Intel HEX (addresses, checksums: a closure capturing `&mut result`, which Verus rejects), the annotated/tcgame/addrspan listings; how std renders a number for a given format literal; format selection in the driver",
        "trusted_base": NUMBIGINT_TB,
    },
    "C12": {
        "units": ["U-bitvec", "U-listing"],
        "claim": "BitVec::write_bigint_with_span / mark_span append exactly one span record (offset, size, address, source span) per emitted item, and for written items the bits at [offset, offset+size) are the item's value MSB-first. The three listings: the whole text of format_addrspan, format_annotated and format_tcgame equals a spec function of the recorded spans sorted by output offset (sort_by is an assumed sort: a permutation ordered by offset, items without an output position first): one row per recorded span, in that order; each row names the output position (offset / group bits : offset % group bits, or dashes), the logical address, and - for the two data listings - the digits of THAT item's own bits (digit k = bits [k*w, (k+1)*w) of the item, MSB first, positions beyond the item's size zero; fixed D22) and the source excerpt at the span's byte range of the span's file; for the address-span listing the file name and the line/column of both ends. Column widths are the maxima over the listed spans. The text of each format! call and the results of CharCounter (excerpt, line/column: proved in U-charcount) are uninterpreted functions of their arguments.",
        "not_reached": "the symbol-table formats (symbol_format.rs: FnMut formatter closures, HashMap iteration, sort_by_key; D12 Mesen offset underflow is described only); that the recorded spans satisfy span_listable (items without output position have size 0, real source spans, byte ranges on character boundaries) is a stated precondition established by build_output but not checked at the driver's call; how std renders a number",
        "trusted_base": NUMBIGINT_TB,
    },
    "C13": {
        "units": ["U-charcount"],
        "claim": "For every character sequence and every byte index: get_line_column_at_index returns the 0-based line (newlines before) and character column (characters since the last newline) of the character that starts at that byte index, whatever the byte lengths of the characters before it; get_index_range_of_line returns the byte offsets of the first and one-past-last character of the requested line (both character boundaries, begin <= end); get_line_count = 1 + number of newlines. Span::join is the hull of two spans of one file with dummy spans neutral; before/after/length/location as stated. Report::get_line_info: the line/column pairs a diagnostic prints are the line and character column of the span's start and end byte indices in the file's text.",
        "not_reached": "that spans are created on character boundaries (syntax::Walker), that CharCounter::new's `chars` is the character sequence of `src` and str::get succeeds on boundaries (std), that the first error is on the faulty line (whole pipeline), included files, the message tree printer",
        "trusted_base": ["vstd's specification of char::len_utf8 (1..=4 bytes)", "CharCounter::wf: 4 * chars.len() fits in usize (allocation limit of Vec<char>) is a precondition not checked at the call sites"],
    },
    "C08": {
        "units": ["U-rulemap", "U-inspect"],
        "claim": "Matcher prefix index: RuledefMap::insert files a rule under exactly its first <= 4 leading literal characters, lower-cased and NUL-padded (stopping at the first non-literal part), appending to that bucket and touching no other; RuledefMap::query_prefixed(q) returns, for every i up to the number of leading non-NUL characters of q (at most 4), exactly the bucket stored under q truncated to i characters, and nothing for longer prefixes - so a rule filed under a key that is a truncation of the instruction's prefix is always among the candidates, and no other bucket is consulted. Static-value switch: is_value_statically_known is exactly the conjunction over all evaluated sub-expressions (so freezing an item after the first pass cannot skip an expression that depends on a symbol).",
        "not_reached": "RuledefMap::build (iterator adapter over rule refs) and parse_prefix (tokenizer): that a rule which matches an instruction is filed under a truncation of the instruction's prefix; the whole static-value optimisation (expr::inspect, resolved flags) - a relation between two executions of the evaluator",
        "trusted_base": ["ASSUMED: obeys_key_model::<[char; 4]>() (structural Hash/Eq of char arrays)", "vstd's HashMap::get specification", "ASSUMED contract of the R19 wrapper for HashMap::entry(..).or_insert_with(..).push(..); char::to_ascii_lowercase as an uninterpreted function"],
    },
    "C15": {
        "units": ["U-symbols", "U-collect", "U-cursor", "U-evalvar"],
        "claim": "Symbol lookup, for every declaration table, context and path: try_get_by_name(ctx, k, path) is None when k exceeds the depth of the context, and otherwise descends from the declaration reached by the first k components of the context (the enclosing label k-1 levels deep; the global scope for k = 0) along the dotted path; traverse/get_parent implement that descent component by component. The result depends only on the table, not on declaration order. Declarations: SymbolManager::declare fails loudly (and changes nothing) when the level skips a nesting level or the name already exists under that parent; otherwise it returns the next index, binds the name under exactly that parent, leaves every other scope's bindings untouched, keeps the table well formed and records depth and scope path of the new declaration, and never alters an earlier declaration's recorded scope. The AST walk (asm::decls::symbol::collect): every symbol node that had no declaration yet is declared with depth = its dot-level k, k never exceeds the depth of the scope in force, and its recorded scope path is the first k components of the scope left by the closest preceding symbol node (already declared or not; the global scope at the start of the file) followed by its own name; nodes declared in an earlier collection pass keep their declaration; nothing else in the AST changes. The resolver-side walks (ResolveIterator::next and next_simple): the symbol context handed out with a node is the recorded scope of the symbol node just visited, and otherwise the one in force before (it changes at symbol nodes only); next_simple visits exactly one node per call and never fails. References (eval_variable, eval_variable_simple, eval_variable_certain; get_by_name): unless the reference is a plain one-component built-in name, the value returned is the value of the declaration the level rule selects from the scope in force (the global scope for the two address-free variants); an undeclared name is an error (fixed D26: a dotted path after a built-in name used to evaluate to the built-in); an Unknown value is an error when guessing is forbidden.",
        "not_reached": "which names are built-in (eval_builtin_symbol is assumed to answer Some exactly for an uninterpreted set of names), constants' values, 'moving a constant changes nothing'",
        "trusted_base": ["ASSUMED contracts of the R8/R16 wrappers: HashMap<String, ItemRef>::get/insert/new as an uninterpreted lookup model (spec_lookup) over key texts; cloning a slice of Strings; SymbolManager::get_children_mut (frame through the returned &mut); the `span_refs` side table is dropped from the stand-in"],
    },
    "C09": {
        "units": ["U-iterate", "U-resolver"],
        "claim": "For every budget >= 1: the number of passes resolve_iteratively reports lies in [1, budget]; a Resolved pass on the last allowed iteration is itself the confirming pass; assertions are evaluated only in a last pass. The nested loop of asm blocks (eval_asm::resolve_iteratively) returns a value only from an inner pass that ran with guessing forbidden and was stable (or Unknown while the outer pass may still guess). Every per-item resolver answers Resolved only when the value it stored equals the one from the previous pass (the resolved_means_unchanged clauses, shared with C02), so success comes only from a pass that changed nothing, whatever the budget.",
        "not_reached": "monotonicity in the budget (a relation between two runs, not a contract on one call); --iters 0 rejection (driver string code); eval_asm::resolve_once (the inner pass itself)",
        "trusted_base": REPORT_TB + RESOLVER_TB,
    },
    "C14": {
        "units": ["U-incl"],
        "claim": "The inclusion functions (asm::resolver::eval_fn): incbin(file[, start[, size]]) returns an integer of exactly 8 x (end - start) bits holding the bytes [start, end) of the file the normalised path names (end = start + size, or the file's length; the value is the unsigned big-endian value, stated under the guard of known finding D11), and an explicit range that starts at or after the end or reaches past it is rejected with a diagnostic (fixed D29 overflow, D32 empty file); incbinstr / inchexstr return an integer of exactly (end - start) x 1 / 4 bits, counted in digit characters of the file (blanks, tabs, CR, LF and `_` skipped), reject ranges past the last digit with a diagnostic and never panic (fixed D6). Every failure (argument count, non-string file name, path rejected by filename_navigate, unreadable file, bad digit, bad range) carries a diagnostic.",
        "not_reached": "path normalisation and confinement (util::filename_navigate: replace/split/filter/collect over &str - assumed to fail loudly, result left as the uninterpreted nav_text), #include splicing, #once and cycle detection (recursion over the parser and a file-server trait object), '<std>/' files, which digits the string forms contain (only their number is specified: the bit-exact contents of incbinstr/inchexstr are not proved)",
        "trusted_base": REPORT_TB + NUMBIGINT_TB + ["ASSUMED FileServer contract (trait methods get_filename/get_handle/get_bytes/get_str: fail loudly, return the file's bytes/text; no file has 2^60 bytes); filename_navigate fails loudly; char::to_digit is a function of (char, radix); R28 verif_chars = the string's characters in order; usize::saturating_add/saturating_mul as specified by vstd"],
    },
    "C16": {
        "units": ["U-resolver", "U-evalvar"],
        "claim": "One pass of conditional assembly (asm::resolver::resolve_ifs), for every AST, declaration table and definition table: every `#if` node whose condition evaluates from constants alone to a boolean is replaced, in place, by exactly the nodes of the selected arm - the true arm if the condition is true, otherwise the else/elif arm if there is one, otherwise nothing; every other node (undecided `#if`s included) is kept, in order; the returned count is the number of replaced nodes; a failing evaluation is an error with a diagnostic. After the last pass (check_leftover_ifs): success means no `#if` node is left; a condition that cannot be decided from constants alone is an error with a diagnostic. Command-line defines (check_unused_defines): the result is an error, with a diagnostic, exactly when some define names no declaration (global dotted path lookup).",
        "not_reached": "nesting to any depth is by iteration of the pass in assemble()'s first loop (closure + Option::as_mut chains, not under contract) - arms are spliced in and revisited by the next pass; that nothing of an unselected arm is visible (no code path touches a removed node) is structural; that a define replaces the constant's value (resolve_constant_simple: iter().find with a closure); -d parsing in the driver (string code; D5 described only); elif is represented by the parser as a nested `#if` in the else arm",
        "trusted_base": REPORT_TB + RESOLVER_TB + ["ASSUMED: eval_simple is a function of (decls, defs, expression) [simple_value]; R27 wrapper for Vec::splice(n..n, items) = insertion; vstd's Vec::remove; R16 wrapper for str::split('.').collect()"],
    },
    "C19": {
        "units": ALL_UNITS,
        "claim": "Machine-word arithmetic is not treated as mathematical: every usize/u64 operation in the verified set carries an overflow obligation, all discharged except the listed known findings D9a-D9h (unchecked position arithmetic). Proved limits: checked_add/sub/mul/shl never yield more than BIGINT_MAX_BITS bits and fail loudly beyond the cap; checked_into/expect_usize/expect_nonzero_usize are exact and total on their range; the evaluation depth check (function calls, asm blocks) fails loudly exactly at depth 25 and above.",
        "not_reached": "that the depth counter is incremented on every recursive path and the parser's own limit (check_recursion_limit sits on the token walker), stack depth as such, time and memory bounds",
        "trusted_base": NUMBIGINT_TB + REPORT_TB + RESOLVER_TB,
    },
    "C04": {
        "units": ["U-bigint", "U-constrain", "U-resolver"],
        "claim": "For every integer v and every width N >= 1: check_and_constrain_argument returns Integer(v) with size Some(N) exactly when v is in the range the property states for uN/sN/iN, and FailedConstraint otherwise; the value is never changed. BigInt::min_size equals the minimal two's-complement width (proved against a recursive bit-length spec, with the lemma min_size(v) <= N <=> -2^(N-1) <= v < 2^N); BigInt::slice keeps exactly the named bits (low N bits for slice(N,0)). Data directives: resolve_data_element, in a last pass, stores for a directive of width N an encoding of size N that holds exactly the N low bits of a value whose size (declared, or minimal two's-complement width) is at most N - a wider value is an error, never cut.",
        "not_reached": "parsing of the type names (interpret_typename, string code) and of #dN; that a FailedConstraint argument always fails the instruction (resolve_instruction_match_inner uses iter().enumerate(): outside the verified set; defect D17 there was repaired, replay only); that resolve_data_element accepts EVERY value that fits (only soundness of acceptance is stated); width 0 (known finding D7).",
        "trusted_base": NUMBIGINT_TB + REPORT_TB,
    },
    "C05": {
        "units": ["U-bigint", "U-literal"],
        "claim": "util::BigInt integer layer, for all unbounded integers: checked_add/sub/mul are exact or Err beyond the magnitude cap; checked_div truncates toward zero and fails exactly on a zero divisor; checked_mod has the sign of the dividend; checked_shl multiplies by 2^k, checked_shr floors; slice/concat select and join exactly the named bits of the infinite two's-complement expansion and produce sized non-negative values; neg, &, |, ^ forward to the big-integer operation; sizes are tracked as stated; from_bytes_be (string values): size 8 x bytes and the unsigned big-endian value. Literals: parse_radix implements the prefix rule (0b/0o/0x/%/$), excerpt_as_usize returns exactly the value of the digits ignoring '_' or fails loudly on a bad digit or a value above the machine word; excerpt_as_bigint returns that value unbounded, with size = digits x bits-per-digit for bases 2/8/16 and no size for decimal, and needs at least one digit.",
        "not_reached": "operator precedence/associativity (expr/parser.rs), the tree-walking evaluator, string escapes/encodings, built-in functions, `!` (byte-level Not), convert_le; the tokenizer that cuts a literal out of the text; strings whose first byte is >= 0x80 (known finding D11)",
        "trusted_base": NUMBIGINT_TB + REPORT_TB,
    },
    "C06": {
        "units": ["U-overlap", "U-output", "U-bitvec", "U-resolver", "U-cursor"],
        "claim": "check_bank_overlap: Ok implies no two bank output windows share a bit (an unsized bank extends to infinity); check_bank_output: Ok implies position + size lies inside a sized bank and a written item's bank has an output offset, and it rejects only such violations; check_bank_usage: the default bank is usable only while it is the only bank; get_output_position = outp + position; fill_banks sets no bit and extends the output to the end of every filled bank; BitVec writes change exactly the addressed bits, so every bit not written is zero and len is the maximum end of writes; misaligned labels are rejected (eval_address). build_output itself is verified: every item goes through usage check, window check, overlap check and then the write, every `unwrap()` in it is justified by the preceding check's postcondition, and the output it returns satisfies the bit-store invariant. Composition (proved as loop invariants of build_output): no two recorded items with an output position share an output bit (every sized item is an entry of the overlap checker, which accepted it against all earlier ones), and every set bit of the output lies inside a recorded item - i.e. every bit not written by an item is zero; and every sized item recorded at logical address a lies inside the output window of a defined bank b at output position outp_b + p with a = addr_b + p / unit_b (under the guards of the known overflow findings D9c/D9h). OverlapChecker::check_and_insert: Ok implies the new (position,size) shares no output bit with any stored entry, the entry list stays ordered/disjoint and is changed by exactly one insertion; Err leaves it unchanged and pushes a message; an entry is rejected only if it touches a stored one.",
        "not_reached": "that the items build_output walks are in the state the resolve passes left them (labels are integers, encodings sized, position + size already computed): assumed in ResolveIterator::next's contract; bank definition parsing",
        "trusted_base": REPORT_TB + NUMBIGINT_TB + RESOLVER_TB + ["ASSUMED spec of <[T]>::binary_search_by (phrased through the closure's contract)", "check_bank_output's precondition position + size <= usize::MAX is not checked at its (unverified) call sites"],
    },
}

NOT_APPLICABLE = {
    "C07": "matching is &str scanning (syntax::token, syntax::Walker, matcher::match_with_rule) plus a metamorphic relation between two runs; Verus has no str byte reasoning and rejects the iterator chains, Kani did not terminate on 4-character symbolic strings; no contract within reach states it",
    "C10": "determinism quantifies over processes, hash seeds and histories; a function contract describes one call; the hash-order-sensitive sites (driver::parse_output_format, format_recursive) are String/sort_by_key/closure code outside Verus' subset",
    "C17": "a relation between two whole assemblies (asm block vs. its inlined expansion); the mechanism is &str substitution plus the evaluator/matcher, outside both verifiers' reach",
    "C18": "getopts/String/HashMap<String,String>/PathBuf code and a usage text; driver.rs is string processing outside Verus' subset and Kani's reach",
}
