    // ---- the two `&dyn Fn` provider call-backs (R17): each field is replaced by an opaque token; what a call-back
    // answers is an uninterpreted function of its token and of the query (ASSUMED: call-backs are pure)
    #[verifier::external_body]
    #[derive(Clone, Copy)]
    pub struct VerifCb { _p: u8 }
    pub uninterp spec fn query_var(cb: VerifCb, level: usize, hierarchy: Seq<String>) -> bool;
    pub uninterp spec fn query_fn(cb: VerifCb, func: Seq<char>, args: Seq<Expr>) -> bool;
    pub uninterp spec fn builtin_known(func: Seq<char>, args: Seq<Expr>) -> bool;
    #[verifier::external_body]
    pub fn verif_query_variable(p: &StaticallyKnownProvider, q: &StaticallyKnownVariableQuery) -> (r: bool)
        ensures r == query_var(p.verif_cb_var, q.hierarchy_level, q.hierarchy@)
    { unimplemented!() }
    #[verifier::external_body]
    pub fn verif_query_function(p: &StaticallyKnownProvider, q: &StaticallyKnownFunctionQuery) -> (r: bool)
        ensures r == query_fn(p.verif_cb_fn, q.func@, q.args@)
    { unimplemented!() }
    #[verifier::external_body]
    pub fn get_statically_known_value_builtin_fn(name: &str, args: &Vec<Expr>) -> (r: bool)
        ensures r == builtin_known(name@, args@)
    { unimplemented!() }

    /// C02/C08, the meaning of "statically known": an expression's value may be frozen after the first pass
    /// only if EVERY sub-expression it evaluates is statically known (a block evaluates all its expressions,
    /// asserts included); a name is a local (a rule parameter: known iff its argument is) or else asks the
    /// variable call-back; calls defer to the built-in table or the function call-back
    pub open spec fn known_m(e: Expr, locals: Map<String, StaticallyKnownLocal>, cbv: VerifCb, cbf: VerifCb) -> bool
        decreases e
    {
        match e {
            Expr::Variable(_, level, hierarchy) =>
                if level == 0 && hierarchy@.len() == 1 && locals.contains_key(hierarchy@[0]) { locals[hierarchy@[0]].value_known }
                else { query_var(cbv, level, hierarchy@) },
            Expr::Literal(_, _) => true,
            Expr::UnaryOp(_, _, _, _) => false,
            Expr::BinaryOp(_, _, _, lhs, rhs) => known_m(*lhs, locals, cbv, cbf) && known_m(*rhs, locals, cbv, cbf),
            Expr::Slice(_, _, l, r, x) => known_m(*l, locals, cbv, cbf) && known_m(*r, locals, cbv, cbf) && known_m(*x, locals, cbv, cbf),
            Expr::SliceShort(_, _, s, x) => known_m(*s, locals, cbv, cbf) && known_m(*x, locals, cbv, cbf),
            Expr::TernaryOp(_, c, t, f) => known_m(*c, locals, cbv, cbf) && known_m(*t, locals, cbv, cbf) && known_m(*f, locals, cbv, cbf),
            Expr::Block(_, exprs) => forall|i: int| 0 <= i < exprs@.len() ==> known_m(#[trigger] exprs@[i], locals, cbv, cbf),
            Expr::Call(_, func, args) =>
                (*func) is Variable && (*func)->Variable_1 == 0
                && (forall|i: int| 0 <= i < args@.len() ==> known_m(#[trigger] args@[i], locals, cbv, cbf))
                && (*func)->Variable_2@.len() == 1
                && (builtin_known((*func)->Variable_2@[0]@, args@) || query_fn(cbf, (*func)->Variable_2@[0]@, args@)),
            Expr::Asm(_, _) => false,
        }
    }
    pub open spec fn known(e: Expr, p: &StaticallyKnownProvider) -> bool { known_m(e, p.locals@, p.verif_cb_var, p.verif_cb_fn) }
    impl Clone for Value {
        #[verifier::external_body]
        fn clone(&self) -> (r: Value) ensures r == *self { unimplemented!() }
    }
