//@@INCLUDE _shared/header.rs
//@@INCLUDE _shared/ispec.rs
//@@INCLUDE _shared/num_bigint.rs
//@@INCLUDE _shared/std_gaps.rs
pub mod axioms {
    use vstd::prelude::*;
    verus! {
    /// ASSUMED: String keys behave as hash-map keys
    #[verifier::allow(broadcast_without_trigger)]
    pub broadcast axiom fn axiom_string_key_model()
        ensures vstd::std_specs::hash::obeys_key_model::<String>();
    }
}
pub mod diagn {
    use vstd::prelude::*;
    verus! {
    #[verifier::external_body]
    pub struct Message { _p: u8 }
    #[verifier::external_body]
    #[derive(Clone, Copy)]
    pub struct Span { _p: u8 }
    }
}
pub mod util {
    use vstd::prelude::*;
    use vstd::std_specs::convert::*;
    use crate::*;
    use crate::ispec::*;
    verus! {
    //@@ITEMS util
    }
}
pub mod asm {
    use vstd::prelude::*;
    verus! {
    #[verifier::external_body]
    pub struct AstTopLevel { _p: u8 }
    }
}
pub mod expr {
    use vstd::prelude::*;
    use crate::*;
    verus! {
    broadcast use {vstd::std_specs::hash::group_hash_axioms, crate::axioms::axiom_string_key_model};

    // ---- wrappers for the two `&dyn Fn` provider call-backs (R17): ASSUMED to be pure functions of their query
    pub uninterp spec fn query_var(p: &StaticallyKnownProvider, level: usize, hierarchy: Seq<String>) -> bool;
    pub uninterp spec fn query_fn(p: &StaticallyKnownProvider, func: Seq<char>, args: Seq<Expr>) -> bool;
    pub uninterp spec fn builtin_known(func: Seq<char>, args: Seq<Expr>) -> bool;
    #[verifier::external_body]
    pub fn verif_query_variable(p: &StaticallyKnownProvider, q: &StaticallyKnownVariableQuery) -> (r: bool)
        ensures r == query_var(p, q.hierarchy_level, q.hierarchy@)
    { unimplemented!() }
    #[verifier::external_body]
    pub fn verif_query_function(p: &StaticallyKnownProvider, q: &StaticallyKnownFunctionQuery) -> (r: bool)
        ensures r == query_fn(p, q.func@, q.args@)
    { unimplemented!() }
    #[verifier::external_body]
    pub fn get_statically_known_value_builtin_fn(name: &str, args: &Vec<Expr>) -> (r: bool)
        ensures r == builtin_known(name@, args@)
    { unimplemented!() }

    /// C02/C08, the meaning of "statically known": an expression's value may be frozen after the first pass
    /// only if EVERY sub-expression it evaluates is statically known (a block evaluates all its expressions,
    /// asserts included); variables and calls defer to the provider
    pub open spec fn known(e: Expr, p: &StaticallyKnownProvider) -> bool
        decreases e
    {
        match e {
            Expr::Variable(_, level, hierarchy) =>
                if level == 0 && hierarchy@.len() == 1 && p.locals@.contains_key(hierarchy@[0]) { p.locals@[hierarchy@[0]].value_known }
                else { query_var(p, level, hierarchy@) },
            Expr::Literal(_, _) => true,
            Expr::UnaryOp(_, _, _, _) => false,
            Expr::BinaryOp(_, _, _, lhs, rhs) => known(*lhs, p) && known(*rhs, p),
            Expr::Slice(_, _, l, r, x) => known(*l, p) && known(*r, p) && known(*x, p),
            Expr::SliceShort(_, _, s, x) => known(*s, p) && known(*x, p),
            Expr::TernaryOp(_, c, t, f) => known(*c, p) && known(*t, p) && known(*f, p),
            Expr::Block(_, exprs) => forall|i: int| 0 <= i < exprs@.len() ==> known(#[trigger] exprs@[i], p),
            Expr::Call(_, func, args) =>
                (*func) is Variable && (*func)->Variable_1 == 0
                && (forall|i: int| 0 <= i < args@.len() ==> known(#[trigger] args@[i], p))
                && (*func)->Variable_2@.len() == 1
                && (builtin_known((*func)->Variable_2@[0]@, args@) || query_fn(p, (*func)->Variable_2@[0]@, args@)),
            Expr::Asm(_, _) => false,
        }
    }
    impl Clone for Value {
        #[verifier::external_body]
        fn clone(&self) -> (r: Value) ensures r == *self { unimplemented!() }
    }
    //@@ITEMS expr
    }
}
