from vfw.spec import Unit, Fn, Type, Impl, C, Loop, Rewrite, Insert
from units import contracts_bigint as cb

F = "src/expr/inspect.rs"
FE = "src/expr/expression.rs"

HINT_BLOCK = ("                    proof { assert(*expr == exprs@[it.index@ as int]); assert(self->Block_1 == *exprs);"
              " assert(decreases_to!(*self => self->Block_1)); assert(decreases_to!(self->Block_1 => self->Block_1@[it.index@ as int])); }")
HINT_CALL = ("                        proof { assert(*arg == args@[it.index@ as int]); assert(self->Call_2 == *args);"
             " assert(decreases_to!(*self => self->Call_2)); assert(decreases_to!(self->Call_2 => self->Call_2@[it.index@ as int])); }")

is_known = Fn(
    F, "is_value_statically_known", impl="expr::Expr", impl_header="Expr", slot="expr", ret="res", key="Expr::is_value_statically_known",
    props=["C02", "C08", "C03"],
    ensures=[C("known_iff_every_evaluated_subexpression_is", "res == known(*self, provider)", ["C02", "C08"])],
    decreases="self",
    rewrites=[
        Rewrite("(provider.query_variable)(&query)", "verif_query_variable(provider, &query)", rule="R17", why="call through a `&dyn Fn` field -> prelude wrapper with an ASSUMED pure-function contract"),
        Rewrite("(provider.query_function)(&query)", "verif_query_function(provider, &query)", rule="R17", why="call through a `&dyn Fn` field -> prelude wrapper"),
        Rewrite("expr::get_statically_known_value_builtin_fn(", "get_statically_known_value_builtin_fn(", rule="R6", why="module path"),
        Rewrite("*func.as_ref()", "**func", rule="R18", why="`Box::as_ref` has no vstd specification: `*b.as_ref()` is written as the equivalent deref `**b`"),
        Rewrite(r"for expr in exprs\b", "for expr in it: exprs", regex=True, count=None, rule="R5", why="ghost iterator named"),
        Rewrite(r"for arg in args\b", "for arg in it: args", regex=True, count=None, rule="R5", why="ghost iterator named"),
    ],
    loops={
        "for expr in": Loop(invariant=[C("shape", "*self is Block && self->Block_1 == *exprs"),
                           C("prefix_known", "forall|i: int| 0 <= i < it.index@ ==> known(#[trigger] exprs@[i], provider)")],
                body_start=HINT_BLOCK),
        "for arg in": Loop(invariant=[C("shape", "*self is Call && self->Call_2 == *args"),
                           C("prefix_known", "forall|i: int| 0 <= i < it.index@ ==> known(#[trigger] args@[i], provider)")],
                body_start=HINT_CALL),
    },
)

UNIT = Unit(
    "U-inspect", "u_inspect/skeleton.rs",
    items=[t.in_slot("util") for t in cb.TYPES] + [
        Type(FE, "enum", "Expr", slot="expr"),
        Type(FE, "enum", "Value", slot="expr"),
        Type(FE, "struct", "ExprString", slot="expr"),
        Type(FE, "enum", "UnaryOp", slot="expr", derive="Clone, Copy"),
        Type(FE, "enum", "BinaryOp", slot="expr", derive="Clone, Copy"),
        Type(F, "struct", "StaticallyKnownProvider", slot="expr",
             rewrites=[Rewrite("\tpub query_variable: &'a dyn Fn(&StaticallyKnownVariableQuery) -> bool,\n\tpub query_function: &'a dyn Fn(&StaticallyKnownFunctionQuery) -> bool,\n",
                               "\tpub verif_cb_var: VerifCb,\n\tpub verif_cb_fn: VerifCb,\n\tpub _marker: core::marker::PhantomData<&'a u8>,\n", rule="R17",
                               why="the two `&dyn Fn` call-back fields become opaque tokens (calls through them go to the wrappers, which answer an uninterpreted function of the token and the query)")]),
        Type(F, "struct", "StaticallyKnownVariableQuery", slot="expr"),
        Type(F, "struct", "StaticallyKnownFunctionQuery", slot="expr"),
        Type(F, "struct", "StaticallyKnownLocal", slot="expr"),
        is_known,
    ],
    serves=["C02", "C08", "C03"],
    description="expr::inspect::is_value_statically_known: the conservative 'value is statically known' analysis behind the resolved short-cut",
)
