//@@INCLUDE _shared/header.rs
//@@INCLUDE _shared/ispec.rs
//@@INCLUDE _shared/num_bigint.rs
//@@INCLUDE _shared/std_gaps.rs
pub mod axioms {
    use vstd::prelude::*;
    verus! {
    /// ASSUMED: String keys behave as hash-map keys
    #[verifier::allow(broadcast_without_trigger)]
    pub broadcast axiom fn axiom_string_key_model()
        ensures vstd::std_specs::hash::obeys_key_model::<String>();
    }
}
pub mod diagn {
    use vstd::prelude::*;
    verus! {
    #[verifier::external_body]
    pub struct Message { _p: u8 }
    #[verifier::external_body]
    #[derive(Clone, Copy)]
    pub struct Span { _p: u8 }
    }
}
pub mod util {
    use vstd::prelude::*;
    use vstd::std_specs::convert::*;
    use crate::*;
    use crate::ispec::*;
    verus! {
    #[verifier::external_body]
    pub struct SymbolContext { _p: u8 }
    /// opaque stand-in for the symbol table (its look-up is the subject of U-symbols)
    #[verifier::external_body]
    #[verifier::reject_recursive_types(T)]
    pub struct SymbolManager<T> { _p: core::marker::PhantomData<T> }
    impl<T> SymbolManager<T> {
        /// the declaration a reference denotes in a label scope (proved to be the level rule in U-symbols; uninterpreted here)
        pub uninterp spec fn spec_find<S>(&self, ctx: &SymbolContext, level: usize, hierarchy: Seq<S>) -> Option<ItemRef<T>>;
    }
    /// `STRING == "lit"` compares the texts (R16; ASSUMED)
    #[verifier::external_body]
    pub fn verif_string_is(a: &String, b: &str) -> (r: bool) ensures r == (a@ == b@) { unimplemented!() }
    //@@ITEMS util
    }
}
pub mod asm {
    use vstd::prelude::*;
    use crate::*;
    use crate::expr::*;
    verus! {
    broadcast use {vstd::std_specs::hash::group_hash_axioms, crate::axioms::axiom_string_key_model};
    #[verifier::external_body]
    pub struct AstTopLevel { _p: u8 }
    /// stand-ins for asm::ItemDecls / asm::ItemDefs / asm::Symbol: only the fields the verified functions read
    pub struct ItemDecls { pub symbols: util::SymbolManager<Symbol> }
    pub struct ItemDefs { pub ruledefs: DefList<Ruledef>, pub symbols: DefList<Symbol> }
    pub struct Symbol { pub value_statically_known: bool }
    #[verifier::external_body]
    pub struct InstructionMatchResolution { _p: u8 }
    //@@INCLUDE u_matchknown/spec.rs
    //@@ITEMS asm
    }
}
pub mod expr {
    use vstd::prelude::*;
    use crate::*;
    verus! {
    broadcast use {vstd::std_specs::hash::group_hash_axioms, crate::axioms::axiom_string_key_model};

    //@@INCLUDE u_inspect/known_spec.rs
    //@@ITEMS expr
    }
}
