from vfw.spec import Unit, Fn, Type, Impl, C, Loop, Rewrite, Insert
from units.common import itemref_items, deflist_fns
from units import contracts_bigint as cb
from units.u_inspect import unit as uin

FM = "src/asm/matcher/mod.rs"
FR = "src/asm/defs/ruledef.rs"
FI = "src/expr/inspect.rs"

provider_new = Fn(FI, "new", impl="<'a> StaticallyKnownProvider<'a>", impl_header="<'a> StaticallyKnownProvider<'a>", slot="expr", mode="stub", ret="res", key="StaticallyKnownProvider::new",
    ensures=[C("fresh", "res.locals@ == Map::<String, StaticallyKnownLocal>::empty() && res.verif_cb_var == crate::asm::cb_never() && res.verif_cb_fn == crate::asm::cb_never()")])
local_new = Fn(FI, "new", impl="StaticallyKnownLocal", slot="expr", ret="res", key="StaticallyKnownLocal::new", props=["C02"],
    ensures=[C("unknown_unsized", "res == (StaticallyKnownLocal { size: None, value_known: false })", ["C02"])])
get_rule = Fn(FR, "get_rule", impl="Ruledef", slot="asm", mode="stub", ret="res", key="Ruledef::get_rule",
    requires=[C("in_range", "rule_ref.0 < self.rules@.len()")], ensures=[C("the_rule", "*res == self.rules@[rule_ref.0 as int]")])

FSYM = "src/util/symbol_manager.rs"
try_get = Fn(FSYM, "try_get_by_name", impl="<T> SymbolManager<T>", impl_header="<T> SymbolManager<T>", slot="util", mode="stub", ret="res", key="SymbolManager::try_get_by_name",
    ensures=[C("the_declaration_the_reference_denotes", "res == self.spec_find(ctx, hierarchy_level, hierarchy@)")])
CAPS = [("decls", "&asm::ItemDecls", "decls"), ("defs", "&asm::ItemDefs", "defs"), ("symbol_ctx", "&util::SymbolContext", "symbol_ctx")]
FOUND = "decls.symbols.spec_find(symbol_ctx, query.hierarchy_level, query.hierarchy@)"
query_variable = Fn(FM, "get_match_statically_known", slot="asm", ret="res", key="matcher::get_match_statically_known::query_variable", gen_name="verif_closure_query_variable", props=["C02", "C08", "C03"],
    lift={"closure": "query_variable", "captures": CAPS, "part": "lifted", "free": True, "uncalled": True, "ret_type": "bool"},
    requires=[C("declared_symbols_are_defined", "%s is Some ==> (%s->0).0 < defs.symbols.defs@.len() && defs.symbols.defs@[(%s->0).0 as int] is Some" % (FOUND, FOUND, FOUND), ["C03"])],
    ensures=[
        C("the_current_address_is_never_known_before_resolution_whatever_symbols_exist",
          "query.hierarchy_level == 0 && query.hierarchy@.len() == 1 && (query.hierarchy@[0]@ == \"$\"@ || query.hierarchy@[0]@ == \"pc\"@) ==> !res", ["C02", "C08"]),
        C("otherwise_the_flag_of_the_symbol_the_reference_denotes",
          "!(query.hierarchy_level == 0 && query.hierarchy@.len() == 1 && (query.hierarchy@[0]@ == \"$\"@ || query.hierarchy@[0]@ == \"pc\"@)) ==> res == (match %s { None => false, Some(r) => (defs.symbols.defs@[r.0 as int]->0).value_statically_known })" % FOUND, ["C02"]),
    ],
    rewrites=[Rewrite(r'query\.hierarchy\[0\] == ("[^"]*")', r"util::verif_string_is(&query.hierarchy[0], \1)", regex=True, count=None, rule="R16", why="`String == &str` (no vstd specification) -> prelude wrapper comparing the texts")],
)

ARGS = "decls, defs, symbol_ctx"
known = Fn(FM, "get_match_statically_known", slot="asm", ret="res", key="matcher::get_match_statically_known", props=["C02", "C08", "C03"],
    requires=[C("match_refers_to_defined_rules", "match_ok(defs, *mtch)", ["C03"])],
    ensures=[C("known_iff_the_production_is_with_parameters_bound_to_their_arguments", "res == match_known(%s, *mtch)" % ARGS, ["C02", "C08"])],
    decreases="*mtch",
    lift={"closure": "query_variable", "captures": [], "part": "parent", "free": True, "uncalled": True},
    rewrites=[
        Rewrite("provider.query_variable = &query_variable;", "provider.verif_cb_var = verif_cb_symbols(decls, defs, symbol_ctx);", count=2, rule="R17",
                why="the call-back field is an opaque token in the stand-in; the closure `query_variable` (a symbol-table look-up, removed above) is represented by the token cb_symbols(decls, defs, symbol_ctx)"),
        Rewrite("provider.query_function = &asm::resolver::get_statically_known_builtin_fn;", "provider.verif_cb_fn = verif_cb_builtin_fns();", count=2, rule="R17",
                why="the call-back field is an opaque token in the stand-in"),
        Rewrite(r"expr::StaticallyKnownLocal \{\s*value_known: true,\s*\.\.expr::StaticallyKnownLocal::new\(\)\s*\}", "expr::StaticallyKnownLocal { value_known: true, size: expr::StaticallyKnownLocal::new().size }", regex=True, count=2, rule="R16",
                why="struct update syntax `..BASE` (not supported by Verus) -> the remaining field spelled out"),
    ],
    loops={1: Loop(invariant=[
        C("rule", "*rule == rule_of(defs, *mtch) && match_ok(defs, *mtch)"),
        C("argument_scope", "arg_provider.locals@ == Map::<String, expr::StaticallyKnownLocal>::empty() && arg_provider.verif_cb_var == cb_symbols(%s) && arg_provider.verif_cb_fn == cb_builtin_fns()" % ARGS),
        C("locals_so_far", "provider.locals@ == param_locals(%s, *mtch, i as int) && provider.verif_cb_var == cb_symbols(%s) && provider.verif_cb_fn == cb_builtin_fns()" % (ARGS, ARGS)),
    ], body_start="        proof { assert(arg_ok(defs, mtch.args@[i as int])); } let ghost base = provider.locals@;",
       body_end="        proof { let nm = rule_of(defs, *mtch).parameters@[i as int].name; let kn = arg_known(decls, defs, symbol_ctx, *mtch, i as int);"
                " assert(provider.locals@.dom() =~= base.dom().insert(nm));"
                " assert(provider.locals@[nm].value_known == kn);"
                " assert(provider.locals@[nm].size is None);"
                " assert(provider.locals@ =~= base.insert(nm, expr::StaticallyKnownLocal { size: None, value_known: kn }));"
                " assert(provider.locals@ =~= param_locals(decls, defs, symbol_ctx, *mtch, i as int + 1)); }")},
)

UNIT = Unit(
    "U-matchknown", "u_matchknown/skeleton.rs",
    items=[it for it in uin.UNIT.items if getattr(it, "key", None) != "Expr::is_value_statically_known"] + [uin.is_known.as_stub("expr")] + itemref_items("util") + [
        Type(FM, "struct", "InstructionMatch", slot="asm"), Type(FM, "struct", "InstructionArgument", slot="asm"), Type(FM, "enum", "InstructionArgumentKind", slot="asm"),
        Type(FR, "struct", "Rule", slot="asm"), Type(FR, "type", "RulePattern", slot="asm"), Type(FR, "enum", "RulePatternPart", slot="asm"),
        Type(FR, "struct", "RuleParameter", slot="asm"), Type(FR, "enum", "RuleParameterType", slot="asm", derive="Clone, Copy"),
        Type(FR, "struct", "Ruledef", slot="asm"), Type("src/asm/defs/mod.rs", "struct", "DefList", slot="asm"),
    ] + [f for f in deflist_fns("stub", "asm") if f.name == "get"] + [provider_new, local_new, get_rule, Fn(FM, "get_match_static_size", slot="asm", mode="stub", ret="res", key="matcher::get_match_static_size", ensures=[]), try_get, query_variable, known],
    serves=["C02", "C08", "C03"],
    description="matcher::get_match_statically_known: when an instruction match may be frozen after the first pass",
)
