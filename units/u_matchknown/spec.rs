    // ---- C02 / C08: when may an instruction match be frozen after the first pass
    /// the call-back tokens get_match_statically_known installs (R17): the symbol-table look-up of the closure
    /// `query_variable` (ASSUMED meaning: uninterpreted function of the tables and the label scope) and
    /// `get_statically_known_builtin_fn`
    pub uninterp spec fn cb_symbols(decls: &ItemDecls, defs: &ItemDefs, ctx: &util::SymbolContext) -> VerifCb;
    pub uninterp spec fn cb_builtin_fns() -> VerifCb;
    /// the call-backs of a fresh provider (`|_| false`)
    pub uninterp spec fn cb_never() -> VerifCb;
    #[verifier::external_body]
    pub fn verif_cb_symbols(decls: &ItemDecls, defs: &ItemDefs, ctx: &util::SymbolContext) -> (r: VerifCb) ensures r == cb_symbols(decls, defs, ctx) { unimplemented!() }
    #[verifier::external_body]
    pub fn verif_cb_builtin_fns() -> (r: VerifCb) ensures r == cb_builtin_fns() { unimplemented!() }

    pub open spec fn rule_of(defs: &ItemDefs, m: InstructionMatch) -> Rule {
        (defs.ruledefs.defs@[m.ruledef_ref.0 as int]->0).rules@[m.rule_ref.0 as int]
    }
    /// the match and every nested match refer to a defined ruledef and rule, and have one argument per parameter
    pub open spec fn match_ok(defs: &ItemDefs, m: InstructionMatch) -> bool
        decreases m, 1int
    {
        m.ruledef_ref.0 < defs.ruledefs.defs@.len() && defs.ruledefs.defs@[m.ruledef_ref.0 as int] is Some
            && m.rule_ref.0 < (defs.ruledefs.defs@[m.ruledef_ref.0 as int]->0).rules@.len()
            && m.args@.len() == rule_of(defs, m).parameters@.len()
            && forall|i: int| 0 <= i < m.args@.len() ==> arg_ok(defs, #[trigger] m.args@[i])
    }
    pub open spec fn arg_ok(defs: &ItemDefs, a: InstructionArgument) -> bool
        decreases a, 0int
    {
        match a.kind { InstructionArgumentKind::Nested(x) => match_ok(defs, x), _ => true }
    }
    /// is the value of argument i known before the first pass: an expression argument is analysed in the scope of
    /// the instruction (no rule parameter is visible there); a sub-rule argument is known iff its own match is
    pub open spec fn arg_known(decls: &ItemDecls, defs: &ItemDefs, ctx: &util::SymbolContext, m: InstructionMatch, i: int) -> bool
        decreases m, 0int, 0int
    {
        if 0 <= i < m.args@.len() && i < rule_of(defs, m).parameters@.len() {
            match rule_of(defs, m).parameters@[i].typ {
                RuleParameterType::RuledefRef(_) => match m.args@[i].kind {
                    InstructionArgumentKind::Nested(x) => match_known(decls, defs, ctx, x),
                    _ => false,
                },
                _ => match m.args@[i].kind {
                    InstructionArgumentKind::Expr(e) => known_m(e, Map::empty(), cb_symbols(decls, defs, ctx), cb_builtin_fns()),
                    _ => false,
                },
            }
        } else { false }
    }
    /// the locals the rule's production sees: one per parameter (a later parameter of the same name wins), each
    /// known iff its argument is - so a parameter always shadows a global of the same name
    pub open spec fn param_locals(decls: &ItemDecls, defs: &ItemDefs, ctx: &util::SymbolContext, m: InstructionMatch, n: int) -> Map<String, StaticallyKnownLocal>
        decreases m, 0int, n + 1
    {
        if n <= 0 || n > rule_of(defs, m).parameters@.len() { Map::empty() } else {
            param_locals(decls, defs, ctx, m, n - 1).insert(rule_of(defs, m).parameters@[n - 1].name,
                StaticallyKnownLocal { size: None, value_known: arg_known(decls, defs, ctx, m, n - 1) })
        }
    }
    pub open spec fn match_known(decls: &ItemDecls, defs: &ItemDefs, ctx: &util::SymbolContext, m: InstructionMatch) -> bool
        decreases m, 1int, 0int
    {
        known_m(rule_of(defs, m).expr, param_locals(decls, defs, ctx, m, rule_of(defs, m).parameters@.len() as int), cb_symbols(decls, defs, ctx), cb_builtin_fns())
    }
