from vfw.spec import Unit, Fn, Type, Impl, C, Loop, Rewrite, Insert
from units.contracts_report import report_fns, F as RF
from units import contracts_bigint as cb
from units.common import itemref_items

FI = "src/asm/resolver/instruction.rs"
FE = "src/expr/expression.rs"

msg_error_span = Fn(RF, "error_span", impl="Message", slot="diagn", mode="stub", key="Message::error_span")
wrap_in_parents = Fn(RF, "wrap_in_parents", impl="Report", slot="diagn", mode="stub", key="Report::wrap_in_parents")

value_types = [
    Type(FE, "enum", "Value", slot="expr"),
    Type(FE, "struct", "ExprString", slot="expr"),
]

make_integer = Fn(FE, "make_integer", impl="Value", slot="expr", ret="res", props=["C04"],
                  ensures=[C("wraps", "<T as IntoSpec<util::BigInt>>::obeys_into_spec() ==> res == Value::Integer(<T as IntoSpec<util::BigInt>>::into_spec(value))", ["C04"])])

coallesce = Fn(FE, "coallesce_to_integer", impl="Value", slot="expr", ret="res", mode="stub",
               ensures=[C("identity_unless_string", "!(self is String) ==> *res == *self"),
                        C("string_becomes_integer", "self is String ==> *res is Integer")])

expect_bigint = Fn(FE, "expect_bigint", impl="Value", slot="expr", ret="res", props=["C04", "C03"],
                   ensures=[
                       C("ok_iff_integer", "res is Ok <==> self is Integer", ["C04"]),
                       C("ok_value", "res is Ok ==> *res->Ok_0 == self->Integer_0", ["C04"]),
                       C("err_is_loud", "res is Err ==> final(report).msgs() > old(report).msgs()", ["C03"]),
                       C("ok_is_clean", "res is Ok ==> final(report).msgs() == old(report).msgs()", ["C03"]),
                   ])

def _hdr(t):
    return ("|x: &util::BigInt| -> (r: bool)\n                    ensures size >= 1 ==> (r == !in_range_%s(x.val(), size as nat))\n               " % t,
            "proof { if size >= 1 { lemma_min_size_range(x.val(), size as nat); vstd::arithmetic::power2::lemma_pow2_pos((size - 1) as nat); } }")

RANGE = ("match res { Ok(expr::Value::Integer(b)) => in_range(typ, b.val()), Ok(expr::Value::FailedConstraint(_)) => true, _ => true }")

check_arg = Fn(
    FI, "check_and_constrain_argument", slot="resolver", ret="res", props=["C04", "C01", "C03"],
    requires=[C("not_a_subrule_parameter", "!(typ is RuledefRef)", ["C03"])],
    ensures=[
        C("unspecified_is_identity", "typ is Unspecified && value is Integer ==> res == Ok::<expr::Value, ()>(value)", ["C04"]),
        C("accept_iff_in_range",
          "value is Integer && type_size(typ) is Some ==> "
          "(if in_range(typ, value->Integer_0.val()) { res is Ok && res->Ok_0 is Integer && res->Ok_0->Integer_0.val() == value->Integer_0.val() && res->Ok_0->Integer_0.size == type_size(typ) }"
          " else { res is Ok && res->Ok_0 is FailedConstraint })", ["C04", "C01"],
          guard="type_size(typ) is Some ==> type_size(typ)->0 >= 1", finding="D7"),
        C("never_truncates", "res is Ok && res->Ok_0 is Integer && value is Integer ==> res->Ok_0->Integer_0.val() == value->Integer_0.val()", ["C04"]),
        C("err_is_loud", "res is Err ==> final(report).msgs() > old(report).msgs()", ["C03"]),
        C("ok_is_clean", "res is Ok ==> final(report).msgs() == old(report).msgs()", ["C03"]),
    ],
    closures={1: _hdr("u"), 2: _hdr("s"), 3: _hdr("i")},
    rewrites=[
        Rewrite("value\n        .coallesce_to_integer()\n        .expect_bigint(report, span)?\n        .to_owned()",
                "expr::verif_coallesced_bigint(&value, report, span)?", rule="R13",
                why="vstd has no spec for Cow::deref: the chain is replaced by a prelude stub whose ASSUMED contract is the composition of coallesce_to_integer (assumed) and expect_bigint (proved in this unit)"),
    ],
)

check_val = Fn(
    FI, "check_and_constrain_value_for_integer_type", slot="resolver", ret="res", props=["C04", "C03"],
    requires=[C("check_callable", "call_requires(failure_check, (&bigint,))", ["C03"])],
    ensures=[
        C("always_ok", "res is Ok", ["C03"]),
        C("clean", "final(report).msgs() == old(report).msgs()", ["C03"]),
        C("decided_by_check",
          "exists|r: bool| call_ensures(failure_check, (&bigint,), r) && "
          "(if r { res->Ok_0 is FailedConstraint } else { res->Ok_0 is Integer && res->Ok_0->Integer_0.val() == bigint.val() && res->Ok_0->Integer_0.size == Some(size) })", ["C04"]),
    ],
)

UNIT = Unit(
    "U-constrain", "u_constrain/skeleton.rs",
    items=report_fns("stub", "diagn") + [msg_error_span, wrap_in_parents] +
          cb.items("stub", "util", only=["min_size", "sign"]) +
          value_types + [make_integer, expect_bigint] +
          itemref_items("util") + [
           Type("src/asm/defs/ruledef.rs", "enum", "RuleParameterType", slot="asm", derive="Clone, Copy"),
           check_arg, check_val],
    serves=["C04", "C01", "C03"],
    description="typed argument range predicates (asm::resolver::instruction)",
)
