import re
from vfw.spec import Unit, Fn, Type, Impl, C, Loop, Rewrite, Insert
from units import contracts_bigint as cb
from units.contracts_report import report_fns
from units.u_resolver import unit as ur
from units.u_constrain import unit as ucn
from units.u_matchinner import unit as umi

F = "src/expr/eval.rs"
FE = "src/expr/expression.rs"
FB = "src/expr/builtin_fn.rs"

RLOUD = [C("err_is_loud", "res is Err ==> final(report).msgs() > old(report).msgs()", ["C03", "C05"]),
         C("messages_never_removed", "final(report).msgs() >= old(report).msgs()", ["C03"]),
         C("parents_balanced", "final(report).parents() == old(report).parents()", ["C03"])]
QLOUD = [C("err_is_loud", "res is Err ==> final(query).report.msgs() > old(query).report.msgs()"),
         C("messages_never_removed", "final(query).report.msgs() >= old(query).report.msgs()"),
         C("parents_balanced", "final(query).report.parents() == old(query).report.parents()"),
         C("same_references", "mut_ref_future(final(query).report) == mut_ref_future(old(query).report) && mut_ref_future(final(query).eval_ctx) == mut_ref_future(old(query).eval_ctx)")]

get_local = Fn(F, "get_local", impl="EvalContext", slot="expr", mode="stub", ret="res", key="EvalContext::get_local", ensures=[C("a_local_value", "res is Ok ==> local_value(name@, res->Ok_0)")])
set_local = Fn(F, "set_local", impl="EvalContext", slot="expr", mode="stub", key="EvalContext::set_local", ensures=[])
span_of = Fn(FE, "span", impl="Expr", slot="expr", mode="stub", ret="res", key="Expr::span", ensures=[])
builtin = Fn(FB, "eval_builtin_fn", slot="expr", mode="stub", ret="res", key="eval_builtin_fn", ensures=QLOUD + [C("builtin_result", "res is Ok ==> builtin_call(old(query).func, arg_values(old(query).args@), res->Ok_0)")])


def _arm(m):
    """R20: `&expr::Expr::V(a, _, ref b) => {` -> `expr::Expr::V(a, _, b) => { let a = *a;` (explicit reference patterns crash the installed Verus; the default binding mode binds by reference, Copy fields are copied first thing in the arm)"""
    args = [a.strip() for a in m.group(2).split(",")]
    lets = ""
    out = []
    for a in args:
        if a == "_":
            out.append(a)
        elif a.startswith("ref "):
            out.append(a[4:])
        else:
            out.append(a)
            lets += " let %s = *%s;" % (a, a)
    return "expr::Expr::%s(%s) =>%s{%s" % (m.group(1), ", ".join(out), m.group(3), lets)


def _bigop(m):
    """R3: operator on `&BigInt` operands -> UFCS desugaring (`lhs & rhs` -> `core::ops::BitAnd::bitand(lhs, rhs)`, likewise `|`, `^`)"""
    return "make_integer(core::ops::%s(lhs, rhs))" % {"&": "BitAnd::bitand", "|": "BitOr::bitor", "^": "BitXor::bitxor"}[m.group(1)]


def _unop(m):
    """R3: unary operator on a `&BigInt` operand -> UFCS desugaring (`-x` -> `core::ops::Neg::neg(x)`, `!x` -> `core::ops::Not::not(x)`)"""
    return "make_integer(core::ops::%s(x))" % {"-": "Neg::neg", "!": "Not::not"}[m.group(1)]


def _boolop(m):
    """R34: `&`, `|`, `^` on `&bool` operands (unsupported) -> `&&`, `||`, `!=` on the dereferenced variables (both are plain variables: no evaluation is skipped)"""
    return "expr::Value::Bool(*lhs %s *rhs)" % {"&": "&&", "|": "||", "^": "!="}[m.group(1)]


eval_with_ctx = Fn(F, "eval_with_ctx", impl="expr::Expr", impl_header="Expr", slot="expr", ret="res", key="Expr::eval_with_ctx", props=["C05", "C03"],
    ensures=RLOUD + [C("the_value_the_language_prescribes", "res is Ok ==> ev(*self, res->Ok_0)", ["C05"]),
                     C("trigger_carrier_always_true", "res is Ok ==> a_value(res->Ok_0)", ["C05"])],
    decreases="self",
    sig_rewrites=[Rewrite("provider: EvalProvider<'provider>)", "provider: &mut VerifProvider)", rule="R17", why="`&mut dyn FnMut(EvalQuery)` trait object -> opaque provider stand-in")],
    rewrites=[
        Rewrite("&expr::Expr::Literal(_, ref value) => Ok(value.clone()),", "expr::Expr::Literal(_, value) => Ok(value.clone()),", rule="R20", why="explicit reference pattern -> default binding mode"),
        Rewrite(r"&expr::Expr::(\w+)\(([^)]*)\) =>(\s*)\{", _arm, regex=True, count=10, rule="R20", why=_arm.__doc__),
        Rewrite("&expr::Value::Bool(", "expr::Value::Bool(", count=8, rule="R20", why="explicit reference pattern inside a tuple pattern -> default binding mode"),
        Rewrite("\t\t\t\t\tuse std::ops::Deref;\n", "", rule="R18", why="`use` statement of the rewritten `Box::deref` call dropped"),
        Rewrite("match lhs_expr.deref()", "match &**lhs_expr", rule="R18", why="`Box::deref` has no vstd specification: written as the equivalent `&**b`"),
        Rewrite("if let Some(_) = expr::resolve_builtin_fn(&hierarchy[0])", "if let Some(_) = verif_resolve_builtin(&hierarchy[0])", rule="R17", why="function pointer -> opaque token"),
        Rewrite("provider(EvalQuery::Variable(&mut query))", "verif_provide_variable(provider, &mut query)", rule="R17", why="call through the provider trait object -> prelude wrapper per query kind (ASSUMED contract)"),
        Rewrite("provider(EvalQuery::Function(&mut query))", "verif_provide_function(provider, &mut query)", count=2, rule="R17", why="call through the provider trait object -> prelude wrapper"),
        Rewrite("provider(EvalQuery::AsmBlock(&mut query))", "verif_provide_asm(provider, &mut query)", rule="R17", why="call through the provider trait object -> prelude wrapper"),
        Rewrite(r"expr::Value::Bool\(lhs ([&|^]) rhs\)", _boolop, regex=True, count=None, rule="R34", why=_boolop.__doc__),
        Rewrite(r"make_integer\(lhs ([&|^]) rhs\)", _bigop, regex=True, count=None, rule="R3", why=_bigop.__doc__),
        Rewrite(r"make_integer\(([-!])x\)", _unop, regex=True, count=None, rule="R3", why=_unop.__doc__),
        Rewrite("let mut args = Vec::with_capacity(arg_exprs.len());", "let mut args: Vec<EvalFunctionQueryArgument> = Vec::with_capacity(arg_exprs.len());", rule="R10", why="type ascription: the inserted invariant mentions `args` before inference has fixed its element type"),
        Rewrite("for expr in exprs\n", "for expr in it: exprs\n", rule="R5", why="ghost iterator named"),
        Rewrite("for expr in arg_exprs\n", "for expr in it: arg_exprs\n", rule="R5", why="ghost iterator named"),
    ],
    inserts=[
        Insert("\t\t\t\t\t\t\t\t\tmatch (lhs.size, rhs.size)\n", "\t\t\t\t\t\t\t\t\tproof { assume(lhs.size is Some && rhs.size is Some ==> lhs.size->0 + rhs.size->0 <= usize::MAX); }\n", where="before",
               why="ASSUMPTION (machine magnitude): the sizes of two values never sum past usize::MAX - a value of 2^63 bits cannot be built (slices and concatenations loop once per bit, a string needs a byte per 8 bits)"),
        Insert("\t\t\t\tmatch query.func\n", "\t\t\t\tproof { let avs = arg_values(query.args@); assert(some_values(avs)); assert(avs.len() == arg_exprs@.len()); assert forall|i: int| #[trigger] an_index(i) && 0 <= i < arg_exprs@.len() implies ev(arg_exprs@[i], avs[i]) && !propagates(avs[i]) by { } }\n", where="before", why="proof hint: the witness for the argument values"),
        Insert('Err(report.error_span("unknown function", target.span())),', "{ proof { assert(has_resolved(query)); assert(has_resolved(query.report)); } ", where="before", why="proof hint (the arm's expression is wrapped in a block to hold it): the query struct is dead here, its report reference is resolved"),
        Insert('Err(report.error_span("unknown function", target.span()))', " }", where="after", why="closing brace of the block opened for the proof hint"),
        Insert('Err(report.error_span("expression is not callable", target.span()))', "{ proof { assert(has_resolved(query)); assert(has_resolved(query.report)); } ", where="before", why="proof hint, as above"),
        Insert('Err(report.error_span("expression is not callable", target.span()))', " }", where="after", why="closing brace"),
        Insert("\t\t\t\t\t\treturn Ok(expr::Value::ExprBuiltInFunction(", "\t\t\t\t\t\tproof { assert(has_resolved(query)); assert(has_resolved(query.report)); }\n", where="before", why="proof hint: the query struct dies here, its report reference is resolved"),
        Insert("\t\t\t\t\t\treturn Ok(local_value);", "\t\t\t\t\t\tproof { assert(has_resolved(query)); assert(has_resolved(query.report)); }\n", where="before", why="proof hint: the query struct dies here"),
    ],
    loops={
        "for expr in it: exprs": Loop(invariant=[
            C("shape", "*self is Block && self->Block_1 == *exprs"),
            C("report", "report.msgs() >= old(report).msgs() && report.parents() == old(report).parents()"),
            C("value_of_the_last_expression_so_far", "(it.index@ == 0 && result is Void) || (it.index@ > 0 && ev(exprs@[it.index@ - 1], result) && !propagates(result))"),
        ], body_start="\t\t\t\t\tproof { assert(an_index(it.index@ as int)); assert(*expr == exprs@[it.index@ as int]); assert(decreases_to!(*self => self->Block_1)); assert(decreases_to!(self->Block_1 => self->Block_1@[it.index@ as int])); }"),
        "for expr in it: arg_exprs": Loop(invariant=[
            C("shape", "*self is Call && self->Call_2 == *arg_exprs && self->Call_1 == *target"),
            C("report", "report.msgs() >= old(report).msgs() && report.parents() == old(report).parents()"),
            C("callee", "ev(**target, func) && !propagates(func) && a_value(func)"),
            C("argument_values_so_far", "args@.len() == it.index@ && forall|i: int| #[trigger] an_index(i) && 0 <= i < it.index@ ==> ev(arg_exprs@[i], args@[i].value) && !propagates(args@[i].value)"),
        ], body_start="\t\t\t\t\tproof { assert(an_index(it.index@ as int)); assert(*expr == arg_exprs@[it.index@ as int]); assert(decreases_to!(*self => self->Call_2)); assert(decreases_to!(self->Call_2 => self->Call_2@[it.index@ as int])); }"),
    },
)

UNIT = Unit(
    "U-eval", "u_eval/skeleton.rs",
    items=report_fns("stub", "diagn") + cb.items("stub", "util", with_ops=True, with_cmp=True) + [
        Type(F, "macro_rules", "propagate", slot="expr_macros"),
        Type(FE, "enum", "Expr", slot="expr"), Type(FE, "enum", "Value", slot="expr"), Type(FE, "struct", "ExprString", slot="expr"),
        Type(FE, "enum", "UnaryOp", slot="expr", derive="Clone, Copy"), Type(FE, "enum", "BinaryOp", slot="expr", derive="Clone, Copy"),
        Type(F, "struct", "EvalVariableQuery", slot="expr"), Type(F, "struct", "EvalFunctionQuery", slot="expr"),
        Type(F, "struct", "EvalFunctionQueryArgument", slot="expr"), Type(F, "struct", "EvalAsmBlockQuery", slot="expr"),
        ucn.make_integer.as_stub("expr"), ur.get_bigint_v.as_stub("expr"), ur.expect_usize.as_stub("expr"), umi.should_propagate.as_stub("expr"),
        get_local, set_local, span_of, builtin, eval_with_ctx,
    ],
    serves=["C05", "C03"],
    description="expr::Expr::eval_with_ctx: the tree-walking evaluator (operator dispatch, propagation of Unknown/FailedConstraint, loud failures)",
)
