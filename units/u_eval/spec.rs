    // ---- the provider side (ASSUMED): whatever answers the three kinds of query fails loudly, leaves the parent
    // stack balanced and hands the report reference back
    pub uninterp spec fn is_expr_builtin(name: Seq<char>) -> bool;
    #[verifier::external_body]
    pub fn verif_resolve_builtin(name: &str) -> (r: Option<VerifBuiltinFn>)
        ensures (r is Some) == is_expr_builtin(name@)
    { unimplemented!() }
    #[verifier::external_body]
    pub fn verif_provide_variable(p: &mut VerifProvider, q: &mut EvalVariableQuery) -> (res: Result<Value, ()>)
        ensures
            res is Err ==> final(q).report.msgs() > old(q).report.msgs(),
            final(q).report.msgs() >= old(q).report.msgs(),
            final(q).report.parents() == old(q).report.parents(),
            mut_ref_future(final(q).report) == mut_ref_future(old(q).report),
            res is Ok ==> provided_variable(old(q).hierarchy_level, old(q).hierarchy@, res->Ok_0),
    { unimplemented!() }
    #[verifier::external_body]
    pub fn verif_provide_function(p: &mut VerifProvider, q: &mut EvalFunctionQuery) -> (res: Result<Value, ()>)
        ensures
            res is Err ==> final(q).report.msgs() > old(q).report.msgs(),
            final(q).report.msgs() >= old(q).report.msgs(),
            final(q).report.parents() == old(q).report.parents(),
            mut_ref_future(final(q).report) == mut_ref_future(old(q).report),
            mut_ref_future(final(q).eval_ctx) == mut_ref_future(old(q).eval_ctx),
            res is Ok ==> provided_call(old(q).func, arg_values(old(q).args@), res->Ok_0),
    { unimplemented!() }
    #[verifier::external_body]
    pub fn verif_provide_asm(p: &mut VerifProvider, q: &mut EvalAsmBlockQuery) -> (res: Result<Value, ()>)
        ensures
            res is Err ==> final(q).report.msgs() > old(q).report.msgs(),
            final(q).report.msgs() >= old(q).report.msgs(),
            final(q).report.parents() == old(q).report.parents(),
            mut_ref_future(final(q).report) == mut_ref_future(old(q).report),
            mut_ref_future(final(q).eval_ctx) == mut_ref_future(old(q).eval_ctx),
            res is Ok ==> provided_asm(*old(q).ast, res->Ok_0),
    { unimplemented!() }
    // ---- built-in functions (U-builtin)
    /// byte length of the UTF-8 text (String::len; uninterpreted)
    pub uninterp spec fn utf8_len(s: Seq<char>) -> nat;
    /// R16 helper (ASSUMED): `self.coallesce_to_integer().get_bigint()`
    #[verifier::external_body]
    pub fn verif_coalesced_bigint(v: &Value) -> (r: Option<util::BigInt>)
        ensures r == (if numeric(*v) { Some(num_of(*v)) } else { None::<util::BigInt> })
    { unimplemented!() }
    /// R22 helper: `format!(LIT, arg)` with a string argument (text uninterpreted)
    #[verifier::external_body]
    pub fn verif_fmt_str(lit: &str, arg: &String) -> (r: String) { unimplemented!() }
    #[verifier::external_body]
    pub fn verif_string_len(s: &String) -> (r: usize) ensures r == utf8_len(s@) { unimplemented!() }
    // ---- C05: a relational big-step semantics of expressions, written from the language description.
    // `ev(e, v)`: v is a value the expression e may evaluate to. What the evaluation context and the provider
    // answer (locals, symbols, function calls, asm blocks) are uninterpreted relations.
    pub uninterp spec fn local_value(name: Seq<char>, v: Value) -> bool;
    pub uninterp spec fn provided_variable(level: usize, hierarchy: Seq<String>, v: Value) -> bool;
    pub uninterp spec fn provided_call(func: Value, args: Seq<Value>, v: Value) -> bool;
    pub uninterp spec fn builtin_call(func: Value, args: Seq<Value>, v: Value) -> bool;
    pub uninterp spec fn provided_asm(ast: asm::AstTopLevel, v: Value) -> bool;
    pub open spec fn arg_values(args: Seq<EvalFunctionQueryArgument>) -> Seq<Value> { Seq::new(args.len(), |i: int| args[i].value) }
    /// Unknown and FailedConstraint pass through every operator unchanged
    pub open spec fn propagates(v: Value) -> bool { v is Unknown || v is FailedConstraint }
    pub open spec fn is_int(v: Value, val: int, size: Option<usize>) -> bool { v is Integer && v->Integer_0.val() == val && v->Integer_0.size == size }
    pub open spec fn numeric(v: Value) -> bool { v is Integer || v is String }
    pub open spec fn unary(op: UnaryOp, x: Value, v: Value) -> bool {
        match x {
            Value::Integer(a) => match op { UnaryOp::Neg => is_int(v, -a.val(), None), UnaryOp::Not => is_int(v, -a.val() - 1, None) },
            Value::Bool(b) => op is Not && v == Value::Bool(!b),
            _ => false,
        }
    }
    /// `x @ y`: both sized; the result has the sum of the sizes, y's bits below x's
    pub open spec fn concat_of(x: util::BigInt, y: util::BigInt, r: util::BigInt) -> bool {
        x.size is Some && y.size is Some && r.size == Some((x.size->0 + y.size->0) as usize)
        && forall|j: nat| #[trigger] bit_of(r.val(), j) == (if j < y.size->0 { bit_of(y.val(), j) } else { j < x.size->0 + y.size->0 && bit_of(x.val(), (j - y.size->0) as nat) })
    }
    /// `x[left-1:right]`: bits right .. left-1 of x, as an unsigned value of that many bits
    pub open spec fn slice_of(x: util::BigInt, left: int, right: int, r: util::BigInt) -> bool {
        left >= right && r.size == Some((left - right) as usize)
        && (x.fits_size() ==> forall|j: nat| #[trigger] bit_of(r.val(), j) == (j < left - right && bit_of(x.val(), (right + j) as nat)))
    }
    pub open spec fn binary(op: BinaryOp, a: Value, b: Value, v: Value) -> bool {
        if a is Bool && b is Bool {
            let x = a->Bool_0; let y = b->Bool_0;
            match op {
                BinaryOp::And => v == Value::Bool(x && y),
                BinaryOp::Or => v == Value::Bool(x || y),
                BinaryOp::Xor => v == Value::Bool(x != y),
                BinaryOp::Eq => v == Value::Bool(x == y),
                BinaryOp::Ne => v == Value::Bool(x != y),
                _ => false,
            }
        } else if numeric(a) && numeric(b) {
            let x = num_of(a); let y = num_of(b);
            match op {
                BinaryOp::Add => is_int(v, x.val() + y.val(), None),
                BinaryOp::Sub => is_int(v, x.val() - y.val(), None),
                BinaryOp::Mul => is_int(v, x.val() * y.val(), None),
                BinaryOp::Div => y.val() != 0 && is_int(v, num_bigint::tdiv(x.val(), y.val()), None),
                BinaryOp::Mod => y.val() != 0 && is_int(v, num_bigint::trem(x.val(), y.val()), None),
                BinaryOp::Shl => y.val() >= 0 && is_int(v, x.val() * pow2(y.val() as nat), None),
                BinaryOp::Shr => y.val() >= 0 && is_int(v, x.val() / (pow2(y.val() as nat) as int), None),
                BinaryOp::And => is_int(v, num_bigint::bitand_spec(x.val(), y.val()), None),
                BinaryOp::Or => is_int(v, num_bigint::bitor_spec(x.val(), y.val()), None),
                BinaryOp::Xor => is_int(v, num_bigint::bitxor_spec(x.val(), y.val()), None),
                BinaryOp::Eq => v == Value::Bool(x.val() == y.val()),
                BinaryOp::Ne => v == Value::Bool(x.val() != y.val()),
                BinaryOp::Lt => v == Value::Bool(x.val() < y.val()),
                BinaryOp::Le => v == Value::Bool(x.val() <= y.val()),
                BinaryOp::Gt => v == Value::Bool(x.val() > y.val()),
                BinaryOp::Ge => v == Value::Bool(x.val() >= y.val()),
                BinaryOp::Concat => v is Integer && concat_of(x, y, v->Integer_0),
                _ => false,
            }
        } else { false }
    }
    pub open spec fn call_result(f: Value, avs: Seq<Value>, v: Value) -> bool {
        match f {
            Value::ExprBuiltInFunction(_) => builtin_call(f, avs, v),
            Value::AsmBuiltInFunction(_) => provided_call(f, avs, v),
            Value::Function(_) => provided_call(f, avs, v),
            _ => false,
        }
    }
    pub open spec fn ev(e: Expr, v: Value) -> bool
        decreases e
    {
        match e {
            Expr::Literal(_, value) => v == value,
            Expr::Variable(_, level, h) =>
                if level == 0 && h@.len() == 1 && is_expr_builtin(h@[0]@) { v is ExprBuiltInFunction && v->ExprBuiltInFunction_0@ == h@[0]@ }
                else { (level == 0 && h@.len() == 1 && local_value(h@[0]@, v)) || provided_variable(level, h@, v) },
            Expr::UnaryOp(_, _, op, inner) =>
                exists|x: Value| #[trigger] a_value(x) && ev(*inner, x) && (if propagates(x) { v == x } else { unary(op, x, v) }),
            Expr::BinaryOp(_, _, op, l, r) =>
                if op is Assign {
                    *l is Variable && (*l)->Variable_1 == 0 && (*l)->Variable_2@.len() == 1
                    && exists|x: Value| #[trigger] a_value(x) && ev(*r, x) && (if propagates(x) { v == x } else { v is Void })
                } else if op is LazyOr || op is LazyAnd {
                    exists|a: Value| #[trigger] a_value(a) && ev(*l, a) && (if propagates(a) { v == a } else {
                        a is Bool && (if a->Bool_0 == (op is LazyOr) { v == a } else {
                            exists|b: Value| #[trigger] a_value(b) && ev(*r, b) && (if propagates(b) { v == b } else { b is Bool && v == b }) }) })
                } else {
                    exists|a: Value| #[trigger] a_value(a) && ev(*l, a) && (if propagates(a) { v == a } else {
                        exists|b: Value| #[trigger] a_value(b) && ev(*r, b) && (if propagates(b) { v == b } else { binary(op, a, b, v) }) })
                },
            Expr::TernaryOp(_, c, t, f) =>
                exists|x: Value| #[trigger] a_value(x) && ev(*c, x) && (if propagates(x) { v == x } else {
                    x is Bool && (if x->Bool_0 { ev(*t, v) } else { ev(*f, v) }) }),
            Expr::Slice(_, _, left, right, inner) =>
                exists|x: Value| #[trigger] a_value(x) && ev(*inner, x) && (if propagates(x) { v == x } else { numeric(x) &&
                    exists|a: Value| #[trigger] a_value(a) && ev(*left, a) && (if propagates(a) { v == a } else {
                        exists|b: Value| #[trigger] a_value(b) && ev(*right, b) && (if propagates(b) { v == b } else {
                            a is Integer && b is Integer && v is Integer && slice_of(num_of(x), a->Integer_0.val() + 1, b->Integer_0.val(), v->Integer_0) }) }) }),
            Expr::SliceShort(_, _, size, inner) =>
                exists|x: Value| #[trigger] a_value(x) && ev(*inner, x) && (if propagates(x) { v == x } else { numeric(x) &&
                    exists|a: Value| #[trigger] a_value(a) && ev(*size, a) && (if propagates(a) { v == a } else {
                        a is Integer && v is Integer && slice_of(num_of(x), a->Integer_0.val(), 0, v->Integer_0) }) }),
            Expr::Block(_, exprs) =>
                (exprs@.len() == 0 && v is Void)
                || (exprs@.len() > 0 && ev(exprs@[exprs@.len() - 1], v))
                || (exists|k: int| #[trigger] an_index(k) && 0 <= k < exprs@.len() && ev(exprs@[k], v) && propagates(v)),
            Expr::Call(_, target, args) =>
                exists|f: Value| #[trigger] a_value(f) && ev(*target, f) && (if propagates(f) { v == f } else {
                    (exists|k: int| #[trigger] an_index(k) && 0 <= k < args@.len() && ev(args@[k], v) && propagates(v))
                    || (exists|avs: Seq<Value>| #[trigger] some_values(avs) && avs.len() == args@.len()
                        && (forall|i: int| #[trigger] an_index(i) && 0 <= i < args@.len() ==> ev(args@[i], avs[i]) && !propagates(avs[i]))
                        && call_result(f, avs, v)) }),
            Expr::Asm(_, ast) => provided_asm(ast, v),
        }
    }
