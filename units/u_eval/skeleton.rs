//@@INCLUDE _shared/header.rs
//@@INCLUDE _shared/ispec.rs
//@@INCLUDE _shared/num_bigint.rs
//@@INCLUDE _shared/diagn_opaque.rs
//@@INCLUDE _shared/std_gaps.rs
pub mod util {
    use vstd::prelude::*;
    use vstd::std_specs::convert::*;
    use vstd::std_specs::ops::*;
    use vstd::std_specs::cmp::*;
    use crate::*;
    use crate::ispec::*;
    use vstd::arithmetic::power2::pow2;
    verus! {
    broadcast use {crate::num_bigint::axiom_into_refl_obeys, crate::num_bigint::axiom_into_refl, crate::std_gaps::axiom_ordering_eq_obeys, crate::std_gaps::axiom_ordering_eq};
    //@@INCLUDE _shared/util_bigint_spec.rs
    //@@INCLUDE _shared/util_bigint_cmp.rs
    //@@ITEMS util
    }
}
pub mod asm {
    use vstd::prelude::*;
    verus! {
    #[verifier::external_body]
    pub struct AstTopLevel { _p: u8 }
    }
}
pub mod evtag {
    use vstd::prelude::*;
    use crate::*;
    verus! {
    // Trigger carriers: always-true predicates. A quantifier whose only natural trigger is a recursive call of `ev`
    // is not instantiated by the solver (the call sits at a lower fuel level inside the definition), so the
    // semantics quantifies over `a_value(x) && ..`; the predicate is true of everything (the broadcast lemma).
    #[verifier::opaque]
    pub open spec fn a_value(v: expr::Value) -> bool { true }
    pub broadcast proof fn lemma_a_value(v: expr::Value) ensures #[trigger] a_value(v) { reveal(a_value); }
    #[verifier::opaque]
    pub open spec fn an_index(i: int) -> bool { true }
    pub broadcast proof fn lemma_an_index(i: int) ensures #[trigger] an_index(i) { reveal(an_index); }
    #[verifier::opaque]
    pub open spec fn some_values(s: Seq<expr::Value>) -> bool { true }
    pub broadcast proof fn lemma_some_values(s: Seq<expr::Value>) ensures #[trigger] some_values(s) { reveal(some_values); }
    }
}
pub mod expr {
    use vstd::prelude::*;
    use vstd::std_specs::convert::*;
    use vstd::std_specs::ops::*;
    use vstd::std_specs::cmp::*;
    use crate::*;
    use crate::ispec::*;
    use vstd::arithmetic::power2::pow2;
    verus! {
    broadcast use {crate::num_bigint::axiom_into_refl_obeys, crate::num_bigint::axiom_into_refl, crate::util::axiom_bigint_into_refl_obeys, crate::util::axiom_bigint_into_refl, crate::std_gaps::axiom_ordering_eq_obeys, crate::std_gaps::axiom_ordering_eq,
        crate::evtag::lemma_a_value, crate::evtag::lemma_an_index, crate::evtag::lemma_some_values};
    use crate::evtag::*;
    //@@ITEMS expr_macros
    /// opaque stand-in for expr::EvalContext (locals, token substitutions, recursion depth)
    #[verifier::external_body]
    pub struct EvalContext { _p: u8 }
    /// R17: stand-in for `EvalProvider` = `&mut dyn FnMut(EvalQuery) -> Result<Value, ()>` (trait objects of FnMut are
    /// outside Verus' subset); calls through it go to the three wrappers below
    #[verifier::external_body]
    pub struct VerifProvider { _p: u8 }
    /// R17: opaque token for the function pointer `resolve_builtin_fn` returns
    #[verifier::external_body]
    pub struct VerifBuiltinFn { _p: u8 }
    /// derived PartialEq of the operator enums (ASSUMED to be what #[derive] generates: equal variants)
    impl PartialEqSpecImpl for BinaryOp {
        open spec fn obeys_eq_spec() -> bool { true }
        open spec fn eq_spec(&self, other: &BinaryOp) -> bool { *self == *other }
    }
    impl PartialEq for BinaryOp {
        #[verifier::external_body]
        fn eq(&self, other: &BinaryOp) -> (r: bool) { unimplemented!() }
    }
    //@@INCLUDE _shared/value_eq.rs
    //@@INCLUDE u_eval/spec.rs
    //@@ITEMS expr
    }
}
