    // ---- environment of the listings: file server, character counter, sorting (all ASSUMED, see DESIGN.md)
    pub type FileServerHandle = usize;
    pub trait FileServer {
        /// the text of a file, as a character sequence
        spec fn file_text(&self, file_handle: FileServerHandle) -> Seq<char>;
        /// the name of a file
        spec fn file_name(&self, file_handle: FileServerHandle) -> Seq<char>;
        fn get_str_unwrap(&self, file_handle: FileServerHandle) -> (r: String)
            ensures r@ == self.file_text(file_handle);
        /// ASSUMED: a file that took part in the assembly can be read again (the real method can fail)
        fn get_str(&self, report: &mut diagn::Report, span: Option<diagn::Span>, file_handle: FileServerHandle) -> (r: Result<String, ()>)
            ensures r is Ok && r->Ok_0@ == self.file_text(file_handle);
        fn get_filename(&self, file_handle: FileServerHandle) -> (r: &str)
            ensures r@ == self.file_name(file_handle);
    }
    /// opaque stand-in for util::CharCounter; its functions are pure, so their results are functions of the
    /// text and the arguments (what they compute is proved in U-charcount)
    #[verifier::external_body]
    pub struct CharCounter<'a> { _p: &'a str }
    pub uninterp spec fn excerpt_text(text: Seq<char>, start: int, end: int) -> Seq<char>;
    pub uninterp spec fn excerpt_ok(text: Seq<char>, start: int, end: int) -> bool;
    pub uninterp spec fn lc_line(text: Seq<char>, index: int) -> int;
    pub uninterp spec fn lc_col(text: Seq<char>, index: int) -> int;
    impl<'a> CharCounter<'a> {
        pub uninterp spec fn text(&self) -> Seq<char>;
        #[verifier::external_body]
        pub fn new(src: &'a str) -> (r: CharCounter<'a>) ensures r.text() == src@ { unimplemented!() }
        /// `src.get(start..end).unwrap()`: needs a range on character boundaries inside the text
        #[verifier::external_body]
        pub fn get_excerpt(&self, start: usize, end: usize) -> (r: &str)
            requires excerpt_ok(self.text(), start as int, end as int)
            ensures r@ == excerpt_text(self.text(), start as int, end as int)
        { unimplemented!() }
        #[verifier::external_body]
        pub fn get_line_column_at_index(&self, index: usize) -> (r: (usize, usize))
            ensures r.0 == lc_line(self.text(), index as int), r.1 == lc_col(self.text(), index as int)
        { unimplemented!() }
    }

    /// the order of two span offsets under `Option<usize>::cmp` (None first)
    pub open spec fn offset_le(a: Option<usize>, b: Option<usize>) -> bool {
        match (a, b) { (None, _) => true, (Some(_), None) => false, (Some(x), Some(y)) => x <= y }
    }
    /// `spans.clone()` + `sort_by(|a, b| a.offset.cmp(&b.offset))`
    pub uninterp spec fn sort_by_offset(s: Seq<BitVecSpan>) -> Seq<BitVecSpan>;
    /// R23 helper. ASSUMED contract of slice::sort_by with that comparator: a permutation, ordered by offset
    #[verifier::external_body]
    pub fn verif_sorted_by_offset(v: &Vec<BitVecSpan>) -> (r: Vec<BitVecSpan>)
        ensures
            r@ == sort_by_offset(v@),
            r@.len() == v@.len(),
            r@.to_multiset() == v@.to_multiset(),
            forall|i: int, j: int| 0 <= i <= j < r@.len() ==> offset_le(#[trigger] r@[i].offset, #[trigger] r@[j].offset),
    { unimplemented!() }
    /// every element of the sorted sequence is one of the recorded spans
    pub proof fn lemma_sorted_elements(s: Seq<BitVecSpan>, r: Seq<BitVecSpan>, i: int)
        requires r.to_multiset() == s.to_multiset(), 0 <= i < r.len()
        ensures s.contains(r[i])
    {
        r.to_multiset_ensures();
        s.to_multiset_ensures();
        assert(r.contains(r[i]));
        assert(r.to_multiset().count(r[i]) > 0);
    }

    // ---- more R22 wrappers (string and big-integer arguments)
    pub uninterp spec fn fmt_text_s(lit: Seq<char>, s: Seq<char>, w: int) -> Seq<char>;
    pub uninterp spec fn fmt_text_s4(lit: Seq<char>, s: Seq<char>, a: int, b: int, c: int, d: int) -> Seq<char>;
    #[verifier::external_body]
    pub fn verif_fmt0(lit: &str) -> (r: String) ensures r@ == fmt_text(lit@, 0, 0) { unimplemented!() }
    #[verifier::external_body]
    pub fn verif_fmt_bigint(lit: &str, a: &BigInt) -> (r: String) ensures r@ == fmt_text(lit@, a.val(), 0) { unimplemented!() }
    #[verifier::external_body]
    pub fn verif_fmt_bigint_usize(lit: &str, a: &BigInt, w: usize) -> (r: String) ensures r@ == fmt_text(lit@, a.val(), w as int) { unimplemented!() }
    #[verifier::external_body]
    pub fn verif_fmt_len_bigint(lit: &str, a: &BigInt) -> (r: usize) ensures r == fmt_len(lit@, a.val()), r <= 0x1000_0000_0000_0000 { unimplemented!() }
    #[verifier::external_body]
    pub fn verif_fmt_str(lit: &str, s: &str) -> (r: String) ensures r@ == fmt_text_s(lit@, s@, 0) { unimplemented!() }
    #[verifier::external_body]
    pub fn verif_fmt_str_usize(lit: &str, s: &str, w: usize) -> (r: String) ensures r@ == fmt_text_s(lit@, s@, w as int) { unimplemented!() }
    #[verifier::external_body]
    pub fn verif_fmt_str_usize4(lit: &str, s: &str, a: usize, b: usize, c: usize, d: usize) -> (r: String)
        ensures r@ == fmt_text_s4(lit@, s@, a as int, b as int, c as int, d as int) { unimplemented!() }

    // ---- address-span listing (C12)
    pub open spec fn addrspan_header() -> Seq<char> {
        "; "@ + "physical address : bit offset | "@ + "logical address | "@ + "file : line start : column start : line end : column end\n"@
    }
    /// one row: output position (byte:bit, or -:- for an item without one), logical address, file and the
    /// line/column of both ends of the source span
    pub open spec fn addrspan_row(fs: &dyn FileServer, sp: BitVecSpan) -> Seq<char> {
        let text = fs.file_text(sp.span.file_handle);
        (match sp.offset { Some(o) => fmt_text("{:x}:{:x} | "@, o as int / 8, o as int % 8), None => fmt_text("-:- | "@, 0, 0) })
        + fmt_text("{:x} | "@, sp.addr.val(), 0)
        + (if sp.span.is_dummy() { fmt_text("{}:-:-:-:-"@, sp.span.file_handle as int, 0) }
           else { fmt_text_s4("{}:{}:{}:{}:{}"@, fs.file_name(sp.span.file_handle),
                    lc_line(text, sp.span.location.0 as int), lc_col(text, sp.span.location.0 as int),
                    lc_line(text, sp.span.location.1 as int), lc_col(text, sp.span.location.1 as int)) })
        + "\n"@
    }
    pub open spec fn addrspan_rows(fs: &dyn FileServer, spans: Seq<BitVecSpan>, n: int) -> Seq<char>
        decreases n
    {
        if n <= 0 { Seq::empty() } else { addrspan_rows(fs, spans, n - 1) + addrspan_row(fs, spans[n - 1]) }
    }

    // ---- annotated listing (C12)
    pub open spec fn popcount(x: int) -> int decreases x { if x <= 0 { 0 } else { x % 2 + popcount(x / 2) } }
    pub assume_specification[ usize::count_ones ](x: usize) -> (r: u32)
        ensures r as int == popcount(x as int);
    pub open spec fn valid_base(base: int) -> bool { base == 2 || base == 4 || base == 8 || base == 16 || base == 32 || base == 64 || base == 128 }
    pub proof fn lemma_bits_per_digit(base: int)
        requires valid_base(base)
        ensures 1 <= popcount(base - 1) <= 7
    {
        assert(popcount(1) == 1) by (compute);
        assert(popcount(3) == 2) by (compute);
        assert(popcount(7) == 3) by (compute);
        assert(popcount(15) == 4) by (compute);
        assert(popcount(31) == 5) by (compute);
        assert(popcount(63) == 6) by (compute);
        assert(popcount(127) == 7) by (compute);
    }
    /// what a listing needs of a recorded span
    pub open spec fn span_listable(fs: &dyn FileServer, sp: BitVecSpan) -> bool {
        &&& (sp.offset is None ==> sp.size == 0)
        &&& (sp.offset is Some ==> sp.offset->0 + sp.size + 64 <= usize::MAX)
        &&& sp.size <= 0x1000_0000_0000_0000
        &&& !sp.span.is_dummy()
        &&& sp.span.file_handle != usize::MAX
        &&& excerpt_ok(fs.file_text(sp.span.file_handle), sp.span.location.0 as int, sp.span.location.1 as int)
    }
    /// the value of n consecutive bits of ONE item (bits off.. off+size of the store), starting at bit p of the
    /// item, MSB first; positions beyond the item's size count as zero
    pub open spec fn item_acc(v: int, off: int, size: int, p: int, n: int) -> int decreases n {
        if n <= 0 { 0 } else { 2 * item_acc(v, off, size, p, n - 1) + (if p + n - 1 < size && bit_of(v, (off + p + n - 1) as nat) { 1int } else { 0int }) }
    }
    pub proof fn lemma_item_acc_bound(v: int, off: int, size: int, p: int, n: int)
        requires 0 <= n
        ensures 0 <= item_acc(v, off, size, p, n) < pow2(n as nat)
        decreases n
    {
        vstd::arithmetic::power2::lemma2_to64();
        if n > 0 { lemma_item_acc_bound(v, off, size, p, n - 1); vstd::arithmetic::power2::lemma_pow2_unfold(n as nat); }
    }
    pub open spec fn umax(a: int, b: int) -> int { if a >= b { a } else { b } }
    pub open spec fn digit_count(size: int, bpd: int) -> int { size / bpd + (if size % bpd == 0 { 0int } else { 1int }) }
    pub open spec fn ann_outp_width(spans: Seq<BitVecSpan>, bpg: int, n: int) -> int decreases n {
        if n <= 0 { 2 } else { let w = ann_outp_width(spans, bpg, n - 1);
            match spans[n - 1].offset { Some(o) => umax(w, fmt_len("{:x}"@, o as int / bpg)), None => w } }
    }
    pub open spec fn ann_outp_bit_width(spans: Seq<BitVecSpan>, bpg: int, n: int) -> int decreases n {
        if n <= 0 { 1 } else { let w = ann_outp_bit_width(spans, bpg, n - 1);
            match spans[n - 1].offset { Some(o) => umax(w, fmt_len("{:x}"@, o as int % bpg)), None => w } }
    }
    pub open spec fn ann_addr_width(spans: Seq<BitVecSpan>, n: int) -> int decreases n {
        if n <= 0 { 4 } else { let w = ann_addr_width(spans, n - 1);
            match spans[n - 1].offset { Some(o) => umax(w, fmt_len("{:x}"@, spans[n - 1].addr.val())), None => w } }
    }
    pub open spec fn ann_content_width(spans: Seq<BitVecSpan>, bpd: int, dpg: int, n: int) -> int decreases n {
        if n <= 0 { dpg } else { let w = ann_content_width(spans, bpd, dpg, n - 1);
            match spans[n - 1].offset {
                Some(o) => { let dd = digit_count(spans[n - 1].size as int, bpd); let tcw = dd + dd / dpg;
                             if tcw > 1 && tcw <= (dpg + 1) * 5 { umax(w, tcw - 1) } else { w } },
                None => w } }
    }
    pub open spec fn ann_header(ow: int, obw: int, aw: int, base: int) -> Seq<char> {
        fmt_text_s(" {:>1$} |"@, "outp"@, ow + obw + 1) + fmt_text_s(" {:>1$} |"@, "addr"@, aw) + fmt_text(" data (base {})"@, base, 0) + "\n"@ + "\n"@
    }
    /// the digits of one item: digit k is bits [k*bpd, (k+1)*bpd) of THAT item (zero padded), a blank between groups
    pub open spec fn ann_contents(v: int, sp: BitVecSpan, bpd: int, dpg: int, n: int) -> Seq<char> decreases n {
        if n <= 0 { Seq::empty() }
        else { ann_contents(v, sp, bpd, dpg, n - 1) + (if n - 1 > 0 && (n - 1) % dpg == 0 { " "@ } else { Seq::empty() })
               + seq![digit_char(item_acc(v, sp.offset->0 as int, sp.size as int, (n - 1) * bpd, bpd))] }
    }
    pub open spec fn ann_position(sp: BitVecSpan, bpg: int, ow: int, obw: int) -> Seq<char> {
        match sp.offset {
            Some(o) => fmt_text(" {:1$x}"@, o as int / bpg, ow) + fmt_text(":{:1$x} | "@, o as int % bpg, obw),
            None => fmt_text_s(" {:>1$}"@, "--"@, ow) + fmt_text_s(":{:>1$} | "@, "-"@, obw),
        }
    }
    pub open spec fn ann_row(fs: &dyn FileServer, v: int, sp: BitVecSpan, bpd: int, dpg: int, ow: int, obw: int, aw: int, cw: int) -> Seq<char> {
        ann_position(sp, dpg * bpd, ow, obw)
        + fmt_text("{:1$x} | "@, sp.addr.val(), aw)
        + fmt_text_s("{:1$}"@, ann_contents(v, sp, bpd, dpg, digit_count(sp.size as int, bpd)), cw)
        + fmt_text_s(" ; {}"@, excerpt_text(fs.file_text(sp.span.file_handle), sp.span.location.0 as int, sp.span.location.1 as int), 0)
        + "\n"@
    }
    pub open spec fn ann_rows(fs: &dyn FileServer, v: int, spans: Seq<BitVecSpan>, bpd: int, dpg: int, ow: int, obw: int, aw: int, cw: int, n: int) -> Seq<char>
        decreases n
    {
        if n <= 0 { Seq::empty() } else { ann_rows(fs, v, spans, bpd, dpg, ow, obw, aw, cw, n - 1) + ann_row(fs, v, spans[n - 1], bpd, dpg, ow, obw, aw, cw) }
    }
    pub open spec fn annotated_text(fs: &dyn FileServer, v: int, spans: Seq<BitVecSpan>, base: int, dpg: int) -> Seq<char> {
        let bpd = popcount(base - 1);
        let n = spans.len() as int;
        let ow = ann_outp_width(spans, dpg * bpd, n);
        let obw = ann_outp_bit_width(spans, dpg * bpd, n);
        let aw = ann_addr_width(spans, n);
        let cw = ann_content_width(spans, bpd, dpg, n);
        ann_header(ow, obw, aw, base) + ann_rows(fs, v, spans, bpd, dpg, ow, obw, aw, cw, n)
    }
    pub proof fn lemma_digit_count(size: int, bpd: int)
        requires 0 <= size, 1 <= bpd <= 7
        ensures
            0 <= digit_count(size, bpd) <= size,
            digit_count(size, bpd) * bpd >= size,
            digit_count(size, bpd) > 0 ==> (digit_count(size, bpd) - 1) * bpd < size,
            (digit_count(size, bpd) == 0) == (size == 0),
            size / bpd >= 0, size / bpd <= size,
    {
        let q = size / bpd; let r = size % bpd;
        assert(size == q * bpd + r && 0 <= r < bpd) by (nonlinear_arith) requires q == size / bpd, r == size % bpd, bpd >= 1, size >= 0;
        assert(0 <= q <= size) by (nonlinear_arith) requires size == q * bpd + r, 0 <= r, bpd >= 1, size >= 0, r < bpd;
        assert((q + 1) * bpd == q * bpd + bpd) by (nonlinear_arith);
        assert((q - 1) * bpd == q * bpd - bpd) by (nonlinear_arith);
        if r != 0 { assert(q + 1 <= size) by (nonlinear_arith) requires size == q * bpd + r, 1 <= r, bpd >= 1, q >= 0; }
    }
    pub proof fn lemma_digit_pos(size: int, bpd: int, d: int)
        requires 0 <= size, 1 <= bpd <= 7, 0 <= d < digit_count(size, bpd)
        ensures 0 <= d * bpd < size
    {
        lemma_digit_count(size, bpd);
        let dc = digit_count(size, bpd);
        assert(d * bpd <= (dc - 1) * bpd) by (nonlinear_arith) requires d <= dc - 1, bpd >= 1;
        assert(0 <= d * bpd) by (nonlinear_arith) requires 0 <= d, bpd >= 1;
    }

    // ---- Turing Complete listing (C12): same columns, three lines per item
    pub uninterp spec fn fmt_text_s2(lit: Seq<char>, s1: Seq<char>, s2: Seq<char>, w: int) -> Seq<char>;
    #[verifier::external_body]
    pub fn verif_fmt_str2(lit: &str, s1: &str, s2: &str) -> (r: String) ensures r@ == fmt_text_s2(lit@, s1@, s2@, 0) { unimplemented!() }
    #[verifier::external_body]
    pub fn verif_fmt_str2_usize(lit: &str, s1: &str, s2: &str, w: usize) -> (r: String) ensures r@ == fmt_text_s2(lit@, s1@, s2@, w as int) { unimplemented!() }
    pub open spec fn tc_prefix(base: int) -> Seq<char> { if base == 2 { "0b"@ } else { "0x"@ } }
    pub open spec fn tc_header(ow: int, obw: int, aw: int, base: int) -> Seq<char> {
        fmt_text_s2("{comment} {:>1$} |"@, "#"@, "outp"@, ow + obw + 1) + fmt_text_s(" {:>1$} |"@, "addr"@, aw) + fmt_text(" data (base {})"@, base, 0) + "\n"@ + "\n"@
    }
    /// the digits of one item, each group of `dpg` digits carrying the radix prefix
    pub open spec fn tc_contents(v: int, sp: BitVecSpan, base: int, bpd: int, dpg: int, n: int) -> Seq<char> decreases n {
        if n <= 0 { Seq::empty() }
        else { tc_contents(v, sp, base, bpd, dpg, n - 1)
               + (if (n - 1) % dpg == 0 { (if n - 1 > 0 { " "@ } else { Seq::empty() }) + tc_prefix(base) } else { Seq::empty() })
               + seq![digit_char(item_acc(v, sp.offset->0 as int, sp.size as int, (n - 1) * bpd, bpd))] }
    }
    pub open spec fn tc_row(fs: &dyn FileServer, v: int, sp: BitVecSpan, base: int, bpd: int, dpg: int, ow: int, obw: int, aw: int, cw: int) -> Seq<char> {
        fmt_text_s("{comment} "@, "#"@, 0)
        + ann_position(sp, dpg * bpd, ow, obw)
        + fmt_text("{:1$x} \n"@, sp.addr.val(), aw)
        + fmt_text_s2("{comment} {}\n"@, "#"@, excerpt_text(fs.file_text(sp.span.file_handle), sp.span.location.0 as int, sp.span.location.1 as int), 0)
        + fmt_text_s("{:1$}\n"@, tc_contents(v, sp, base, bpd, dpg, digit_count(sp.size as int, bpd)), cw)
    }
    pub open spec fn tc_rows(fs: &dyn FileServer, v: int, spans: Seq<BitVecSpan>, base: int, bpd: int, dpg: int, ow: int, obw: int, aw: int, cw: int, n: int) -> Seq<char>
        decreases n
    {
        if n <= 0 { Seq::empty() } else { tc_rows(fs, v, spans, base, bpd, dpg, ow, obw, aw, cw, n - 1) + tc_row(fs, v, spans[n - 1], base, bpd, dpg, ow, obw, aw, cw) }
    }
    pub open spec fn tcgame_text(fs: &dyn FileServer, v: int, spans: Seq<BitVecSpan>, base: int, dpg: int) -> Seq<char> {
        let bpd = popcount(base - 1);
        let n = spans.len() as int;
        let ow = ann_outp_width(spans, dpg * bpd, n);
        let obw = ann_outp_bit_width(spans, dpg * bpd, n);
        let aw = ann_addr_width(spans, n);
        let cw = ann_content_width(spans, bpd, dpg, n);
        tc_header(ow, obw, aw, base) + tc_rows(fs, v, spans, base, bpd, dpg, ow, obw, aw, cw, n)
    }

    // ---- contiguous blocks (C11, Intel HEX): property text as "the same set of output bits"
    pub open spec fn in_span(sp: BitVecSpan, x: nat) -> bool { sp.offset is Some && sp.offset->0 <= x < sp.offset->0 + sp.size }
    pub open spec fn in_block(b: BitVecBlock, x: nat) -> bool { b.offset <= x < b.offset + b.size }
    /// bit x belongs to one of the first n recorded items
    pub open spec fn spans_cover(ss: Seq<BitVecSpan>, n: int, x: nat) -> bool decreases n {
        n > 0 && (spans_cover(ss, n - 1, x) || in_span(ss[n - 1], x))
    }
    /// bit x belongs to one of the first n blocks
    pub open spec fn blocks_cover(bs: Seq<BitVecBlock>, n: int, x: nat) -> bool decreases n {
        n > 0 && (blocks_cover(bs, n - 1, x) || in_block(bs[n - 1], x))
    }
    pub proof fn lemma_blocks_cover_prefix(a: Seq<BitVecBlock>, b: Seq<BitVecBlock>, n: int, x: nat)
        requires 0 <= n <= a.len(), n <= b.len(), forall|k: int| 0 <= k < n ==> a[k] == b[k]
        ensures blocks_cover(a, n, x) == blocks_cover(b, n, x)
        decreases n
    {
        if n > 0 { lemma_blocks_cover_prefix(a, b, n - 1, x); }
    }
    pub proof fn lemma_blocks_cover_push(bs: Seq<BitVecBlock>, b: BitVecBlock)
        ensures forall|x: nat| #[trigger] blocks_cover(bs.push(b), bs.len() as int + 1, x) == (blocks_cover(bs, bs.len() as int, x) || in_block(b, x))
    {
        assert forall|x: nat| #[trigger] blocks_cover(bs.push(b), bs.len() as int + 1, x) == (blocks_cover(bs, bs.len() as int, x) || in_block(b, x)) by {
            lemma_blocks_cover_prefix(bs.push(b), bs, bs.len() as int, x);
        }
    }
    /// the open run [origin, origin + size)
    pub open spec fn run_covers(origin: Option<usize>, size: usize, x: nat) -> bool { origin is Some && origin->0 <= x < origin->0 + size }
    pub proof fn lemma_spans_cover_step(ss: Seq<BitVecSpan>, k: int)
        requires k >= 0
        ensures forall|x: nat| #[trigger] spans_cover(ss, k + 1, x) == (spans_cover(ss, k, x) || in_span(ss[k], x))
    {
    }

    // ---- Intel HEX (C11)
    /// R22 helper for `format!("{:02X}", x)` with any unsigned x (the argument is widened with `as u64`)
    #[verifier::external_body]
    pub fn verif_fmt_u64(lit: &str, a: u64) -> (r: String) ensures r@ == fmt_text(lit@, a as int, 0) { unimplemented!() }
    pub open spec fn hex2(x: int) -> Seq<char> { fmt_text("{:02X}"@, x, 0) }
    /// the bytes of a record, as text
    pub open spec fn hex_bytes(bytes: Seq<u8>, n: int) -> Seq<char> decreases n {
        if n <= 0 { Seq::empty() } else { hex_bytes(bytes, n - 1) + hex2(bytes[n - 1] as int) }
    }
    pub open spec fn byte_sum(bytes: Seq<u8>, n: int) -> int decreases n {
        if n <= 0 { 0 } else { byte_sum(bytes, n - 1) + bytes[n - 1] as int }
    }
    /// one data record: `:LLAAAA00DD..CC\n` with LL the byte count, AAAA the address (in address units, low 16 bits),
    /// CC the two's complement of the sum of all preceding bytes of the record
    pub open spec fn hex_record(addr: int, bytes: Seq<u8>) -> Seq<char> {
        let hi = (addr / 256) % 256;
        let lo = addr % 256;
        let sum = bytes.len() + hi + lo + byte_sum(bytes, bytes.len() as int);
        ":"@ + hex2(bytes.len() as int) + hex2(hi) + hex2(lo) + "00"@ + hex_bytes(bytes, bytes.len() as int) + hex2((256 - sum % 256) % 256) + "\n"@
    }
    /// byte k of a block that starts at output bit `off` (MSB first, zero beyond the end of the output)
    pub open spec fn block_byte(v: int, off: int, k: int) -> u8 { acc(v, off + 8 * k, 8) as u8 }
    pub open spec fn block_bytes(v: int, off: int, from: int, to: int) -> Seq<u8> { Seq::new((to - from) as nat, |j: int| block_byte(v, off, from + j)) }
    pub open spec fn imin(a: int, b: int) -> int { if a <= b { a } else { b } }
    /// the first c records of a block of nbytes bytes: record j carries bytes [32j, min(32j+32, nbytes)) at the address
    /// of its first byte
    pub open spec fn block_records(v: int, au: int, off: int, nbytes: int, c: int) -> Seq<char> decreases c {
        if c <= 0 { Seq::empty() }
        else { block_records(v, au, off, nbytes, c - 1) + hex_record((off + 256 * (c - 1)) / au, block_bytes(v, off, 32 * (c - 1), imin(32 * c, nbytes))) }
    }
    pub open spec fn block_text(v: int, au: int, b: BitVecBlock) -> Seq<char> {
        let nbytes = (b.size + 7) / 8;
        block_records(v, au, b.offset as int, nbytes as int, (nbytes + 31) / 32)
    }
    pub open spec fn blocks_text(v: int, au: int, bs: Seq<BitVecBlock>, n: int) -> Seq<char> decreases n {
        if n <= 0 { Seq::empty() } else { blocks_text(v, au, bs, n - 1) + block_text(v, au, bs[n - 1]) }
    }
    /// the block list BitVec::get_blocks returns for a span list (get_blocks is deterministic; what the list
    /// satisfies is proved in get_blocks's own contract)
    pub uninterp spec fn spec_blocks(spans: Seq<BitVecSpan>) -> Seq<BitVecBlock>;
    pub open spec fn spans_fit8(spans: Seq<BitVecSpan>) -> bool {
        forall|j: int| 0 <= j < spans.len() ==> (#[trigger] spans[j]).offset is Some ==> spans[j].offset->0 + spans[j].size + 16 <= usize::MAX
    }
    pub open spec fn blocks_fit8(bs: Seq<BitVecBlock>) -> bool {
        forall|k: int| 0 <= k < bs.len() ==> (#[trigger] bs[k]).offset + bs[k].size + 16 <= usize::MAX
    }
    pub proof fn lemma_byte_sum_bound(bytes: Seq<u8>, n: int)
        requires 0 <= n <= bytes.len()
        ensures 0 <= byte_sum(bytes, n) <= 255 * n
        decreases n
    {
        if n > 0 { lemma_byte_sum_bound(bytes, n - 1); }
    }
