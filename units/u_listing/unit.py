from vfw.spec import Unit, Fn, Type, Impl, C, Loop, Rewrite, Insert
from units import contracts_bigint as cb
from units import contracts_bitvec as bv
from units.u_charcount import unit as uc

F = "src/util/bitvec_format.rs"
WHY22 = "format! -> wrapper call with the same literal and arguments; assumed: the text is an (uninterpreted) function of literal and arguments"
WHY23 = "`spans.clone()` + `sort_by(|a, b| a.offset.cmp(&b.offset))` -> wrapper with the assumed contract of a sort (a permutation ordered by offset)"
SORT = Rewrite(r"let mut sorted_spans = self\.spans\.clone\(\);\s*sorted_spans\.sort_by\(\|a, b\|\s*a\.offset\.cmp\(&b\.offset\)\);",
               "let sorted_spans = verif_sorted_by_offset(&self.spans);", regex=True, count=None, rule="R23", why=WHY23)

format_addrspan = Fn(F, "format_addrspan", impl="util::BitVec", impl_header="BitVec", slot="util", ret="res", key="BitVec::format_addrspan", props=["C12", "C03"],
    ensures=[C("one_row_per_span_in_output_order", "res@ == addrspan_header() + addrspan_rows(fileserver, sort_by_offset(self.spans@), self.spans@.len() as int)", ["C12"])],
    rewrites=[
        SORT,
        Rewrite('format!("{:x}:{:x} | ", offset / 8, offset % 8)', 'verif_fmt_usize2("{:x}:{:x} | ", offset / 8, offset % 8)', rule="R22", why=WHY22),
        Rewrite('format!("-:- | ")', 'verif_fmt0("-:- | ")', rule="R22", why=WHY22),
        Rewrite('format!("{:x} | ", span.addr)', 'verif_fmt_bigint("{:x} | ", &span.addr)', rule="R22", why=WHY22),
        Rewrite(r'format!\("\{\}:\{\}:\{\}:\{\}:\{\}",\s*filename,\s*line_start, col_start,\s*line_end, col_end\)', 'verif_fmt_str_usize4("{}:{}:{}:{}:{}", filename, line_start, col_start, line_end, col_end)', regex=True, rule="R22", why=WHY22),
        Rewrite('format!("{}:-:-:-:-", &span.span.file_handle)', 'verif_fmt_usize("{}:-:-:-:-", span.span.file_handle)', rule="R22", why=WHY22),
    ],
    for_to_while=[1],
    loops={1: Loop(invariant=[
        C("sorted", "verif_vec_1@ == sort_by_offset(self.spans@) && verif_vec_1@.len() == self.spans@.len() && verif_next_1 <= verif_vec_1@.len()"),
        C("rows_so_far", "result@ =~= addrspan_header() + addrspan_rows(fileserver, sort_by_offset(self.spans@), verif_next_1 as int)"),
    ], decreases="verif_vec_1@.len() - verif_next_1")},
)

FMT_LEN = Rewrite(r'format!\(("[^"]*"), ([^;]*?)\)\.len\(\)', r"verif_fmt_len_usize(\1, \2)", regex=True, count=None, rule="R22", why=WHY22)
FMT_USIZE2 = Rewrite(r'format!\(("[^"]*\$[^"]*"), ', r"verif_fmt_usize2(\1, ", regex=True, count=None, rule="R22", why=WHY22)
FMT_STR_W = Rewrite(r'format!\(("[^"]*"), ("[^"]*"), ', r"verif_fmt_str_usize(\1, \2, ", regex=True, count=None, rule="R22", why=WHY22)

SORTED = "sort_by_offset(self.spans@)"
BPD = "popcount(base - 1)"
ACONST = ("self.wf() && valid_base(base as int) && 1 <= digits_per_group <= 0x10000 && bits_per_digit == popcount(base - 1) && 1 <= bits_per_digit <= 7"
          " && bits_per_group == digits_per_group * bits_per_digit && bits_per_group >= 1"
          " && (forall|j: int| 0 <= j < self.spans@.len() ==> span_listable(fileserver, #[trigger] self.spans@[j]))")
VEC = lambda k: "verif_vec_%d@ == sort_by_offset(self.spans@) && verif_vec_%d@.len() == self.spans@.len() && verif_vec_%d@.to_multiset() == self.spans@.to_multiset() && verif_next_%d <= verif_vec_%d@.len()" % (k, k, k, k, k)
WIDTHS = ("outp_width == ann_outp_width(%s, bits_per_group as int, %%s) && outp_bit_width == ann_outp_bit_width(%s, bits_per_group as int, %%s)"
          " && addr_width == ann_addr_width(%s, %%s) && content_width == ann_content_width(%s, bits_per_digit as int, digits_per_group as int, %%s)"
          " && outp_width <= 0x1000_0000_0000_0000 && outp_bit_width <= 0x1000_0000_0000_0000 && addr_width <= 0x1000_0000_0000_0000 && content_width <= 0x3000_0000_0000_0000") % (SORTED, SORTED, SORTED, SORTED)
N = "self.spans@.len() as int"
ROWS = "ann_rows(fileserver, self.v(), %s, bits_per_digit as int, digits_per_group as int, outp_width as int, outp_bit_width as int, addr_width as int, content_width as int, %%s)" % SORTED

format_annotated = Fn(F, "format_annotated", impl="util::BitVec", impl_header="BitVec", slot="util", ret="res", key="BitVec::format_annotated", props=["C12", "C03", "C19"],
    requires=[C("wf", "self.wf()"),
              C("base_supported", "valid_base(base as int)", ["C03"]),
              C("group_width", "1 <= digits_per_group <= 0x10000", ["C19"]),
              C("spans_listable", "forall|j: int| 0 <= j < self.spans@.len() ==> span_listable(fileserver, #[trigger] self.spans@[j])", ["C03"])],
    ensures=[C("rows_show_each_item_once_in_output_order_with_its_own_bits", "res@ == annotated_text(fileserver, self.v(), %s, base as int, digits_per_group as int)" % SORTED, ["C12"])],
    rewrites=[
        SORT,
        Rewrite('format!("{:x}", span.addr).len()', 'verif_fmt_len_bigint("{:x}", &span.addr)', rule="R22", why=WHY22),
        FMT_LEN,
        FMT_STR_W,
        Rewrite('format!(" data (base {})", base)', 'verif_fmt_usize(" data (base {})", base)', rule="R22", why=WHY22),
        Rewrite('format!("{:1$x} | ", span.addr, addr_width)', 'verif_fmt_bigint_usize("{:1$x} | ", &span.addr, addr_width)', rule="R22", why=WHY22),
        Rewrite('format!("{:1$}", contents_str, content_width)', 'verif_fmt_str_usize("{:1$}", &contents_str, content_width)', rule="R22", why=WHY22),
        Rewrite('format!(" ; {}", char_counter.get_excerpt(span_location.0, span_location.1))', 'verif_fmt_str(" ; {}", char_counter.get_excerpt(span_location.0, span_location.1))', rule="R22", why=WHY22),
        FMT_USIZE2,
    ],
    for_to_while=[1, 2],
    loops={
        1: Loop(invariant=[C("consts", ACONST), C("sorted", VEC(1)), C("widths_so_far", WIDTHS % (("verif_next_1 as int",) * 4))],
                decreases="verif_vec_1@.len() - verif_next_1",
                body_start=" proof { lemma_sorted_elements(self.spans@, verif_vec_1@, verif_next_1 as int); lemma_digit_count(verif_vec_1@[verif_next_1 as int].size as int, bits_per_digit as int); }"),
        2: Loop(invariant=[C("consts", ACONST), C("sorted", VEC(2)), C("widths", WIDTHS % ((N,) * 4)),
                           C("file_cache", "prev_file_handle != usize::MAX ==> prev_file_chars@ == fileserver.file_text(prev_file_handle)"),
                           C("rows_so_far", "result@ =~= ann_header(outp_width as int, outp_bit_width as int, addr_width as int, base as int) + " + ROWS % "verif_next_2 as int")],
                decreases="verif_vec_2@.len() - verif_next_2",
                body_start=" proof { lemma_sorted_elements(self.spans@, verif_vec_2@, verif_next_2 as int); lemma_digit_count(verif_vec_2@[verif_next_2 as int].size as int, bits_per_digit as int); reveal_strlit(\" \"); reveal_strlit(\"\\n\"); }"),
        3: Loop(invariant=[C("consts", ACONST + " && span_listable(fileserver, *span) && digit_num == digit_count(span.size as int, bits_per_digit as int)"),
                           C("digits_so_far", "contents_str@ =~= ann_contents(self.v(), *span, bits_per_digit as int, digits_per_group as int, digit_index as int)")],
                body_start=" proof { lemma_digit_pos(span.size as int, bits_per_digit as int, digit_index as int); }"),
        4: Loop(invariant=[C("consts", ACONST + " && span_listable(fileserver, *span) && digit_index < digit_num && digit_num == digit_count(span.size as int, bits_per_digit as int)"),
                           C("bits_of_this_item", "digit as int == item_acc(self.v(), span.offset->0 as int, span.size as int, digit_index * bits_per_digit, bit_index as int)")],
                body_start=" proof { lemma_digit_pos(span.size as int, bits_per_digit as int, digit_index as int); lemma_item_acc_bound(self.v(), span.offset->0 as int, span.size as int, digit_index * bits_per_digit, bit_index as int); vstd::arithmetic::power2::lemma2_to64(); if bit_index < 7 { vstd::arithmetic::power2::lemma_pow2_strictly_increases(bit_index as nat, 7); } let ghost b0: u8 = if digit_index * bits_per_digit + bit_index < span.size && bit_of(self.v(), (span.offset->0 + digit_index * bits_per_digit + bit_index) as nat) { 1 } else { 0 }; lemma_shift_or(digit, b0); }"),
    },
    inserts=[
        Insert("\t\tlet bits_per_digit =", "\t\tproof { lemma_bits_per_digit(base as int); }\n", where="before"),
        Insert("\t\tlet bits_per_group =", "\t\tproof { assert(1 <= digits_per_group * bits_per_digit <= 0x70000) by (nonlinear_arith) requires 1 <= digits_per_group <= 0x10000, 1 <= bits_per_digit <= 7; }\n", where="before"),
        Insert("            for digit_index in 0..digit_num", "            proof { assert(digit_num == digit_count(span.size as int, bits_per_digit as int)); }\n", where="before", why="the number of digits of a row is the item's size in digits (named so that a wrong count fails here, not by exhausting the solver)"),
        Insert("                let c = if digit < 10", "                proof { lemma_item_acc_bound(self.v(), span.offset->0 as int, span.size as int, digit_index * bits_per_digit, bits_per_digit as int); vstd::arithmetic::power2::lemma2_to64(); if bits_per_digit < 7 { vstd::arithmetic::power2::lemma_pow2_strictly_increases(bits_per_digit as nat, 7); } }\n", where="before"),
    ],
)

TCONST = ACONST + " && (base == 2 || base == 16) && comment@ == \"#\"@ && prefix@ == tc_prefix(base as int)"
TCROWS = "tc_rows(fileserver, self.v(), %s, base as int, bits_per_digit as int, digits_per_group as int, outp_width as int, outp_bit_width as int, addr_width as int, content_width as int, %%s)" % SORTED
format_tcgame = Fn(F, "format_tcgame", impl="util::BitVec", impl_header="BitVec", slot="util", ret="res", key="BitVec::format_tcgame", props=["C12", "C03", "C19"],
    requires=[C("wf", "self.wf()"),
              C("base_supported", "base == 2 || base == 16", ["C03"]),
              C("group_width", "1 <= digits_per_group <= 0x10000", ["C19"]),
              C("spans_listable", "forall|j: int| 0 <= j < self.spans@.len() ==> span_listable(fileserver, #[trigger] self.spans@[j])", ["C03"])],
    ensures=[C("rows_show_each_item_once_in_output_order_with_its_own_bits", "res@ == tcgame_text(fileserver, self.v(), %s, base as int, digits_per_group as int)" % SORTED, ["C12"])],
    rewrites=[
        SORT,
        Rewrite('format!("{:x}", span.addr).len()', 'verif_fmt_len_bigint("{:x}", &span.addr)', rule="R22", why=WHY22),
        FMT_LEN,
        Rewrite('format!("{comment} {:>1$} |", "outp", ', 'verif_fmt_str2_usize("{comment} {:>1$} |", comment, "outp", ', rule="R22", why=WHY22),
        Rewrite('format!("{comment} ")', 'verif_fmt_str("{comment} ", comment)', rule="R22", why=WHY22),
        Rewrite('format!("{comment} {}\\n", char_counter.get_excerpt(span_location.0, span_location.1))', 'verif_fmt_str2("{comment} {}\\n", comment, char_counter.get_excerpt(span_location.0, span_location.1))', rule="R22", why=WHY22),
        FMT_STR_W,
        Rewrite('format!(" data (base {})", base)', 'verif_fmt_usize(" data (base {})", base)', rule="R22", why=WHY22),
        Rewrite('format!("{:1$x} \\n", span.addr, addr_width)', 'verif_fmt_bigint_usize("{:1$x} \\n", &span.addr, addr_width)', rule="R22", why=WHY22),
        Rewrite('format!("{:1$}\\n", contents_str, content_width)', 'verif_fmt_str_usize("{:1$}\\n", &contents_str, content_width)', rule="R22", why=WHY22),
        FMT_USIZE2,
    ],
    for_to_while=[1, 2],
    loops={
        1: Loop(invariant=[C("consts", TCONST), C("sorted", VEC(1)), C("widths_so_far", WIDTHS % (("verif_next_1 as int",) * 4))],
                decreases="verif_vec_1@.len() - verif_next_1",
                body_start=" proof { lemma_sorted_elements(self.spans@, verif_vec_1@, verif_next_1 as int); lemma_digit_count(verif_vec_1@[verif_next_1 as int].size as int, bits_per_digit as int); }"),
        2: Loop(invariant=[C("consts", TCONST), C("sorted", VEC(2)), C("widths", WIDTHS % ((N,) * 4)),
                           C("file_cache", "prev_file_handle != usize::MAX ==> prev_file_chars@ == fileserver.file_text(prev_file_handle)"),
                           C("rows_so_far", "result@ =~= tc_header(outp_width as int, outp_bit_width as int, addr_width as int, base as int) + " + TCROWS % "verif_next_2 as int")],
                decreases="verif_vec_2@.len() - verif_next_2",
                body_start=" proof { lemma_sorted_elements(self.spans@, verif_vec_2@, verif_next_2 as int); lemma_digit_count(verif_vec_2@[verif_next_2 as int].size as int, bits_per_digit as int); reveal_strlit(\" \"); reveal_strlit(\"\\n\"); }"),
        3: Loop(invariant=[C("consts", TCONST + " && span_listable(fileserver, *span) && digit_num == digit_count(span.size as int, bits_per_digit as int)"),
                           C("digits_so_far", "contents_str@ =~= tc_contents(self.v(), *span, base as int, bits_per_digit as int, digits_per_group as int, digit_index as int)")],
                body_start=" proof { lemma_digit_pos(span.size as int, bits_per_digit as int, digit_index as int); }"),
        4: Loop(invariant=[C("consts", TCONST + " && span_listable(fileserver, *span) && digit_index < digit_num && digit_num == digit_count(span.size as int, bits_per_digit as int)"),
                           C("bits_of_this_item", "digit as int == item_acc(self.v(), span.offset->0 as int, span.size as int, digit_index * bits_per_digit, bit_index as int)")],
                body_start=" proof { lemma_digit_pos(span.size as int, bits_per_digit as int, digit_index as int); lemma_item_acc_bound(self.v(), span.offset->0 as int, span.size as int, digit_index * bits_per_digit, bit_index as int); vstd::arithmetic::power2::lemma2_to64(); if bit_index < 7 { vstd::arithmetic::power2::lemma_pow2_strictly_increases(bit_index as nat, 7); } let ghost b0: u8 = if digit_index * bits_per_digit + bit_index < span.size && bit_of(self.v(), (span.offset->0 + digit_index * bits_per_digit + bit_index) as nat) { 1 } else { 0 }; lemma_shift_or(digit, b0); }"),
    },
    inserts=[
        Insert("\t\tlet bits_per_digit =", "\t\tproof { lemma_bits_per_digit(base as int); }\n", where="before"),
        Insert("\t\tlet bits_per_group =", "\t\tproof { assert(1 <= digits_per_group * bits_per_digit <= 0x70000) by (nonlinear_arith) requires 1 <= digits_per_group <= 0x10000, 1 <= bits_per_digit <= 7; }\n", where="before"),
        Insert("            for digit_index in 0..digit_num", "            proof { assert(digit_num == digit_count(span.size as int, bits_per_digit as int)); }\n", where="before", why="the number of digits of a row is the item's size in digits (named so that a wrong count fails here, not by exhausting the solver)"),
        Insert("                let c = if digit < 10", "                proof { lemma_item_acc_bound(self.v(), span.offset->0 as int, span.size as int, digit_index * bits_per_digit, bits_per_digit as int); vstd::arithmetic::power2::lemma2_to64(); if bits_per_digit < 7 { vstd::arithmetic::power2::lemma_pow2_strictly_increases(bits_per_digit as nat, 7); } }\n", where="before"),
    ],
)

FB = "src/util/bitvec.rs"
get_blocks = Fn(FB, "get_blocks", impl="BitVec", impl_header="BitVec", slot="util", ret="res", key="BitVec::get_blocks", props=["C11", "C03", "C19"],
    requires=[C("spans_fit", "forall|j: int| 0 <= j < self.spans@.len() ==> (#[trigger] self.spans@[j]).offset is Some ==> self.spans@[j].offset->0 + self.spans@[j].size <= usize::MAX", ["C19"])],
    ensures=[
        C("no_empty_block", "forall|k: int| 0 <= k < res@.len() ==> (#[trigger] res@[k]).size > 0", ["C11"]),
        C("blocks_are_exactly_the_item_bits", "forall|x: nat| #[trigger] blocks_cover(res@, res@.len() as int, x) == spans_cover(%s, self.spans@.len() as int, x)" % SORTED, ["C11"]),        C("blocks_fit_when_spans_do", "spans_fit8(self.spans@) ==> blocks_fit8(res@)", ["C19"]),
        C("named", "res@ == spec_blocks(self.spans@)", ["C11"], stub_only=True),
    ],
    rewrites=[SORT, Rewrite("let mut result = Vec::new();", "let mut result: Vec<BitVecBlock> = Vec::new();", rule="R10", why="type ascription: the inserted invariant mentions `result` before inference has fixed its element type")],
    for_to_while=[1],
    loops={1: Loop(invariant=[
        C("sorted", VEC(1)),
        C("fits", "forall|j: int| 0 <= j < self.spans@.len() ==> (#[trigger] self.spans@[j]).offset is Some ==> self.spans@[j].offset->0 + self.spans@[j].size <= usize::MAX"),
        C("run_fits", "current_origin is Some ==> current_origin->0 + current_size <= usize::MAX"),
        C("run_fits8", "spans_fit8(self.spans@) ==> blocks_fit8(result@) && (current_origin is Some ==> current_origin->0 + current_size + 16 <= usize::MAX)"),
        C("no_empty_block", "forall|k: int| 0 <= k < result@.len() ==> (#[trigger] result@[k]).size > 0"),
        C("same_bits_so_far", "forall|x: nat| (blocks_cover(result@, result@.len() as int, x) || run_covers(current_origin, current_size, x)) == #[trigger] spans_cover(%s, verif_next_1 as int, x)" % SORTED),
    ], decreases="verif_vec_1@.len() - verif_next_1",
       body_start=" proof { lemma_sorted_elements(self.spans@, verif_vec_1@, verif_next_1 as int); lemma_spans_cover_step(sort_by_offset(self.spans@), verif_next_1 as int); } let ghost blocks0 = result@;",
       body_end=" proof { if result@.len() > blocks0.len() { lemma_blocks_cover_push(blocks0, result@[blocks0.len() as int]); assert(result@ =~= blocks0.push(result@[blocks0.len() as int])); } }")},
    inserts=[Insert("        result\n", "        proof { if result@.len() > blocks_before_last.len() { lemma_blocks_cover_push(blocks_before_last, result@[blocks_before_last.len() as int]); assert(result@ =~= blocks_before_last.push(result@[blocks_before_last.len() as int])); } }\n", where="before"),
             Insert("        if let Some(origin) = current_origin\n        {\n            if current_size != 0\n            {\n                result.push", "        let ghost blocks_before_last = result@;\n", where="before")],
)

HEXFMT = Rewrite(r'format!\("\{:02X\}", ((?:[^()]|\((?:[^()]|\([^()]*\))*\))*)\)', r'verif_fmt_u64("{:02X}", (\1) as u64)', regex=True, count=None, rule="R22",
                 why="format! -> wrapper (text an uninterpreted function of literal and argument); the argument is widened with `as u64` so that any unsigned type fits")
CAPS = [("result", "&mut String", "&mut result"), ("address_unit", "usize", "address_unit")]
flush = Fn(F, "format_intelhex", impl="util::BitVec", impl_header="BitVec", slot="util", key="BitVec::format_intelhex::flush_bytes", props=["C11", "C03", "C19"],
    gen_name="verif_closure_flush_bytes",
    lift={"closure": "flush_bytes", "captures": CAPS, "part": "lifted"},
    requires=[C("unit_positive", "address_unit > 0", ["C03"]), C("at_most_a_record", "old(accum_bytes)@.len() <= 255", ["C03"])],
    ensures=[
        C("buffer_emptied", "final(accum_bytes)@.len() == 0 && *final(accum_index) == read_index", ["C11"]),
        C("one_record_for_a_nonempty_buffer", "final(result)@ == old(result)@ + (if old(accum_bytes)@.len() > 0 { hex_record(*old(accum_index) as int / address_unit as int, old(accum_bytes)@) } else { Seq::empty() })", ["C11"]),
    ],
    rewrites=[HEXFMT,
              Rewrite("for byte in accum_bytes.iter().copied()", "for verif_ref_byte in it: accum_bytes.iter()", rule="R26", why="`.iter().copied()` (no Verus support for the Copied adapter) -> `.iter()` with the element copied at the top of the body"),
              Rewrite("\t\t\t\t\tresult.push_str(&verif_fmt_u64(\"{:02X}\", (byte) as u64));", "\t\t\t\t\tlet byte = *verif_ref_byte;\n\t\t\t\t\tresult.push_str(&verif_fmt_u64(\"{:02X}\", (byte) as u64));", rule="R26", why="element copy of the rewritten `.copied()`")],
    loops={1: Loop(invariant=[
        C("state", "accum_bytes@ == bytes && it.index@ <= bytes.len() && bytes.len() <= 255"),
        C("record_so_far", "result@ =~= base + \":\"@ + hex2(bytes.len() as int) + hex2(hi) + hex2(lo) + \"00\"@ + hex_bytes(bytes, it.index@ as int)"),
        C("checksum_so_far", "checksum as int == (bytes.len() + hi + lo + byte_sum(bytes, it.index@ as int)) % 256"),
    ], before="\t\t\t\tlet ghost hi = (addr / 256) % 256; let ghost lo = addr % 256;",
       body_start="\t\t\t\t\tproof { lemma_byte_sum_bound(bytes, it.index@ as int); }")},
    inserts=[
        Insert("\t\t\t\tlet addr_hi =", """\t\t\t\tlet ghost addr = *accum_index as int / address_unit as int;
\t\t\t\tlet ghost bytes = accum_bytes@;
\t\t\t\tlet ghost base = result@;
\t\t\t\tproof {
\t\t\t\t\tlet a: usize = *accum_index / address_unit;
\t\t\t\t\tlet n: usize = accum_bytes.len();
\t\t\t\t\tassert(((a >> 8usize) as u8) as int == (a as int / 256) % 256) by (bit_vector);
\t\t\t\t\tassert((a as u8) as int == a as int % 256) by (bit_vector);
\t\t\t\t\tassert(n <= 255 ==> (n as u8) as int == n as int) by (bit_vector);
\t\t\t\t\treveal_strlit(":"); reveal_strlit("00"); reveal_strlit("\\n");
\t\t\t\t\tlemma_byte_sum_bound(bytes, bytes.len() as int);
\t\t\t\t}
""", where="before"),
        Insert("\t\t\t\tresult.push('\\n');", """\t\t\t\tproof {
\t\t\t\t\tlet c: u8 = checksum;
\t\t\t\t\tassert(((!c).wrapping_add(1u8)) as int == (256 - c as int) % 256) by (bit_vector);
\t\t\t\t}
""", where="before"),
    ],
)

AU = "address_unit as int"
intelhex = Fn(F, "format_intelhex", impl="util::BitVec", impl_header="BitVec", slot="util", ret="res", key="BitVec::format_intelhex", props=["C11", "C03", "C19"],
    lift={"closure": "flush_bytes", "captures": CAPS, "part": "parent"},
    requires=[C("wf", "self.wf()"), C("unit_positive", "address_unit > 0", ["C03"]), C("spans_fit", "spans_fit8(self.spans@)", ["C19"]),
              C("spans_fit_get_blocks", "forall|j: int| 0 <= j < self.spans@.len() ==> (#[trigger] self.spans@[j]).offset is Some ==> self.spans@[j].offset->0 + self.spans@[j].size <= usize::MAX", ["C19"])],
    ensures=[C("records_carry_every_block_in_order", "res@ == blocks_text(self.v(), %s, spec_blocks(self.spans@), spec_blocks(self.spans@).len() as int) + \":00000001FF\"@" % AU, ["C11"])],
    rewrites=[Rewrite("for block in self.get_blocks()", "let verif_blocks = self.get_blocks();\n\t\tfor block in &verif_blocks", rule="R21",
                      why="by-value iteration over the Vec returned by a call -> bind it and iterate by reference (the elements are only read)"),
              Rewrite("for _ in 0..8", "for n in 0..8", rule="R11", why="unused loop variable named so the invariant can count iterations")],
    for_to_while=[1],
    loops={
        1: Loop(invariant=[
            C("blocks", "verif_vec_1@ == spec_blocks(self.spans@) && verif_next_1 <= verif_vec_1@.len() && blocks_fit8(verif_vec_1@) && self.wf() && address_unit > 0"),
            C("text_so_far", "result@ =~= blocks_text(self.v(), %s, spec_blocks(self.spans@), verif_next_1 as int)" % AU),
        ], decreases="verif_vec_1@.len() - verif_next_1",
           body_start=" let ghost base1 = result@;"),
        2: Loop(invariant=[
            C("consts", "self.wf() && address_unit > 0 && block.offset + block.size + 16 <= usize::MAX"),
            C("position", "nrec >= 0 && nread >= 0 && read_index == block.offset + 8 * nread && accum_index == block.offset + 256 * nrec && 32 * nrec <= nread && nread - 32 * nrec < 32 && (read_index < block.offset + block.size ==> 8 * nread < block.size) && 8 * nread < block.size + 8"),
            C("buffer", "accum_bytes@ =~= block_bytes(self.v(), block.offset as int, 32 * nrec, nread)"),
            C("records_so_far", "result@ =~= base1 + block_records(self.v(), %s, block.offset as int, ((block.size + 7) / 8) as int, nrec)" % AU),
        ], decreases="block.offset + block.size + 8 - read_index",
           before="\t\t\tlet ghost mut nread: int = 0; let ghost mut nrec: int = 0;",
           body_end="""\t\t\t\tproof {
    let nb = ((block.size + 7) / 8) as int;
    assert(nread + 1 <= nb);
    assert(pushed =~= block_bytes(self.v(), block.offset as int, 32 * nrec, nread + 1));
    if accum_bytes@.len() == 0 {
        assert(result@ == res_before + hex_record((block.offset + 256 * nrec) / address_unit as int, pushed));
        assert(nread + 1 == 32 * nrec + 32);
        assert(imin(32 * (nrec + 1), nb) == nread + 1);
        assert(block_bytes(self.v(), block.offset as int, 32 * nrec, nread + 1) =~= block_bytes(self.v(), block.offset as int, 32 * (nrec + 1 - 1), imin(32 * (nrec + 1), nb)));
        assert(block_records(self.v(), address_unit as int, block.offset as int, nb, nrec + 1) == block_records(self.v(), address_unit as int, block.offset as int, nb, nrec)
            + hex_record((block.offset + 256 * nrec) / address_unit as int, block_bytes(self.v(), block.offset as int, 32 * nrec, imin(32 * (nrec + 1), nb))));
        nrec = nrec + 1;
    }
    nread = nread + 1;
}"""),
        3: Loop(invariant=[
            C("bits", "n <= 8 && self.wf() && read_index as int == start + n && start + 16 <= usize::MAX && byte as int == acc(self.v(), start as int, n as int)"),
        ], body_start="                proof { lemma_acc_bound(self.v(), start as int, n as int); vstd::arithmetic::power2::lemma2_to64(); if n < 8 { vstd::arithmetic::power2::lemma_pow2_strictly_increases(n as nat, 8); } if n < 7 { vstd::arithmetic::power2::lemma_pow2_strictly_increases(n as nat, 7); } let ghost b0: u8 = if bit_of(self.v(), read_index as nat) { 1 } else { 0 }; lemma_shift_or(byte, b0); }"),
    },
    inserts=[Insert("\t\t\t\tlet mut byte: u8 = 0;", "\t\t\t\tlet ghost start = read_index;\n", where="before"),
             Insert("\t\t\t\taccum_bytes.push(byte);\n", "\t\t\t\tlet ghost pushed = accum_bytes@; let ghost res_before = result@;\n", where="after")],
)

UNIT = Unit(
    "U-listing", "u_listing/skeleton.rs",
    items=cb.items("stub", "util", only=["set_bit", "get_bit"]) + bv.items("stub", "util", only=["read_bit", "len"]) + [
        Type(uc.FS, "struct", "Span", slot="diagn", derive="drop"),
        uc.span_location.as_stub("diagn"),
        format_addrspan, format_annotated, format_tcgame, get_blocks,
    ],
    serves=["C12", "C03", "C19"],
    carry_facts_into_loops=False,   # this unit's proofs need isolated loops (loop `ensures` clauses, or the solver runs out of resources with the wider context)
    description="util::BitVec listings (address spans, annotated, Turing Complete) against functional specs of their rows",
)


UNIT_HEX = Unit(
    "U-intelhex", "u_listing/skeleton.rs",
    items=cb.items("stub", "util", only=["set_bit", "get_bit"]) + bv.items("stub", "util", only=["read_bit", "len"]) + [
        Type(uc.FS, "struct", "Span", slot="diagn", derive="drop"),
        get_blocks.as_stub("util"), flush, intelhex,
    ],
    serves=["C11", "C03", "C19"],
    carry_facts_into_loops=False,   # this unit's proofs need isolated loops (loop `ensures` clauses, or the solver runs out of resources with the wider context)
    description="util::BitVec::format_intelhex (with its record-writing closure lifted to a function, R25)",
)
UNITS = [UNIT, UNIT_HEX]
