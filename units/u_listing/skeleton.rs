//@@INCLUDE _shared/header.rs
//@@INCLUDE _shared/ispec.rs
//@@INCLUDE _shared/num_bigint.rs
//@@INCLUDE _shared/std_gaps.rs
pub mod diagn {
    use vstd::prelude::*;
    use crate::*;
    verus! {
    #[verifier::external_body]
    pub struct Report { _p: u8 }
    impl Report {
        #[verifier::external_body]
        pub fn new() -> Report { unimplemented!() }
    }
    impl Clone for Span {
        #[verifier::external_body]
        fn clone(&self) -> (r: Span) ensures r == *self { unimplemented!() }
    }
    impl Copy for Span {}
    impl Span {
        pub open spec fn is_dummy(&self) -> bool { self.location.0 == usize::MAX }
    }
    //@@ITEMS diagn
    }
}
pub mod util {
    use vstd::prelude::*;
    use vstd::std_specs::convert::*;
    use vstd::std_specs::ops::*;
    use crate::*;
    use crate::ispec::*;
    use vstd::arithmetic::power2::pow2;
    verus! {
    broadcast use {crate::num_bigint::axiom_into_refl_obeys, crate::num_bigint::axiom_into_refl};
    //@@INCLUDE _shared/util_bigint_spec_min.rs
    //@@INCLUDE _shared/bitvec_spec.rs
    //@@INCLUDE _shared/acc_spec.rs
    //@@INCLUDE u_format/fmt_spec_core.rs
    //@@INCLUDE u_listing/spec.rs
    //@@ITEMS util
    }
}
