    // ---- C05 property text: the escapes of a string literal
    pub open spec fn prepend(c: char, rest: Option<Seq<char>>) -> Option<Seq<char>> {
        match rest { Some(r) => Some(seq![c] + r), None => None }
    }
    /// value of the hexadecimal digits s[i..j] (None if one of them is no hex digit)
    pub open spec fn hex_value(s: Seq<char>, i: int, j: int) -> Option<int> decreases j - i {
        if j <= i { Some(0) } else {
            match (hex_value(s, i, j - 1), spec_to_digit(s[j - 1], 16)) { (Some(v), Some(d)) => Some(v * 16 + d as int), _ => None }
        }
    }
    /// index of the first `}` among s[i], .., s[i+6] all of whose predecessors are hex digits; None if a character that is
    /// neither comes first, if the text ends, or if seven characters pass without a `}`
    pub open spec fn brace_end(s: Seq<char>, i: int, k: int) -> Option<int> decreases 7 - k {
        if k >= 7 || i + k >= s.len() { None }
        else if s[i + k] == '}' { Some(i + k) }
        else if spec_to_digit(s[i + k], 16) is Some { brace_end(s, i, k + 1) }
        else { None }
    }
    /// The text a string literal stands for, decoding s from index i on: an ordinary character is itself; `\0 \t \r \n \' \" \\`
    /// are NUL, tab, CR, LF, quote, double quote, backslash; `\xHH` is the character with that code, at most 0x7f; `\u{H..}`
    /// with up to six hex digits is the character with that code point, if there is one; everything else is an error (None).
    pub open spec fn unescape(s: Seq<char>, i: int) -> Option<Seq<char>> decreases (if s.len() > i { s.len() - i } else { 0 }) {
        if i < 0 { None }
        else if i >= s.len() { Some(Seq::empty()) }
        else if s[i] != '\\' { prepend(s[i], unescape(s, i + 1)) }
        else if i + 1 >= s.len() { None }
        else {
            let e = s[i + 1];
            if e == '0' { prepend('\0', unescape(s, i + 2)) }
            else if e == 't' { prepend('\t', unescape(s, i + 2)) }
            else if e == 'r' { prepend('\r', unescape(s, i + 2)) }
            else if e == 'n' { prepend('\n', unescape(s, i + 2)) }
            else if e == '\'' { prepend('\'', unescape(s, i + 2)) }
            else if e == '"' { prepend('"', unescape(s, i + 2)) }
            else if e == '\\' { prepend('\\', unescape(s, i + 2)) }
            else if e == 'x' {
                if i + 3 >= s.len() { None } else {
                    match hex_value(s, i + 2, i + 4) {
                        Some(v) => if v > 0x7f { None } else { prepend(v as u8 as char, unescape(s, i + 4)) },
                        None => None,
                    }
                }
            }
            else if e == 'u' {
                if i + 2 >= s.len() || s[i + 2] != '{' { None } else {
                    match brace_end(s, i + 3, 0) {
                        None => None,
                        Some(j) => if j < i + 3 { None } else { match hex_value(s, i + 3, j) {
                            None => None,
                            Some(v) => match spec_from_u32(v as u32) { Some(c) => prepend(c, unescape(s, j + 1)), None => None },
                        } },
                    }
                }
            }
            else { None }
        }
    }
    /// what has been decoded so far followed by the decoding of the rest is the decoding of the whole
    pub open spec fn so_far(done: Seq<char>, rest: Option<Seq<char>>) -> Option<Seq<char>> {
        match rest { Some(r) => Some(done + r), None => None }
    }
    pub proof fn lemma_so_far_push(done: Seq<char>, c: char, rest: Option<Seq<char>>)
        ensures so_far(done, prepend(c, rest)) == so_far(done.push(c), rest)
    {
        match rest { Some(r) => { assert(done + (seq![c] + r) =~= done.push(c) + r); } None => {} }
    }

    /// 16^i for the at most seven digits of a `\u{..}` escape
    pub open spec fn cap(i: int) -> int {
        if i <= 0 { 1 } else if i == 1 { 0x10 } else if i == 2 { 0x100 } else if i == 3 { 0x1000 } else if i == 4 { 0x10000 } else if i == 5 { 0x100000 } else if i == 6 { 0x1000000 } else { 0x10000000 }
    }
    pub proof fn lemma_shl4_u8(b: u8) requires b <= 15 ensures (b << 4) == b * 16, (b << 4) <= 240 { assert(b <= 15 ==> (b << 4) == b * 16 && (b << 4) <= 240) by(bit_vector); }
    pub proof fn lemma_shl4_u32(x: u32) requires x < 0x10000000 ensures (x << 4) == x * 16 { assert(x < 0x10000000 ==> (x << 4) == x * 16) by(bit_vector); }
    pub proof fn lemma_brace_step(s: Seq<char>, i: int, k: int)
        requires 0 <= k < 7, i + k < s.len(), s[i + k] != '}', spec_to_digit(s[i + k], 16) is Some
        ensures brace_end(s, i, k) == brace_end(s, i, k + 1)
    {}

    pub proof fn lemma_hex_step(s: Seq<char>, i: int, j: int)
        requires i < j
        ensures hex_value(s, i, j) == (match (hex_value(s, i, j - 1), spec_to_digit(s[j - 1], 16)) { (Some(v), Some(d)) => Some(v * 16 + d as int), _ => None })
    {}
    /// one bad digit spoils the whole run
    pub proof fn lemma_hex_none(s: Seq<char>, i: int, j: int, k: int)
        requires i <= k < j, spec_to_digit(s[k], 16) is None
        ensures hex_value(s, i, j) is None
        decreases j - k
    {
        lemma_hex_step(s, i, j);
        if k < j - 1 { lemma_hex_none(s, i, j - 1, k); }
    }
