//@@INCLUDE _shared/header.rs
//@@INCLUDE _shared/diagn_opaque.rs
pub mod syntax {
    use vstd::prelude::*;
    use crate::*;
    verus! {
    /// the last diagnostic's span (ghost observation recorded by Report::error_span's stub contract)
    pub uninterp spec fn err_span(r: &diagn::Report) -> diagn::Span;
    // ---- std gaps (ASSUMED): char::to_digit is a function of (char, radix) yielding a digit below the radix;
    // char::from_u32 is a function of the code
    pub uninterp spec fn spec_to_digit(c: char, radix: u32) -> Option<u32>;
    pub assume_specification[ char::to_digit ](c: char, radix: u32) -> (r: Option<u32>)
        ensures r == spec_to_digit(c, radix), r is Some ==> r->0 < radix;
    pub uninterp spec fn spec_from_u32(code: u32) -> Option<char>;
    pub assume_specification[ char::from_u32 ](code: u32) -> (r: Option<char>)
        ensures r == spec_from_u32(code);

    /// R41: stand-in for `Peekable<Chars>` over the text between the quotes: a cursor over the character vector with the
    /// same two methods (verified below; what is ASSUMED is `verif_inner_chars`: slicing off the first and the last byte
    /// of a text whose first and last characters are the one-byte quotes drops exactly those two characters)
    pub struct VerifChars { pub v: Vec<char>, pub pos: usize }
    impl VerifChars {
        pub open spec fn wf(&self) -> bool { self.pos <= self.v@.len() }
        pub fn peek(&mut self) -> (r: Option<&char>)
            requires old(self).wf()
            ensures *final(self) == *old(self), r == (if old(self).pos < old(self).v@.len() { Some(&old(self).v@[old(self).pos as int]) } else { None })
        { if self.pos < self.v.len() { Some(&self.v[self.pos]) } else { None } }
        pub fn next(&mut self) -> (r: Option<char>)
            requires old(self).wf()
            ensures final(self).wf(), final(self).v == old(self).v,
                r == (if old(self).pos < old(self).v@.len() { Some(old(self).v@[old(self).pos as int]) } else { None }),
                final(self).pos == (if old(self).pos < old(self).v@.len() { old(self).pos + 1 } else { old(self).pos as int })
        { if self.pos < self.v.len() { let c = self.v[self.pos]; self.pos += 1; Some(c) } else { None } }
    }
    #[verifier::external_body]
    pub fn verif_inner_chars(excerpt: &str) -> (r: VerifChars)
        requires excerpt@.len() >= 2
        ensures r.wf(), r.pos == 0, r.v@ == excerpt@.subrange(1, excerpt@.len() - 1)
    { unimplemented!() }
    //@@INCLUDE u_strings/spec.rs
    //@@ITEMS syntax
    }
}
