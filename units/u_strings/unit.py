from vfw.spec import Unit, Fn, Type, Impl, C, Loop, Rewrite, Insert
from units.contracts_report import F as RF

FX = "src/syntax/excerpt.rs"
INNER = "excerpt@.subrange(1, excerpt@.len() - 1)"
r_error_span = Fn(RF, "error_span", impl="Report", slot="diagn", mode="stub", key="Report::error_span",
    ensures=[C("one_more_message_at_the_span", "final(self).msgs() == old(self).msgs() + 1 && crate::syntax::err_span(final(self)) == span")])
WHOLE = "unescape(%s, 0)" % INNER
contents = Fn(FX, "excerpt_as_string_contents", slot="syntax", ret="res", key="excerpt_as_string_contents", props=["C05", "C03"],
    requires=[C("a_string_token_has_its_two_quotes", "excerpt@.len() >= 2", ["C03"])],
    ensures=[C("the_text_the_literal_stands_for", "(match res { Ok(st) => %s == Some(st@), Err(_) => %s is None })" % (WHOLE, WHOLE), ["C05"]),
             C("an_invalid_escape_is_reported", "(res is Err ==> final(report).msgs() > old(report).msgs()) && (res is Ok ==> *final(report) == *old(report))", ["C03"]),
             C("the_diagnostic_points_at_the_string_token", "res is Err ==> err_span(final(report)) == span", ["C13"])],
    rewrites=[
        Rewrite("let mut i = 0;", "let mut i: i32 = 0;", rule="R10", why="type ascription (the integer default, written out)"),
        Rewrite("let verif_hi_2 = 2; let mut verif_next_2 = 0;", "let verif_hi_2: usize = 2; let mut verif_next_2: usize = 0;", rule="R10", why="type ascription") if False else Rewrite(r"assert!\(excerpt\.len\(\) >= 2\);\s*let mut chars = excerpt\[1\.\.\(excerpt\.len\(\) - 1\)\]\.chars\(\)\.peekable\(\);", "let mut chars = verif_inner_chars(excerpt);", regex=True, rule="R41",
                why="`assert!(len >= 2)` + byte slice + `Peekable<Chars>` -> the stand-in cursor over the characters between the quotes (the assert's condition is the wrapper's precondition)"),
        Rewrite("\t\t\t\t\tuse std::char;\n", "", rule="R6", why="a `use` item inside a function body (unsupported); `char::from_u32` resolves without it"),
    ],
    closures={1: ("|c: &char| -> (r: char) ensures r == *c", ""),
              2: ("|c: char| -> (r: Option<u32>) ensures r == spec_to_digit(c, 16), r is Some ==> r->0 < 16", "")},
    loops={
        1: Loop(invariant=[
                C("cursor", "chars.wf() && chars.v@ == %s && *report == *old(report)" % INNER),
                C("decoded_so_far", "so_far(result@, unescape(chars.v@, chars.pos as int)) == unescape(chars.v@, 0)"),
            ],
            ensures=[C("the_text_is_used_up", "chars.pos >= chars.v@.len()")],
            body_start=" let ghost p = chars.pos as int; let ghost res0 = result@;",
            body_end=" proof { lemma_so_far_push(res0, unescaped, unescape(chars.v@, chars.pos as int)); }"),
        2: Loop(invariant=[
                C("cursor", "chars.wf() && chars.v@ == %s && *report == *old(report) && verif_hi_2 == 2 && 0 <= verif_next_2 <= 2 && chars.pos == p + 2 + verif_next_2 && p + 1 < chars.v@.len() && chars.v@[p] == '\\\\' && chars.v@[p + 1] == 'x'" % INNER),
                C("digits_so_far", "hex_value(chars.v@, p + 2, p + 2 + verif_next_2) == Some(byte as int) && (verif_next_2 == 0 ==> byte == 0) && (verif_next_2 == 1 ==> byte <= 15)"),
                C("decoded_so_far", "so_far(result@, unescape(chars.v@, p)) == unescape(chars.v@, 0) && result@ == res0"),
            ], decreases="2 - verif_next_2",
            body_start=" proof { lemma_shl4_u8(byte); lemma_hex_step(chars.v@, p + 2, p + 3 + verif_next_2); if p + 3 < chars.v@.len() { if spec_to_digit(chars.v@[p + 2], 16) is None { lemma_hex_none(chars.v@, p + 2, p + 4, p + 2); } if spec_to_digit(chars.v@[p + 3], 16) is None { lemma_hex_none(chars.v@, p + 2, p + 4, p + 3); } } }"),
        3: Loop(invariant_except_break=[
                C("digits_so_far", "0 <= i <= 7 && chars.pos == p + 3 + i && hex_value(chars.v@, p + 3, p + 3 + i) == Some(codepoint as int) && codepoint < cap(i as int) && brace_end(chars.v@, p + 3, 0) == brace_end(chars.v@, p + 3, i as int)"),
            ], invariant=[
                C("cursor", "chars.wf() && chars.v@ == %s && *report == *old(report) && p + 2 < chars.v@.len() && chars.v@[p] == '\\\\' && chars.v@[p + 1] == 'u' && chars.v@[p + 2] == '{'" % INNER),
                C("decoded_so_far", "so_far(result@, unescape(chars.v@, p)) == unescape(chars.v@, 0) && result@ == res0"),
            ], ensures=[
                C("closing_brace_found", "brace_end(chars.v@, p + 3, 0) == Some(chars.pos - 1) && chars.pos - 1 >= p + 3 && hex_value(chars.v@, p + 3, chars.pos - 1) == Some(codepoint as int) && codepoint < 0x10000000"),
            ]),
    },
    inserts=[
        Insert("\tOk(result)", "\tproof { assert(result@ + Seq::<char>::empty() =~= result@); }\n", where="before"),
        Insert("codepoint <<= 4;", "proof { lemma_shl4_u32(codepoint); lemma_brace_step(chars.v@, p + 3, i - 1); }\n\t\t\t\t\t\t", where="before"),
    ],
    for_to_while=[2],
    attrs=["#[verifier::exec_allows_no_decreases_clause]"],
)

UNIT = Unit(
    "U-strings", "u_strings/skeleton.rs",
    items=[r_error_span, contents],
    serves=["C05", "C13", "C03"],
    carry_facts_into_loops=False,
    description="syntax::excerpt_as_string_contents: the escapes of a string literal",
)
