//@@INCLUDE _shared/header.rs
//@@INCLUDE _shared/diagn_opaque.rs
/// stand-in for the parts of std::path / std::fs that util::fileserver's get_handle touches (R38: `std::path::` and
/// `std::fs::` are renamed to `verif_std::path::` / `verif_std::fs::`).  ASSUMED: a PathBuf made from a &str carries that
/// text and `to_string_lossy().to_string()` gives it back unchanged (true for every valid UTF-8 text, which a &str is);
/// whether a file exists and what a canonical path looks like are unspecified.
pub mod verif_std {
    pub mod path {
        use vstd::prelude::*;
        verus! {
        #[verifier::external_body]
        pub struct PathBuf { _p: u8 }
        #[verifier::external_body]
        pub struct Lossy { _p: u8 }
        impl PathBuf {
            pub uninterp spec fn text(&self) -> Seq<char>;
            #[verifier::external_body]
            pub fn from(s: &str) -> (r: PathBuf) ensures r.text() == s@ { unimplemented!() }
            #[verifier::external_body]
            pub fn exists(&self) -> (r: bool) { unimplemented!() }
            #[verifier::external_body]
            pub fn to_string_lossy(&self) -> (r: Lossy) ensures r.text() == self.text() { unimplemented!() }
        }
        impl Lossy {
            pub uninterp spec fn text(&self) -> Seq<char>;
            #[verifier::external_body]
            pub fn to_string(&self) -> (r: String) ensures r@ == self.text() { unimplemented!() }
        }
        }
    }
    pub mod fs {
        use vstd::prelude::*;
        verus! {
        /// nothing is known about the canonical form of a path (it is absolute and symlink-free: some other text)
        #[verifier::external_body]
        pub fn canonicalize(s: &str) -> (r: Result<super::path::PathBuf, ()>) { unimplemented!() }
        }
    }
}
pub mod util {
    use vstd::prelude::*;
    use crate::*;
    verus! {
    // ---- the name table as a mathematical map from file-name texts to handles (ASSUMED model of
    // std::collections::HashMap<String, usize>; vstd cannot relate String keys to borrowed &str keys)
    pub uninterp spec fn names(m: &std::collections::HashMap<String, FileServerHandle>) -> Map<Seq<char>, FileServerHandle>;
    #[verifier::external_body]
    pub fn verif_names_get<'a>(m: &'a std::collections::HashMap<String, FileServerHandle>, key: &str) -> (r: Option<&'a FileServerHandle>)
        ensures (match r { Some(x) => names(m).contains_key(key@) && names(m)[key@] == *x, None => !names(m).contains_key(key@) })
    { unimplemented!() }
    #[verifier::external_body]
    pub fn verif_names_contains(m: &std::collections::HashMap<String, FileServerHandle>, key: &str) -> (r: bool)
        ensures r == names(m).contains_key(key@)
    { unimplemented!() }
    #[verifier::external_body]
    pub fn verif_names_len(m: &std::collections::HashMap<String, FileServerHandle>) -> (r: usize)
        ensures names(m).dom().finite(), r == names(m).dom().len()
    { unimplemented!() }
    #[verifier::external_body]
    pub fn verif_names_insert(m: &mut std::collections::HashMap<String, FileServerHandle>, key: String, value: FileServerHandle)
        ensures names(final(m)) == names(old(m)).insert(key@, value)
    { unimplemented!() }
    #[verifier::external_body]
    pub fn verif_names_new() -> (r: std::collections::HashMap<String, FileServerHandle>)
        ensures names(&r) == Map::<Seq<char>, FileServerHandle>::empty()
    { unimplemented!() }
    /// `*MAP.entry(KEY).or_insert(V)`: the handle already filed under the key, else V, which is then filed (ASSUMED)
    #[verifier::external_body]
    pub fn verif_names_entry_or_insert(m: &mut std::collections::HashMap<String, FileServerHandle>, key: String, value: FileServerHandle) -> (r: FileServerHandle)
        ensures
            names(old(m)).contains_key(key@) ==> r == names(old(m))[key@] && names(final(m)) == names(old(m)),
            !names(old(m)).contains_key(key@) ==> r == value && names(final(m)) == names(old(m)).insert(key@, value),
    { unimplemented!() }
    #[verifier::external_body]
    pub fn verif_into_string<S: Into<String>>(s: S) -> (r: String) ensures r@ == into_text(s) { unimplemented!() }
    pub uninterp spec fn into_text<S>(s: S) -> Seq<char>;
    #[verifier::external_body]
    pub fn verif_into_bytes<T: Into<Vec<u8>>>(t: T) -> (r: Vec<u8>) { unimplemented!() }
    #[verifier::external_body]
    pub fn verif_empty_string() -> (r: String) ensures r@ == Seq::<char>::empty() { unimplemented!() }

    /// C14: the two tables of a file server agree - every filed name has a handle below the number of handles, and the
    /// name recorded for that handle is this very name (so get_filename(get_handle(n)) == n and two names never share a handle)
    pub open spec fn tables_agree(handles: &std::collections::HashMap<String, FileServerHandle>, handles_to_filename: Seq<String>) -> bool {
        &&& names(handles).dom().finite()
        &&& names(handles).dom().len() == handles_to_filename.len()
        &&& forall|n: Seq<char>| #[trigger] names(handles).contains_key(n) ==> names(handles)[n] < handles_to_filename.len() && handles_to_filename[names(handles)[n] as int]@ == n
    }
    /// filing a fresh name makes the table one larger
    pub proof fn lemma_insert_fresh(m: Map<Seq<char>, FileServerHandle>, k: Seq<char>, v: FileServerHandle)
        requires m.dom().finite(), !m.contains_key(k)
        ensures m.insert(k, v).dom().finite(), m.insert(k, v).dom().len() == m.dom().len() + 1
    {
        assert(m.insert(k, v).dom() =~= m.dom().insert(k));
    }
    impl FileServerReal {
        pub open spec fn wf(&self) -> bool { tables_agree(&self.handles, self.handles_to_filename@) }
    }
    impl FileServerMock {
        pub open spec fn wf(&self) -> bool { tables_agree(&self.handles, self.handles_to_filename@) && self.files@.len() == self.handles_to_filename@.len() }
    }
    //@@ITEMS util
    }
}
