from vfw.spec import Unit, Fn, Type, Impl, C, Loop, Rewrite, Insert
from units.contracts_report import report_fns

F = "src/util/fileserver.rs"
LOUD = C("err_is_loud_ok_is_silent", "(res is Err ==> final(report).msgs() > old(report).msgs()) && (res is Ok ==> *final(report) == *old(report))", ["C03", "C14"])
NAMES = [
    Rewrite(r"self\.handles\.get\(&?(\w+)\)", r"verif_names_get(&self.handles, &\1)", regex=True, count=None, rule="R8", why="HashMap<String, _>::get with a borrowed key -> prelude wrapper over the name-table model"),
    Rewrite("self.handles.len()", "verif_names_len(&self.handles)", count=None, rule="R8", why="HashMap::len -> prelude wrapper (number of filed names)"),
    Rewrite(r"self\.handles\.contains_key\((\w+)\)", r"verif_names_contains(&self.handles, \1)", regex=True, count=None, rule="R8", why="HashMap::contains_key -> prelude wrapper"),
    Rewrite(r"self\.handles\.insert\(\s*([\w.()]+),\s*(\w+)\)", r"verif_names_insert(&mut self.handles, \1, \2)", regex=True, count=None, rule="R8", why="HashMap::insert -> prelude wrapper"),
    Rewrite("std::path::", "verif_std::path::", count=None, rule="R38", why="std::path -> stand-in module with the same method names (assumed contracts, see skeleton)"),
    Rewrite("std::fs::", "verif_std::fs::", count=None, rule="R38", why="std::fs -> stand-in module"),
]
SAME_NAME = "final(self).handles_to_filename@[res->Ok_0 as int]@ == filename@"

report_error = Fn(F, "report_error", slot="util", key="fileserver::report_error", props=["C03"],
    ensures=[C("a_message_is_added", "final(report).msgs() > old(report).msgs()", ["C03"])])

real_get_handle = Fn(F, "get_handle", impl="FileServer for FileServerReal", impl_header="FileServerReal", slot="util", ret="res",
    key="FileServerReal::get_handle", props=["C14", "C03"],
    requires=[C("tables_agree", "old(self).wf()")],
    ensures=[LOUD,
        C("tables_still_agree", "final(self).wf()", ["C14"]),
        C("the_handle_is_recorded_under_the_name_asked_for", "res is Ok ==> res->Ok_0 < final(self).handles_to_filename@.len() && " + SAME_NAME, ["C14"]),
        C("a_name_seen_before_keeps_its_handle", "names(&old(self).handles).contains_key(filename@) ==> res == Ok::<FileServerHandle, ()>(names(&old(self).handles)[filename@]) && *final(self) == *old(self)", ["C14"]),
        C("earlier_handles_keep_their_names", "final(self).handles_to_filename@.len() >= old(self).handles_to_filename@.len() && forall|h: int| 0 <= h < old(self).handles_to_filename@.len() ==> final(self).handles_to_filename@[h] == old(self).handles_to_filename@[h]", ["C14"]),
        C("nothing_changes_on_failure", "res is Err ==> *final(self) == *old(self)", ["C14", "C03"]),
    ],
    rewrites=NAMES,
    inserts=[Insert("self.handles_to_filename.push(", "proof { lemma_insert_fresh(names(&old(self).handles), filename_path_str@, handle); }\n\t\t\t\t", where="before")],
)
real_get_filename = Fn(F, "get_filename", impl="FileServer for FileServerReal", impl_header="FileServerReal", slot="util", ret="res",
    key="FileServerReal::get_filename", props=["C14", "C03"],
    requires=[C("a_handle_that_was_handed_out", "file_handle < self.handles_to_filename@.len()")],
    ensures=[C("the_recorded_name", "res@ == self.handles_to_filename@[file_handle as int]@", ["C14"])])
mock_get_handle = Fn(F, "get_handle", impl="FileServer for FileServerMock", impl_header="FileServerMock", slot="util", ret="res",
    key="FileServerMock::get_handle", props=["C14", "C03"],
    requires=[C("tables_agree", "old(self).wf()")],
    ensures=[LOUD,
        C("nothing_changes", "*final(self) == *old(self)", ["C14"]),
        C("the_handle_is_recorded_under_the_name_asked_for", "res is Ok ==> res->Ok_0 < final(self).handles_to_filename@.len() && " + SAME_NAME + " && names(&old(self).handles)[filename@] == res->Ok_0", ["C14"]),
        C("unknown_names_fail", "!names(&old(self).handles).contains_key(filename@) ==> res is Err", ["C14", "C03"]),
    ],
    rewrites=NAMES)
mock_get_filename = Fn(F, "get_filename", impl="FileServer for FileServerMock", impl_header="FileServerMock", slot="util", ret="res",
    key="FileServerMock::get_filename", props=["C14", "C03"],
    requires=[C("a_handle_that_was_handed_out", "file_handle < self.handles_to_filename@.len()")],
    ensures=[C("the_recorded_name", "res@ == self.handles_to_filename@[file_handle as int]@", ["C14"])])

ADD_RW = NAMES + [
    Rewrite("filename.into()", "verif_into_string(filename)", rule="R16", why="`Into<String>::into` on a generic argument -> prelude wrapper (the text the argument converts to, uninterpreted)"),
    Rewrite(r"\*self\.handles\s*\.entry\((\w+)\.clone\(\)\)\s*\.or_insert\((\w+)\.try_into\(\)\.unwrap\(\)\)", r"verif_names_entry_or_insert(&mut self.handles, \1.clone(), \2)", regex=True, rule="R19",
            why="entry(..).or_insert(..) -> prelude wrapper (assumed: the filed handle, else the given one which is then filed); usize -> usize `try_into().unwrap()` is the identity"),
    Rewrite('"".to_string()', "verif_empty_string()", rule="R16", why="str::to_string -> prelude wrapper"),
]
def add_contract(extra_len):
    return dict(
        requires=[C("tables_agree", "old(self).wf()"), C("no_disk_file_opened_yet", "old(self).%s@.len() == old(self).handles_to_filename@.len()" % extra_len)],
        ensures=[
            C("tables_still_agree", "final(self).wf() && final(self).%s@.len() == final(self).handles_to_filename@.len()" % extra_len, ["C14"]),
            C("the_name_is_filed", "names(&final(self).handles).contains_key(into_text(filename)) && final(self).handles_to_filename@[names(&final(self).handles)[into_text(filename)] as int]@ == into_text(filename)", ["C14"]),
            C("other_names_keep_their_handles", "forall|n: Seq<char>| n != into_text(filename) ==> names(&final(self).handles).contains_key(n) == names(&old(self).handles).contains_key(n) && (names(&old(self).handles).contains_key(n) ==> names(&final(self).handles)[n] == names(&old(self).handles)[n])", ["C14"]),
        ],
        rewrites=ADD_RW,
        inserts=[Insert("let next_index =", "let ghost verif_text = filename@;\n\t\t", where="before"),
                 Insert("self.handles_to_filename[handle] = filename;", "proof { if !names(&old(self).handles).contains_key(verif_text) { lemma_insert_fresh(names(&old(self).handles), verif_text, handle); } }\n\t\t", where="before")],
        loops={1: Loop(invariant=[
            C("tables", "self.handles == verif_handles && self.%s@.len() == self.handles_to_filename@.len() && self.handles_to_filename@.len() >= old(self).handles_to_filename@.len()" % extra_len),
            C("grows_only_up_to_the_handle", "self.handles_to_filename@.len() <= old(self).handles_to_filename@.len() || self.handles_to_filename@.len() <= handle + 1"),
            C("earlier_names_kept", "forall|h: int| 0 <= h < old(self).handles_to_filename@.len() ==> self.handles_to_filename@[h] == old(self).handles_to_filename@[h]"),
        ], decreases="handle + 1 - self.%s@.len()" % extra_len, before="\t\tlet ghost verif_handles = self.handles;")},
    )
mock_add = Fn(F, "add", impl="FileServerMock", slot="util", key="FileServerMock::add", props=["C14"],
    **{k: (v + [Rewrite("contents.into()", "verif_into_bytes(contents)", rule="R16", why="`Into<Vec<u8>>::into` on a generic argument -> prelude wrapper")] if k == "rewrites" else v) for k, v in add_contract("files").items()})
real_add = Fn(F, "add", impl="FileServerReal", slot="util", key="FileServerReal::add", props=["C14"], **add_contract("std_files"))
mock_new = Fn(F, "new", impl="FileServerMock", slot="util", ret="res", key="FileServerMock::new", props=["C14"],
    ensures=[C("empty_tables_agree", "res.wf() && res.handles_to_filename@.len() == 0", ["C14"])],
    rewrites=[Rewrite("std::collections::HashMap::new()", "verif_names_new()", rule="R8", why="HashMap::new -> prelude wrapper (no name filed)")])
real_new = Fn(F, "new", impl="FileServerReal", slot="util", ret="res", key="FileServerReal::new", props=["C14"],
    ensures=[C("empty_tables_agree", "res.wf() && res.handles_to_filename@.len() == 0 && res.std_files@.len() == 0", ["C14"])],
    rewrites=[Rewrite("std::collections::HashMap::new()", "verif_names_new()", rule="R8", why="HashMap::new -> prelude wrapper (no name filed)")])

UNIT = Unit(
    "U-fileserver", "u_fileserver/skeleton.rs",
    items=report_fns("stub", "diagn") + [
        Type(F, "type", "FileServerHandle", slot="util"), Type(F, "struct", "FileServerReal", slot="util"), Type(F, "struct", "FileServerMock", slot="util"),
        report_error, mock_new, real_new, mock_add, real_add, real_get_handle, real_get_filename, mock_get_handle, mock_get_filename,
    ],
    serves=["C14", "C03"],
    description="util::FileServerReal / FileServerMock: get_handle and get_filename against the name-table invariant (the name recorded for a handle is the name asked for)",
)
