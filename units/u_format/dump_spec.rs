    // ---- property text (C11) for the bit/hex dumps: the text is a function of the stored bits
    /// the address column of a dump line: `format!(" {:01$x} | ", addr, width)`
    pub open spec fn dump_addr_text(addr: int, width: int) -> Seq<char> { fmt_text(" {:01$x} | "@, addr, width) }
    /// the number of bytes of `format!("{:x}", x)`
    pub open spec fn hex_text_len(x: int) -> int { fmt_len("{:x}"@, x) }

    /// one digit of the dump: '.' only when the digit starts at or beyond the end of the data; otherwise the
    /// digit of its `db` bits, MSB first (bits beyond the end read as zero)
    pub open spec fn dump_digit(v: int, len: int, first: int, db: int) -> char {
        if first >= len { '.' } else { digit_char(acc(v, first, db)) }
    }
    pub open spec fn dump_byte_digits(v: int, len: int, byte_no: int, db: int, bb: int, n: int) -> Seq<char>
        decreases n
    {
        if n <= 0 { Seq::empty() } else { dump_byte_digits(v, len, byte_no, db, bb, n - 1).push(dump_digit(v, len, byte_no * bb + (n - 1) * db, db)) }
    }
    pub open spec fn dump_group_sep(k: int, bpl: int) -> Seq<char> {
        if k % 4 == 3 && k < bpl - 1 { seq![' ', ' '] } else { seq![' '] }
    }
    pub open spec fn dump_line_bytes(v: int, len: int, line: int, db: int, bb: int, bpl: int, n: int) -> Seq<char>
        decreases n
    {
        if n <= 0 { Seq::empty() }
        else { dump_line_bytes(v, len, line, db, bb, bpl, n - 1) + dump_byte_digits(v, len, line * bpl + (n - 1), db, bb, bb / db) + dump_group_sep(n - 1, bpl) }
    }
    /// the character column: printable ASCII as itself, white space as ' ', everything else (and '|') as '.'
    pub open spec fn dump_ascii_char(v: int, len: int, first: int) -> char {
        if first >= len { '.' } else {
            let b = acc(v, first, 8);
            if b == 0x20 || b == 0x09 || b == 0x0d || b == 0x0a { ' ' }
            else if b >= 0x80 || b < 0x20 || b == 0x7c { '.' }
            else { b as u8 as char }
        }
    }
    pub open spec fn dump_ascii(v: int, len: int, line: int, bpl: int, n: int) -> Seq<char>
        decreases n
    {
        if n <= 0 { Seq::empty() } else { dump_ascii(v, len, line, bpl, n - 1).push(dump_ascii_char(v, len, (line * bpl + (n - 1)) * 8)) }
    }
    pub open spec fn dump_line(v: int, len: int, line: int, db: int, bb: int, bpl: int, w: int) -> Seq<char> {
        dump_addr_text(line * bpl, w) + dump_line_bytes(v, len, line, db, bb, bpl, bpl) + seq!['|', ' ']
            + (if bb == 8 { dump_ascii(v, len, line, bpl, bpl) + seq![' ', '|'] } else { Seq::empty() })
            + seq!['\n']
    }
    pub open spec fn dump_lines(v: int, len: int, db: int, bb: int, bpl: int, w: int, n: int) -> Seq<char>
        decreases n
    {
        if n <= 0 { Seq::empty() } else { dump_lines(v, len, db, bb, bpl, w, n - 1) + dump_line(v, len, n - 1, db, bb, bpl, w) }
    }
    /// number of lines: enough for every bit, and one line for an output shorter than a byte
    pub open spec fn dump_line_count(len: int, bb: int, bpl: int) -> int {
        if len < bb { 1 } else { (len + (bpl - 1) * bb) / (bb * bpl) }
    }
    pub open spec fn dump_text(v: int, len: int, db: int, bb: int, bpl: int) -> Seq<char> {
        let n = dump_line_count(len, bb, bpl);
        dump_lines(v, len, db, bb, bpl, hex_text_len((n - 1) * bpl), n)
    }
    pub proof fn lemma_dump_bounds(len: int, bb: int, bpl: int)
        requires 0 <= len, 1 <= bb <= 64, 1 <= bpl <= 1024
        ensures
            1 <= bb * bpl <= 0x10000,
            (bpl - 1) * bb <= 0x10000,
            dump_line_count(len, bb, bpl) >= 1,
            dump_line_count(len, bb, bpl) * (bb * bpl) <= len + 0x20000,
            dump_line_count(len, bb, bpl) * bpl <= len + 0x20000,
    {
        assert(1 <= bb * bpl <= 0x10000) by (nonlinear_arith) requires 1 <= bb <= 64, 1 <= bpl <= 1024;
        assert(0 <= (bpl - 1) * bb <= 0x10000) by (nonlinear_arith) requires 1 <= bb <= 64, 1 <= bpl <= 1024;
        let d = bb * bpl;
        let a = len + (bpl - 1) * bb;
        assert((a / d) * d <= a) by (nonlinear_arith) requires d >= 1, a >= 0;
        if len >= bb {
            assert(a >= d) by (nonlinear_arith) requires a == len + (bpl - 1) * bb, len >= bb, d == bb * bpl;
            assert(a / d >= 1) by (nonlinear_arith) requires a >= d, d >= 1;
        }
        let n = dump_line_count(len, bb, bpl);
        assert(n * bpl <= n * (bb * bpl)) by (nonlinear_arith) requires n >= 0, bb >= 1, bpl >= 1;
    }
    /// the first bit of a digit lies within the lines the dump prints
    pub proof fn lemma_dump_pos(len: int, bb: int, bpl: int, db: int, line: int, byte: int, digit: int)
        requires 0 <= len, 1 <= bb <= 64, 1 <= bpl <= 1024, 1 <= db <= 4, 0 <= line < dump_line_count(len, bb, bpl), 0 <= byte < bpl, 0 <= digit <= bb / db
        ensures
            0 <= line * bpl <= len + 0x20000,
            0 <= line * bpl + byte <= len + 0x20000,
            0 <= (line * bpl + byte) * bb <= len + 0x20000,
            0 <= digit * db <= bb,
            (line * bpl + byte) * bb + digit * db <= len + 0x20000 + 64,
    {
        lemma_dump_bounds(len, bb, bpl);
        let n = dump_line_count(len, bb, bpl);
        assert(line * bpl + byte <= n * bpl - 1) by (nonlinear_arith) requires 0 <= line < n, 0 <= byte < bpl;
        assert(0 <= line * bpl) by (nonlinear_arith) requires 0 <= line, 1 <= bpl;
        assert((line * bpl + byte) * bb <= n * (bb * bpl)) by (nonlinear_arith) requires 0 <= line * bpl + byte <= n * bpl - 1, bb >= 1;
        assert(0 <= (line * bpl + byte) * bb) by (nonlinear_arith) requires 0 <= line * bpl + byte, bb >= 1;
        assert(0 <= digit * db <= bb) by (nonlinear_arith) requires 0 <= digit <= bb / db, db >= 1, bb >= 1;
    }
