    // ---- R22: `format!(LIT, a[, b])` is replaced by a wrapper call with the same literal and arguments; the
    // ASSUMED contract is only that the produced text is a function (left uninterpreted) of literal and arguments
    pub uninterp spec fn fmt_text(lit: Seq<char>, a: int, b: int) -> Seq<char>;
    /// byte length (`String::len`) of `format!(LIT, a)`; assumed below 2^60
    pub uninterp spec fn fmt_len(lit: Seq<char>, a: int) -> int;
    #[verifier::external_body]
    pub fn verif_fmt_usize(lit: &str, a: usize) -> (r: String)
        ensures r@ == fmt_text(lit@, a as int, 0)
    { unimplemented!() }
    #[verifier::external_body]
    pub fn verif_fmt_usize2(lit: &str, a: usize, b: usize) -> (r: String)
        ensures r@ == fmt_text(lit@, a as int, b as int)
    { unimplemented!() }
    #[verifier::external_body]
    pub fn verif_fmt_u8(lit: &str, a: u8) -> (r: String)
        ensures r@ == fmt_text(lit@, a as int, 0)
    { unimplemented!() }
    #[verifier::external_body]
    pub fn verif_fmt_u16_usize(lit: &str, a: u16, b: usize) -> (r: String)
        ensures r@ == fmt_text(lit@, a as int, b as int)
    { unimplemented!() }
    #[verifier::external_body]
    pub fn verif_fmt_len_usize(lit: &str, a: usize) -> (r: usize)
        ensures r == fmt_len(lit@, a as int), r <= 0x1000_0000_0000_0000
    { unimplemented!() }

