    /// number of bytes needed for `len` bits
    pub open spec fn byte_count(len: int) -> int { len / 8 + (if len % 8 != 0 { 1int } else { 0int }) }

    // ---- comma/space separated values
    pub open spec fn sep_byte_text(radix: int, b: int) -> Seq<char> {
        if radix == 10 { fmt_text("{}"@, b, 0) } else { fmt_text("0x{:02x}"@, b, 0) }
    }
    /// the first n values: value k is byte k (bits 8k.., MSB first, zero padded); the separator follows every value
    /// but the last, with a line break after every 16th
    pub open spec fn sep_rows(v: int, len: int, radix: int, sep: Seq<char>, n: int) -> Seq<char>
        decreases n
    {
        if n <= 0 { Seq::empty() }
        else {
            sep_rows(v, len, radix, sep, n - 1) + sep_byte_text(radix, acc(v, 8 * (n - 1), 8))
                + (if 8 * n < len { sep + (if n % 16 == 0 { seq!['\n'] } else { Seq::empty() }) } else { Seq::empty() })
        }
    }

    // ---- MIF
    pub open spec fn mif_header(n: int) -> Seq<char> {
        fmt_text("DEPTH = {};\n"@, n, 0) + "WIDTH = 8;\n"@ + "ADDRESS_RADIX = HEX;\n"@ + "DATA_RADIX = HEX;\n"@ + "\n"@ + "CONTENT\n"@ + "BEGIN\n"@
    }
    /// the first n rows: row k is address k and byte k (bits 8k.., MSB first, zero padded)
    pub open spec fn mif_rows(v: int, w: int, n: int) -> Seq<char>
        decreases n
    {
        if n <= 0 { Seq::empty() }
        else { mif_rows(v, w, n - 1) + fmt_text(" {:1$X}: "@, n - 1, w) + fmt_text("{:02X};\n"@, acc(v, 8 * (n - 1), 8), 0) }
    }
    pub open spec fn saturating_pred(n: int) -> int { if n >= 1 { n - 1 } else { 0 } }
    pub open spec fn mif_text(v: int, len: int) -> Seq<char> {
        let n = byte_count(len);
        mif_header(n) + mif_rows(v, fmt_len("{:x}"@, saturating_pred(n)), n) + "END;"@
    }

    // ---- C array
    pub open spec fn c_array_addr(k: int, w: int) -> Seq<char> { fmt_text("\n\t/* 0x{:01$x} */ "@, k, w) }
    /// the first n elements: element k is byte k; ", " follows every element but the last, and a new line with
    /// the address comment starts after every 16th
    pub open spec fn c_array_rows(v: int, len: int, radix: int, w: int, n: int) -> Seq<char>
        decreases n
    {
        if n <= 0 { Seq::empty() }
        else {
            c_array_rows(v, len, radix, w, n - 1) + sep_byte_text(radix, acc(v, 8 * (n - 1), 8))
                + (if 8 * n < len { ", "@ + (if n % 16 == 0 { c_array_addr(n, w) } else { Seq::empty() }) } else { Seq::empty() })
        }
    }
    pub open spec fn c_array_text(v: int, len: int, radix: int) -> Seq<char> {
        let n = byte_count(len);
        let w = fmt_len("{:x}"@, saturating_pred(n));
        "const unsigned char data[] = {\n"@ + fmt_text("\t/* 0x{:01$x} */ "@, 0, w) + c_array_rows(v, len, radix, w, n) + "\n};"@
    }

    // ---- Logisim
    /// the first n chunks of `bpc` bits each (MSB first, zero padded), a line break after the chunks that end on
    /// a multiple of 128 bits
    pub open spec fn logisim_rows(v: int, bpc: int, n: int) -> Seq<char>
        decreases n
    {
        if n <= 0 { Seq::empty() }
        else {
            logisim_rows(v, bpc, n - 1) + fmt_text("{:01$x} "@, acc(v, bpc * (n - 1), bpc), bpc / 4)
                + (if ((bpc * n) / 8) % 16 == 0 { seq!['\n'] } else { Seq::empty() })
        }
    }
    pub open spec fn logisim_text(v: int, len: int, bpc: int) -> Seq<char> {
        "v2.0 raw\n"@ + logisim_rows(v, bpc, ceil_div(len, bpc))
    }
