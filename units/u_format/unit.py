from vfw.spec import Unit, Fn, Type, Impl, C, Loop, Rewrite, Insert
from units import contracts_bigint as cb
from units import contracts_bitvec as bv

F = "src/util/bitvec_format.rs"
R11 = Rewrite("for _ in 0..", "for n in 0..", rule="R11", why="unused loop variable named so the invariant can count iterations")

format_binary = Fn(F, "format_binary", impl="util::BitVec", impl_header="BitVec", slot="util", ret="res", key="BitVec::format_binary", props=["C11", "C03", "C19"],
    requires=[C("wf", "self.wf()"), C("len_fits", "self.len + 8 <= usize::MAX", ["C19"])],
    ensures=[
        C("length", "res@.len() == ceil_div(self.len as int, 8)", ["C11"]),
        C("bytes_msb_first", "forall|k: int| 0 <= k < res@.len() ==> #[trigger] res@[k] as int == acc(self.v(), 8 * k, 8)", ["C11"]),
    ],
    rewrites=[R11, Rewrite("let mut result = Vec::new();", "let mut result: Vec<u8> = Vec::new();", rule="R10", why="type ascription: the inserted invariant mentions `result` before inference has fixed its element type")],
    loops={
        1: Loop(invariant=[
            C("state", "self.wf() && self.len + 8 <= usize::MAX && index % 8 == 0 && index as int == 8 * result@.len() && index < self.len + 8"),
            C("bytes", "forall|k: int| 0 <= k < result@.len() ==> #[trigger] result@[k] as int == acc(self.v(), 8 * k, 8)"),
        ], decreases="self.len + 8 - index"),
        2: Loop(invariant=[
            C("bits", "n <= 8 && index as int == start + n && byte as int == acc(self.v(), start as int, n as int) && self.len + 8 <= usize::MAX && start + 8 <= usize::MAX && start < self.len"),
        ], body_start="                proof { lemma_acc_bound(self.v(), start as int, n as int); vstd::arithmetic::power2::lemma2_to64(); if n < 8 { vstd::arithmetic::power2::lemma_pow2_strictly_increases(n as nat, 8); } if n < 7 { vstd::arithmetic::power2::lemma_pow2_strictly_increases(n as nat, 7); } let ghost b0: u8 = if bit_of(self.v(), index as nat) { 1 } else { 0 }; lemma_shift_or(byte, b0); }"),
    },
    inserts=[Insert("\t\t\tlet mut byte: u8 = 0;", "\t\t\tlet ghost start = index;\n", where="before")],
)

format_str = Fn(F, "format_str", impl="util::BitVec", impl_header="BitVec", slot="util", ret="res", key="BitVec::format_str", props=["C11", "C03", "C19"],
    requires=[C("wf", "self.wf()"), C("digit_width", "1 <= bits_per_digit <= 4", ["C03"]), C("len_fits", "self.len + 8 <= usize::MAX", ["C19"])],
    ensures=[
        C("length", "res@.len() == ceil_div(self.len as int, bits_per_digit as int)", ["C11"]),
        C("digits_msb_first", "forall|k: int| 0 <= k < res@.len() ==> #[trigger] res@[k] == digit_char(acc(self.v(), bits_per_digit * k, bits_per_digit as int))", ["C11"]),
    ],
    rewrites=[R11],
    loops={
        1: Loop(invariant=[
            C("state", "self.wf() && 1 <= bits_per_digit <= 4 && self.len + 8 <= usize::MAX && index as int == bits_per_digit * result@.len() && index < self.len + bits_per_digit"),
            C("digits", "forall|k: int| 0 <= k < result@.len() ==> #[trigger] result@[k] == digit_char(acc(self.v(), bits_per_digit * k, bits_per_digit as int))"),
        ], decreases="self.len + 8 - index"),
        2: Loop(invariant=[
            C("bits", "n <= bits_per_digit && 1 <= bits_per_digit <= 4 && index as int == start + n && digit as int == acc(self.v(), start as int, n as int) && self.len + 8 <= usize::MAX && start < self.len"),
        ], body_start="                proof { lemma_acc_bound(self.v(), start as int, n as int); vstd::arithmetic::power2::lemma2_to64(); if n < 4 { vstd::arithmetic::power2::lemma_pow2_strictly_increases(n as nat, 4); } let ghost b0: u8 = if bit_of(self.v(), index as nat) { 1 } else { 0 }; lemma_shift_or(digit, b0); }"),
    },
    inserts=[Insert("\t\t\tlet mut digit: u8 = 0;", "\t\t\tlet ghost start = index;\n", where="before"),
             Insert("\t\twhile index < self.len()", "\t\tproof { assert(bits_per_digit * 0 == 0) by (nonlinear_arith); assert(result@.len() == 0); }\n", where="before"),
             Insert("\t\t\tresult.push(c);", "\t\t\tproof { assert(bits_per_digit * (result@.len() + 1) == bits_per_digit * result@.len() + bits_per_digit) by (nonlinear_arith); }\n", where="before"),
             Insert("\t\tresult\n", "\t\tproof { let a = self.len + bits_per_digit - 1; let l = result@.len() as int; lemma_div_unique(a as int, bits_per_digit as int, l, a - bits_per_digit * l); }\n", where="before"),
             Insert("\t\t\tlet c = if digit < 10", "\t\t\tproof { lemma_acc_bound(self.v(), start as int, bits_per_digit as int); vstd::arithmetic::power2::lemma2_to64(); if bits_per_digit < 4 { vstd::arithmetic::power2::lemma_pow2_strictly_increases(bits_per_digit as nat, 4); } }\n", where="before")],
)

format_binstr = Fn(F, "format_binstr", impl="util::BitVec", impl_header="BitVec", slot="util", ret="res", key="BitVec::format_binstr", props=["C11"],
    requires=[C("wf", "self.wf()"), C("len_fits", "self.len + 8 <= usize::MAX", ["C19"])],
    ensures=[C("one_bit_per_digit", "res@.len() == self.len && forall|k: int| 0 <= k < res@.len() ==> #[trigger] res@[k] == digit_char(acc(self.v(), k, 1))", ["C11"])])
format_hexstr = Fn(F, "format_hexstr", impl="util::BitVec", impl_header="BitVec", slot="util", ret="res", key="BitVec::format_hexstr", props=["C11"],
    requires=[C("wf", "self.wf()"), C("len_fits", "self.len + 8 <= usize::MAX", ["C19"])],
    ensures=[C("four_bits_per_digit", "res@.len() == ceil_div(self.len as int, 4) && forall|k: int| 0 <= k < res@.len() ==> #[trigger] res@[k] == digit_char(acc(self.v(), 4 * k, 4))", ["C11"])])

SAFE_REQ = [C("wf", "self.wf()"), C("len_fits", "self.len + 8 <= usize::MAX", ["C19"])]
BYTE_LOOP = Loop(invariant=[C("bits", "n <= 8 && index as int == start + n && self.len + 8 <= usize::MAX && start < self.len && byte as int == acc(self.v(), start as int, n as int)")],
                 body_start="                proof { lemma_acc_bound(self.v(), start as int, n as int); vstd::arithmetic::power2::lemma2_to64(); if n < 8 { vstd::arithmetic::power2::lemma_pow2_strictly_increases(n as nat, 8); } if n < 7 { vstd::arithmetic::power2::lemma_pow2_strictly_increases(n as nat, 7); } let ghost b0: u8 = if bit_of(self.v(), index as nat) { 1 } else { 0 }; lemma_shift_or(byte, b0); }")
def safe_fmt(name, extra_req=()):
    return Fn(F, name, impl="util::BitVec", impl_header="BitVec", slot="util", ret="res", key="BitVec::" + name, props=["C11", "C03", "C19"],
        requires=SAFE_REQ + list(extra_req),
        ensures=[C("terminates_without_panic", "true", ["C03", "C11"])],
        rewrites=[R11],
        loops={"while index < self.len()": Loop(invariant=[C("state", "self.wf() && self.len + 8 <= usize::MAX && index < self.len + 8" + (" && (radix == 10 || radix == 16)" if extra_req else ""))], decreases="self.len + 8 - index"),
               "for n in 0..8": BYTE_LOOP},
        inserts=[Insert("\t\t\tlet mut byte: u8 = 0;", "\t\t\tlet ghost start = index;\n", where="before")])

format_mif = safe_fmt("format_mif")
format_c_array = safe_fmt("format_c_array", [C("radix_supported", "radix == 10 || radix == 16", ["C03"])])
format_separator = safe_fmt("format_separator", [C("radix_supported", "radix == 10 || radix == 16", ["C03"])])

UNIT = Unit(
    "U-format", "u_format/skeleton.rs",
    items=cb.items("stub", "util", only=["set_bit", "get_bit"]) + bv.items("stub", "util", only=["read_bit", "len"]) + [
        format_binary, format_str, format_binstr, format_hexstr, format_mif, format_c_array, format_separator,
    ],
    serves=["C11", "C03", "C19"],
    description="util::BitVec formatters with a functional contract: raw binary, bit string, hex string",
)
