from vfw.spec import Unit, Fn, Type, Impl, C, Loop, Rewrite, Insert
from units import contracts_bigint as cb
from units import contracts_bitvec as bv

F = "src/util/bitvec_format.rs"
R11 = Rewrite("for _ in 0..", "for n in 0..", rule="R11", why="unused loop variable named so the invariant can count iterations")

WHY22 = "format! -> wrapper call with the same literal and arguments; assumed: the text is an (uninterpreted) function of literal and arguments"
FMT_LEN = Rewrite(r'format!\(("[^"]*"), ([^;]*?)\)\.len\(\)', r"verif_fmt_len_usize(\1, \2)", regex=True, count=None, rule="R22", why=WHY22)
FMT_USIZE2 = Rewrite(r'format!\(("[^"]*\$[^"]*"), ', r"verif_fmt_usize2(\1, ", regex=True, count=None, rule="R22", why=WHY22)
FMT_U8 = Rewrite(r'format!\(("[^"]*"), byte\)', r"verif_fmt_u8(\1, byte)", regex=True, count=None, rule="R22", why=WHY22)
FMT_USIZE = Rewrite(r'format!\(("[^"]*"), byte_num\)', r"verif_fmt_usize(\1, byte_num)", regex=True, count=None, rule="R22", why=WHY22)

format_binary = Fn(F, "format_binary", impl="util::BitVec", impl_header="BitVec", slot="util", ret="res", key="BitVec::format_binary", props=["C11", "C03", "C19"],
    requires=[C("wf", "self.wf()"), C("len_fits", "self.len + 8 <= usize::MAX", ["C19"])],
    ensures=[
        C("length", "res@.len() == ceil_div(self.len as int, 8)", ["C11"]),
        C("bytes_msb_first", "forall|k: int| 0 <= k < res@.len() ==> #[trigger] res@[k] as int == acc(self.v(), 8 * k, 8)", ["C11"]),
    ],
    rewrites=[R11, Rewrite("let mut result = Vec::new();", "let mut result: Vec<u8> = Vec::new();", rule="R10", why="type ascription: the inserted invariant mentions `result` before inference has fixed its element type")],
    loops={
        1: Loop(invariant=[
            C("state", "self.wf() && self.len + 8 <= usize::MAX && index % 8 == 0 && index as int == 8 * result@.len() && index < self.len + 8"),
            C("bytes", "forall|k: int| 0 <= k < result@.len() ==> #[trigger] result@[k] as int == acc(self.v(), 8 * k, 8)"),
        ], decreases="self.len + 8 - index"),
        2: Loop(invariant=[
            C("bits", "n <= 8 && index as int == start + n && byte as int == acc(self.v(), start as int, n as int) && self.len + 8 <= usize::MAX && start + 8 <= usize::MAX && start < self.len"),
        ], body_start="                proof { lemma_acc_bound(self.v(), start as int, n as int); vstd::arithmetic::power2::lemma2_to64(); if n < 8 { vstd::arithmetic::power2::lemma_pow2_strictly_increases(n as nat, 8); } if n < 7 { vstd::arithmetic::power2::lemma_pow2_strictly_increases(n as nat, 7); } let ghost b0: u8 = if bit_of(self.v(), index as nat) { 1 } else { 0 }; lemma_shift_or(byte, b0); }"),
    },
    inserts=[Insert("\t\t\tlet mut byte: u8 = 0;", "\t\t\tlet ghost start = index;\n", where="before")],
)

format_str = Fn(F, "format_str", impl="util::BitVec", impl_header="BitVec", slot="util", ret="res", key="BitVec::format_str", props=["C11", "C03", "C19"],
    requires=[C("wf", "self.wf()"), C("digit_width", "1 <= bits_per_digit <= 4", ["C03"]), C("len_fits", "self.len + 8 <= usize::MAX", ["C19"])],
    ensures=[
        C("length", "res@.len() == ceil_div(self.len as int, bits_per_digit as int)", ["C11"]),
        C("digits_msb_first", "forall|k: int| 0 <= k < res@.len() ==> #[trigger] res@[k] == digit_char(acc(self.v(), bits_per_digit * k, bits_per_digit as int))", ["C11"]),
    ],
    rewrites=[R11],
    loops={
        1: Loop(invariant=[
            C("state", "self.wf() && 1 <= bits_per_digit <= 4 && self.len + 8 <= usize::MAX && index as int == bits_per_digit * result@.len() && index < self.len + bits_per_digit"),
            C("digits", "forall|k: int| 0 <= k < result@.len() ==> #[trigger] result@[k] == digit_char(acc(self.v(), bits_per_digit * k, bits_per_digit as int))"),
        ], decreases="self.len + 8 - index"),
        2: Loop(invariant=[
            C("bits", "n <= bits_per_digit && 1 <= bits_per_digit <= 4 && index as int == start + n && digit as int == acc(self.v(), start as int, n as int) && self.len + 8 <= usize::MAX && start < self.len"),
        ], body_start="                proof { lemma_acc_bound(self.v(), start as int, n as int); vstd::arithmetic::power2::lemma2_to64(); if n < 4 { vstd::arithmetic::power2::lemma_pow2_strictly_increases(n as nat, 4); } let ghost b0: u8 = if bit_of(self.v(), index as nat) { 1 } else { 0 }; lemma_shift_or(digit, b0); }"),
    },
    inserts=[Insert("\t\t\tlet mut digit: u8 = 0;", "\t\t\tlet ghost start = index;\n", where="before"),
             Insert("\t\twhile index < self.len()", "\t\tproof { assert(bits_per_digit * 0 == 0) by (nonlinear_arith); assert(result@.len() == 0); }\n", where="before"),
             Insert("\t\t\tresult.push(c);", "\t\t\tproof { assert(bits_per_digit * (result@.len() + 1) == bits_per_digit * result@.len() + bits_per_digit) by (nonlinear_arith); }\n", where="before"),
             Insert("\t\tresult\n", "\t\tproof { let a = self.len + bits_per_digit - 1; let l = result@.len() as int; lemma_div_unique(a as int, bits_per_digit as int, l, a - bits_per_digit * l); }\n", where="before"),
             Insert("\t\t\tlet c = if digit < 10", "\t\t\tproof { lemma_acc_bound(self.v(), start as int, bits_per_digit as int); vstd::arithmetic::power2::lemma2_to64(); if bits_per_digit < 4 { vstd::arithmetic::power2::lemma_pow2_strictly_increases(bits_per_digit as nat, 4); } }\n", where="before")],
)

format_binstr = Fn(F, "format_binstr", impl="util::BitVec", impl_header="BitVec", slot="util", ret="res", key="BitVec::format_binstr", props=["C11"],
    requires=[C("wf", "self.wf()"), C("len_fits", "self.len + 8 <= usize::MAX", ["C19"])],
    ensures=[C("one_bit_per_digit", "res@.len() == self.len && forall|k: int| 0 <= k < res@.len() ==> #[trigger] res@[k] == digit_char(acc(self.v(), k, 1))", ["C11"])])
format_hexstr = Fn(F, "format_hexstr", impl="util::BitVec", impl_header="BitVec", slot="util", ret="res", key="BitVec::format_hexstr", props=["C11"],
    requires=[C("wf", "self.wf()"), C("len_fits", "self.len + 8 <= usize::MAX", ["C19"])],
    ensures=[C("four_bits_per_digit", "res@.len() == ceil_div(self.len as int, 4) && forall|k: int| 0 <= k < res@.len() ==> #[trigger] res@[k] == digit_char(acc(self.v(), 4 * k, 4))", ["C11"])])

SAFE_REQ = [C("wf", "self.wf()"), C("len_fits", "self.len + 32 <= usize::MAX", ["C19"])]
BYTE_LOOP = Loop(invariant=[C("bits", "n <= 8 && index as int == start + n && self.len + 8 <= usize::MAX && start < self.len && byte as int == acc(self.v(), start as int, n as int)")],
                 body_start="                proof { lemma_acc_bound(self.v(), start as int, n as int); vstd::arithmetic::power2::lemma2_to64(); if n < 8 { vstd::arithmetic::power2::lemma_pow2_strictly_increases(n as nat, 8); } if n < 7 { vstd::arithmetic::power2::lemma_pow2_strictly_increases(n as nat, 7); } let ghost b0: u8 = if bit_of(self.v(), index as nat) { 1 } else { 0 }; lemma_shift_or(byte, b0); }")
BYTE_INS = Insert("\t\t\tlet mut byte: u8 = 0;", "\t\t\tlet ghost start = index;\n", where="before")
WHILE = "while index < self.len()"
RDX = "(radix == 10 || radix == 16)"
def safe_fmt(name, extra_req=()):
    return Fn(F, name, impl="util::BitVec", impl_header="BitVec", slot="util", ret="res", key="BitVec::" + name, props=["C11", "C03", "C19"],
        requires=SAFE_REQ + list(extra_req),
        ensures=[C("terminates_without_panic", "true", ["C03", "C11"])],
        rewrites=[R11],
        loops={"while index < self.len()": Loop(invariant=[C("state", "self.wf() && self.len + 8 <= usize::MAX && index < self.len + 8" + (" && (radix == 10 || radix == 16)" if extra_req else ""))], decreases="self.len + 8 - index"),
               "for n in 0..8": BYTE_LOOP},
        inserts=[Insert("\t\t\tlet mut byte: u8 = 0;", "\t\t\tlet ghost start = index;\n", where="before")])

format_mif = Fn(F, "format_mif", impl="util::BitVec", impl_header="BitVec", slot="util", ret="res", key="BitVec::format_mif", props=["C11", "C03", "C19"],
    requires=SAFE_REQ,
    ensures=[C("rows_are_the_bytes_in_order", "res@ == mif_text(self.v(), self.len as int)", ["C11"])],
    rewrites=[R11, FMT_LEN, FMT_USIZE2, FMT_U8, FMT_USIZE],
    loops={WHILE: Loop(invariant=[
               C("state", "self.wf() && self.len + 8 <= usize::MAX && index < self.len + 8 && index % 8 == 0 && byte_num == byte_count(self.len as int) && addr_max_width == fmt_len(\"{:x}\"@, saturating_pred(byte_num as int))"),
               C("rows_so_far", "result@ =~= mif_header(byte_num as int) + mif_rows(self.v(), addr_max_width as int, index as int / 8)"),
           ], decreases="self.len + 8 - index"),
           "for n in 0..8": BYTE_LOOP},
    inserts=[BYTE_INS])
format_c_array = Fn(F, "format_c_array", impl="util::BitVec", impl_header="BitVec", slot="util", ret="res", key="BitVec::format_c_array", props=["C11", "C03", "C19"],
    requires=SAFE_REQ + [C("radix_supported", "radix == 10 || radix == 16", ["C03"])],
    ensures=[C("elements_are_the_bytes_in_order", "res@ == c_array_text(self.v(), self.len as int, radix as int)", ["C11"])],
    rewrites=[R11, FMT_LEN, FMT_USIZE2, FMT_U8],
    loops={WHILE: Loop(invariant=[
               C("state", "self.wf() && self.len + 8 <= usize::MAX && index < self.len + 8 && index % 8 == 0 && " + RDX + " && byte_num == byte_count(self.len as int) && addr_max_width == fmt_len(\"{:x}\"@, saturating_pred(byte_num as int))"),
               C("elements_so_far", "result@ =~= \"const unsigned char data[] = {\\n\"@ + fmt_text(\"\\t/* 0x{:01$x} */ \"@, 0, addr_max_width as int) + c_array_rows(self.v(), self.len as int, radix as int, addr_max_width as int, index as int / 8)"),
           ], decreases="self.len + 8 - index",
           body_start="\t\t\tproof { reveal_strlit(\"{}\"); reveal_strlit(\"0x{:02x}\"); }"),
           "for n in 0..8": BYTE_LOOP},
    inserts=[BYTE_INS])
FL = "src/util/bitvec_format.rs"
format_logisim = Fn(F, "format_logisim", impl="util::BitVec", impl_header="BitVec", slot="util", ret="res", key="BitVec::format_logisim", props=["C11", "C03", "C19"],
    requires=SAFE_REQ + [C("chunk_width", "1 <= bits_per_chunk <= 16", ["C03"])],
    ensures=[C("chunks_are_the_bits_in_order", "res@ == logisim_text(self.v(), self.len as int, bits_per_chunk as int)", ["C11"])],
    rewrites=[R11, Rewrite('format!("{:01$x} ", value, bits_per_chunk / 4)', 'verif_fmt_u16_usize("{:01$x} ", value, bits_per_chunk / 4)', rule="R22", why=WHY22)],
    loops={WHILE: Loop(invariant=[
               C("state", "self.wf() && self.len + 32 <= usize::MAX && 1 <= bits_per_chunk <= 16 && index < self.len + bits_per_chunk && chunks >= 0 && index as int == bits_per_chunk * chunks"),
               C("chunks_so_far", "result@ =~= \"v2.0 raw\\n\"@ + logisim_rows(self.v(), bits_per_chunk as int, chunks)"),
           ], decreases="self.len + 32 - index",
           before="\t\tlet ghost mut chunks: int = 0; proof { assert(bits_per_chunk * 0 == 0) by (nonlinear_arith); }",
           body_end="\t\t\tproof { assert(bits_per_chunk * (chunks + 1) == bits_per_chunk * chunks + bits_per_chunk) by (nonlinear_arith); chunks = chunks + 1; }"),
           "for n in 0..bits_per_chunk": Loop(invariant=[C("bits", "n <= bits_per_chunk && 1 <= bits_per_chunk <= 16 && index as int == start + n && self.len + 32 <= usize::MAX && start < self.len && value as int == acc(self.v(), start as int, n as int)")],
               body_start="                proof { lemma_acc_bound(self.v(), start as int, n as int); vstd::arithmetic::power2::lemma2_to64(); if n < 15 { vstd::arithmetic::power2::lemma_pow2_strictly_increases(n as nat, 15); } let ghost b0: u16 = if bit_of(self.v(), index as nat) { 1 } else { 0 }; lemma_shift_or16(value, b0); }")},
    inserts=[Insert("\t\t\tlet mut value: u16 = 0;", "\t\t\tlet ghost start = index;\n", where="before"),
             Insert("\t\t\tif (index / 8) % 16 == 0", "\t\t\tproof { assert(bits_per_chunk * (chunks + 1) == bits_per_chunk * chunks + bits_per_chunk) by (nonlinear_arith); }\n", where="before"),
             Insert("\t\tresult\n", "\t\tproof { let a = self.len + bits_per_chunk - 1; lemma_div_unique(a as int, bits_per_chunk as int, chunks, a - bits_per_chunk * chunks); }\n", where="before")])
format_separator = Fn(F, "format_separator", impl="util::BitVec", impl_header="BitVec", slot="util", ret="res", key="BitVec::format_separator", props=["C11", "C03", "C19"],
    requires=SAFE_REQ + [C("radix_supported", "radix == 10 || radix == 16", ["C03"])],
    ensures=[C("values_are_the_bytes_in_order", "res@ == sep_rows(self.v(), self.len as int, radix as int, separator@, byte_count(self.len as int))", ["C11"])],
    rewrites=[R11, FMT_U8],
    loops={WHILE: Loop(invariant=[
               C("state", "self.wf() && self.len + 8 <= usize::MAX && index < self.len + 8 && index % 8 == 0 && " + RDX),
               C("values_so_far", "result@ =~= sep_rows(self.v(), self.len as int, radix as int, separator@, index as int / 8)"),
           ], decreases="self.len + 8 - index",
           body_start="\t\t\tproof { reveal_strlit(\"{}\"); reveal_strlit(\"0x{:02x}\"); }"),
           "for n in 0..8": BYTE_LOOP},
    inserts=[BYTE_INS])

DCONST = "self.wf() && 1 <= digit_bits <= 4 && 1 <= byte_bits <= 64 && 1 <= bytes_per_line <= 1024 && self.len + 0x40000 <= usize::MAX"
DARGS = "self.v(), self.len as int, digit_bits as int, byte_bits as int, bytes_per_line as int"
format_dump = Fn(F, "format_dump", impl="util::BitVec", impl_header="BitVec", slot="util", ret="res", key="BitVec::format_dump", props=["C11", "C03", "C19"],
    requires=[C("wf", "self.wf()"), C("digit_width", "1 <= digit_bits <= 4", ["C03"]), C("byte_width", "1 <= byte_bits <= 64", ["C03"]),
              C("line_width", "1 <= bytes_per_line <= 1024", ["C03"]), C("len_fits", "self.len + 0x40000 <= usize::MAX", ["C19"])],
    ensures=[C("text_is_the_dump_of_the_bits", "res@ == dump_text(%s)" % DARGS, ["C11"])],
    rewrites=[
        FMT_LEN, FMT_USIZE2,
    ],
    for_to_while=[3, 5],
    loops={
        1: Loop(invariant=[C("consts", DCONST + " && line_start == 0 && line_end == dump_line_count(self.len as int, byte_bits as int, bytes_per_line as int) && addr_max_width == hex_text_len((line_end - 1) * bytes_per_line)"),
                           C("lines_so_far", "result@ =~= dump_lines(%s, addr_max_width as int, line_index as int)" % DARGS)],
                body_start=" let ghost base1 = result@; proof { lemma_dump_pos(self.len as int, byte_bits as int, bytes_per_line as int, digit_bits as int, line_index as int, 0, 0); reveal_strlit(\"| \"); reveal_strlit(\" |\"); }"),
        2: Loop(invariant=[C("consts", DCONST + " && line_index < line_end && line_end == dump_line_count(self.len as int, byte_bits as int, bytes_per_line as int)"),
                           C("bytes_so_far", "result@ =~= base1 + dump_addr_text(line_index * bytes_per_line, addr_max_width as int) + dump_line_bytes(%s, byte_index as int)" % DARGS.replace("self.len as int,", "self.len as int, line_index as int,"))],
                body_start=" let ghost base2 = result@; proof { lemma_dump_pos(self.len as int, byte_bits as int, bytes_per_line as int, digit_bits as int, line_index as int, byte_index as int, 0); }"),
        3: Loop(invariant=[C("consts", DCONST + " && line_index < line_end && byte_index < bytes_per_line && verif_hi_3 == byte_bits / digit_bits && verif_next_3 <= verif_hi_3 && line_end == dump_line_count(self.len as int, byte_bits as int, bytes_per_line as int)"),
                           C("digits_so_far", "result@ =~= base2 + dump_byte_digits(self.v(), self.len as int, line_index * bytes_per_line + byte_index, digit_bits as int, byte_bits as int, verif_next_3 as int)")],
                decreases="verif_hi_3 - verif_next_3",
                body_start=" proof { lemma_dump_pos(self.len as int, byte_bits as int, bytes_per_line as int, digit_bits as int, line_index as int, byte_index as int, verif_next_3 as int); }"),
        4: Loop(invariant=[C("bits", DCONST + " && digit_first_bit < self.len && digit as int == acc(self.v(), digit_first_bit as int, bit_index as int)")],
                body_start=" proof { lemma_acc_bound(self.v(), digit_first_bit as int, bit_index as int); vstd::arithmetic::power2::lemma2_to64(); if bit_index < 4 { vstd::arithmetic::power2::lemma_pow2_strictly_increases(bit_index as nat, 4); } let ghost b0: u8 = if bit_of(self.v(), (digit_first_bit + bit_index) as nat) { 1 } else { 0 }; lemma_shift_or(digit, b0); }"),
        5: Loop(invariant=[C("consts", DCONST + " && byte_bits == 8 && line_index < line_end && verif_hi_5 == bytes_per_line && verif_next_5 <= verif_hi_5 && line_end == dump_line_count(self.len as int, byte_bits as int, bytes_per_line as int)"),
                           C("chars_so_far", "result@ =~= base5 + dump_ascii(self.v(), self.len as int, line_index as int, bytes_per_line as int, verif_next_5 as int)")],
                before=" let ghost base5 = result@;",
                decreases="verif_hi_5 - verif_next_5",
                body_start=" proof { lemma_dump_pos(self.len as int, byte_bits as int, bytes_per_line as int, digit_bits as int, line_index as int, verif_next_5 as int, 0); }"),
        6: Loop(invariant=[C("bits", DCONST + " && byte_bits == 8 && byte_first_bit < self.len && byte as int == acc(self.v(), byte_first_bit as int, bit_index as int)")],
                body_start=" proof { lemma_acc_bound(self.v(), byte_first_bit as int, bit_index as int); vstd::arithmetic::power2::lemma2_to64(); if bit_index < 8 { vstd::arithmetic::power2::lemma_pow2_strictly_increases(bit_index as nat, 8); } if bit_index < 7 { vstd::arithmetic::power2::lemma_pow2_strictly_increases(bit_index as nat, 7); } let ghost b0: u8 = if bit_of(self.v(), (byte_first_bit + bit_index) as nat) { 1 } else { 0 }; lemma_shift_or(byte, b0); }"),
    },
    inserts=[
        Insert("        let line_start = 0 /", "        proof { lemma_dump_bounds(self.len as int, byte_bits as int, bytes_per_line as int); }\n", where="before"),
        Insert("        let addr_max_width =", "        proof { assert(0 <= (line_end - 1) * bytes_per_line <= line_end * bytes_per_line) by (nonlinear_arith) requires line_end >= 1, bytes_per_line >= 1; }\n", where="before"),
        Insert("                    let c = if digit < 10", "                    proof { lemma_acc_bound(self.v(), digit_first_bit as int, digit_bits as int); vstd::arithmetic::power2::lemma2_to64(); if digit_bits < 4 { vstd::arithmetic::power2::lemma_pow2_strictly_increases(digit_bits as nat, 4); } }\n", where="before"),
        Insert("                    let c = byte as char;", "                    proof { lemma_acc_bound(self.v(), byte_first_bit as int, 8); vstd::arithmetic::power2::lemma2_to64(); }\n", where="before"),
    ],
)

format_bindump = Fn(F, "format_bindump", impl="util::BitVec", impl_header="BitVec", slot="util", ret="res", key="BitVec::format_bindump", props=["C11"],
    requires=[C("wf", "self.wf()"), C("len_fits", "self.len + 0x40000 <= usize::MAX", ["C19"])],
    ensures=[C("one_bit_per_digit_eight_bytes_per_line", "res@ == dump_text(self.v(), self.len as int, 1, 8, 8)", ["C11"])])
format_hexdump = Fn(F, "format_hexdump", impl="util::BitVec", impl_header="BitVec", slot="util", ret="res", key="BitVec::format_hexdump", props=["C11"],
    requires=[C("wf", "self.wf()"), C("len_fits", "self.len + 0x40000 <= usize::MAX", ["C19"])],
    ensures=[C("four_bits_per_digit_sixteen_bytes_per_line", "res@ == dump_text(self.v(), self.len as int, 4, 8, 16)", ["C11"])])

UNIT = Unit(
    "U-format", "u_format/skeleton.rs",
    items=cb.items("stub", "util", only=["set_bit", "get_bit"]) + bv.items("stub", "util", only=["read_bit", "len"]) + [
        format_binary, format_str, format_binstr, format_hexstr, format_mif, format_c_array, format_separator, format_logisim, format_dump, format_bindump, format_hexdump,
    ],
    serves=["C11", "C03", "C19"],
    carry_facts_into_loops=False,   # this unit's proofs need isolated loops (loop `ensures` clauses, or the solver runs out of resources with the wider context)
    description="util::BitVec formatters with a functional contract: raw binary, bit string, hex string, bit and hex dumps",
)
