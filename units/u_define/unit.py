from vfw.spec import Unit, Fn, Type, Impl, C, Loop, Rewrite, Insert
from units.contracts_report import report_fns
from units import contracts_bigint as cb
from units.u_constrain.unit import make_integer
from units.u_literal.unit import excerpt_as_bigint

FD = "src/driver.rs"
FE = "src/expr/expression.rs"
FA = "src/asm/mod.rs"

make_bool = Fn(FE, "make_bool", impl="Value", slot="expr", ret="res", key="Value::make_bool", props=["C16"],
               ensures=[C("wraps", "res == Value::Bool(value)", ["C16"])])
span_dummy = Fn("src/diagn/span.rs", "new_dummy", impl="Span", slot="diagn", mode="stub", ret="res", key="Span::new_dummy")

V = "def_value_text(raw_str@)"
D = "def_digits(%s)" % V
ONE = "count_eq(raw_str@, 0) == 1"
NUMERIC = "(%s && %s != \"true\"@ && %s != \"false\"@)" % (ONE, V, V)
parse_define_arg = Fn(FD, "parse_define_arg", slot="driver", ret="res", key="driver::parse_define_arg", props=["C16", "C18", "C03"],
    requires=[C("a_command_line_argument_is_shorter_than_2_to_the_62_characters", "4 * raw_str@.len() <= usize::MAX", ["C19"])],
    ensures=[
        C("the_name_is_the_text_before_the_first_equals_sign", "res is Ok ==> (res->Ok_0).name@ == def_name(raw_str@)", ["C16", "C18"]),
        C("a_bare_name_defines_true", "count_eq(raw_str@, 0) == 0 ==> res is Ok && (res->Ok_0).value == expr::Value::Bool(true)", ["C16", "C18"]),
        C("two_equals_signs_are_an_error", "count_eq(raw_str@, 0) >= 2 ==> res is Err", ["C18"]),
        C("true_and_false_are_booleans", "%s && %s == \"true\"@ ==> res is Ok && (res->Ok_0).value == expr::Value::Bool(true)" % (ONE, V), ["C16", "C18"]),
        C("true_and_false_are_booleans_2", "%s && %s == \"false\"@ ==> res is Ok && (res->Ok_0).value == expr::Value::Bool(false)" % (ONE, V), ["C16", "C18"]),
        C("a_number_has_the_value_of_its_digits_negated_after_a_minus_sign",
          "%s && res is Ok ==> is_number(%s) && (res->Ok_0).value is Integer && ((res->Ok_0).value->Integer_0).val() == (if is_negative(%s) { -number_value(%s) } else { number_value(%s) })" % (NUMERIC, D, V, D, D), ["C16", "C18"]),
        C("every_number_is_accepted", "%s && is_number(%s) ==> res is Ok" % (NUMERIC, D), ["C16", "C18"]),
        C("failure_is_loud", "res is Err ==> final(report).msgs() > old(report).msgs()", ["C03"]),
        C("success_is_clean", "res is Ok ==> *final(report) == *old(report)", ["C03"]),
    ],
    rewrites=[
        Rewrite(r"raw_str\s*\.split\('='\)\s*\.collect::<Vec<_>>\(\)", "verif_split_eq(raw_str)", regex=True, rule="R16",
                why="`str::split('=').collect()` -> prelude wrapper (ASSUMED: the pieces between the `=` signs, as documented for str::split)"),
        Rewrite("split[1].chars().next()", "verif_first_char(split[1])", rule="R16", why="`str::chars().next()` -> prelude wrapper (ASSUMED: the first character, if any)"),
        Rewrite("split[1].get(1..).unwrap()", "verif_get_from_1(split[1]).unwrap()", rule="R16", why="`str::get(1..)` -> prelude wrapper (ASSUMED: the text after a one-byte first character)"),
        Rewrite('value_str == "true"', 'verif_str_eq(value_str, "true")', rule="R16", why="`&str == &str` -> prelude wrapper (equality of the two texts)"),
        Rewrite('value_str == "false"', 'verif_str_eq(value_str, "false")', rule="R16", why="`&str == &str` -> prelude wrapper"),
        Rewrite("\t\t\tuse std::ops::Neg;\n", "", rule="R6", why="a `use` item inside a function body (unsupported)"),
        Rewrite("value.neg()", "core::ops::Neg::neg(&value)", count=None, rule="R3", why="method call through autoref on an operator trait -> UFCS on the reference"),
    ],
    inserts=[Insert("{", '\n\tproof { reveal_strlit("true"); reveal_strlit("false"); lemma_first_eq(raw_str@, 0); }\n', occ=1, where="after", why="the texts of the two boolean literals")],
)

OUT = "slashed(verif_std::path::with_extension(input_filename@, extension_of(format)))"
derive = Fn(FD, "derive_output_filename", slot="driver", ret="res", key="driver::derive_output_filename", props=["C18", "C03"],
    ensures=[
        C("the_input_name_with_the_extension_of_the_format", "res is Ok ==> (res->Ok_0)@ == %s" % OUT, ["C18"]),
        C("never_the_input_file_itself", "res is Ok ==> (res->Ok_0)@ != input_filename@", ["C18"]),
        C("refused_only_when_it_would_be_the_input_file", "res is Err ==> %s == input_filename@" % OUT, ["C18"]),
        C("failure_is_loud", "res is Err ==> final(report).msgs() > old(report).msgs()", ["C03"]),
        C("success_is_clean", "res is Ok ==> *final(report) == *old(report)", ["C03"]),
    ],
    rewrites=[
        Rewrite("std::path::", "verif_std::path::", count=None, rule="R38", why="std::path -> stand-in module with the same method names (assumed contracts, see skeleton)"),
        Rewrite('.into_owned()\n\t\t.replace("\\\\", "/");', '.into_owned();\n\tlet output_filename = verif_replace_backslashes(output_filename);', rule="R16",
                why="`String::replace(\"\\\\\", \"/\")` -> prelude wrapper (ASSUMED: every backslash becomes a slash)"),
        Rewrite("output_filename == input_filename", "verif_str_eq(output_filename.as_str(), input_filename)", rule="R16", why="`String == &str` -> prelude wrapper (equality of the two texts)"),
    ],
    inserts=[Insert("\tlet mut output_filename", '\tproof { reveal_strlit("bin"); reveal_strlit("mlb"); reveal_strlit("txt"); }\n', where="before", why="the texts of the three extension literals")],
)

UNIT = Unit(
    "U-define", "u_define/skeleton.rs",
    items=report_fns("stub", "diagn") + [span_dummy] + cb.items("stub", "util", only=["new"], with_ops=True) + [
        Type(FE, "enum", "Value", slot="expr"), Type(FE, "struct", "ExprString", slot="expr"),
        make_integer.as_stub("expr"), make_bool,
        excerpt_as_bigint.as_stub("syntax"),
        Type(FA, "struct", "DriverSymbolDef", slot="asm"),
        Type(FD, "enum", "OutputFormat", slot="driver", derive="Clone, Copy"),
        parse_define_arg, derive],
    serves=["C16", "C18", "C03"],
    description="driver::parse_define_arg (what `-dNAME[=VALUE]` defines) and driver::derive_output_filename",
)
