//@@INCLUDE _shared/header.rs
//@@INCLUDE _shared/ispec.rs
//@@INCLUDE _shared/num_bigint.rs
//@@INCLUDE _shared/diagn_opaque.rs
//@@INCLUDE _shared/std_gaps.rs
pub mod util {
    use vstd::prelude::*;
    use vstd::std_specs::convert::*;
    use vstd::std_specs::ops::*;
    use vstd::std_specs::cmp::*;
    use crate::*;
    use crate::ispec::*;
    use vstd::arithmetic::power2::pow2;
    verus! {
    broadcast use {crate::num_bigint::axiom_into_refl_obeys, crate::num_bigint::axiom_into_refl, crate::std_gaps::axiom_ordering_eq_obeys, crate::std_gaps::axiom_ordering_eq};
    //@@INCLUDE _shared/util_bigint_spec.rs
    //@@ITEMS util
    }
}
pub mod expr {
    use vstd::prelude::*;
    use vstd::std_specs::convert::*;
    use crate::*;
    use crate::ispec::*;
    verus! {
    broadcast use {crate::num_bigint::axiom_into_refl_obeys, crate::num_bigint::axiom_into_refl, crate::util::axiom_bigint_into_refl_obeys, crate::util::axiom_bigint_into_refl};
    //@@ITEMS expr
    }
}
pub mod syntax {
    use vstd::prelude::*;
    use vstd::std_specs::convert::*;
    use crate::*;
    use crate::ispec::*;
    verus! {
    /// std gap (ASSUMED): char::to_digit is a function of (char, radix)
    pub uninterp spec fn spec_to_digit(c: char, radix: u32) -> Option<u32>;
    pub broadcast axiom fn axiom_to_digit_range(c: char, radix: u32)
        ensures (#[trigger] spec_to_digit(c, radix)) is Some ==> spec_to_digit(c, radix)->0 < radix;
    //@@INCLUDE _shared/literal_spec.rs
    //@@ITEMS syntax
    }
}
pub mod asm {
    use vstd::prelude::*;
    use crate::*;
    verus! {
    //@@ITEMS asm
    }
}
/// stand-in for the part of std::path that driver::derive_output_filename touches (R38).  ASSUMED: a PathBuf made from a
/// &str carries that text; `set_extension` replaces the text by an uninterpreted function of (text, extension) - what
/// Rust's documentation says about it is NOT modelled; `to_string_lossy().into_owned()` gives the text back unchanged
/// (true for every valid UTF-8 text)
pub mod verif_std {
    pub mod path {
        use vstd::prelude::*;
        verus! {
        #[verifier::external_body]
        pub struct PathBuf { _p: u8 }
        #[verifier::external_body]
        pub struct Lossy { _p: u8 }
        pub uninterp spec fn with_extension(text: Seq<char>, ext: Seq<char>) -> Seq<char>;
        impl PathBuf {
            pub uninterp spec fn text(&self) -> Seq<char>;
            #[verifier::external_body]
            pub fn from(s: &str) -> (r: PathBuf) ensures r.text() == s@ { unimplemented!() }
            #[verifier::external_body]
            pub fn set_extension(&mut self, ext: &str) -> (r: bool) ensures final(self).text() == with_extension(old(self).text(), ext@) { unimplemented!() }
            #[verifier::external_body]
            pub fn to_string_lossy(&self) -> (r: Lossy) ensures r.text() == self.text() { unimplemented!() }
        }
        impl Lossy {
            pub uninterp spec fn text(&self) -> Seq<char>;
            #[verifier::external_body]
            pub fn into_owned(self) -> (r: String) ensures r@ == self.text() { unimplemented!() }
        }
        }
    }
}
pub mod driver {
    use vstd::prelude::*;
    use vstd::std_specs::convert::*;
    use vstd::std_specs::ops::*;
    use crate::*;
    use crate::ispec::*;
    use crate::syntax::*;
    verus! {
    broadcast use {crate::num_bigint::axiom_into_refl_obeys, crate::num_bigint::axiom_into_refl, crate::util::axiom_bigint_into_refl_obeys, crate::util::axiom_bigint_into_refl};

    // ---- property text (C16/C18): `-dNAME` and `-dNAME=VALUE`
    /// index of the first `=` at or after `from`, or the length
    pub open spec fn first_eq(s: Seq<char>, from: int) -> int decreases s.len() - from {
        if from >= s.len() { s.len() as int } else if s[from] == '=' { from } else { first_eq(s, from + 1) }
    }
    /// number of `=` at or after `from`
    pub open spec fn count_eq(s: Seq<char>, from: int) -> int decreases s.len() - from {
        if from >= s.len() { 0 } else { (if s[from] == '=' { 1int } else { 0int }) + count_eq(s, from + 1) }
    }
    pub proof fn lemma_first_eq(s: Seq<char>, from: int)
        requires 0 <= from <= s.len()
        ensures from <= first_eq(s, from) <= s.len(), count_eq(s, from) >= 0, (count_eq(s, from) == 0) == (first_eq(s, from) == s.len())
        decreases s.len() - from
    { if from < s.len() { lemma_first_eq(s, from + 1); } }
    pub open spec fn def_name(s: Seq<char>) -> Seq<char> { s.subrange(0, first_eq(s, 0)) }
    pub open spec fn def_value_text(s: Seq<char>) -> Seq<char> { s.subrange(first_eq(s, 0) + 1, s.len() as int) }
    pub open spec fn is_negative(v: Seq<char>) -> bool { v.len() > 0 && v[0] == '-' }
    pub open spec fn def_digits(v: Seq<char>) -> Seq<char> { if is_negative(v) { v.subrange(1, v.len() as int) } else { v } }
    /// a number in the assembler's own notations (decimal, 0x, 0b, 0o, $, %), `_` ignored, at least one digit
    pub open spec fn is_number(d: Seq<char>) -> bool {
        d.len() >= 1 && all_digits(d, radix_of(d).1, d.len() as int, radix_of(d).0) && lit_digits(d, radix_of(d).1, d.len() as int) >= 1
    }
    pub open spec fn number_value(d: Seq<char>) -> int { lit_value(d, radix_of(d).1, d.len() as int, radix_of(d).0) }

    /// R16 helpers for the three `str` operations of parse_define_arg (iterator adapters and byte-offset slicing are outside
    /// Verus' subset).  ASSUMED contracts, from the documentation of `str::split(char)`, `str::chars` and `str::get`:
    /// splitting at `=` yields one more piece than there are `=`, the first piece is the text before the first `=`, and when
    /// there is exactly one `=` the second piece is the text after it
    #[verifier::external_body]
    pub fn verif_split_eq<'a>(s: &'a str) -> (r: Vec<&'a str>)
        ensures r@.len() >= 1, r@.len() == count_eq(s@, 0) + 1, r@[0]@ == def_name(s@), r@.len() == 2 ==> r@[1]@ == def_value_text(s@)
    { unimplemented!() }
    #[verifier::external_body]
    pub fn verif_first_char(s: &str) -> (r: Option<char>)
        ensures r == (if s@.len() > 0 { Some(s@[0]) } else { None::<char> })
    { unimplemented!() }
    /// `s.get(1..)`: the text after the first byte, when that is a character boundary (`-` is one byte)
    #[verifier::external_body]
    pub fn verif_get_from_1<'a>(s: &'a str) -> (r: Option<&'a str>)
        ensures s@.len() > 0 && s@[0] == '-' ==> r is Some && (r->0)@ == s@.subrange(1, s@.len() as int)
    { unimplemented!() }
    #[verifier::external_body]
    pub fn verif_str_eq(a: &str, b: &str) -> (r: bool)
        ensures r == (a@ == b@)
    { unimplemented!() }
    /// `String::replace("\\", "/")`: every backslash becomes a slash, nothing else changes
    pub open spec fn slashed(s: Seq<char>) -> Seq<char> { s.map_values(|c: char| if c == '\\' { '/' } else { c }) }
    #[verifier::external_body]
    pub fn verif_replace_backslashes(s: String) -> (r: String)
        ensures r@ == slashed(s@)
    { unimplemented!() }
    pub open spec fn extension_of(format: OutputFormat) -> Seq<char> {
        match format { OutputFormat::Binary => "bin"@, OutputFormat::SymbolsMesenMlb => "mlb"@, _ => "txt"@ }
    }
    //@@ITEMS driver
    }
}
