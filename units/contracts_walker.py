"""Contract table: the token-level operations of syntax::Walker over the stream-of-useful-tokens model
(units/_shared/token_stream.rs).  The same clause text is used (a) where the real methods are verified (unit U-walker:
`stream()`, `src()`, `cursor_span()`, `inv()` are defined over the walker's real fields and the tokenizer's uninterpreted
answers) and (b) as external_body stubs in U-parser (where they are uninterpreted)."""
from vfw.spec import Fn, C, Rewrite, Loop, Insert

FW = "src/syntax/walker.rs"
WI = "<'src> Walker<'src>"
INV_PRE_MUT = C("walker_invariant", "old(self).inv()", ["C03"])
INV_PRE = C("walker_invariant", "self.inv()", ["C03"])
INV_POST = C("walker_invariant_kept", "final(self).inv()", ["C03"])
SAME_W = "*final(self) == *old(self)"
TAKEN = "final(self).stream() == tl(old(self).stream()) && final(self).src() == old(self).src()"


def walker_fns(mode="stub", slot="syntax"):
    def fn(name, **kw):
        return Fn(FW, name, impl=WI, impl_header=WI, slot=slot, mode=mode, ret="res", key="Walker::" + name, props=["C05", "C03", "C13"], **kw)
    d = {}
    d["maybe_expect"] = fn("maybe_expect",
        requires=[INV_PRE_MUT, C("a_useful_kind", "!ignorable(kind)")],
        ensures=[INV_POST, C("takes_the_next_useful_token_iff_it_is_of_that_kind",
                   "(match res { Some(t) => hd_is(old(self).stream(), kind) && t == old(self).stream()[0].tok && %s, None => !hd_is(old(self).stream(), kind) && %s })" % (TAKEN, SAME_W))])
    d["expect"] = fn("expect",
        requires=[INV_PRE_MUT, C("a_useful_kind", "!ignorable(kind)")],
        ensures=[INV_POST, C("takes_the_token_or_reports_at_the_cursor",
                   "(match res { Ok(t) => hd_is(old(self).stream(), kind) && t == old(self).stream()[0].tok && %s && *final(report) == *old(report),"
                   " Err(_) => !hd_is(old(self).stream(), kind) && %s && final(report).msgs() == old(report).msgs() + 1 && crate::expr::err_span(final(report)) == old(self).cursor_span() })" % (TAKEN, SAME_W))])
    d["next_linebreak"] = fn("next_linebreak",
        requires=[INV_PRE],
        ensures=[C("a_line_break_comes_first", "res is Some == hd_lb(self.stream())"), C("the_text_is_in_memory", "self.stream().len() < usize::MAX")])
    d["maybe_expect_linebreak"] = fn("maybe_expect_linebreak",
        requires=[INV_PRE_MUT],
        ensures=[INV_POST, C("takes_one_line_break", "res is Some == hd_lb(old(self).stream()) && final(self).src() == old(self).src() && (if res is Some { final(self).stream() == dec_lb(old(self).stream()) } else { %s })" % SAME_W)])
    d["next_useful_is"] = fn("next_useful_is",
        requires=[INV_PRE_MUT],
        ensures=[C("peeks", SAME_W + " && (nth == 0 && !ignorable(kind) ==> res == hd_is(old(self).stream(), kind))")])
    d["next_nth_useful_token"] = fn("next_nth_useful_token",
        requires=[INV_PRE],
        ensures=[C("peeks", "nth == 0 && self.stream().len() > 0 ==> res == self.stream()[0].tok")])
    d["get_cursor_span"] = fn("get_cursor_span",
        requires=[INV_PRE],
        ensures=[C("the_cursor", "res == self.cursor_span()")])
    return d
