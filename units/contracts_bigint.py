"""Contract table: util::BigInt (src/util/bigint.rs).  Verified in U-bigint, stubs elsewhere."""
from vfw.spec import Fn, Type, Impl, C, Loop, Rewrite, Insert

F = "src/util/bigint.rs"

TYPES = [
    Type(F, "const", "BIGINT_MAX_BITS"),
    Type(F, "struct", "BigInt", derive="drop"),
]

R3 = "R3"

min_size = Fn(F, "min_size", impl="BigInt", ret="res", props=["C04", "C05", "C03"],
              ensures=[C("min_size_spec", "res == min_size_spec(self.val())", ["C04", "C05"])],
              rewrites=[Rewrite("&self.bigint + 1", "core::ops::Add::add(&self.bigint, 1)", rule=R3,
                                why="operator on a reference operand -> its UFCS desugaring (verifier crash otherwise)")])

sign = Fn(F, "sign", impl="BigInt", ret="res", props=["C04", "C05"],
          ensures=[C("sign", "res == (if self.val() < 0 { -1isize } else if self.val() == 0 { 0isize } else { 1isize })", ["C04", "C05"])])

size_or_min_size = Fn(F, "size_or_min_size", impl="BigInt", ret="res", props=["C04"],
                      ensures=[C("size_or_min", "res == (match self.size { Some(s) => s as nat, None => min_size_spec(self.val()) })", ["C04"])])

set_bit = Fn(F, "set_bit", impl="BigInt", props=["C01", "C05", "C03"],
             ensures=[C("set_bit", "final(self).val() == set_bit_spec(old(self).val(), index as nat, value)", ["C01", "C05"]),
                      C("size_kept", "final(self).size == old(self).size", ["C05"])])

get_bit = Fn(F, "get_bit", impl="BigInt", ret="res", props=["C01", "C05", "C03"],
             ensures=[C("get_bit", "res == bit_of(self.val(), index as nat)", ["C01", "C05"])])

from_impl = Impl(F, "<T: Into<num_bigint::BigInt>> From<T> for BigInt", props=["C05"], fns={
    "from": Fn(F, "from", ret="res", key="BigInt::from", props=["C05"], ensures=[
        C("unsized", "res.size is None", ["C05"]),
    ]),
})

new = Fn(F, "new", impl="BigInt", ret="res", props=["C05"],
         ensures=[C("size", "res.size == size", ["C05"]),
                  C("value", "<T as IntoSpec<num_bigint::BigInt>>::obeys_into_spec() ==> res.bigint == <T as IntoSpec<num_bigint::BigInt>>::into_spec(value)", ["C05"])])

maybe_into = Fn(F, "maybe_into", impl="BigInt", ret="res", props=["C19", "C05"],
                ensures=[C("try_from", "<T as TryFromSpec<&num_bigint::BigInt>>::obeys_try_from_spec() ==> (match <T as TryFromSpec<&num_bigint::BigInt>>::try_from_spec(&self.bigint) { Ok(v) => res == Some(v), Err(_) => res is None })", ["C19"])])

LOUD = [C("err_is_loud", "res is Err ==> final(report).msgs() > old(report).msgs()", ["C03"]),
        C("ok_is_clean", "res is Ok ==> final(report).msgs() == old(report).msgs()", ["C03"]),
        C("parents_kept", "final(report).parents() == old(report).parents()", ["C03"])]

checked_into = Fn(F, "checked_into", impl="BigInt", ret="res", props=["C19", "C03"],
                  ensures=LOUD + [C("try_from", "<T as TryFromSpec<&num_bigint::BigInt>>::obeys_try_from_spec() ==> (match <T as TryFromSpec<&num_bigint::BigInt>>::try_from_spec(&self.bigint) { Ok(v) => res == Ok::<T, ()>(v), Err(_) => res is Err })", ["C19"])])

checked_into_nonzero_usize = Fn(F, "checked_into_nonzero_usize", impl="BigInt", ret="res", props=["C19", "C03"],
                  ensures=LOUD + [C("nonzero_usize", "match res { Ok(v) => v as int == self.val() && v > 0, Err(_) => !(0 < self.val() <= usize::MAX) }", ["C19"])])

MAPINTO = Rewrite(".map(|res| res.into())",
                  ".map(|res: num_bigint::BigInt| -> (r: BigInt) ensures r.bigint == res, r.size is None { res.into() })",
                  rule="R4", why="closure header with types and spec; the expression body is only wrapped in braces")

def _arith(name, op_spec, cap_desc, cap_cond, extra=(), hint=""):
    return Fn(F, name, impl="BigInt", ret="res", props=["C05", "C19", "C03"],
              ensures=LOUD + [
                  C("exact", "res is Ok ==> res->Ok_0.val() == %s && res->Ok_0.size is None" % op_spec, ["C05"]),
                  C("err_only_beyond_cap", "res is Err ==> %s" % cap_cond, ["C05", "C19"]),
                  C("result_within_cap", "res is Ok ==> bitlen(abs(res->Ok_0.val())) <= BIGINT_MAX_BITS", ["C19"]),
              ] + list(extra),
              rewrites=[MAPINTO],
              inserts=[Insert("        self.bigint\n            .checked_", "        proof { %s }\n" % hint, where="before",
                              why="lemma call bounding the magnitude of the result (erased)")])

MAXB = "(if bitlen(abs(self.val())) >= bitlen(abs(rhs.val())) { bitlen(abs(self.val())) } else { bitlen(abs(rhs.val())) })"
checked_add = _arith("checked_add", "self.val() + rhs.val()", "", MAXB + " >= BIGINT_MAX_BITS - 1",
                      hint="lemma_bitlen_sum(self.val(), rhs.val(), largest_bits as nat);")
checked_sub = _arith("checked_sub", "self.val() - rhs.val()", "", MAXB + " >= BIGINT_MAX_BITS - 2",
                      hint="lemma_bitlen_sum(self.val(), rhs.val(), largest_bits as nat);")
checked_mul = _arith("checked_mul", "self.val() * rhs.val()", "", MAXB + " >= BIGINT_MAX_BITS / 2",
                      hint="lemma_bitlen_mul(self.val(), rhs.val(), largest_bits as nat, largest_bits as nat);")

checked_div = Fn(F, "checked_div", impl="BigInt", ret="res", props=["C05", "C03"],
                 ensures=LOUD + [
                     C("div_by_zero_is_error", "rhs.val() == 0 <==> res is Err", ["C05"]),
                     C("truncates_toward_zero", "res is Ok ==> res->Ok_0.val() == num_bigint::tdiv(self.val(), rhs.val()) && res->Ok_0.size is None", ["C05"]),
                 ],
                 rewrites=[MAPINTO])

ALL_FNS = [new, min_size, sign, size_or_min_size, set_bit, get_bit, maybe_into, checked_into, checked_into_nonzero_usize,
           checked_add, checked_sub, checked_mul, checked_div]


def items(mode, slot="util", only=None):
    out = [t.in_slot(slot) for t in TYPES]
    for f in ALL_FNS:
        if only is not None and f.name not in only:
            continue
        g = f.in_slot(slot)
        g.mode = mode
        out.append(g)
    im = from_impl
    import copy
    im2 = copy.copy(im)
    im2.slot = slot
    im2.mode = mode
    out.append(im2)
    return out
