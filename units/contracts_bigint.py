"""Contract table: util::BigInt (src/util/bigint.rs).  Verified in U-bigint, stubs elsewhere."""
from vfw.spec import Fn, Type, Impl, C, Loop, Rewrite, Insert

F = "src/util/bigint.rs"

# generic R3: any binary operator whose left operand is `&self.bigint` (or `&rhs.bigint`) inside parentheses is
# rewritten to its UFCS desugaring wherever it occurs (count=None: zero or more occurrences), so that new uses of
# such operators do not crash the verifier
_OPS = {">>": "Shr::shr", "<<": "Shl::shl", "+": "Add::add", "-": "Sub::sub", "*": "Mul::mul", "/": "Div::div", "%": "Rem::rem",
        "&": "BitAnd::bitand", "|": "BitOr::bitor", "^": "BitXor::bitxor"}
import re as _re
GENERIC_R3 = []
for _op, _tr in _OPS.items():
    GENERIC_R3.append(Rewrite(r"\(&(self|rhs)\.bigint\s*" + _re.escape(_op) + r"\s*([^;()]+?)\)", r"core::ops::" + _tr + r"(&\1.bigint, \2)",
                              count=None, regex=True, rule="R3", why="operator on a reference operand -> its UFCS desugaring (generic form)"))

TYPES = [
    Type(F, "const", "BIGINT_MAX_BITS"),
    Type(F, "struct", "BigInt", derive="drop"),
]

R3 = "R3"

min_size = Fn(F, "min_size", impl="BigInt", ret="res", props=["C04", "C05", "C03"],
              ensures=[C("min_size_spec", "res == min_size_spec(self.val())", ["C04", "C05"])],
              rewrites=[Rewrite(r"&self\.bigint \+ (\d+)", r"core::ops::Add::add(&self.bigint, \1)", regex=True, count=None, rule=R3,
                                why="operator on a reference operand -> its UFCS desugaring (verifier crash otherwise)")])

sign = Fn(F, "sign", impl="BigInt", ret="res", props=["C04", "C05"],
          ensures=[C("sign", "res == (if self.val() < 0 { -1isize } else if self.val() == 0 { 0isize } else { 1isize })", ["C04", "C05"])])

size_or_min_size = Fn(F, "size_or_min_size", impl="BigInt", ret="res", props=["C04"],
                      ensures=[C("size_or_min", "res == (match self.size { Some(s) => s as nat, None => min_size_spec(self.val()) })", ["C04"])])

set_bit = Fn(F, "set_bit", impl="BigInt", props=["C01", "C05", "C03"],
             ensures=[C("set_bit", "final(self).val() == set_bit_spec(old(self).val(), index as nat, value)", ["C01", "C05"]),
                      C("size_kept", "final(self).size == old(self).size", ["C05"])])

get_bit = Fn(F, "get_bit", impl="BigInt", ret="res", props=["C01", "C05", "C03"],
             ensures=[C("get_bit", "res == bit_of(self.val(), index as nat)", ["C01", "C05"])])

from_impl = Impl(F, "<T: Into<num_bigint::BigInt>> From<T> for BigInt", props=["C05"], fns={
    "from": Fn(F, "from", ret="res", key="BigInt::from", props=["C05"], ensures=[
        C("unsized", "res.size is None", ["C05"]),
    ]),
})

new = Fn(F, "new", impl="BigInt", ret="res", props=["C05"],
         ensures=[C("size", "res.size == size", ["C05"]),
                  C("value", "<T as IntoSpec<num_bigint::BigInt>>::obeys_into_spec() ==> res.bigint == <T as IntoSpec<num_bigint::BigInt>>::into_spec(value)", ["C05"])])

maybe_into = Fn(F, "maybe_into", impl="BigInt", ret="res", props=["C19", "C05"],
                ensures=[C("try_from", "<T as TryFromSpec<&num_bigint::BigInt>>::obeys_try_from_spec() ==> (match <T as TryFromSpec<&num_bigint::BigInt>>::try_from_spec(&self.bigint) { Ok(v) => res == Some(v), Err(_) => res is None })", ["C19"])])

LOUD = [C("err_is_loud", "res is Err ==> final(report).msgs() > old(report).msgs()", ["C03"]),
        C("ok_is_clean", "res is Ok ==> final(report).msgs() == old(report).msgs() && final(report).errors() == old(report).errors()", ["C03"]),
        C("parents_kept", "final(report).parents() == old(report).parents()", ["C03"])]

checked_into = Fn(F, "checked_into", impl="BigInt", ret="res", props=["C19", "C03"],
                  ensures=LOUD + [C("try_from", "<T as TryFromSpec<&num_bigint::BigInt>>::obeys_try_from_spec() ==> (match <T as TryFromSpec<&num_bigint::BigInt>>::try_from_spec(&self.bigint) { Ok(v) => res == Ok::<T, ()>(v), Err(_) => res is Err })", ["C19"])])

checked_into_nonzero_usize = Fn(F, "checked_into_nonzero_usize", impl="BigInt", ret="res", props=["C19", "C03"],
                  ensures=LOUD + [C("nonzero_usize", "match res { Ok(v) => v as int == self.val() && v > 0, Err(_) => !(0 < self.val() <= usize::MAX) }", ["C19"])])

MAPINTO_C = ("|res: num_bigint::BigInt| -> (r: BigInt) ensures r.bigint == res, r.size is None", "")
MAPINTO = Rewrite(".map(|res| res.into())",
                  ".map(|res: num_bigint::BigInt| -> (r: BigInt) ensures r.bigint == res, r.size is None { res.into() })",
                  rule="R4", why="closure header with types and spec; the expression body is only wrapped in braces")

def _arith(name, op_spec, cap_desc, cap_cond, extra=(), hint=""):
    return Fn(F, name, impl="BigInt", ret="res", props=["C05", "C19", "C03"],
              ensures=LOUD + [
                  C("exact", "res is Ok ==> res->Ok_0.val() == %s && res->Ok_0.size is None" % op_spec, ["C05"]),
                  C("err_only_beyond_cap", "res is Err ==> %s" % cap_cond, ["C05", "C19"]),
                  C("result_within_cap", "res is Ok ==> bitlen(abs(res->Ok_0.val())) <= BIGINT_MAX_BITS", ["C19"]),
              ] + list(extra),
              closures={1: MAPINTO_C},
              rewrites=GENERIC_R3,
              inserts=[Insert("        self.bigint\n            .checked_", "        proof { %s }\n" % hint, where="before",
                              why="lemma call bounding the magnitude of the result (erased)")])

MAXB = "(if bitlen(abs(self.val())) >= bitlen(abs(rhs.val())) { bitlen(abs(self.val())) } else { bitlen(abs(rhs.val())) })"
checked_add = _arith("checked_add", "self.val() + rhs.val()", "", MAXB + " >= BIGINT_MAX_BITS - 1",
                      hint="lemma_bitlen_sum(self.val(), rhs.val(), %s as nat);" % MAXB)
checked_sub = _arith("checked_sub", "self.val() - rhs.val()", "", MAXB + " >= BIGINT_MAX_BITS - 2",
                      hint="lemma_bitlen_sum(self.val(), rhs.val(), %s as nat);" % MAXB)
checked_mul = _arith("checked_mul", "self.val() * rhs.val()", "", MAXB + " >= BIGINT_MAX_BITS / 2",
                      hint="lemma_bitlen_mul(self.val(), rhs.val(), %s as nat, %s as nat);" % (MAXB, MAXB))

checked_div = Fn(F, "checked_div", impl="BigInt", ret="res", props=["C05", "C03"],
                 ensures=LOUD + [
                     C("div_by_zero_is_error", "rhs.val() == 0 <==> res is Err", ["C05"]),
                     C("truncates_toward_zero", "res is Ok ==> res->Ok_0.val() == num_bigint::tdiv(self.val(), rhs.val()) && res->Ok_0.size is None", ["C05"]),
                 ],
                 closures={1: MAPINTO_C}, rewrites=GENERIC_R3)

checked_mod = Fn(F, "checked_mod", impl="BigInt", ret="res", props=["C05", "C03"],
                 ensures=LOUD + [
                     C("mod_by_zero_is_error", "rhs.val() == 0 <==> res is Err", ["C05"]),
                     C("sign_of_dividend", "res is Ok ==> res->Ok_0.val() == num_bigint::trem(self.val(), rhs.val()) && res->Ok_0.size is None", ["C05"]),
                 ],
                 rewrites=[Rewrite("(&self.bigint % &rhs.bigint)", "core::ops::Rem::rem(&self.bigint, &rhs.bigint)", rule=R3,
                                   why="operator on reference operands -> UFCS desugaring")])

checked_shl = Fn(F, "checked_shl", impl="BigInt", ret="res", props=["C05", "C19", "C03"],
                 ensures=LOUD + [
                     C("exact", "res is Ok ==> rhs.val() >= 0 && res->Ok_0.val() == self.val() * pow2(rhs.val() as nat) && res->Ok_0.size is None", ["C05"]),
                     C("err_only_beyond_cap", "res is Err ==> !(0 <= rhs.val() <= u32::MAX) || bitlen(abs(self.val())) + rhs.val() >= BIGINT_MAX_BITS", ["C05", "C19"]),
                     C("result_within_cap", "res is Ok ==> bitlen(abs(res->Ok_0.val())) <= BIGINT_MAX_BITS", ["C19"]),
                 ],
                 closures={1: ("|rhs: _| -> (r: BigInt) ensures r.bigint == num_bigint::mk(self.val() * pow2(rhs as nat)), r.size is None", ""),
                           2: ("|_e: num_bigint::TryFromBigIntError| -> (r: ())", "")},
                 rewrites=GENERIC_R3,
                 inserts=[Insert("        (&rhs.bigint)\n            .try_into()\n            .map(", "        proof { lemma_bitlen_shl(self.val(), rhs.val() as nat); }\n", where="before", why="lemma call (erased)")])

checked_shr = Fn(F, "checked_shr", impl="BigInt", ret="res", props=["C05", "C03"],
                 ensures=LOUD + [
                     C("floor", "res is Ok ==> rhs.val() >= 0 && res->Ok_0.val() == self.val() / (pow2(rhs.val() as nat) as int) && res->Ok_0.size is None", ["C05"]),
                     C("err_only_beyond_usize", "res is Err <==> !(0 <= rhs.val() <= usize::MAX)", ["C05", "C19"]),
                 ],
                 closures={1: ("|rhs: _| -> (r: num_bigint::BigInt) ensures r == num_bigint::mk(self.val() / (pow2(rhs as nat) as int))", ""),
                           2: ("|_e: num_bigint::TryFromBigIntError| -> (r: ())", "")},
                 rewrites=GENERIC_R3)

SLICE_BITS = "forall|j: nat| #[trigger] bit_of(res.val(), j) == (j < left - right && bit_of(self.val(), (right + j) as nat))"
slice_ = Fn(F, "slice", impl="BigInt", ret="res", props=["C05", "C04", "C03"],
            requires=[C("ordered_bounds", "left >= right", ["C03"])],
            ensures=[
                C("size", "res.size == Some((left - right) as usize)", ["C05", "C04"]),
                C("selects_named_bits", "self.fits_size() ==> (" + SLICE_BITS + ")", ["C05", "C04"]),
                C("unsigned_result", "self.fits_size() ==> 0 <= res.val() < pow2((left - right) as nat)", ["C05", "C04"]),
            ],
            rewrites=[Rewrite("for i in (0..(left - right)).rev()", "for i in it: (0..(left - right)).rev()", rule="R5",
                              why="ghost iterator named so the invariant can count iterations")],
            loops={1: Loop(invariant=[
                C("count", "it.index@ <= left - right"),
                C("bits", "forall|j: nat| #[trigger] bit_of(result.val(), j) == (left - right - it.index@ <= j < left - right && bit_of(self.val(), (right + j) as nat))"),
                C("bound", "0 <= result.val() && result.val() + pow2((left - right - it.index@) as nat) <= pow2((left - right) as nat)"),
            ])},
            inserts=[
                Insert("                return self.clone();", "                proof { let s = self.size->0; if self.fits_size() { assert forall|j: nat| #[trigger] bit_of(self.val(), j) == (j < s && bit_of(self.val(), (0 + j) as nat)) by { if j >= s { lemma_bit_of_small(self.val(), s as nat, j); } } } }\n", where="before"),
                Insert("        for i in it:", "        proof { assert forall|j: nat| !bit_of(0, j) by { lemma_bit_of_zero(j); } }\n", where="before"),
                Insert("        result.size = Some(left - right);", "        proof { vstd::arithmetic::power2::lemma2_to64(); }\n", where="before"),
                Insert("            result.set_bit(", "            let ghost prev = result.val();\n            proof { assert(i == left - right - 1 - it.index@); }\n", where="before"),
                Insert("                self.get_bit(right + i));", "\n            proof { let b = bit_of(self.val(), (right + i) as nat); assert forall|j: nat| #[trigger] bit_of(result.val(), j) == (left - right - it.index@ - 1 <= j < left - right && bit_of(self.val(), (right + j) as nat)) by { lemma_set_bit_get(prev, i as nat, b, j); }; vstd::arithmetic::power2::lemma_pow2_unfold((left - right - it.index@) as nat); }\n", where="after"),
            ])

checked_slice = Fn(F, "checked_slice", impl="BigInt", ret="res", props=["C05", "C03"],
                   ensures=LOUD + [
                       C("inverted_bounds_is_error", "left < right <==> res is Err", ["C05"]),
                       C("size", "res is Ok ==> res->Ok_0.size == Some((left - right) as usize)", ["C05"]),
                       C("selects_named_bits", "res is Ok && self.fits_size() ==> (forall|j: nat| #[trigger] bit_of(res->Ok_0.val(), j) == (j < left - right && bit_of(self.val(), (right + j) as nat)))", ["C05"]),
                   ])

LS = "(lhs_slice.0 - lhs_slice.1)"
RS = "(rhs_slice.0 - rhs_slice.1)"
CONCAT_BITS = ("forall|j: nat| #[trigger] bit_of(res.val(), j) == (if j < %s { bit_of(rhs.val(), (rhs_slice.1 + j) as nat) }"
               " else { j < %s + %s && bit_of(self.val(), (lhs_slice.1 + j - %s) as nat) })" % (RS, LS, RS, RS))
concat = Fn(F, "concat", impl="BigInt", ret="res", props=["C05", "C03", "C19"],
            requires=[C("lhs_bounds", "lhs_slice.0 >= lhs_slice.1", ["C03"]),
                      C("rhs_bounds", "rhs_slice.0 >= rhs_slice.1", ["C03"]),
                      C("size_fits", "%s + %s <= usize::MAX" % (LS, RS), ["C19"])],
            ensures=[
                C("size", "res.size == Some((%s + %s) as usize)" % (LS, RS), ["C05"]),
                C("joins_named_bits", CONCAT_BITS, ["C05"]),
                C("unsigned_result", "0 <= res.val() < pow2((%s + %s) as nat)" % (LS, RS), ["C05"]),
            ],
            loops={
                "for i in 0..(lhs_slice.0 - lhs_slice.1)": Loop(invariant=[
                    C("bits", "forall|j: nat| #[trigger] bit_of(result.val(), j) == (%s <= j < %s + i && bit_of(self.val(), (lhs_slice.1 + j - %s) as nat))" % (RS, RS, RS)),
                    C("sizes", "lhs_size == %s && rhs_size == %s && lhs_size + rhs_size <= usize::MAX && lhs_slice.0 >= lhs_slice.1" % (LS, RS)),
                ], before="        proof { assert forall|j: nat| !bit_of(0, j) by { lemma_bit_of_zero(j); } }",
                   body_start="            let ghost prev = result.val();",
                   body_end="            proof { let at = (i + rhs_size) as nat; lemma_set_bit_get(prev, at, true, at); lemma_set_bit_get(prev, at, false, at); assert forall|j: nat| #[trigger] bit_of(result.val(), j) == (if j == at { bit_of(result.val(), at) } else { bit_of(prev, j) }) by { lemma_set_bit_get(prev, at, true, j); lemma_set_bit_get(prev, at, false, j); } }"),
                "for i in 0..(rhs_slice.0 - rhs_slice.1)": Loop(invariant=[
                    C("bits", "forall|j: nat| #[trigger] bit_of(result.val(), j) == (if j < %s { j < i && bit_of(rhs.val(), (rhs_slice.1 + j) as nat) }"
                              " else { j < %s + %s && bit_of(self.val(), (lhs_slice.1 + j - %s) as nat) })" % (RS, LS, RS, RS)),
                    C("sizes", "lhs_size == %s && rhs_size == %s" % (LS, RS)),
                ], body_start="            let ghost prev = result.val();",
                   body_end="            proof { let at = i as nat; lemma_set_bit_get(prev, at, true, at); lemma_set_bit_get(prev, at, false, at); assert forall|j: nat| #[trigger] bit_of(result.val(), j) == (if j == at { bit_of(result.val(), at) } else { bit_of(prev, j) }) by { lemma_set_bit_get(prev, at, true, j); lemma_set_bit_get(prev, at, false, j); } }"),
            },
            rewrites=GENERIC_R3,
            inserts=[
                Insert("        result.size = Some(lhs_size + rhs_size);", "        proof { lemma_bits_bound(result.val(), (lhs_size + rhs_size) as nat); }\n", where="before"),
            ])

def _opimpl(trait, method, old, new):
    return Impl(F, "std::ops::%s for &BigInt" % trait, props=["C05"], fns={
        method: Fn(F, method, key="BigInt::%s" % method, props=["C05"],
                   rewrites=[Rewrite(old, new, rule=R3, why="operator on reference operands -> UFCS desugaring")])})

NOT_IMPL = Impl(F, "std::ops::Not for &BigInt", props=["C05", "C04"], fns={
    "not": Fn(F, "not", key="BigInt::not", props=["C05", "C04"],
        rewrites=[Rewrite("for i in 0..x_bytes.len()", "for i in it: 0..x_bytes.len()", rule="R5", why="ghost iterator named"),
                  Rewrite("x_bytes[i] = !x_bytes[i];", "x_bytes.set(i, !x_bytes[i]);", rule="R14", why="Verus has no IndexMut assignment on Vec: `v[i] = x` is written as vstd's `v.set(i, x)`")],
        inserts=[
            Insert("        if self.bigint.sign() != num_bigint::Sign::Minus", "        let ghost enc = x_bytes@;\n        proof { num_bigint::lemma_unsigned_le_bound(enc); num_bigint::lemma_unsigned_le_push_zero(enc); }\n", where="before"),
            Insert("        for i in it: 0..x_bytes.len()", "        let ghost orig = x_bytes@;\n", where="before"),
            Insert("        for i in it: 0..x_bytes.len()\n", "            invariant it.iter.end == orig.len(), x_bytes@.len() == orig.len(), forall|j: int| 0 <= j < x_bytes@.len() ==> #[trigger] x_bytes@[j] == (if j < i { !orig[j] } else { orig[j] }),\n", where="after", rule="R12", why="loop invariant (trait impl bodies take loop contracts as inserts)"),
            Insert("{ x_bytes.set(i, !x_bytes[i]); }\n", "        proof { assert(x_bytes@ =~= num_bigint::flipped(orig)); num_bigint::lemma_signed_le_flipped(orig); num_bigint::lemma_unsigned_le_bound(orig); }\n", where="after"),
        ])})

OP_IMPLS = [
    NOT_IMPL,
    _opimpl("Neg", "neg", "(-&self.bigint)", "core::ops::Neg::neg(&self.bigint)"),
    _opimpl("BitAnd", "bitand", "(&self.bigint & &rhs.bigint)", "core::ops::BitAnd::bitand(&self.bigint, &rhs.bigint)"),
    _opimpl("BitOr", "bitor", "(&self.bigint | &rhs.bigint)", "core::ops::BitOr::bitor(&self.bigint, &rhs.bigint)"),
    _opimpl("BitXor", "bitxor", "(&self.bigint ^ &rhs.bigint)", "core::ops::BitXor::bitxor(&self.bigint, &rhs.bigint)"),
]

CMP_IMPLS = [
    Impl(F, "std::cmp::PartialEq for BigInt", props=["C05"], fns={"eq": Fn(F, "eq", key="BigInt::eq", props=["C05"])}),
    Impl(F, "std::cmp::PartialOrd for BigInt", props=["C05"], fns={"partial_cmp": Fn(F, "partial_cmp", key="BigInt::partial_cmp", props=["C05"])}),
]

from_bytes_be = Fn(F, "from_bytes_be", impl="BigInt", ret="res", props=["C05", "C19"],
    requires=[C("length_fits", "bytes@.len() * 8 <= usize::MAX", ["C19"])],
    ensures=[
        C("size_is_eight_bits_per_byte", "res.size == Some((bytes@.len() * 8) as usize)", ["C05"]),
        C("unsigned_big_endian_value", "res.val() == num_bigint::unsigned_be(bytes@)", ["C05"],
          guard="bytes@.len() == 0 || bytes@[0] < 0x80", finding="D11"),
    ])

convert_le = Fn(F, "convert_le", impl="BigInt", ret="res", props=["C05", "C03"],
    requires=[C("sized", "self.size is Some", ["C03"])],
    ensures=[C("bytes_in_the_opposite_order", "self.size->0 % 8 == 0 && self.fits_size() ==> le_swapped(*self, res)", ["C05"])],
    loops={1: Loop(invariant=[
        C("bytes", "num_bigint::unsigned_le(be_bytes@) == abs(value.val()) && be_bytes@.len() >= 1 && be_bytes@.len() <= (if orig_len >= size / 8 { orig_len as int } else { (size / 8) as int }) && be_bytes@.len() >= orig_len"),
    ], decreases="size / 8 - be_bytes@.len()", before="        let ghost orig_len = be_bytes@.len(); let ghost orig = be_bytes@;",
       body_start="            proof { num_bigint::lemma_unsigned_le_push_zero(be_bytes@); }")},
    inserts=[Insert("        BigInt::new(new_value, self.size)", """        proof {
            if size % 8 == 0 && self.fits_size() {
                let k = (size / 8) as nat;
                num_bigint::lemma_p256_pow2(k);
                assert(8 * k == size);
                if k >= 1 {
                    // the minimal encoding of a value below 256^k has at most k bytes, so padding made it exactly k
                    assert(be_bytes@.len() == k) by {
                        num_bigint::lemma_minimal_le_len(orig, k);
                    }
                    assert(low_bits_are(num_bigint::unsigned_le(be_bytes@), self.val(), size as nat));
                } else {
                    // size 0: the value is 0, encoded as the single byte 0
                    let e = Seq::<u8>::empty();
                    assert(value.val() == 0) by { vstd::arithmetic::power2::lemma2_to64(); }
                    assert(num_bigint::unsigned_le(e) == 0);
                    assert(low_bits_are(num_bigint::unsigned_le(e), self.val(), 0));
                    num_bigint::lemma_unsigned_be_zero(be_bytes@);
                    assert(num_bigint::unsigned_be(e) == 0);
                }
            }
        }
""", where="before")])

ALL_FNS = [new, min_size, sign, size_or_min_size, set_bit, get_bit, maybe_into, checked_into, checked_into_nonzero_usize,
           checked_add, checked_sub, checked_mul, checked_div, checked_mod, checked_shl, checked_shr,
           slice_, checked_slice, concat, from_bytes_be, convert_le]


def items(mode, slot="util", only=None, with_ops=False, with_cmp=False):
    out = [t.in_slot(slot) for t in TYPES]
    for f in ALL_FNS:
        if only is not None and f.name not in only:
            continue
        g = f.in_slot(slot)
        g.mode = mode
        out.append(g)
    import copy
    for im in [from_impl] + (OP_IMPLS if (mode == "verify" or with_ops) else []) + (CMP_IMPLS if (mode == "verify" or with_cmp) else []):
        im2 = copy.copy(im)
        im2.slot = slot
        im2.mode = mode
        out.append(im2)
    return out


def op_impl_stubs(slot="util"):
    """the operator impls on &BigInt (Not, Neg, &, |, ^) as stubs (their contracts are the *SpecImpl items of util_bigint_spec.rs)"""
    import copy
    out = []
    for im in OP_IMPLS:
        im2 = copy.copy(im)
        im2.slot = slot
        im2.mode = "stub"
        out.append(im2)
    return out


def from_impl_stub(slot="util"):
    import copy
    im2 = copy.copy(from_impl)
    im2.slot = slot
    im2.mode = "stub"
    return im2
