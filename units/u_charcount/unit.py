from vfw.spec import Unit, Fn, Type, Impl, C, Loop, Rewrite, Insert

F = "src/util/char_counter.rs"
FS = "src/diagn/span.rs"
IMPL = "<'a> CharCounter<'a>"

get_line_count = Fn(F, "get_line_count", impl=IMPL, slot="util", ret="res", key="CharCounter::get_line_count", props=["C13", "C03"],
    requires=[C("wf", "self.wf()")],
    ensures=[C("one_plus_newlines", "res == 1 + line_of(self.chars@, self.chars@.len() as int)", ["C13"])],
    rewrites=[Rewrite("for c in &self.chars", "for c in it: &self.chars", rule="R5", why="ghost iterator named")],
    loops={1: Loop(invariant=[C("count", "lines == 1 + line_of(self.chars@, it.index@ as int) && it.index@ <= self.chars@.len() && self.wf()")],
                   body_start="            proof { lemma_line_col_bounds(self.chars@, it.index@ as int); }")},
)

get_line_column_at_index = Fn(F, "get_line_column_at_index", impl=IMPL, slot="util", ret="res", key="CharCounter::get_line_column_at_index",
    props=["C13", "C03", "C19"],
    requires=[C("wf", "self.wf()")],
    ensures=[
        C("line_and_character_column_of_byte_index",
          "exists|k: int| 0 <= k <= self.chars@.len() && res.0 == line_of(self.chars@, k) && res.1 == col_of(self.chars@, k)"
          " && (byte_off(self.chars@, k) >= index || k == self.chars@.len()) && (k > 0 ==> byte_off(self.chars@, k - 1) < index)", ["C13"]),
    ],
    loops={1: Loop(invariant=[
        C("state", "i <= self.chars@.len() && self.wf() && byte_index == byte_off(self.chars@, i as int) && line == line_of(self.chars@, i as int) && column == col_of(self.chars@, i as int)"),
        C("prev_before_index", "i > 0 ==> byte_off(self.chars@, i - 1) < index"),
    ], decreases="self.chars@.len() - i",
       body_start="            proof { lemma_byte_off_bounds(self.chars@, i as int); lemma_line_col_bounds(self.chars@, i as int); }")},
)

get_index_range_of_line = Fn(F, "get_index_range_of_line", impl=IMPL, slot="util", ret="res", key="CharCounter::get_index_range_of_line",
    props=["C13", "C03", "C19"],
    requires=[C("wf", "self.wf()")],
    ensures=[
        C("byte_range_of_line",
          "exists|b: int, e: int| 0 <= b <= e <= self.chars@.len() && res.0 == byte_off(self.chars@, b) && res.1 == byte_off(self.chars@, e)"
          " && line_of(self.chars@, b) <= line && (line_of(self.chars@, b) == line || b == self.chars@.len())"
          " && (b == 0 || self.chars@[b - 1] == '\\n' || b == self.chars@.len())"
          " && (forall|j: int| b <= j < e - 1 ==> self.chars@[j] != '\\n')"
          " && (e == self.chars@.len() || self.chars@[e - 1] == '\\n')", ["C13"]),
        C("ordered", "res.0 <= res.1", ["C13", "C03"]),
    ],
    loops={
        1: Loop(invariant=[
            C("state", "line_begin <= self.chars@.len() && self.wf() && line_begin_byte == byte_off(self.chars@, line_begin as int) && line_count == line_of(self.chars@, line_begin as int) && line_count <= line"),
            C("at_line_start", "line_begin == 0 || self.chars@[line_begin - 1] == '\\n' || line_count < line"),
        ], decreases="self.chars@.len() - line_begin",
           body_start="            proof { lemma_byte_off_bounds(self.chars@, line_begin as int); lemma_line_col_bounds(self.chars@, line_begin as int); }"),
        2: Loop(invariant=[
            C("state", "line_begin <= line_end <= self.chars@.len() && self.wf() && line_end_byte == byte_off(self.chars@, line_end as int) && line_begin_byte == byte_off(self.chars@, line_begin as int) && line_begin_byte <= line_end_byte"),
        ], invariant_except_break=[
            C("no_newline_inside", "forall|j: int| line_begin <= j < line_end ==> self.chars@[j] != '\\n'"),
        ], ensures=[
            C("end", "line_begin <= line_end <= self.chars@.len() && line_end_byte == byte_off(self.chars@, line_end as int) && line_begin_byte <= line_end_byte"
                     " && (forall|j: int| line_begin <= j < line_end - 1 ==> self.chars@[j] != '\\n') && (line_end == self.chars@.len() || self.chars@[line_end - 1] == '\\n')"),
        ], decreases="self.chars@.len() - line_end",
           body_start="            proof { lemma_byte_off_bounds(self.chars@, line_end as int); }"),
    },
)

SIMPL = "Span"
span_new = Fn(FS, "new", impl=SIMPL, slot="diagn", ret="res", key="Span::new", props=["C13"],
              ensures=[C("fields", "res.file_handle == file_handle && res.location == (start, end)", ["C13"])])
span_location = Fn(FS, "location", impl=SIMPL, slot="diagn", ret="res", key="Span::location", props=["C13"],
              ensures=[C("none_iff_dummy", "res == (if self.is_dummy() { None } else { Some(self.location) })", ["C13"])])
span_length = Fn(FS, "length", impl=SIMPL, slot="diagn", ret="res", key="Span::length", props=["C13", "C03"],
              requires=[C("ordered", "!self.is_dummy() ==> self.location.0 <= self.location.1", ["C03"])],
              ensures=[C("length", "res == (if self.is_dummy() { 0 } else { self.location.1 - self.location.0 })", ["C13"])])
span_before = Fn(FS, "before", impl=SIMPL, slot="diagn", ret="res", key="Span::before", props=["C13"],
              ensures=[C("empty_at_start", "res == (if self.is_dummy() { *self } else { Span { file_handle: self.file_handle, location: (self.location.0, self.location.0) } })", ["C13"])])
span_after = Fn(FS, "after", impl=SIMPL, slot="diagn", ret="res", key="Span::after", props=["C13"],
              ensures=[C("empty_at_end", "res == (if self.is_dummy() { *self } else { Span { file_handle: self.file_handle, location: (self.location.1, self.location.1) } })", ["C13"])])
span_join = Fn(FS, "join", impl=SIMPL, slot="diagn", ret="res", key="Span::join", props=["C13", "C03"],
              requires=[C("same_file", "!self.is_dummy() && !other.is_dummy() ==> self.file_handle == other.file_handle", ["C03"])],
              ensures=[
                  C("dummy_is_neutral", "other.is_dummy() ==> res == *self", ["C13"]),
                  C("dummy_is_neutral_left", "!other.is_dummy() && self.is_dummy() ==> res == other", ["C13"]),
                  C("hull", "!self.is_dummy() && !other.is_dummy() ==> res.file_handle == self.file_handle"
                            " && res.location.0 == (if self.location.0 <= other.location.0 { self.location.0 } else { other.location.0 })"
                            " && res.location.1 == (if self.location.1 >= other.location.1 { self.location.1 } else { other.location.1 })", ["C13"]),
              ])

FR = "src/diagn/report.rs"
cc_new = Fn(F, "new", impl=IMPL, slot="util", mode="stub", ret="res", key="CharCounter::new",
            ensures=[C("chars_of_src", "res.chars@ == src@ && res.wf()")])
get_line_info = Fn(FR, "get_line_info", impl="Report", slot="diagn", ret="res", key="Report::get_line_info", props=["C13", "C03"],
    requires=[C("located", "!span.is_dummy()", ["C03"])],
    ensures=[
        C("start_line_and_character_column", "span_line_cols(fileserver.file_text(span.file_handle), span.location.0 as int, span.location.1 as int, res.line1 as int, res.col1 as int, res.line2 as int, res.col2 as int)", ["C13"]),
        C("excerpt_contains_the_span_lines", "res.excerpt_line1 <= res.line1", ["C13"]),
    ],
    inserts=[Insert("\t\tLineInfo {\n\t\t\tline1,", "\t\tproof { assert(span_line_cols(chars@, span.location.0 as int, span.location.1 as int, line1 as int, col1 as int, line2 as int, col2 as int)); }\n", where="before"),
             Insert("\t\tlet lines_before = {", "\t\tproof { assert(is_line_col_of(chars@, start as int, line1 as int, col1 as int)); assert(is_line_col_of(chars@, end as int, line2 as int, col2 as int));"
                    " let k2 = choose|k: int| 0 <= k <= chars@.len() && line2 as int == util::line_of(chars@, k) && col2 as int == util::col_of(chars@, k) && (util::byte_off(chars@, k) >= end || k == chars@.len()) && (k > 0 ==> util::byte_off(chars@, k - 1) < end);"
                    " util::lemma_line_col_bounds(chars@, k2); }\n", where="before")],
)

UNIT = Unit(
    "U-charcount", "u_charcount/skeleton.rs",
    items=[
        Type(F, "struct", "CharCounter", slot="util"),
        get_line_count, get_line_column_at_index, get_index_range_of_line,
        Type(FS, "struct", "Span", slot="diagn", derive="drop"),
        span_new, span_location, span_length, span_before, span_after, span_join,
        cc_new,
        Type(FR, "struct", "Report", slot="diagn"), Type(FR, "struct", "Message", slot="diagn"),
        Type(FR, "enum", "MessageKind", slot="diagn", derive="Clone, Copy"), Type(FR, "struct", "LineInfo", slot="diagn"),
        get_line_info,
    ],
    serves=["C13", "C03", "C19"],
    carry_facts_into_loops=False,   # this unit's proofs need isolated loops (loop `ensures` clauses, or the solver runs out of resources with the wider context)
    description="util::CharCounter (byte index <-> line/column) and diagn::Span arithmetic",
)
