//@@INCLUDE _shared/header.rs
pub mod std_gaps {
    use vstd::prelude::*;
    verus! {
    /// number of bytes of the UTF-8 encoding of a char (vstd's specification of char::len_utf8)
    pub open spec fn utf8_len(c: char) -> nat { c.len_utf8() as nat }
    /// std gap (ASSUMED): byte length of a String (value left unspecified)
    pub assume_specification[ String::len ](s: &String) -> usize;
    /// std gap (ASSUMED): UTF-16 length of a char
    pub assume_specification[ char::len_utf16 ](c: char) -> (r: usize)
        ensures r == (if (c as u32) >= 0x10000 { 2usize } else { 1usize });
    pub assume_specification<T: core::cmp::Ord>[ core::cmp::max ](a: T, b: T) -> (r: T)
        ensures
            <T as vstd::std_specs::cmp::OrdSpec>::obeys_cmp_spec() ==> r == (if vstd::std_specs::cmp::OrdSpec::cmp_spec(&a, &b) == core::cmp::Ordering::Greater { a } else { b });
    pub assume_specification<T: core::cmp::Ord>[ core::cmp::min ](a: T, b: T) -> (r: T)
        ensures
            <T as vstd::std_specs::cmp::OrdSpec>::obeys_cmp_spec() ==> r == (if vstd::std_specs::cmp::OrdSpec::cmp_spec(&a, &b) == core::cmp::Ordering::Greater { b } else { a });
    }
}
pub mod util {
    use vstd::prelude::*;
    use crate::*;
    use crate::std_gaps::*;
    verus! {
    pub type FileServerHandle = usize;
    pub trait FileServer {
        /// the text of a file, as a character sequence
        spec fn file_text(&self, file_handle: FileServerHandle) -> Seq<char>;
        fn get_str_unwrap(&self, file_handle: FileServerHandle) -> (r: String)
            ensures r@ == self.file_text(file_handle);
    }

    // ---- property text (C13) as spec functions over the character sequence
    /// byte offset of character k (sum of the UTF-8 lengths of the characters before it)
    pub open spec fn byte_off(s: Seq<char>, k: int) -> int decreases k {
        if k <= 0 { 0 } else { byte_off(s, k - 1) + utf8_len(s[k - 1]) }
    }
    /// 0-based line of character position k: number of newlines before it
    pub open spec fn line_of(s: Seq<char>, k: int) -> int decreases k {
        if k <= 0 { 0 } else { line_of(s, k - 1) + (if s[k - 1] == '\n' { 1int } else { 0int }) }
    }
    /// 0-based character column of position k: characters since the last newline
    pub open spec fn col_of(s: Seq<char>, k: int) -> int decreases k {
        if k <= 0 { 0 } else if s[k - 1] == '\n' { 0 } else { col_of(s, k - 1) + 1 }
    }
    pub proof fn lemma_byte_off_bounds(s: Seq<char>, k: int)
        requires 0 <= k <= s.len()
        ensures k <= byte_off(s, k) <= 4 * k
        decreases k
    {
        if k > 0 { lemma_byte_off_bounds(s, k - 1); assume_utf8_len_range(s[k - 1]); }
    }
    pub proof fn lemma_line_col_bounds(s: Seq<char>, k: int)
        requires 0 <= k
        ensures 0 <= line_of(s, k) <= k, 0 <= col_of(s, k) <= k
        decreases k
    {
        if k > 0 { lemma_line_col_bounds(s, k - 1); }
    }
    pub proof fn assume_utf8_len_range(c: char)
        ensures 1 <= utf8_len(c) <= 4
    {
    }

    impl<'a> CharCounter<'a> {
        /// a Vec<char> holds 4 bytes per element, so 4 * len fits a usize (allocation limit)
        pub open spec fn wf(&self) -> bool { 4 * self.chars@.len() <= usize::MAX }
    }
    //@@ITEMS util
    }
}
pub mod diagn {
    use vstd::prelude::*;
    use crate::*;
    verus! {
    impl Clone for Span {
        #[verifier::external_body]
        fn clone(&self) -> (r: Span) ensures r == *self { unimplemented!() }
    }
    impl Copy for Span {}
    impl Span {
        pub open spec fn is_dummy(&self) -> bool { self.location.0 == usize::MAX }
    }
    impl Clone for Message {
        #[verifier::external_body]
        fn clone(&self) -> (r: Message) ensures r == *self { unimplemented!() }
    }
    /// the property-level relation (C13): (line, col) are the 0-based line and character column of the
    /// character that starts at byte index `index` of the text `s`
    pub open spec fn is_line_col_of(s: Seq<char>, index: int, line: int, col: int) -> bool {
        exists|k: int| 0 <= k <= s.len() && line == util::line_of(s, k) && col == util::col_of(s, k)
            && (util::byte_off(s, k) >= index || k == s.len()) && (k > 0 ==> util::byte_off(s, k - 1) < index)
    }
    pub open spec fn span_line_cols(s: Seq<char>, i0: int, i1: int, l1: int, c1: int, l2: int, c2: int) -> bool {
        is_line_col_of(s, i0, l1, c1) && is_line_col_of(s, i1, l2, c2)
    }
    //@@ITEMS diagn
    }
}
