from vfw.spec import Unit, Fn, Type, Impl, C, Loop, Rewrite, Insert
from units.u_resolver import unit as ur

FIN = "src/asm/resolver/instruction.rs"
FM = "src/asm/matcher/mod.rs"
RIMPL = "InstructionMatchResolution"
WHY29 = "iterator adapter chain -> prelude wrapper taking the chain's closures unchanged; assumed: what the std adapters compute from closures that meet the stated requirements"
CL = r"(\|\w+\| (?:[^()]|\((?:[^()]|\([^()]*\))*\))*?)"

is_resolved = Fn(FM, "is_resolved", impl=RIMPL, slot="asm", ret="res", key="InstructionMatchResolution::is_resolved", props=["C02"],
    ensures=[C("resolved", "res == (self is Resolved)", ["C02"])])
unwrap_resolved = Fn(FM, "unwrap_resolved", impl=RIMPL, slot="asm", ret="res", key="InstructionMatchResolution::unwrap_resolved", props=["C03"],
    requires=[C("is_resolved", "self is Resolved", ["C03"])],
    ensures=[C("the_encoding", "*res == self->Resolved_0", ["C02"])])

FE = "src/expr/expression.rs"
expect_sized = Fn(FE, "expect_error_or_sized_bigint", impl="Value", slot="expr", mode="stub", ret="res", key="Value::expect_error_or_sized_bigint",
    ensures=ur.LOUD + [C("the_coalesced_value", "res is Ok ==> res->Ok_0 == crate::asm::resolver::coalesced(self)"), C("shape", "res is Ok ==> res->Ok_0 is Unknown || res->Ok_0 is FailedConstraint || (res->Ok_0 is Integer && res->Ok_0->Integer_0.size is Some)")])
rim_match = Fn(FIN, "resolve_instruction_match", slot="resolver", mode="stub", ret="res", key="resolve_instruction_match", ensures=ur.LOUD + [
    C("a_value_of_the_match", "res is Ok ==> is_value_of_match(res->Ok_0, *mtch, *ctx)")])
rim = Fn(FIN, "resolve_instruction_matches", slot="resolver", ret="res", key="resolve_instruction_matches", props=["C02", "C03"],
    requires=[C("ruledefs_defined", "forall|k: int| 0 <= k < old(matches)@.len() ==> (#[trigger] old(matches)@[k]).ruledef_ref.0 < defs.ruledefs.defs@.len() && defs.ruledefs.defs@[old(matches)@[k].ruledef_ref.0 as int] is Some", ["C03"])],
    ensures=[C("err_is_loud", "res is Err ==> final(report).msgs() > old(report).msgs()", ["C03"]),
             C("ok_is_clean", "res is Ok ==> final(report).msgs() == old(report).msgs() && final(report).errors() == old(report).errors()", ["C03"]),
             C("parents_balanced", "final(report).parents() == old(report).parents()", ["C03"]),
             C("same_matches", "final(matches)@.len() == old(matches)@.len()", ["C02"]),
             C("resolved_are_sized", "res is Ok ==> forall|k: int| 0 <= k < final(matches)@.len() && match_resolved(#[trigger] final(matches)@[k]) ==> (final(matches)@[k].encoding->Resolved_0).size is Some", ["C02"]),
             C("every_encoding_is_recomputed_in_this_pass", "res is Ok ==> forall|k: int| 0 <= k < final(matches)@.len() ==> encoding_is_fresh(#[trigger] final(matches)@[k], old(matches)@[k], *ctx)", ["C02"]),
             C("only_the_encodings_change", "forall|k: int| 0 <= k < final(matches)@.len() ==> (#[trigger] final(matches)@[k]).ruledef_ref == old(matches)@[k].ruledef_ref && final(matches)@[k].rule_ref == old(matches)@[k].rule_ref && final(matches)@[k].args == old(matches)@[k].args", ["C02"])],
    for_to_while=[1],
    loops={1: Loop(invariant=[
        C("range", "verif_hi_1 == matches@.len()"),
        C("kept", "report.msgs() == old(report).msgs() && report.errors() == old(report).errors() && report.parents() == old(report).parents() && matches@.len() == old(matches)@.len()"),
        C("defined", "forall|k: int| 0 <= k < matches@.len() ==> (#[trigger] matches@[k]).ruledef_ref == old(matches)@[k].ruledef_ref && matches@[k].rule_ref == old(matches)@[k].rule_ref && matches@[k].args == old(matches)@[k].args"),
        C("ruledefs_defined", "forall|k: int| 0 <= k < old(matches)@.len() ==> (#[trigger] old(matches)@[k]).ruledef_ref.0 < defs.ruledefs.defs@.len() && defs.ruledefs.defs@[old(matches)@[k].ruledef_ref.0 as int] is Some"),
        C("sized_so_far", "forall|k: int| 0 <= k < verif_next_1 && match_resolved(#[trigger] matches@[k]) ==> (matches@[k].encoding->Resolved_0).size is Some"),
        C("fresh_so_far", "forall|k: int| 0 <= k < verif_next_1 ==> encoding_is_fresh(#[trigger] matches@[k], old(matches)@[k], *ctx)"),
        C("later_untouched", "forall|k: int| verif_next_1 <= k < matches@.len() ==> #[trigger] matches@[k] == old(matches)@[k]"),
    ], decreases="verif_hi_1 - verif_next_1")},
)
note = Fn(FIN, "build_recursive_candidate_note", slot="resolver", mode="stub", ret="res", key="build_recursive_candidate_note", ensures=[])

RF = "src/diagn/report.rs"
SAME = [C("messages_kept", "final(self).msgs() == old(self).msgs() && final(self).errors() == old(self).errors() && final(self).parents() == old(self).parents()")]
push_cap = Fn(RF, "push_parent_cap", impl="Report", slot="diagn", mode="stub", key="Report::push_parent_cap", ensures=SAME)
pop_cap = Fn(RF, "pop_parent_cap", impl="Report", slot="diagn", mode="stub", key="Report::pop_parent_cap", ensures=SAME)
push_multiple = Fn(RF, "push_multiple", impl="Report", slot="diagn", mode="stub", key="Report::push_multiple",
    ensures=[C("loud_when_nonempty", "msgs@.len() > 0 ==> final(self).msgs() > old(self).msgs()"), C("never_fewer", "final(self).msgs() >= old(self).msgs()"),
             C("parents_kept", "final(self).parents() == old(self).parents()")])
fuse = Fn(RF, "fuse_topmost", impl="Message", slot="diagn", mode="stub", ret="res", key="Message::fuse_topmost",
    requires=[C("nonempty", "msgs@.len() > 0")], ensures=[])

CHOSEN = "res->Ok_0->0"
import copy
def _shared():
    out = []
    for c in ur.resolve_encoding_stub.ensures:
        if getattr(c, "stub_only", False):
            continue          # the ghost event "chosen_recorded" is definitional (stub side only)
        c2 = copy.copy(c)
        c2.props = ["C02", "C03"]
        out.append(c2)
    return out
# the clauses resolve_instruction relies on (same objects as the stub in U-resolver) + the property-level ones
resolve_encoding = Fn(FIN, "resolve_encoding", slot="resolver", ret="res", key="resolve_encoding", props=["C02", "C03"],
    requires=[C("matches_refer_to_defined_ruledefs", "forall|k: int| 0 <= k < old(matches)@.len() ==> (#[trigger] old(matches)@[k]).ruledef_ref.0 < defs.ruledefs.defs@.len() && defs.ruledefs.defs@[old(matches)@[k].ruledef_ref.0 as int] is Some", ["C03"])],
    ensures=_shared() + [
        C("only_resolved_matches_of_the_smallest_size", "res is Ok && res->Ok_0 is Some ==> forall|i: int| 0 <= i < %s@.len() ==> ({ let e = #[trigger] %s@[i];"
          " e.0 < final(matches)@.len() && match_resolved(final(matches)@[e.0 as int]) && *e.1 == final(matches)@[e.0 as int].encoding->Resolved_0"
          " && (forall|k: int| 0 <= k < final(matches)@.len() && match_resolved(#[trigger] final(matches)@[k]) ==> e.1.size->0 <= resolved_size(final(matches)@[k])) })" % (CHOSEN, CHOSEN), ["C02"]),
        C("unique_when_guessing_is_forbidden", "res is Ok && res->Ok_0 is Some && ctx.is_last_iteration ==> %s@.len() == 1" % CHOSEN, ["C02"]),
    ],
    rewrites=[
        Rewrite(r"matches\s*\.iter\(\)\s*\.filter\(" + CL + r"\)\s*\.count\(\)", r"verif_count_resolved(matches, \1)", regex=True, rule="R29", why=WHY29),
        Rewrite(r"matches\s*\.iter\(\)\s*\.enumerate\(\)\s*\.filter\(" + CL + r"\)\s*\.map\(" + CL + r"\)\s*\.collect::<Vec<_>>\(\)", r"verif_resolved_encodings(matches, \1, \2)", regex=True, rule="R29", why=WHY29),
        Rewrite(r"encodings_resolved\s*\.iter\(\)\s*\.map\(" + CL + r"\)\s*\.min\(\)\s*\.unwrap\(\)", r"verif_min_size(&encodings_resolved, \1)", regex=True, rule="R29", why=WHY29),
        Rewrite(r"encodings_resolved\s*\.iter\(\)\s*\.filter\(" + CL + r"\)\s*\.copied\(\)\s*\.collect::<Vec<_>>\(\)", r"verif_with_size(&encodings_resolved, smallest_size, \1)", regex=True, rule="R29", why=WHY29),
        Rewrite("            for mtch in matches\n", "            for mtch in &*matches\n", rule="R21", why="`for x in REF` over a `&mut Vec` that is only read: iterate the shared reborrow (the loop reads the elements only)"),
        Rewrite("        for encoding in smallest_encodings\n", "        for encoding in &smallest_encodings\n", rule="R21", why="by-value iteration over a Vec of Copy pairs that is not used afterwards -> iterate by reference"),
    ],
    closures={
        1: ("|m: &&asm::InstructionMatch| -> (r: bool)\n            ensures r == match_resolved(**m)\n       ", ""),
        2: ("|m: &(usize, &asm::InstructionMatch)| -> (r: bool)\n            ensures r == match_resolved(*m.1)\n       ", ""),
        3: ("|m: (usize, &asm::InstructionMatch)| -> (r: (usize, &util::BigInt))\n            requires match_resolved(*m.1)\n            ensures r.0 == m.0 && *r.1 == m.1.encoding->Resolved_0\n       ", ""),
        4: ("|e: &(usize, &util::BigInt)| -> (r: usize)\n            requires e.1.size is Some\n            ensures r == e.1.size->0\n       ", ""),
        5: ("|e: &&(usize, &util::BigInt)| -> (r: bool)\n            requires e.1.size is Some\n            ensures r == (e.1.size->0 == smallest_size)\n       ", ""),
    },
    for_to_while=[1, 2],
    loops={
        1: Loop(invariant=[C("kept", "report.msgs() == old(report).msgs() && report.errors() == old(report).errors() && report.parents() == old(report).parents() && verif_next_1 <= verif_vec_1@.len()")],
                decreases="verif_vec_1@.len() - verif_next_1"),
        2: Loop(invariant=[C("kept", "report.msgs() == old(report).msgs() && report.errors() == old(report).errors() && report.parents() == old(report).parents() && verif_next_2 <= verif_vec_2@.len()"
                             " && notes@.len() == verif_next_2 && verif_vec_2@ == smallest_encodings@ && (forall|i: int| 0 <= i < smallest_encodings@.len() ==> (#[trigger] smallest_encodings@[i]).0 < matches@.len())")],
                decreases="verif_vec_2@.len() - verif_next_2"),
    },
)

UNIT = Unit(
    "U-encoding", "u_encoding/skeleton.rs",
    items=ur.COMMON + [
        Type(FM, "struct", "InstructionMatch", slot="asm"), Type(FM, "enum", "InstructionMatchResolution", slot="asm"),
        Type(FM, "struct", "InstructionArgument", slot="asm"), Type(FM, "enum", "InstructionArgumentKind", slot="asm"),
        is_resolved, unwrap_resolved, expect_sized, rim_match, rim, note, push_cap, pop_cap, push_multiple, fuse, ur.can_guess.as_stub("resolver"),
        resolve_encoding,
    ],
    serves=["C02", "C03"],
    description="asm::resolver::resolve_encoding: among the resolved matches the smallest encodings, unique when guessing is forbidden",
)
