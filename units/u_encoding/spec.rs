        // ---- choosing the encoding of an instruction (C02)
        pub open spec fn match_resolved(m: asm::InstructionMatch) -> bool { m.encoding is Resolved }
        pub open spec fn resolved_size(m: asm::InstructionMatch) -> int { (m.encoding->Resolved_0).size->0 as int }
        /// number of resolved matches among the first n
        pub open spec fn count_resolved(ms: Seq<asm::InstructionMatch>, n: int) -> int decreases n {
            if n <= 0 { 0 } else { count_resolved(ms, n - 1) + (if match_resolved(ms[n - 1]) { 1int } else { 0int }) }
        }
        pub proof fn lemma_count_resolved(ms: Seq<asm::InstructionMatch>, n: int)
            requires 0 <= n <= ms.len()
            ensures 0 <= count_resolved(ms, n) <= n,
                    count_resolved(ms, n) == 0 <==> (forall|k: int| 0 <= k < n ==> !match_resolved(#[trigger] ms[k]))
            decreases n
        {
            if n > 0 { lemma_count_resolved(ms, n - 1); }
        }
        // R29 helpers: the four iterator-adapter chains of resolve_encoding (filter/count, enumerate/filter/map/
        // collect, map/min, filter/copied/collect) as wrappers whose ASSUMED contracts are what those std adapters do
        #[verifier::external_body]
        pub fn verif_count_resolved(matches: &Vec<asm::InstructionMatch>) -> (r: usize)
            ensures r == count_resolved(matches@, matches@.len() as int)
        { unimplemented!() }
        /// (index, encoding) of every resolved match, in order
        #[verifier::external_body]
        pub fn verif_resolved_encodings<'a>(matches: &'a Vec<asm::InstructionMatch>) -> (r: Vec<(usize, &'a util::BigInt)>)
            ensures
                r@.len() == count_resolved(matches@, matches@.len() as int),
                forall|i: int| 0 <= i < r@.len() ==> (#[trigger] r@[i]).0 < matches@.len() && match_resolved(matches@[r@[i].0 as int]) && *r@[i].1 == matches@[r@[i].0 as int].encoding->Resolved_0,
                forall|k: int| 0 <= k < matches@.len() && match_resolved(#[trigger] matches@[k]) ==> exists|i: int| 0 <= i < r@.len() && (#[trigger] r@[i]).0 == k,
                forall|i: int, j: int| 0 <= i < j < r@.len() ==> (#[trigger] r@[i]).0 < (#[trigger] r@[j]).0,
        { unimplemented!() }
        #[verifier::external_body]
        pub fn verif_min_size(es: &Vec<(usize, &util::BigInt)>) -> (r: usize)
            requires es@.len() > 0, forall|i: int| 0 <= i < es@.len() ==> (#[trigger] es@[i]).1.size is Some
            ensures
                exists|i: int| 0 <= i < es@.len() && (#[trigger] es@[i]).1.size->0 == r,
                forall|i: int| 0 <= i < es@.len() ==> r <= (#[trigger] es@[i]).1.size->0,
        { unimplemented!() }
        /// the entries whose size is `size`, in order
        #[verifier::external_body]
        pub fn verif_with_size<'a>(es: &Vec<(usize, &'a util::BigInt)>, size: usize) -> (r: Vec<(usize, &'a util::BigInt)>)
            requires forall|i: int| 0 <= i < es@.len() ==> (#[trigger] es@[i]).1.size is Some
            ensures
                forall|i: int| 0 <= i < r@.len() ==> es@.contains(#[trigger] r@[i]) && r@[i].1.size->0 == size,
                forall|i: int| 0 <= i < es@.len() && (#[trigger] es@[i]).1.size->0 == size ==> r@.contains(es@[i]),
                r@.len() <= es@.len(),
        { unimplemented!() }
