        // ---- choosing the encoding of an instruction (C02)
        pub open spec fn match_resolved(m: asm::InstructionMatch) -> bool { m.encoding is Resolved }
        pub open spec fn resolved_size(m: asm::InstructionMatch) -> int { (m.encoding->Resolved_0).size->0 as int }
        /// `v` is a value that evaluating the production of match `m` yields in this pass (the states of the file
        /// server and of the argument context at the time of the call are left out: a relation, not a function)
        pub uninterp spec fn is_value_of_match(v: expr::Value, m: asm::InstructionMatch, ctx: asm::ResolverContext) -> bool;
        /// Value::coallesce_to_integer (string -> integer); uninterpreted
        pub uninterp spec fn coalesced(v: expr::Value) -> expr::Value;
        /// what resolve_instruction_matches stores for a value
        pub open spec fn encoding_of(v: expr::Value) -> asm::InstructionMatchResolution {
            match v {
                expr::Value::Integer(b) => asm::InstructionMatchResolution::Resolved(b),
                expr::Value::FailedConstraint(msg) => asm::InstructionMatchResolution::FailedConstraint(msg),
                _ => asm::InstructionMatchResolution::Unresolved,
            }
        }
        /// the encoding of `m` was recomputed in this call from the arguments of `m0`
        pub open spec fn encoding_is_fresh(m: asm::InstructionMatch, m0: asm::InstructionMatch, ctx: asm::ResolverContext) -> bool {
            exists|v: expr::Value| #[trigger] is_value_of_match(v, m0, ctx) && m.encoding == encoding_of(coalesced(v))
        }
        /// number of resolved matches among the first n
        pub open spec fn count_resolved(ms: Seq<asm::InstructionMatch>, n: int) -> int decreases n {
            if n <= 0 { 0 } else { count_resolved(ms, n - 1) + (if match_resolved(ms[n - 1]) { 1int } else { 0int }) }
        }
        pub proof fn lemma_count_resolved(ms: Seq<asm::InstructionMatch>, n: int)
            requires 0 <= n <= ms.len()
            ensures 0 <= count_resolved(ms, n) <= n,
                    count_resolved(ms, n) == 0 <==> (forall|k: int| 0 <= k < n ==> !match_resolved(#[trigger] ms[k]))
            decreases n
        {
            if n > 0 { lemma_count_resolved(ms, n - 1); }
        }
        // R29 helpers: the four iterator-adapter chains of resolve_encoding become wrappers that take the chain's
        // closures UNCHANGED as arguments. Each wrapper REQUIRES that the closure computes what the chain needs (so
        // a changed closure body fails its own contract) and ENSURES, as an ASSUMED contract, what the std adapters
        // (filter/count, enumerate/filter/map/collect, map/min, filter/copied/collect) then compute.
        #[verifier::external_body]
        pub fn verif_count_resolved<F: Fn(&&asm::InstructionMatch) -> bool>(matches: &Vec<asm::InstructionMatch>, f: F) -> (r: usize)
            requires forall|m: &&asm::InstructionMatch, b: bool| call_ensures(f, (m,), b) ==> b == match_resolved(**m)
            ensures r == count_resolved(matches@, matches@.len() as int)
        { unimplemented!() }
        /// (index, encoding) of every resolved match, in order
        #[verifier::external_body]
        pub fn verif_resolved_encodings<'a, F: Fn(&(usize, &'a asm::InstructionMatch)) -> bool, G: Fn((usize, &'a asm::InstructionMatch)) -> (usize, &'a util::BigInt)>(
                matches: &'a Vec<asm::InstructionMatch>, keep: F, to_pair: G) -> (r: Vec<(usize, &'a util::BigInt)>)
            requires
                forall|m: &(usize, &asm::InstructionMatch), b: bool| call_ensures(keep, (m,), b) ==> b == match_resolved(*m.1),
                forall|m: (usize, &asm::InstructionMatch)| match_resolved(*m.1) ==> call_requires(to_pair, (m,)),
                forall|m: (usize, &asm::InstructionMatch), p: (usize, &util::BigInt)| call_ensures(to_pair, (m,), p) ==> p.0 == m.0 && *p.1 == m.1.encoding->Resolved_0,
            ensures
                r@.len() == count_resolved(matches@, matches@.len() as int),
                forall|i: int| 0 <= i < r@.len() ==> (#[trigger] r@[i]).0 < matches@.len() && match_resolved(matches@[r@[i].0 as int]) && *r@[i].1 == matches@[r@[i].0 as int].encoding->Resolved_0,
                forall|k: int| 0 <= k < matches@.len() && match_resolved(#[trigger] matches@[k]) ==> exists|i: int| 0 <= i < r@.len() && (#[trigger] r@[i]).0 == k,
                forall|i: int, j: int| 0 <= i < j < r@.len() ==> (#[trigger] r@[i]).0 < (#[trigger] r@[j]).0,
        { unimplemented!() }
        #[verifier::external_body]
        pub fn verif_min_size<F: Fn(&(usize, &util::BigInt)) -> usize>(es: &Vec<(usize, &util::BigInt)>, size_of: F) -> (r: usize)
            requires
                es@.len() > 0,
                forall|i: int| 0 <= i < es@.len() ==> (#[trigger] es@[i]).1.size is Some,
                forall|e: &(usize, &util::BigInt)| e.1.size is Some ==> call_requires(size_of, (e,)),
                forall|e: &(usize, &util::BigInt), n: usize| call_ensures(size_of, (e,), n) ==> n == e.1.size->0,
            ensures
                exists|i: int| 0 <= i < es@.len() && (#[trigger] es@[i]).1.size->0 == r,
                forall|i: int| 0 <= i < es@.len() ==> r <= (#[trigger] es@[i]).1.size->0,
        { unimplemented!() }
        /// the entries whose size is `size`, in order
        #[verifier::external_body]
        pub fn verif_with_size<'a, F: Fn(&&(usize, &'a util::BigInt)) -> bool>(es: &Vec<(usize, &'a util::BigInt)>, size: usize, keep: F) -> (r: Vec<(usize, &'a util::BigInt)>)
            requires
                forall|i: int| 0 <= i < es@.len() ==> (#[trigger] es@[i]).1.size is Some,
                forall|e: &&(usize, &util::BigInt)| e.1.size is Some ==> call_requires(keep, (e,)),
                forall|e: &&(usize, &util::BigInt), b: bool| call_ensures(keep, (e,), b) ==> b == (e.1.size->0 == size),
            ensures
                forall|i: int| 0 <= i < r@.len() ==> es@.contains(#[trigger] r@[i]) && r@[i].1.size->0 == size,
                forall|i: int| 0 <= i < es@.len() && (#[trigger] es@[i]).1.size->0 == size ==> r@.contains(es@[i]),
                r@.len() <= es@.len(),
        { unimplemented!() }
