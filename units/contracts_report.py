"""Contract table: diagn::Report.  Same clause text is used (a) where Report's real methods are
verified (unit U-report, `msgs()`/`parents()` are defined over the real fields) and (b) as
external_body stubs in every other unit (where `msgs()`/`parents()` are uninterpreted)."""
from vfw.spec import Fn, C, Rewrite, Loop, Insert

F = "src/diagn/report.rs"

_push_msg = [
    C("one_more_message", "final(self).msgs() == old(self).msgs() + 1", ["C03"]),
    C("parents_kept", "final(self).parents() == old(self).parents()", ["C03"]),
    C("errors_monotone", "old(self).errors() <= final(self).errors() <= old(self).errors() + 1", ["C03"]),
]
_push_err = _push_msg + [
    C("toplevel_error_counts", "old(self).parents() == 0 ==> final(self).errors() == old(self).errors() + 1", ["C03"]),
]
_push_other = _push_msg + [
    C("toplevel_nonerror_does_not_count", "old(self).parents() == 0 ==> final(self).errors() == old(self).errors()", ["C03"]),
]

_same = [
    C("msgs_kept", "final(self).msgs() == old(self).msgs()", ["C03"]),
    C("errors_kept", "final(self).errors() == old(self).errors()", ["C03"]),
]


def report_fns(mode="stub", slot="diagn"):
    fns = []
    for name in ("error", "error_span"):
        fns.append(Fn(F, name, impl="Report", slot=slot, mode=mode, ensures=_push_err, props=["C03"]))
    for name in ("warning", "warning_span", "note", "note_span"):
        fns.append(Fn(F, name, impl="Report", slot=slot, mode=mode, ensures=_push_other, props=["C03"]))
    for name in ("push_parent", "push_parent_note", "push_parent_short_note"):
        fns.append(Fn(F, name, impl="Report", slot=slot, mode=mode, props=["C03"], ensures=_same + [
            C("parent_pushed", "final(self).parents() == old(self).parents() + 1", ["C03"])]))
    fns.append(Fn(F, "pop_parent", impl="Report", slot=slot, mode=mode, props=["C03"],
                  requires=[C("has_parent", "old(self).parents() > 0", ["C03"])],
                  ensures=_same + [C("parent_popped", "final(self).parents() == old(self).parents() - 1", ["C03"])]))
    fns.append(Fn(F, "message", impl="Report", slot=slot, mode=mode, props=["C03"], ensures=_push_msg + [
        C("toplevel_kind_counts", "old(self).parents() == 0 ==> final(self).errors() == old(self).errors() + (if msg_is_error(msg) { 1nat } else { 0nat })", ["C03"])]))
    fns.append(Fn(F, "stop_at_errors", impl="Report", slot=slot, mode=mode, ret="res", props=["C03"],
                  ensures=[C("ok_iff_no_error", "res is Ok <==> self.errors() == 0", ["C03"])],
                  rewrites=([Rewrite(r"for msg in &self\.messages\b", "for msg in it: &self.messages", regex=True, count=None, rule="R5", why="ghost iterator named")] if mode == "verify" else []),
                  loops=({"for msg in": Loop(invariant=[C("no_error_so_far", "forall|i: int| 0 <= i < it.index@ ==> !((#[trigger] self.messages@[i]).kind is Error)")],
                                              body_start="\t\t\tproof { assert(*msg == self.messages@[it.index@ as int]); lemma_count_zero(self.messages@); }")} if mode == "verify" else {}),
                  inserts=([Insert("\t\tOk(())", "\t\tproof { lemma_count_zero(self.messages@); }\n", where="before")] if mode == "verify" else [])))
    fns.append(Fn(F, "has_errors", impl="Report", slot=slot, mode=mode, ret="res", props=["C03"],
                  ensures=[C("has_errors_iff_messages", "res == (self.msgs() != 0)", ["C03"])]))
    return fns
