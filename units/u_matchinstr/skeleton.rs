//@@INCLUDE _shared/header.rs
//@@INCLUDE _shared/std_gaps.rs
pub mod diagn {
    use vstd::prelude::*;
    use vstd::std_specs::cmp::*;
    use crate::*;
    verus! {
    #[verifier::external_body]
    pub struct Message { _p: u8 }
    /// diagn::Span's hand-written PartialEq is structural (proved below over the real impl)
    impl PartialEqSpecImpl for Span {
        open spec fn obeys_eq_spec() -> bool { true }
        open spec fn eq_spec(&self, other: &Span) -> bool { *self == *other }
    }
    impl Span {
        /// the span points into a file (it is not the dummy span)
        pub closed spec fn is_located(&self) -> bool { self.location.0 != usize::MAX }
        /// byte offset of the span's start in its file
        pub closed spec fn start(&self) -> usize { self.location.0 }
    }
    //@@ITEMS diagn
    }
}
pub mod util {
    use vstd::prelude::*;
    use crate::*;
    verus! {
    pub type FileServerHandle = usize;
    #[verifier::external_body]
    pub struct BigInt { _p: u8 }
    //@@ITEMS util
    }
}
pub mod expr {
    use vstd::prelude::*;
    use crate::*;
    verus! {
    #[verifier::external_body]
    pub struct Expr { _p: u8 }
    #[verifier::external_body]
    pub struct Value { _p: u8 }
    }
}
pub mod syntax {
    use vstd::prelude::*;
    use crate::*;
    verus! {
    /// opaque stand-in for the token walker (the candidate generators that use it are stubs)
    #[verifier::external_body]
    pub struct Walker<'src> { _p: &'src str }
    impl<'src> Walker<'src> {
        /// what a walker was made from: (text, file handle, byte offset of the text in the file)
        pub uninterp spec fn key(&self) -> (Seq<char>, usize, usize);
        #[verifier::external_body]
        pub fn new(src: &'src str, src_file_handle: util::FileServerHandle, src_byte_offset: usize) -> (r: Walker<'src>)
            ensures r.key() == (src@, src_file_handle, src_byte_offset)
        { unimplemented!() }
    }
    impl<'src> Clone for Walker<'src> {
        #[verifier::external_body]
        fn clone(&self) -> (r: Walker<'src>) ensures r == *self { unimplemented!() }
    }
    /// what the character-level operations of the walker answer (uninterpreted here; maybe_expect_char is proved in
    /// U-walker): the walker after taking the literal character c - skipping blanks and comments, ignoring ASCII case -
    /// or None when the next character is another one
    pub uninterp spec fn char_step<'src>(w: Walker<'src>, c: char) -> Option<Walker<'src>>;
    /// the walker is at the end of its text
    pub uninterp spec fn over<'src>(w: Walker<'src>) -> bool;
    /// the kind of the very next token (nothing skipped)
    pub uninterp spec fn next_kind<'src>(w: Walker<'src>) -> TokenKind;
    /// C07: what may stand where the pattern has a blank: a blank or a comment
    pub open spec fn separates(k: TokenKind) -> bool { k is Whitespace || k is Comment }
    /// char::eq_ignore_ascii_case as a relation (ASSUMED specification)
    pub uninterp spec fn same_ignoring_ascii_case(a: char, b: char) -> bool;
    pub assume_specification[ char::eq_ignore_ascii_case ](a: &char, b: &char) -> (r: bool)
        ensures r == same_ignoring_ascii_case(*a, *b);
    /// derived PartialEq of TokenKind (ASSUMED to be what #[derive] generates: equal variants)
    impl vstd::std_specs::cmp::PartialEqSpecImpl for TokenKind {
        open spec fn obeys_eq_spec() -> bool { true }
        open spec fn eq_spec(&self, other: &TokenKind) -> bool { *self == *other }
    }
    impl PartialEq for TokenKind {
        #[verifier::external_body]
        fn eq(&self, other: &TokenKind) -> (r: bool) { unimplemented!() }
    }
    //@@ITEMS syntax
    }
}
pub mod asm {
    use vstd::prelude::*;
    use vstd::std_specs::cmp::*;
    use crate::*;
    verus! {
    broadcast use {crate::std_gaps::axiom_vec_len_fits};
    /// stand-in for asm::ItemDefs: only the fields the verified functions read
    pub struct ItemDefs { pub ruledefs: DefList<Ruledef>, pub ruledef_map: RuledefMap }
    /// opaque stand-in for the prefix index (its contents are the subject of U-rulemap)
    #[verifier::external_body]
    pub struct RuledefMap { _p: u8 }
    pub type RuledefMapPrefix = [char; MAX_PREFIX_SIZE];
    //@@INCLUDE u_matchinstr/spec.rs
    //@@ITEMS asm
    }
}
