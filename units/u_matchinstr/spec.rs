    // ---- property text (C07 / C01): which candidates an instruction line keeps
    /// InstructionMatch::is_same: same rule, the same number of arguments, the arguments alike
    pub open spec fn same_match(a: InstructionMatch, b: InstructionMatch) -> bool
        decreases a, 1int
    {
        a.ruledef_ref.0 == b.ruledef_ref.0 && a.rule_ref.0 == b.rule_ref.0 && a.args@.len() == b.args@.len()
            && forall|i: int| 0 <= i < a.args@.len() ==> same_arg(#[trigger] a.args@[i], b.args@[i])
    }
    /// InstructionArgument::is_same: the same source span, and both expressions or nested matches that are alike
    pub open spec fn same_arg(a: InstructionArgument, b: InstructionArgument) -> bool
        decreases a, 0int
    {
        a.span == b.span && (match (a.kind, b.kind) {
            (InstructionArgumentKind::Expr(_), InstructionArgumentKind::Expr(_)) => true,
            (InstructionArgumentKind::Nested(x), InstructionArgumentKind::Nested(y)) => same_match(x, y),
            _ => false,
        })
    }
    /// the match and every nested match refer to a defined ruledef and one of its rules
    pub open spec fn match_wf(defs: &ItemDefs, m: InstructionMatch) -> bool
        decreases m, 1int
    {
        m.ruledef_ref.0 < defs.ruledefs.defs@.len() && defs.ruledefs.defs@[m.ruledef_ref.0 as int] is Some
            && m.rule_ref.0 < (defs.ruledefs.defs@[m.ruledef_ref.0 as int]->0).rules@.len()
            && forall|i: int| 0 <= i < m.args@.len() ==> arg_wf(defs, #[trigger] m.args@[i])
    }
    pub open spec fn arg_wf(defs: &ItemDefs, a: InstructionArgument) -> bool
        decreases a, 0int
    {
        match a.kind { InstructionArgumentKind::Nested(x) => match_wf(defs, x), _ => true }
    }
    pub open spec fn rule_of(defs: &ItemDefs, m: InstructionMatch) -> Rule {
        (defs.ruledefs.defs@[m.ruledef_ref.0 as int]->0).rules@[m.rule_ref.0 as int]
    }
    /// the number of literally spelled pattern parts of a match, nested matches included
    pub open spec fn total_exact(defs: &ItemDefs, m: InstructionMatch) -> int
        decreases m, 1int
    {
        nested_exact(defs, m, m.args@.len() as int) + rule_of(defs, m).exact_part_count
    }
    pub open spec fn nested_exact(defs: &ItemDefs, m: InstructionMatch, n: int) -> int
        decreases m, 0int, n
    {
        if n <= 0 || n > m.args@.len() { 0 } else {
            nested_exact(defs, m, n - 1) + (match m.args@[n - 1].kind { InstructionArgumentKind::Nested(x) => total_exact(defs, x), _ => 0 })
        }
    }
    pub proof fn lemma_total_nonneg(defs: &ItemDefs, m: InstructionMatch)
        ensures total_exact(defs, m) >= 0
        decreases m, 1int
    {
        lemma_nested_nonneg(defs, m, m.args@.len() as int);
    }
    pub proof fn lemma_nested_nonneg(defs: &ItemDefs, m: InstructionMatch, n: int)
        ensures nested_exact(defs, m, n) >= 0
        decreases m, 0int, n
    {
        if 0 < n <= m.args@.len() {
            lemma_nested_nonneg(defs, m, n - 1);
            match m.args@[n - 1].kind { InstructionArgumentKind::Nested(x) => { lemma_total_nonneg(defs, x); }, _ => {} }
        }
    }
    pub proof fn lemma_nested_exact_mono(defs: &ItemDefs, m: InstructionMatch, a: int, b: int)
        requires 0 <= a <= b <= m.args@.len()
        ensures nested_exact(defs, m, a) <= nested_exact(defs, m, b)
        decreases b - a
    {
        if a < b {
            lemma_nested_exact_mono(defs, m, a, b - 1);
            match m.args@[b - 1].kind { InstructionArgumentKind::Nested(x) => { lemma_total_nonneg(defs, x); }, _ => {} }
        }
    }
    /// candidate i is not `is_same` as any earlier candidate
    pub open spec fn first_of_its_kind(c: Seq<InstructionMatch>, i: int) -> bool {
        forall|j: int| 0 <= j < i ==> !same_match(c[i], #[trigger] c[j])
    }
    /// the candidates from index i on that are the first of their kind, in order
    pub open spec fn firsts_from(c: Seq<InstructionMatch>, i: int) -> Seq<InstructionMatch>
        decreases c.len() - i
    {
        if i < 0 || i >= c.len() { Seq::empty() } else {
            (if first_of_its_kind(c, i) { seq![c[i]] } else { Seq::empty() }) + firsts_from(c, i + 1)
        }
    }
    /// the match with its literal count filled in
    pub open spec fn with_count(defs: &ItemDefs, m: InstructionMatch) -> InstructionMatch {
        InstructionMatch { exact_part_count: total_exact(defs, m) as usize, ..m }
    }
    pub open spec fn counted(defs: &ItemDefs, s: Seq<InstructionMatch>) -> Seq<InstructionMatch> {
        Seq::new(s.len(), |i: int| with_count(defs, s[i]))
    }
    /// the first n elements whose count is mx, in order
    pub open spec fn keep_count(s: Seq<InstructionMatch>, n: int, mx: int) -> Seq<InstructionMatch>
        decreases n
    {
        if n <= 0 { Seq::empty() } else {
            keep_count(s, n - 1, mx) + (if s[n - 1].exact_part_count == mx { seq![s[n - 1]] } else { Seq::empty() })
        }
    }
    pub proof fn lemma_keep_count_is_filter(s: Seq<InstructionMatch>, n: int, mx: int)
        requires 0 <= n <= s.len()
        ensures keep_count(s, n, mx) == s.subrange(0, n).filter(|m: InstructionMatch| m.exact_part_count == mx)
        decreases n
    {
        let p = |m: InstructionMatch| m.exact_part_count == mx;
        reveal(Seq::filter);
        if n > 0 {
            lemma_keep_count_is_filter(s, n - 1, mx);
            assert(s.subrange(0, n).drop_last() =~= s.subrange(0, n - 1));
        } else {
            assert(s.subrange(0, 0) =~= Seq::<InstructionMatch>::empty());
        }
    }
    /// every kept element has the count mx, and an element with the count mx is kept
    pub proof fn lemma_keep_count_members(s: Seq<InstructionMatch>, n: int, mx: int)
        requires 0 <= n <= s.len()
        ensures forall|k: int| 0 <= k < keep_count(s, n, mx).len() ==> (#[trigger] keep_count(s, n, mx)[k]).exact_part_count == mx,
                forall|i: int| 0 <= i < n && s[i].exact_part_count == mx ==> keep_count(s, n, mx).contains(#[trigger] s[i]),
                keep_count(s, n, mx).len() <= n,
        decreases n
    {
        if n > 0 {
            lemma_keep_count_members(s, n - 1, mx);
            let prev = keep_count(s, n - 1, mx);
            let cur = keep_count(s, n, mx);
            assert forall|i: int| 0 <= i < n && s[i].exact_part_count == mx implies cur.contains(#[trigger] s[i]) by {
                if i < n - 1 {
                    let k = choose|k: int| 0 <= k < prev.len() && prev[k] == s[i];
                    assert(cur[k] == s[i]);
                } else {
                    assert(cur[cur.len() - 1] == s[i]);
                }
            }
        }
    }
    /// R29 / R16 helpers (ASSUMED contracts of the std calls they stand for)
    /// `Vec::extend(other_vec)`: the elements are appended in order
    #[verifier::external_body]
    pub fn verif_extend<'src>(v: &mut Vec<WorkingMatch<'src>>, more: Vec<WorkingMatch<'src>>)
        ensures final(v)@ == old(v)@ + more@
    { unimplemented!() }
    /// `.into_iter().map(CLOSURE).collect::<Vec<_>>()`: the closure's results in order
    #[verifier::external_body]
    pub fn verif_map_collect<'src, F: FnMut(WorkingMatch<'src>) -> InstructionMatch>(v: Vec<WorkingMatch<'src>>, f: F) -> (r: Vec<InstructionMatch>)
        requires forall|m: WorkingMatch<'src>, x: InstructionMatch| call_ensures(f, (m,), x) ==> x == m.0
        ensures r@ == first_components(v@)
    { unimplemented!() }
    pub open spec fn first_components<'src>(v: Seq<WorkingMatch<'src>>) -> Seq<InstructionMatch> {
        Seq::new(v.len(), |i: int| v[i].0)
    }
    /// `.iter().max_by_key(CLOSURE)`: an element with the largest key (None for an empty vector)
    #[verifier::external_body]
    pub fn verif_max_by_count<'a, F: FnMut(&&'a InstructionMatch) -> usize>(v: &'a Vec<InstructionMatch>, f: F) -> (r: Option<&'a InstructionMatch>)
        requires forall|m: &&InstructionMatch, n: usize| call_ensures(f, (m,), n) ==> n == m.exact_part_count
        ensures
            (r is None) == (v@.len() == 0),
            r is Some ==> (exists|i: int| 0 <= i < v@.len() && *r->0 == #[trigger] v@[i]) && (forall|i: int| 0 <= i < v@.len() ==> (#[trigger] v@[i]).exact_part_count <= r->0.exact_part_count),
    { unimplemented!() }
    /// `Vec::retain(CLOSURE)`: the elements the closure accepts, in order
    #[verifier::external_body]
    pub fn verif_retain_count<F: FnMut(&InstructionMatch) -> bool>(v: &mut Vec<InstructionMatch>, f: F, Ghost(mx): Ghost<usize>)
        requires forall|m: &InstructionMatch, b: bool| call_ensures(f, (m,), b) ==> b == (m.exact_part_count == mx)
        ensures final(v)@ == keep_count(old(v)@, old(v)@.len() as int, mx as int)
    { unimplemented!() }
    /// `.iter().zip(OTHER).all(CLOSURE)` over two vectors of the same length
    #[verifier::external_body]
    pub fn verif_zip_all<'a, F: FnMut((&'a InstructionArgument, &'a InstructionArgument)) -> bool>(x: &'a Vec<InstructionArgument>, y: &'a Vec<InstructionArgument>, f: F) -> (r: bool)
        requires x@.len() == y@.len(),
            forall|i: int| 0 <= i < x@.len() ==> call_requires(f, ((&#[trigger] x@[i], &y@[i]),)),
        ensures r ==> (forall|i: int| 0 <= i < x@.len() ==> call_ensures(f, ((&#[trigger] x@[i], &y@[i]),), true)),
                !r ==> (exists|i: int| 0 <= i < x@.len() && call_ensures(f, ((&#[trigger] x@[i], &y@[i]),), false)),
    { unimplemented!() }
    // ---- where the candidates come from (uninterpreted: the token-level matcher is outside the verified set)
    /// derived Clone of InstructionMatch (ASSUMED: an equal value)
    impl Clone for InstructionMatch {
        #[verifier::external_body]
        fn clone(&self) -> (r: InstructionMatch) ensures r == *self { unimplemented!() }
    }
    /// `vec![(m, w)]`: a one-element vector (R16)
    #[verifier::external_body]
    pub fn verif_one<'src>(m: InstructionMatch, w: syntax::Walker<'src>) -> (r: Vec<WorkingMatch<'src>>) ensures r@ == seq![(m, w)] { unimplemented!() }
    /// C07, the look-ahead character of a parameter slot: the first literal character after it, blanks in the pattern
    /// skipped; none if another parameter slot or the end of the pattern comes first
    pub open spec fn next_literal(pattern: Seq<RulePatternPart>, i: int) -> Option<char> decreases pattern.len() - i {
        if i < 0 || i >= pattern.len() { None } else {
            match pattern[i] { RulePatternPart::Whitespace => next_literal(pattern, i + 1), RulePatternPart::Exact(c) => Some(c), _ => None }
        }
    }
    // ---- C07: how one rule is laid over the text (match_with_rule), part by part
    /// the matches an expression parameter / a sub-rule parameter at pattern part `at` contributes (match_with_expr,
    /// match_with_nested_ruledef; uninterpreted here), with and without the look-ahead cut
    pub uninterp spec fn expr_cands<'src>(defs: &ItemDefs, rule: Rule, w: syntax::Walker<'src>, all: bool, at: int, lookahead: bool, m: InstructionMatch) -> Seq<WorkingMatch<'src>>;
    pub uninterp spec fn nested_cands<'src>(defs: &ItemDefs, sub: int, rule: Rule, w: syntax::Walker<'src>, all: bool, at: int, lookahead: bool, m: InstructionMatch) -> Seq<WorkingMatch<'src>>;
    /// every parameter slot of the pattern names a declared parameter, no literal part is the NUL character
    pub open spec fn rule_wf(rule: Rule) -> bool {
        forall|i: int| 0 <= i < rule.pattern@.len() ==> (match #[trigger] rule.pattern@[i] {
            RulePatternPart::ParameterIndex(p) => p < rule.parameters@.len(),
            // the walker answers NUL at the end of the text: a pattern never spells that character
            RulePatternPart::Exact(c) => !syntax::same_ignoring_ascii_case('\0', c),
            _ => true,
        })
    }
    /// From pattern part i on: a literal character must be the next character of the text (blanks and comments before
    /// it are skipped, ASCII case is ignored - whatever the parts around it are); a blank in the pattern asks for a
    /// blank or a comment as the very next token unless the text is over; a parameter slot hands over to the expression or sub-rule
    /// matcher, first without and then with the look-ahead cut, and their matches are the result; after the last part the
    /// match stands if the text is used up (or need not be).
    pub open spec fn rule_match<'src>(defs: &ItemDefs, rule: Rule, w: syntax::Walker<'src>, all: bool, i: int, m: InstructionMatch) -> Seq<WorkingMatch<'src>>
        decreases rule.pattern@.len() - i
    {
        if i < 0 { Seq::empty() }
        else if i >= rule.pattern@.len() { if !syntax::over(w) && all { Seq::empty() } else { seq![(m, w)] } }
        else {
            match rule.pattern@[i] {
                RulePatternPart::Exact(c) => match syntax::char_step(w, c) { None => Seq::empty(), Some(w2) => rule_match(defs, rule, w2, all, i + 1, m) },
                RulePatternPart::Whitespace => if !syntax::over(w) && !syntax::separates(syntax::next_kind(w)) { Seq::empty() } else { rule_match(defs, rule, w, all, i + 1, m) },
                RulePatternPart::ParameterIndex(p) => match rule.parameters@[p as int].typ {
                    RuleParameterType::RuledefRef(sub) => nested_cands(defs, sub.0 as int, rule, w, all, i, false, m) + nested_cands(defs, sub.0 as int, rule, w, all, i, true, m),
                    _ => expr_cands(defs, rule, w, all, i, false, m) + expr_cands(defs, rule, w, all, i, true, m),
                },
            }
        }
    }
    /// the candidates one rule yields for an instruction text (begin_match_with_rule; uninterpreted)
    pub uninterp spec fn rule_candidates(defs: &ItemDefs, d: int, r: int, key: (Seq<char>, usize, usize)) -> Seq<InstructionMatch>;
    /// RuledefMap::parse_prefix of the text and the five groups query_prefixed returns for it (uninterpreted here)
    pub uninterp spec fn prefix_of(key: (Seq<char>, usize, usize)) -> RuledefMapPrefix;
    pub uninterp spec fn map_group(m: &RuledefMap, prefix: RuledefMapPrefix, g: int) -> Seq<RuledefMapEntry>;
    /// the candidates of the first n entries of a group, in order
    pub open spec fn group_candidates(defs: &ItemDefs, key: (Seq<char>, usize, usize), entries: Seq<RuledefMapEntry>, n: int) -> Seq<InstructionMatch>
        decreases n
    {
        if n <= 0 { Seq::empty() } else {
            group_candidates(defs, key, entries, n - 1) + rule_candidates(defs, entries[n - 1].ruledef_ref.0 as int, entries[n - 1].rule_ref.0 as int, key)
        }
    }
    /// the candidates of the first g groups: EVERY entry of EVERY group the index returns is tried
    pub open spec fn groups_candidates(defs: &ItemDefs, key: (Seq<char>, usize, usize), g: int) -> Seq<InstructionMatch>
        decreases g
    {
        if g <= 0 { Seq::empty() } else {
            groups_candidates(defs, key, g - 1)
                + group_candidates(defs, key, map_group(&defs.ruledef_map, prefix_of(key), g - 1), map_group(&defs.ruledef_map, prefix_of(key), g - 1).len() as int)
        }
    }
    /// every entry the index returns names an existing rule of an existing ruledef
    pub open spec fn index_entries_exist(defs: &ItemDefs, key: (Seq<char>, usize, usize)) -> bool {
        forall|g: int, k: int| 0 <= g < 5 && 0 <= k < map_group(&defs.ruledef_map, prefix_of(key), g).len() ==> ({
            let e = #[trigger] map_group(&defs.ruledef_map, prefix_of(key), g)[k];
            e.ruledef_ref.0 < defs.ruledefs.defs@.len() && defs.ruledefs.defs@[e.ruledef_ref.0 as int] is Some
            && e.rule_ref.0 < (defs.ruledefs.defs@[e.ruledef_ref.0 as int]->0).rules@.len()
        })
    }
    /// ASSUMED data invariant of ItemDefs: ruledef_map was built from ruledefs (RuledefMap::build, U-rulemap:
    /// every entry is filed while iterating the existing rules) and the rule tables are not changed afterwards
    #[verifier::external_body]
    pub proof fn axiom_index_holds_existing_rules(defs: &ItemDefs, key: (Seq<char>, usize, usize))
        ensures index_entries_exist(defs, key)
    {}
    /// the candidates the prefix index yields for an instruction text
    pub open spec fn map_candidates(defs: &ItemDefs, key: (Seq<char>, usize, usize)) -> Seq<InstructionMatch> { groups_candidates(defs, key, 5) }
    /// the candidates one ruledef yields
    pub uninterp spec fn ruledef_candidates(defs: &ItemDefs, d: int, key: (Seq<char>, usize, usize)) -> Seq<InstructionMatch>;
    /// without the index: the candidates of every ruledef that is not a sub-ruledef, in declaration order
    pub open spec fn scan_candidates(defs: &ItemDefs, n: int, key: (Seq<char>, usize, usize)) -> Seq<InstructionMatch>
        decreases n
    {
        if n <= 0 { Seq::empty() } else {
            scan_candidates(defs, n - 1, key) + (if (defs.ruledefs.defs@[n - 1]->0).is_subruledef { Seq::empty() } else { ruledef_candidates(defs, n - 1, key) })
        }
    }
    pub open spec fn all_candidates(defs: &ItemDefs, indexed: bool, key: (Seq<char>, usize, usize)) -> Seq<InstructionMatch> {
        if indexed { map_candidates(defs, key) } else { scan_candidates(defs, defs.ruledefs.defs@.len() as int, key) }
    }
    pub proof fn lemma_firsts_append<'src>(a: Seq<WorkingMatch<'src>>, b: Seq<WorkingMatch<'src>>)
        ensures first_components(a + b) =~= first_components(a) + first_components(b)
    {
    }
