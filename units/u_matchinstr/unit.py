from vfw.spec import Unit, Fn, Type, Impl, C, Loop, Rewrite, Insert
from units.common import itemref_items, deflist_fns
from units.u_charcount import unit as uc

FM = "src/asm/matcher/mod.rs"
FR = "src/asm/defs/ruledef.rs"
FA = "src/asm/mod.rs"
CL = r"(\|\w+\| (?:[^()]|\((?:[^()]|\([^()]*\))*\))*?)"
CL2 = r"(\|\(\w+, \w+\)\| (?:[^()]|\((?:[^()]|\([^()]*\))*\))*?)"
WHY29 = "iterator adapter chain -> prelude wrapper taking the chain's closure unchanged; assumed: what the std adapters compute from a closure that meets the stated requirement"

location = Fn(uc.FS, "location", impl="Span", slot="diagn", mode="stub", ret="res", key="Span::location",
              ensures=[C("some_unless_dummy", "(res is Some) == self.is_located()"), C("start", "res is Some ==> (res->0).0 == self.start()")])
span_eq = Impl(uc.FS, "PartialEq for Span", slot="diagn", props=["C07"],
               fns={"eq": Fn(uc.FS, "eq", key="Span::eq", ret="res", props=["C07"], ensures=[C("structural", "res == (*self == *other)", ["C07"])])})

KEY = "(src@, span.file_handle, span.start())"
WF_ALL = "forall|i: int| 0 <= i < res@.len() ==> match_wf(defs, (#[trigger] res@[i]).0)"
FMAP = "src/asm/defs/ruledef_map.rs"
parse_prefix = Fn(FMAP, "parse_prefix", impl="RuledefMap", slot="asm", mode="stub", ret="res", key="RuledefMap::parse_prefix",
    ensures=[C("the_prefix_of_the_text", "res == prefix_of(walker.key())")])
query_prefixed = Fn(FMAP, "query_prefixed", impl="RuledefMap", slot="asm", mode="stub", ret="res", key="RuledefMap::query_prefixed",
    ensures=[C("the_five_groups", "forall|g: int| 0 <= g < 5 ==> (#[trigger] res@[g])@ == map_group(self, prefix, g)")])
get_rule = Fn(FR, "get_rule", impl="Ruledef", slot="asm", mode="stub", ret="res", key="Ruledef::get_rule",
    requires=[C("in_range", "rule_ref.0 < self.rules@.len()")], ensures=[C("the_rule", "*res == self.rules@[rule_ref.0 as int]")])
begin_match = Fn(FM, "begin_match_with_rule", slot="asm", mode="stub", ret="res", key="matcher::begin_match_with_rule",
    ensures=[C("candidates", "first_components(res@) == rule_candidates(defs, ruledef_ref.0 as int, rule_ref.0 as int, walker.key())"), C("wf", WF_ALL)])
ENTRY_OK_UNUSED = "forall|g: int, k: int| 0 <= g < 5 && 0 <= k < map_group(&defs.ruledef_map, prefix_of(walker.key()), g).len() ==> ({ let e = #[trigger] map_group(&defs.ruledef_map, prefix_of(walker.key()), g)[k]; e.ruledef_ref.0 < defs.ruledefs.defs@.len() && defs.ruledefs.defs@[e.ruledef_ref.0 as int] is Some && e.rule_ref.0 < (defs.ruledefs.defs@[e.ruledef_ref.0 as int]->0).rules@.len() })"
with_map = Fn(FM, "match_with_ruledef_map", slot="asm", ret="res", key="matcher::match_with_ruledef_map", props=["C08", "C07", "C03"],
    ensures=[C("candidates", "first_components(res@) == map_candidates(defs, walker.key())", ["C08", "C07"]), C("wf", WF_ALL, ["C03"])],
    for_to_while=[1],
    rewrites=[Rewrite("matches.extend(rule_matches);", "verif_extend(&mut matches, rule_matches);", rule="R16", why="`Vec::extend(Vec)` -> prelude wrapper (assumed: appended in order)")],
    inserts=[
        Insert("let entries = defs.ruledef_map.query_prefixed(prefix);", "\n    proof { axiom_index_holds_existing_rules(defs, walker.key()); }", where="after"),
        Insert("verif_extend(&mut matches, rule_matches);", "let ghost verif_rm = rule_matches@;\n        ", where="before"),
        Insert("verif_extend(&mut matches, rule_matches);", "\n        proof { lemma_firsts_append(verif_wm0, verif_rm); }", where="after"),
    ],
    loops={
        1: Loop(invariant=[
            C("the_groups", "verif_vec_1@.len() == 5 && (forall|g: int| 0 <= g < 5 ==> (#[trigger] verif_vec_1@[g])@ == map_group(&defs.ruledef_map, prefix_of(walker.key()), g)) && index_entries_exist(defs, walker.key())"),
            C("cursor", "verif_group_1 <= 5 && (verif_group_1 < 5 ==> verif_next_1 <= map_group(&defs.ruledef_map, prefix_of(walker.key()), verif_group_1 as int).len()) && (verif_group_1 == 5 ==> verif_next_1 == 0)"),
            C("candidates_so_far", "first_components(matches@) == groups_candidates(defs, walker.key(), verif_group_1 as int) + group_candidates(defs, walker.key(), map_group(&defs.ruledef_map, prefix_of(walker.key()), verif_group_1 as int), verif_next_1 as int)"),
            C("wf", "forall|i: int| 0 <= i < matches@.len() ==> match_wf(defs, (#[trigger] matches@[i]).0)"),
        ], decreases="(5 - verif_group_1) as int, (if verif_group_1 < 5 { map_group(&defs.ruledef_map, prefix_of(walker.key()), verif_group_1 as int).len() - verif_next_1 } else { 0 }) as int",
           body_start=" let ghost verif_wm0 = matches@;"),
    },
)
FW = "src/syntax/walker.rs"
FT = "src/syntax/token.rs"
WI = "<'src> Walker<'src>"
w_char = Fn(FW, "maybe_expect_char", impl=WI, impl_header=WI, slot="syntax", mode="stub", ret="res", key="Walker::maybe_expect_char",
    requires=[C("not_the_end_of_text_character", "!same_ignoring_ascii_case('\\0', wanted_char)", ["C03"])],
    ensures=[C("takes_the_character_or_nothing", "(match char_step(*old(self), wanted_char) { Some(w2) => res && *final(self) == w2, None => !res && *final(self) == *old(self) })")])
w_over = Fn(FW, "is_over", impl=WI, impl_header=WI, slot="syntax", mode="stub", ret="res", key="Walker::is_over", ensures=[C("over", "res == over(*self)")])
w_next_token = Fn(FW, "next_token", impl=WI, impl_header=WI, slot="syntax", mode="stub", ret="res", key="Walker::next_token", ensures=[C("the_very_next_token", "res.kind == next_kind(*self)")])
w_next_char = Fn(FW, "next_char", impl=WI, impl_header=WI, slot="syntax", mode="stub", ret="res", key="Walker::next_char")
with_expr = Fn(FM, "match_with_expr", slot="asm", mode="stub", ret="res", key="matcher::match_with_expr",
    ensures=[C("expression_parameter_matches", "res@ == expr_cands(defs, *rule, walker, needs_consume_all_tokens, at_pattern_part as int, enable_lookahead, match_so_far)")])
with_nested = Fn(FM, "match_with_nested_ruledef", slot="asm", mode="stub", ret="res", key="matcher::match_with_nested_ruledef",
    ensures=[C("sub_rule_parameter_matches", "res@ == nested_cands(defs, nested_ruledef_ref.0 as int, *rule, walker, needs_consume_all_tokens, at_pattern_part as int, enable_lookahead, match_so_far)")])
RM = "rule_match(defs, *rule, %s, needs_consume_all_tokens, %s, %s)"
with_rule = Fn(FM, "match_with_rule", slot="asm", ret="res", key="matcher::match_with_rule", props=["C07", "C03"],
    requires=[C("parameter_slots_name_parameters", "rule_wf(*rule) && at_pattern_part <= rule.pattern@.len()", ["C03"])],
    ensures=[C("the_rule_laid_over_the_text_part_by_part", "res@ == " + RM % ("*old(walker)", "at_pattern_part as int", "*old(match_so_far)"), ["C07"])],
    for_to_while=[1],
    rewrites=[Rewrite(r"result\.extend\(", "verif_extend(&mut result, ", regex=True, count=2, rule="R16", why="`Vec::extend(Vec)` -> prelude wrapper (assumed: appended in order)"),
              Rewrite("let mut result = vec![];", "let mut result: WorkingMatches<'src> = Vec::new();", count=2, rule="R10", why="`vec![]` with an inferred element type -> `Vec::new()` with the type written out"),
              Rewrite("return vec![];", "return Vec::new();", count=None, rule="R10", why="`vec![]` -> `Vec::new()`"),
              Rewrite("        vec![]\n", "        Vec::new()\n", count=None, rule="R10", why="`vec![]` -> `Vec::new()`"),
              Rewrite("vec![(match_so_far.clone(), walker.clone())]", "verif_one(match_so_far.clone(), walker.clone())", rule="R16", why="`vec![x]` -> prelude wrapper (a one-element vector)"),
              ],
    loops={1: Loop(invariant=[
        C("cursor", "verif_hi_1 == rule.pattern@.len() && at_pattern_part <= verif_next_1 <= verif_hi_1 && rule_wf(*rule) && *match_so_far == *old(match_so_far)"),
        C("the_parts_so_far_matched", RM % ("*walker", "verif_next_1 as int", "*match_so_far") + " == " + RM % ("*old(walker)", "at_pattern_part as int", "*old(match_so_far)")),
    ], decreases="verif_hi_1 - verif_next_1")},
)
with_rule.unroll = [2, 3]

find_la = Fn(FM, "find_lookahead_char", slot="asm", ret="res", key="matcher::find_lookahead_char", props=["C07", "C03"],
    requires=[C("a_part_of_the_pattern", "at_pattern_part < pattern@.len()", ["C03"])],
    ensures=[C("the_first_literal_after_the_slot_blanks_skipped", "res == next_literal(pattern@, at_pattern_part + 1)", ["C07"])],
    loops={1: Loop(invariant=[C("only_blanks_skipped", "at_pattern_part < i <= pattern@.len() && next_literal(pattern@, i as int) == next_literal(pattern@, at_pattern_part + 1)")],
                   decreases="pattern@.len() - i")})
with_ruledef = Fn(FM, "match_with_ruledef", slot="asm", mode="stub", ret="res", key="matcher::match_with_ruledef",
    ensures=[C("walker_kept", "final(walker).key() == old(walker).key()"),
             C("candidates", "needs_consume_all_tokens ==> first_components(res@) == ruledef_candidates(defs, ruledef_ref.0 as int, old(walker).key())"), C("wf", WF_ALL)])

match_is_same = Fn(FM, "is_same", impl="InstructionMatch", slot="asm", ret="res", key="InstructionMatch::is_same", props=["C07", "C01"],
    ensures=[C("same_rule_and_arguments_alike", "res == same_match(*self, *other)", ["C07", "C01"])],
    decreases="*self, 1int",
    rewrites=[Rewrite(r"self\.args\s*\.iter\(\)\s*\.zip\(&other\.args\)\s*\.all\(" + CL2 + r"\)", r"verif_zip_all(&self.args, &other.args, \1)", regex=True, rule="R29", why=WHY29)],
    closures={1: ("|verif_p: (&InstructionArgument, &InstructionArgument)| -> (r: bool)\n            requires exists|i: int| 0 <= i < self.args@.len() && *verif_p.0 == #[trigger] self.args@[i]\n            ensures r == same_arg(*verif_p.0, *verif_p.1)\n       ",
                  "let (a, b) = verif_p;   // R4: the closure's tuple pattern `|(a, b)|` (unsupported in closure parameters) becomes a variable destructured first thing in the body\n")},
)
arg_is_same = Fn(FM, "is_same", impl="InstructionArgument", slot="asm", ret="res", key="InstructionArgument::is_same", props=["C07", "C01"],
    ensures=[C("same_span_and_kind", "res == same_arg(*self, *other)", ["C07", "C01"])],
    decreases="*self, 0int",
)

exact_count = Fn(FM, "get_recursive_exact_part_count", slot="asm", ret="res", key="matcher::get_recursive_exact_part_count", props=["C07", "C03"],
    requires=[C("match_refers_to_defined_rules", "match_wf(defs, *instr_match)", ["C03"]),
              C("count_fits_a_machine_word", "total_exact(defs, *instr_match) <= usize::MAX", ["C03"])],
    ensures=[C("literal_parts_nested_included", "res == total_exact(defs, *instr_match)", ["C07"])],
    decreases="*instr_match",
    for_to_while=[1],
    loops={1: Loop(invariant=[
        C("cursor", "verif_vec_1@ == instr_match.args@ && verif_next_1 <= verif_vec_1@.len()"),
        C("wf", "match_wf(defs, *instr_match) && total_exact(defs, *instr_match) <= usize::MAX"),
        C("count_so_far", "count == nested_exact(defs, *instr_match, verif_next_1 as int)"),
    ], decreases="verif_vec_1@.len() - verif_next_1",
       body_start=" proof { lemma_nested_exact_mono(defs, *instr_match, verif_next_1 as int + 1, instr_match.args@.len() as int); lemma_nested_nonneg(defs, *instr_match, verif_next_1 as int); assert(arg_wf(defs, instr_match.args@[verif_next_1 as int])); }")},
)

C0 = "all_candidates(defs, opts.optimize_instruction_matching, %s)" % KEY
D0 = "firsts_from(%s, 0)" % C0
M0 = "counted(defs, %s)" % D0
match_instr = Fn(FM, "match_instr", slot="asm", ret="res", key="matcher::match_instr", props=["C07", "C01", "C03"],
    requires=[C("the_instruction_has_a_source_location", "span.is_located()", ["C03"]),
              C("ruledefs_defined", "forall|d: int| 0 <= d < defs.ruledefs.defs@.len() ==> #[trigger] defs.ruledefs.defs@[d] is Some", ["C03"]),
              C("counts_fit_a_machine_word", "forall|m: InstructionMatch| match_wf(defs, m) ==> #[trigger] total_exact(defs, m) <= usize::MAX", ["C03"])],
    ensures=[
        C("no_candidates_no_matches", "%s.len() == 0 ==> res@.len() == 0" % C0, ["C07"]),
        C("some_candidate_some_match", "%s.len() > 0 ==> res@.len() > 0" % C0, ["C07"]),
        C("the_first_occurrences_with_the_most_literal_parts", "res@.len() > 0 ==> res@ == keep_count(%s, %s.len() as int, res@[0].exact_part_count as int)" % (M0, M0), ["C07", "C01"]),
        C("literal_spelling_takes_precedence", "forall|k: int, i: int| 0 <= k < res@.len() && 0 <= i < %s.len() ==> total_exact(defs, #[trigger] %s[i]) <= (#[trigger] res@[k]).exact_part_count" % (D0, D0), ["C07"]),
    ],
    rewrites=[
        Rewrite(r"working_matches\.extend\((\w+)\);", r"verif_extend(&mut working_matches, \1);", regex=True, count=2, rule="R16", why="`Vec::extend(Vec)` -> prelude wrapper (assumed: appended in order)"),
        Rewrite(r"working_matches\s*\.into_iter\(\)\s*\.map\(" + CL + r"\)\s*\.collect::<Vec<_>>\(\)", r"verif_map_collect(working_matches, \1)", regex=True, rule="R29", why=WHY29),
        Rewrite(r"duplicate \|= (matches\[i\]\.is_same\(&matches\[j\]\));", r"{ let verif_rhs = \1; duplicate = duplicate || verif_rhs; }", regex=True, rule="R34",
                why="`A |= B;` on booleans (Verus has no `|` on bool) -> `{ let verif_rhs = B; A = A || verif_rhs; }` (B is still evaluated every time)"),
        Rewrite(r"matches\s*\.iter\(\)\s*\.max_by_key\(" + CL + r"\)", r"verif_max_by_count(&matches, \1)", regex=True, rule="R29", why=WHY29),
        Rewrite(r"matches\.retain\(" + CL + r"\);", r"verif_retain_count(&mut matches, \1, Ghost(max_exact_count));", regex=True, rule="R29", why=WHY29 + " (the ghost argument names the count the closure compares with)"),
    ],
    closures={1: ("|m: WorkingMatch<'_>| -> (r: InstructionMatch)\n            ensures r == m.0\n       ", ""),
              2: ("|m: &&InstructionMatch| -> (r: usize)\n            ensures r == m.exact_part_count\n       ", ""),
              3: ("|c: &InstructionMatch| -> (r: bool)\n            ensures r == (c.exact_part_count == max_exact_count)\n       ", "")},
    for_to_while=[1, 2, 4],
    inserts=[
        Insert("    let mut working_matches", "    let ghost mut cands: Seq<InstructionMatch> = Seq::empty();\n    let ghost mut deduped: Seq<InstructionMatch> = Seq::empty();\n", where="before"),
        Insert("verif_extend(&mut working_matches, ruledef_matches);", "let ghost verif_wm0 = working_matches@; let ghost verif_rm = ruledef_matches@;\n        ", where="before", occ=1),
        Insert("verif_extend(&mut working_matches, ruledef_matches);", "\n        proof { lemma_firsts_append(verif_wm0, verif_rm); }", where="after", occ=1),
        Insert("verif_extend(&mut working_matches, ruledef_matches);", "let ghost verif_wm0 = working_matches@; let ghost verif_rm = ruledef_matches@;\n            ", where="before", occ=2),
        Insert("verif_extend(&mut working_matches, ruledef_matches);", "\n            proof { lemma_firsts_append(verif_wm0, verif_rm); }", where="after", occ=2),
        Insert("    let max_exact_count =", "    let ghost m_all = matches@;\n    proof { assert(m_all =~= counted(defs, deduped)); }\n", where="before"),
        Insert("\n    matches\n}", """
    proof {
        let mx = max_exact_count as int;
        assert(exists|i: int| 0 <= i < m_all.len() && (#[trigger] m_all[i]).exact_part_count == mx);
        let i0 = choose|i: int| 0 <= i < m_all.len() && (#[trigger] m_all[i]).exact_part_count == mx;
        lemma_keep_count_members(m_all, m_all.len() as int, mx);
        assert(matches@.contains(m_all[i0]));
        assert(matches@[0].exact_part_count == mx);
        assert forall|k: int, i: int| 0 <= k < matches@.len() && 0 <= i < deduped.len() implies total_exact(defs, #[trigger] deduped[i]) <= (#[trigger] matches@[k]).exact_part_count by {
            lemma_total_nonneg(defs, deduped[i]);
            assert(m_all[i] == with_count(defs, deduped[i]));
        }
    }
""", where="before"),
    ],
    loops={
        1: Loop(invariant=[
            C("scan", "verif_hi_1 == defs.ruledefs.defs@.len() && verif_next_1 <= verif_hi_1 && walker.key() == %s" % KEY),
            C("candidates_so_far", "first_components(working_matches@) == scan_candidates(defs, verif_next_1 as int, %s)" % KEY),
            C("wf", "forall|i: int| 0 <= i < working_matches@.len() ==> match_wf(defs, (#[trigger] working_matches@[i]).0)"),
            C("ruledefs_defined", "forall|d: int| 0 <= d < defs.ruledefs.defs@.len() ==> #[trigger] defs.ruledefs.defs@[d] is Some"),
        ], decreases="verif_hi_1 - verif_next_1"),
        2: Loop(invariant=[
            C("wf", "forall|k: int| 0 <= k < matches@.len() ==> match_wf(defs, #[trigger] matches@[k])"),
            C("dedup", "verif_lo_2 == 0 && verif_next_2 <= cands.len() && matches@ == cands.subrange(0, verif_next_2 as int) + firsts_from(cands, verif_next_2 as int)"),
        ], decreases="verif_next_2",
           before="    proof { cands = matches@; }",
           body_end=" proof { assert(cands.subrange(0, i as int + 1) =~= cands.subrange(0, i as int).push(cands[i as int])); }"),
        3: Loop(invariant=[
            C("wf", "forall|k: int| 0 <= k < matches@.len() ==> match_wf(defs, #[trigger] matches@[k])"),
            C("inner", "i < cands.len() && matches@ == cands.subrange(0, i as int + 1) + firsts_from(cands, i as int + 1)"),
            C("duplicate_so_far", "duplicate == (exists|j2: int| 0 <= j2 < j && same_match(cands[i as int], #[trigger] cands[j2]))"),
        ]),
        4: Loop(invariant=[
            C("counting", "verif_next_4 <= matches@.len() && matches@.len() == deduped.len()"),
            C("counted_so_far", "forall|k: int| 0 <= k < verif_next_4 ==> #[trigger] matches@[k] == with_count(defs, deduped[k])"),
            C("rest_untouched", "forall|k: int| verif_next_4 <= k < matches@.len() ==> #[trigger] matches@[k] == deduped[k]"),
            C("wf", "forall|k: int| 0 <= k < deduped.len() ==> match_wf(defs, #[trigger] deduped[k])"),
            C("counts_fit", "forall|m: InstructionMatch| match_wf(defs, m) ==> #[trigger] total_exact(defs, m) <= usize::MAX"),
        ], decreases="matches@.len() - verif_next_4",
           before="    proof { deduped = matches@; assert(cands.subrange(0, 0) =~= Seq::<InstructionMatch>::empty()); assert(deduped =~= firsts_from(cands, 0)); }"),
    },
)

UNIT = Unit(
    "U-matchinstr", "u_matchinstr/skeleton.rs",
    items=itemref_items("util") + [
        Type(uc.FS, "struct", "Span", slot="diagn", derive="Clone, Copy"), span_eq, location,
        Type(FM, "type", "WorkingMatches", slot="asm"), Type(FM, "type", "WorkingMatch", slot="asm"), Type(FM, "type", "InstructionMatches", slot="asm"),
        Type(FM, "struct", "InstructionMatch", slot="asm"), Type(FM, "enum", "InstructionMatchResolution", slot="asm"),
        Type(FM, "struct", "InstructionArgument", slot="asm"), Type(FM, "enum", "InstructionArgumentKind", slot="asm"),
        Type(FR, "struct", "Rule", slot="asm"), Type(FR, "type", "RulePattern", slot="asm"), Type(FR, "enum", "RulePatternPart", slot="asm"),
        Type(FR, "struct", "RuleParameter", slot="asm"), Type(FR, "enum", "RuleParameterType", slot="asm", derive="Clone, Copy"),
        Type(FR, "struct", "Ruledef", slot="asm"), Type("src/asm/defs/mod.rs", "struct", "DefList", slot="asm"),
        Type(FA, "struct", "AssemblyOptions", slot="asm"), Type(FA, "struct", "DriverSymbolDef", slot="asm"),
    ] + [f for f in deflist_fns("verify", "asm") if f.name == "get"] + [
        Type(FMAP, "const", "MAX_PREFIX_SIZE", slot="asm"), Type(FMAP, "struct", "RuledefMapEntry", slot="asm", derive="Clone, Copy"), parse_prefix, query_prefixed, get_rule, begin_match, with_map, with_ruledef, Type(FT, "struct", "Token", slot="syntax", derive="drop"), Type(FT, "enum", "TokenKind", slot="syntax", derive="Clone, Copy"), w_char, w_over, w_next_token, w_next_char, with_expr, with_nested, with_rule, find_la, match_is_same, arg_is_same, exact_count, match_instr,
    ],
    serves=["C07", "C01", "C03"],
    description="asm::matcher::match_instr: duplicate removal (is_same) and the literal-part precedence among the candidates of an instruction line",
)
