//@@INCLUDE _shared/header.rs
//@@INCLUDE _shared/ispec.rs
//@@INCLUDE _shared/num_bigint.rs
//@@INCLUDE _shared/std_gaps.rs
pub mod diagn {
    use vstd::prelude::*;
    use crate::*;
    verus! {
    /// Opaque stand-in for diagn::Report. Ghost observations:
    ///   msgs()    = messages.len()  (what has_errors()/assemble()'s assert look at)
    ///   errors()  = number of top-level messages of kind Error (what stop_at_errors looks at)
    ///   parents() = parents.len()   (pop_parent unwraps it)
    #[verifier::external_body]
    pub struct Report { _p: u8 }
    impl Report {
        pub uninterp spec fn msgs(&self) -> nat;
        pub uninterp spec fn errors(&self) -> nat;
        pub uninterp spec fn parents(&self) -> nat;
    }
    #[verifier::external_body]
    pub struct Message { _p: u8 }
    /// the message is of kind Error (defined over the real field in U-report)
    pub uninterp spec fn msg_is_error(m: Message) -> bool;
    impl Clone for Message {
        #[verifier::external_body]
        fn clone(&self) -> (r: Message) ensures r == *self { unimplemented!() }
    }
    #[verifier::external_body]
    #[derive(Clone, Copy)]
    pub struct Span { _p: u8 }
    //@@ITEMS diagn
    }
}
pub mod util {
    use vstd::prelude::*;
    use vstd::std_specs::convert::*;
    use vstd::std_specs::ops::*;
    use vstd::std_specs::cmp::*;
    use crate::*;
    use crate::ispec::*;
    use vstd::arithmetic::power2::pow2;
    verus! {
    broadcast use {crate::num_bigint::axiom_into_refl_obeys, crate::num_bigint::axiom_into_refl, crate::std_gaps::axiom_ordering_eq_obeys, crate::std_gaps::axiom_ordering_eq};
    pub trait FileServer {}
    pub type FileServerHandle = usize;
    #[verifier::external_body]
    pub struct SymbolContext { _p: u8 }
    //@@INCLUDE _shared/util_bigint_spec_min.rs
    //@@INCLUDE _shared/util_bigint_cmp.rs
    //@@ITEMS util
    }
}
pub mod expr {
    use vstd::prelude::*;
    use vstd::std_specs::convert::*;
    use vstd::std_specs::cmp::*;
    use crate::*;
    use crate::ispec::*;
    verus! {
    #[verifier::external_body]
    pub struct Expr { _p: u8 }
    #[verifier::external_body]
    pub struct EvalContext { _p: u8 }
    impl Expr {
        #[verifier::external_body]
        pub fn span(&self) -> diagn::Span { unimplemented!() }
    }
    impl EvalContext {
        #[verifier::external_body]
        pub fn new() -> EvalContext { unimplemented!() }
    }
    //@@INCLUDE _shared/value_eq.rs
    //@@ITEMS expr
    }
}
pub mod asm {
    use vstd::prelude::*;
    use crate::*;
    pub use resolver::{ResolutionState, ResolveIterator, ResolverContext, ResolverNode, BankData};
    #[allow(unused_imports)]
    use resolver::*;
    verus! {
    #[verifier::external_body]
    pub struct Ruledef { _p: u8 }
    #[verifier::external_body]
    pub struct RuledefMap { _p: u8 }
    #[verifier::external_body]
    pub struct Function { _p: u8 }
    #[verifier::external_body]
    pub struct InstructionMatch { _p: u8 }
    pub type InstructionMatches = Vec<InstructionMatch>;
    #[verifier::external_body]
    pub struct ItemDecls { _p: u8 }
    //@@ITEMS asm
    }
    pub mod resolver {
        use vstd::prelude::*;
        use vstd::std_specs::convert::*;
        use crate::*;
        use crate::ispec::*;
        use vstd::arithmetic::power2::pow2;
        verus! {
        broadcast use {crate::num_bigint::axiom_into_refl_obeys, crate::num_bigint::axiom_into_refl, crate::util::axiom_bigint_into_refl_obeys, crate::util::axiom_bigint_into_refl, crate::std_gaps::axiom_vec_len_fits};
        /// what asm::resolver::eval computes for an expression (ASSUMED: a function of the file-server state, the
        /// options, the tables, the resolver context and the expression; evaluated with a fresh EvalContext)
        pub uninterp spec fn eval_of(fs: &dyn util::FileServer, opts: &asm::AssemblyOptions, decls: &asm::ItemDecls, defs: &asm::ItemDefs, ctx: &asm::ResolverContext, e: &expr::Expr) -> expr::Value;
        //@@INCLUDE u_resolver/spec.rs
        //@@INCLUDE u_resolver/ifs_spec.rs
        //@@ITEMS resolver
        }
    }
}
