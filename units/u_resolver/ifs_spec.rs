        // ---- conditional assembly (C16): one pass of resolve_ifs
        /// the value eval_simple computes for an expression from constants alone (a function of its inputs; ASSUMED)
        pub uninterp spec fn simple_value(decls: &asm::ItemDecls, defs: &asm::ItemDefs, e: &expr::Expr) -> expr::Value;
        /// what one node contributes after the pass: an `#if` whose condition is decided contributes exactly the
        /// nodes of the selected arm (the true arm, else the else/elif arm, else nothing); everything else is kept
        pub open spec fn if_replacement(decls: &asm::ItemDecls, defs: &asm::ItemDefs, node: asm::AstAny) -> Seq<asm::AstAny> {
            match node {
                asm::AstAny::DirectiveIf(n) => match simple_value(decls, defs, &n.condition_expr) {
                    expr::Value::Bool(c) => if c { n.true_arm.nodes@ } else { match n.false_arm { Some(f) => f.nodes@, None => Seq::empty() } },
                    _ => seq![node],
                },
                _ => seq![node],
            }
        }
        pub open spec fn if_decided(decls: &asm::ItemDecls, defs: &asm::ItemDefs, node: asm::AstAny) -> bool {
            match node { asm::AstAny::DirectiveIf(n) => simple_value(decls, defs, &n.condition_expr) is Bool, _ => false }
        }
        pub open spec fn expand_from(decls: &asm::ItemDecls, defs: &asm::ItemDefs, nodes: Seq<asm::AstAny>, k: int) -> Seq<asm::AstAny>
            decreases nodes.len() - k
        {
            if k < 0 || k >= nodes.len() { Seq::empty() } else { if_replacement(decls, defs, nodes[k]) + expand_from(decls, defs, nodes, k + 1) }
        }
        pub open spec fn decided_from(decls: &asm::ItemDecls, defs: &asm::ItemDefs, nodes: Seq<asm::AstAny>, k: int) -> int
            decreases nodes.len() - k
        {
            if k < 0 || k >= nodes.len() { 0 } else { (if if_decided(decls, defs, nodes[k]) { 1int } else { 0int }) + decided_from(decls, defs, nodes, k + 1) }
        }
        pub proof fn lemma_decided_bound(decls: &asm::ItemDecls, defs: &asm::ItemDefs, nodes: Seq<asm::AstAny>, k: int)
            requires 0 <= k <= nodes.len()
            ensures 0 <= decided_from(decls, defs, nodes, k) <= nodes.len() - k
            decreases nodes.len() - k
        {
            if k < nodes.len() { lemma_decided_bound(decls, defs, nodes, k + 1); }
        }
        /// R27 helper: `VEC.splice(n..n, ITEMS);` (insert ITEMS at n; ASSUMED contract of Vec::splice with an empty range)
        #[verifier::external_body]
        pub fn verif_splice_in(v: &mut Vec<asm::AstAny>, n: usize, items: Vec<asm::AstAny>)
            requires n <= old(v)@.len()
            ensures final(v)@ == old(v)@.subrange(0, n as int) + items@ + old(v)@.subrange(n as int, old(v)@.len() as int)
        { unimplemented!() }
