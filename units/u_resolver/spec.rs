        // ---- spec side for asm::resolver (U-resolver)

        impl asm::ItemDefs {
            /// ghost event marker (C02): "the definitions were last touched by a pass in which guessing was
            /// forbidden and which answered Resolved".  Its only producer is resolve_once's clause [confirms];
            /// every other `&mut ItemDefs` callee leaves it unspecified (havoc).
            pub uninterp spec fn confirmed(&self) -> bool;
        }

        /// data invariant of the bank table, established by asm::defs::bankdef::define (proved there):
        /// every defined bank has a positive address unit
        pub open spec fn banks_wf(defs: &asm::ItemDefs) -> bool {
            forall|k: int| 0 <= k < defs.bankdefs.defs@.len() && #[trigger] defs.bankdefs.defs@[k] is Some ==> defs.bankdefs.defs@[k]->0.addr_unit > 0
        }

        /// the bank a context points into exists and is defined
        pub open spec fn bank_ok(defs: &asm::ItemDefs, bank_ref: util::ItemRef<asm::Bankdef>) -> bool {
            bank_ref.0 < defs.bankdefs.defs@.len() && defs.bankdefs.defs@[bank_ref.0 as int] is Some
            && defs.bankdefs.defs@[bank_ref.0 as int]->0.addr_unit > 0   // from banks_wf, proved at bankdef::define
        }
        pub open spec fn bank_of(defs: &asm::ItemDefs, bank_ref: util::ItemRef<asm::Bankdef>) -> asm::Bankdef {
            defs.bankdefs.defs@[bank_ref.0 as int]->0
        }

        /// C06/C01 property text: address of bit position `pos` in a bank
        pub open spec fn address_of(bank: asm::Bankdef, pos: int) -> int {
            bank.addr_start.val() + pos / (bank.addr_unit as int)
        }

        /// least d >= 0 with (a + d) divisible by k  (k > 0)
        pub open spec fn until_aligned(a: int, k: int) -> int {
            if a % k == 0 { 0 } else { k - a % k }
        }

        pub proof fn lemma_until_aligned_lands(a: int, k: int)
            requires k > 0
            ensures (a + until_aligned(a, k)) % k == 0
        {
            vstd::arithmetic::div_mod::lemma_fundamental_div_mod(a, k);
            if a % k != 0 {
                assert(a + (k - a % k) == k * (a / k + 1)) by (nonlinear_arith) requires a == k * (a / k) + a % k;
                vstd::arithmetic::div_mod::lemma_mod_multiples_basic(a / k + 1, k);
                assert(k * (a / k + 1) == (a / k + 1) * k) by (nonlinear_arith);
            }
        }

        pub open spec fn defined<T>(l: &asm::DefList<T>, r: Option<util::ItemRef<T>>) -> bool {
            r is Some && (r->0).0 < l.defs@.len() && l.defs@[(r->0).0 as int] is Some
        }

        /// every AST node that the address bookkeeping looks at refers to a defined item
        pub open spec fn node_ok(node: asm::AstAny, defs: &asm::ItemDefs) -> bool {
            match node {
                asm::AstAny::Instruction(n) => defined(&defs.instructions, n.item_ref),
                asm::AstAny::DirectiveData(n) => forall|k: int| 0 <= k < n.item_refs@.len() ==> defined(&defs.data_elems, Some(#[trigger] n.item_refs@[k])),
                asm::AstAny::DirectiveRes(n) => defined(&defs.res_directives, n.item_ref),
                asm::AstAny::DirectiveAlign(n) => defined(&defs.align_directives, n.item_ref),
                asm::AstAny::DirectiveAddr(n) => defined(&defs.addr_directives, n.item_ref),
                _ => true,
            }
        }

        pub open spec fn size_or_zero(b: util::BigInt) -> int {
            match b.size { Some(s) => s as int, None => 0 }
        }

        pub proof fn lemma_trem_nonneg(a: int, b: int)
            requires a >= 0, b > 0
            ensures num_bigint::trem(a, b) == a % b
        {
            vstd::arithmetic::div_mod::lemma_fundamental_div_mod(a, b);
        }

        pub proof fn lemma_trem_bound(a: int, b: int)
            requires b > 0
            ensures -b < num_bigint::trem(a, b) < b, a >= 0 ==> num_bigint::trem(a, b) >= 0, a <= 0 ==> num_bigint::trem(a, b) <= 0
        {
            let x = abs(a) as int;
            vstd::arithmetic::div_mod::lemma_fundamental_div_mod(x, b);
            vstd::arithmetic::div_mod::lemma_mod_division_less_than_divisor(x, b);
            assert(abs(b) as int == b);
            if a >= 0 {
                assert(num_bigint::tdiv(a, b) == x / b);
            } else {
                assert(num_bigint::tdiv(a, b) == -(x / b));
                assert(b * (-(x / b)) == -(b * (x / b))) by (nonlinear_arith);
            }
        }

        /// ghost observations for asm blocks (C09/C02): value and stability of the most recent inner pass that
        /// ran with guessing forbidden (recorded by eval_asm::resolve_once's stub contract)
        pub uninterp spec fn asm_strict_value(r: &diagn::Report) -> expr::Value;
        pub uninterp spec fn asm_strict_stable(r: &diagn::Report) -> bool;
        /// the bank position the strict pass laid the block's instructions out from (ghost record, like asm_strict_value)
        pub uninterp spec fn asm_strict_start(r: &diagn::Report) -> usize;

        /// C04, data directives: the value v fits the directive width n and `stored` holds exactly its n low bits
        pub open spec fn data_fits(v: util::BigInt, n: usize, stored: util::BigInt) -> bool {
            v.size_or_min_size_spec() <= n
            && (v.fits_size() ==> forall|j: nat| #[trigger] bit_of(stored.val(), j) == (j < n && bit_of(v.val(), j)))
        }

        /// ghost observation (C02): the encoding (value and size) that the most recent resolve_encoding call chose
        /// as the smallest resolved one (recorded by that function's stub contract)
        pub uninterp spec fn chosen_encoding(r: &diagn::Report) -> util::BigInt;

        /// static well-formedness of the AST with respect to the definition tables (established by the
        /// declaration/definition phases, assumed here): every node refers to defined items, bank directives
        /// refer to existing banks
        pub open spec fn ast_ok(ast: &asm::AstTopLevel, decls: &asm::ItemDecls, defs: &asm::ItemDefs, nbanks: int) -> bool {
            forall|k: int| 0 <= k < ast.nodes@.len() ==> #[trigger] node_ok(ast.nodes@[k], defs)
                && (match ast.nodes@[k] {
                    asm::AstAny::DirectiveBank(n) => n.item_ref is Some && (n.item_ref->0).0 < nbanks && bank_ok(defs, n.item_ref->0),
                    asm::AstAny::DirectiveBankdef(n) => n.item_ref is Some && (n.item_ref->0).0 < nbanks && bank_ok(defs, n.item_ref->0),
                    asm::AstAny::Symbol(n) => defined(&defs.symbols, n.item_ref),
                    asm::AstAny::DirectiveData(n) => n.item_refs@.len() >= 1 && n.elems@.len() == n.item_refs@.len(),
                    _ => true,
                })
        }
