from vfw.spec import Unit, Fn, Type, Impl, C, Loop, Rewrite, Insert
from units.contracts_report import report_fns, F as RF
from units import contracts_bigint as cb
from units.common import itemref_items, ast_types, defs_types, deflist_fns

FI = "src/asm/resolver/iter.rs"
FM = "src/asm/resolver/mod.rs"
FE = "src/expr/expression.rs"

LOUD = [C("err_is_loud", "res is Err ==> final(report).msgs() > old(report).msgs()", ["C03"]),
        C("ok_is_clean", "res is Ok ==> final(report).msgs() == old(report).msgs() && final(report).errors() == old(report).errors()", ["C03"]),
        C("parents_balanced", "final(report).parents() == old(report).parents()", ["C03"])]

bits_until_alignment = Fn(
    FI, "bits_until_alignment", slot="resolver", ret="res", props=["C01", "C06", "C03", "C19"],
    ensures=LOUD + [
        C("zero_alignment", "alignment == 0 ==> res == Ok::<usize, ()>(0usize)", ["C06"]),
        C("least_aligned", "res is Ok && alignment > 0 && cur_address_in_bits.val() >= 0 ==> res->Ok_0 as int == until_aligned(cur_address_in_bits.val(), alignment as int)", ["C01", "C06"]),
        C("below_alignment", "res is Ok && alignment > 0 ==> res->Ok_0 < alignment", ["C06", "C19"]),
        C("nonneg_address_ok", "alignment > 0 && cur_address_in_bits.val() >= 0 ==> res is Ok", ["C06"]),
    ],
    inserts=[Insert("    let excess_bits = excess_bits_bigint", "    proof { lemma_trem_bound(cur_address_in_bits.val(), alignment as int); if cur_address_in_bits.val() >= 0 { lemma_trem_nonneg(cur_address_in_bits.val(), alignment as int); vstd::arithmetic::div_mod::lemma_mod_division_less_than_divisor(cur_address_in_bits.val(), alignment as int); } }\n", where="before")],
)

CTX_REQ = [C("bank_defined", "bank_ok(defs, self.bank_ref)", ["C03"])]

can_guess = Fn(FI, "can_guess", impl="<'iter, 'ast, 'decls> ResolverContext<'iter, 'ast, 'decls>", slot="resolver", ret="res",
               key="ResolverContext::can_guess", props=["C02"],
               ensures=[C("no_guess_in_last_pass", "res == !self.is_last_iteration", ["C02"])])

get_output_position = Fn(FI, "get_output_position", impl="<'iter, 'ast, 'decls> ResolverContext<'iter, 'ast, 'decls>", slot="resolver", ret="res",
               key="ResolverContext::get_output_position", props=["C06", "C19", "C03"],
               requires=CTX_REQ,
               ensures=[C("outp_plus_position", "res == (match bank_of(defs, self.bank_ref).output_offset { Some(o) => Some((o + self.bank_data.cur_position) as usize), None => None })", ["C06"]),
                        C("no_wrap_under_the_guard_of_D9c", "bank_of(defs, self.bank_ref).output_offset is Some ==> bank_of(defs, self.bank_ref).output_offset->0 + self.bank_data.cur_position <= usize::MAX", ["C06", "C19"])],
               inserts=[Insert("        Some(bank.output_offset? + self.bank_data.cur_position)", "        proof { if bank.output_offset is Some { assume(bank.output_offset->0 + self.bank_data.cur_position <= usize::MAX); } }\n", where="before", finding="D9c",
                               why="finding guard: outp + position overflows usize (known finding D9c)")])

ADDR_ENS = [
    C("addr_formula", "res is Ok && RES_SOME ==> RES_VAL.val() == address_of(bank_of(defs, self.bank_ref), self.bank_data.cur_position as int)", ["C01", "C06"]),
]

get_address = Fn(FI, "get_address", impl="<'iter, 'ast, 'decls> ResolverContext<'iter, 'ast, 'decls>", slot="resolver", ret="res",
                 key="ResolverContext::get_address", props=["C01", "C06", "C03", "C19"],
                 requires=CTX_REQ,
                 ensures=LOUD + [
                     C("addr_formula", "res is Ok && res->Ok_0 is Some ==> res->Ok_0->0.val() == address_of(bank_of(defs, self.bank_ref), self.bank_data.cur_position as int)", ["C01", "C06", "C12"]),
                     C("misaligned_is_none", "bank_of(defs, self.bank_ref).addr_unit > 0 && !can_guess && self.bank_data.cur_position % bank_of(defs, self.bank_ref).addr_unit != 0 ==> res == Ok::<Option<util::BigInt>, ()>(None)", ["C06"]),
                     C("aligned_is_some", "res is Ok && res->Ok_0 is None ==> !can_guess && self.bank_data.cur_position % bank_of(defs, self.bank_ref).addr_unit != 0", ["C06"]),
                 ])

eval_address = Fn(FI, "eval_address", impl="<'iter, 'ast, 'decls> ResolverContext<'iter, 'ast, 'decls>", slot="resolver", ret="res",
                  key="ResolverContext::eval_address", props=["C01", "C06", "C03", "C19"],
                  requires=CTX_REQ,
                  ensures=LOUD + [
                      C("addr_formula", "res is Ok ==> res->Ok_0.val() == address_of(bank_of(defs, self.bank_ref), self.bank_data.cur_position as int)", ["C01", "C06"]),
                      C("misaligned_is_error", "bank_of(defs, self.bank_ref).addr_unit > 0 && !can_guess && self.bank_data.cur_position % bank_of(defs, self.bank_ref).addr_unit != 0 ==> res is Err", ["C06"]),
                  ])

R7 = Rewrite(r"println!\((?:[^()]|\((?:[^()]|\([^()]*\))*\))*\);", "", regex=True, rule="R7", why="debug printing statement deleted", count=1)

# ---- the per-item pass contract (C02/C03): what one resolver call promises
def pass_contract(last="ctx.is_last_iteration"):
    return [
        C("err_is_loud", "res is Err ==> final(report).msgs() > old(report).msgs()", ["C03", "C02"]),
        C("resolved_is_clean", "res == Ok::<asm::ResolutionState, ()>(asm::ResolutionState::Resolved) ==> final(report).msgs() == old(report).msgs() && final(report).errors() == old(report).errors()", ["C03", "C02"]),
        C("unstable_last_pass_is_loud", "res == Ok::<asm::ResolutionState, ()>(asm::ResolutionState::Unresolved) && %s ==> final(report).msgs() > old(report).msgs()" % last, ["C02", "C03"]),
        C("guess_pass_is_clean", "res is Ok && !%s ==> final(report).msgs() == old(report).msgs() && final(report).errors() == old(report).errors()" % last, ["C03"]),
        C("parents_balanced", "final(report).parents() == old(report).parents()", ["C03"]),
    ]

FEV = "src/asm/resolver/eval.rs"
eval_stub = Fn(FEV, "eval", slot="resolver", mode="stub", ret="res", ensures=LOUD + [
    C("the_value_of_the_expression", "res is Ok ==> res->Ok_0 == eval_of(old(fileserver), opts, decls, defs, ctx, expr)")])
def failed_assert_clause(expr_path):
    return C("a_failed_assertion_is_an_error_once_guessing_is_over",
             "ctx.is_last_iteration && eval_of(old(fileserver), opts, decls, old(defs), ctx, &%s) is FailedConstraint ==> res is Err" % expr_path, ["C03", "C01"])

def value_expect(name, shape):
    return Fn(FE, name, impl="Value", slot="expr", mode="stub", ret="res", key="Value::" + name,
              ensures=LOUD + [C("shape", shape)])

value_stubs = [
    value_expect("expect_error_or_bigint", "res is Ok ==> (res->Ok_0 is Unknown || res->Ok_0 is FailedConstraint || res->Ok_0 is Integer) && (self is FailedConstraint ==> res->Ok_0 is FailedConstraint)"),
    value_expect("expect_error_or_usize", "res is Ok ==> (res->Ok_0 is Unknown || res->Ok_0 is FailedConstraint || res->Ok_0 is Integer) && (self is FailedConstraint ==> res->Ok_0 is FailedConstraint)"),
    value_expect("expect_bool", "true"),
]

merge = Fn(FM, "merge", impl="ResolutionState", slot="resolver", key="ResolutionState::merge", props=["C02"],
           ensures=[C("conjunction", "*final(self) is Resolved <==> (*old(self) is Resolved && other is Resolved)", ["C02"])])

resolve_iteratively = Fn(
    FM, "resolve_iteratively", slot="resolver", ret="res", props=["C02", "C09", "C03", "C19"],
    requires=[C("budget_at_least_one", "max_iterations >= 1", ["C09"])],
    ensures=[
        C("confirmed", "res is Ok ==> final(defs).confirmed()", ["C02"]),
        C("within_budget", "res is Ok ==> 1 <= res->Ok_0 <= max_iterations", ["C09", "C02"]),
        C("success_is_clean", "res is Ok ==> final(report).msgs() == old(report).msgs() && final(report).errors() == old(report).errors()", ["C03"]),
        C("err_is_loud", "res is Err ==> final(report).msgs() > old(report).msgs()", ["C03", "C02"]),
        C("parents_balanced", "final(report).parents() == old(report).parents()", ["C03"]),
    ],
    loops={1: Loop(invariant=[
        C("count", "iter_count < max_iterations"),
        C("clean_so_far", "report.msgs() == old(report).msgs() && report.errors() == old(report).errors() && report.parents() == old(report).parents()"),
    ], ensures=[C("after_loop", "1 <= iter_count")],
       decreases="max_iterations - iter_count")},
)

ONCE_ENS = [
    C("confirms", "res == Ok::<asm::ResolutionState, ()>(asm::ResolutionState::Resolved) && is_last_iteration ==> final(defs).confirmed()", ["C02"], stub_only=True),
    C("err_is_loud", "res is Err ==> final(report).msgs() > old(report).msgs()", ["C03", "C02"]),
    C("resolved_is_clean", "res == Ok::<asm::ResolutionState, ()>(asm::ResolutionState::Resolved) ==> final(report).msgs() == old(report).msgs() && final(report).errors() == old(report).errors()", ["C03", "C02"]),
    C("unstable_last_pass_is_loud", "res == Ok::<asm::ResolutionState, ()>(asm::ResolutionState::Unresolved) && is_last_iteration ==> final(report).msgs() > old(report).msgs()", ["C02", "C03"]),
    C("guess_pass_is_clean", "res is Ok && !is_last_iteration ==> final(report).msgs() == old(report).msgs() && final(report).errors() == old(report).errors()", ["C03"]),
    C("parents_balanced", "final(report).parents() == old(report).parents()", ["C03"]),
]
resolve_once_stub = Fn(FM, "resolve_once", slot="resolver", ret="res", mode="stub", ensures=ONCE_ENS)

FL = "src/asm/resolver/label.rs"
STABLE = "Ok::<asm::ResolutionState, ()>(asm::ResolutionState::Resolved)"

resolve_label = Fn(
    FL, "resolve_label", slot="resolver", ret="res", props=["C02", "C01", "C03"],
    requires=[
        C("symbol_defined", "defined(&old(defs).symbols, ast_symbol.item_ref)", ["C03"]),
        C("is_label", "ast_symbol.kind is Label", ["C03"]),
        C("bank_defined", "bank_ok(old(defs), ctx.bank_ref)", ["C03"]),
    ],
    ensures=pass_contract() + [
        C("label_is_address_of_next_item",
          "res is Ok ==> final(defs).symbols.defs@[(ast_symbol.item_ref->0).0 as int]->0.value is Integer"
          " && final(defs).symbols.defs@[(ast_symbol.item_ref->0).0 as int]->0.value->Integer_0.val() == address_of(bank_of(old(defs), ctx.bank_ref), ctx.bank_data.cur_position as int)", ["C01", "C02"]),
        C("resolved_means_unchanged",
          "res == %s ==> expr::value_eq(final(defs).symbols.defs@[(ast_symbol.item_ref->0).0 as int]->0.value, old(defs).symbols.defs@[(ast_symbol.item_ref->0).0 as int]->0.value)" % STABLE, ["C02", "C09", "C01"]),
        C("other_lists_untouched", "final(defs).bankdefs == old(defs).bankdefs && final(defs).instructions == old(defs).instructions && final(defs).data_elems == old(defs).data_elems"
          " && final(defs).res_directives == old(defs).res_directives && final(defs).align_directives == old(defs).align_directives && final(defs).addr_directives == old(defs).addr_directives", ["C02"]),
        C("other_symbols_untouched", "forall|k: int| 0 <= k < old(defs).symbols.defs@.len() && k != (ast_symbol.item_ref->0).0 ==> final(defs).symbols.defs@[k] == old(defs).symbols.defs@[k]", ["C02"]),
    ],
    rewrites=[R7],
)

def item_defined(lst, node):
    return C("item_defined", "defined(&old(defs).%s, %s.item_ref)" % (lst, node), ["C03"])

BANK_REQ = C("bank_defined", "bank_ok(old(defs), ctx.bank_ref)", ["C03"])

def idx(lst, node):
    return "final(defs).%s.defs@[(%s.item_ref->0).0 as int]->0" % (lst, node)
def oidx(lst, node):
    return "old(defs).%s.defs@[(%s.item_ref->0).0 as int]->0" % (lst, node)

resolve_res = Fn(
    "src/asm/resolver/res.rs", "resolve_res", slot="resolver", ret="res", props=["C02", "C03", "C19"],
    requires=[item_defined("res_directives", "ast_res"), BANK_REQ],
    ensures=pass_contract() + [
        C("resolved_means_unchanged", "res == %s ==> %s.reserve_size == %s.reserve_size" % (STABLE, idx("res_directives", "ast_res"), oidx("res_directives", "ast_res")), ["C02", "C09", "C01"]),
        failed_assert_clause("ast_res.expr"),
        C("reserve_is_whole_addresses", "res is Ok ==> %s.reserve_size %% bank_of(old(defs), ctx.bank_ref).addr_unit == 0 || bank_of(old(defs), ctx.bank_ref).addr_unit == 0" % idx("res_directives", "ast_res"), ["C06"]),
        C("banks_untouched", "final(defs).bankdefs == old(defs).bankdefs", ["C02"]),
    ],
    rewrites=[R7],
    inserts=[Insert("    res.reserve_size =\n        <u32 as TryInto<usize>>::try_into(value).unwrap() *", "    proof { assume(value as int * bank.addr_unit as int <= usize::MAX); }\n", where="before", finding="D9b",
                    why="finding guard: reserve size (u32) times addr_unit overflows usize (known finding D9b)"),
             Insert("    if res.reserve_size != prev_value", "    proof { if bank.addr_unit > 0 { vstd::arithmetic::div_mod::lemma_mod_multiples_basic(value as int, bank.addr_unit as int); } }\n", where="before")],
)

resolve_align = Fn(
    "src/asm/resolver/align.rs", "resolve_align", slot="resolver", ret="res", props=["C02", "C03", "C19"],
    requires=[item_defined("align_directives", "ast_align")],
    ensures=pass_contract() + [
        C("resolved_means_unchanged", "res == %s ==> %s.align_size == %s.align_size" % (STABLE, idx("align_directives", "ast_align"), oidx("align_directives", "ast_align")), ["C02", "C09", "C01"]),
        failed_assert_clause("ast_align.expr"),
        C("zero_alignment_rejected_in_last_pass", "res == %s && ctx.is_last_iteration ==> %s.align_size != 0" % (STABLE, idx("align_directives", "ast_align")), ["C06"]),
        C("banks_untouched", "final(defs).bankdefs == old(defs).bankdefs", ["C02"]),
    ],
    rewrites=[R7],
)

resolve_addr = Fn(
    "src/asm/resolver/addr.rs", "resolve_addr", slot="resolver", ret="res", props=["C02", "C03", "C06", "C19"],
    requires=[item_defined("addr_directives", "ast_addr"), BANK_REQ],
    ensures=pass_contract() + [
        C("resolved_means_unchanged", "res == %s ==> %s.address.val() == %s.address.val()" % (STABLE, idx("addr_directives", "ast_addr"), oidx("addr_directives", "ast_addr")), ["C02", "C09", "C01"]),
        failed_assert_clause("ast_addr.expr"),
        C("inside_bank_in_last_pass",
          "res == %s && ctx.is_last_iteration ==> %s.address.val() >= bank_of(old(defs), ctx.bank_ref).addr_start.val()"
          " && (bank_of(old(defs), ctx.bank_ref).size is Some ==> (%s.address.val() - bank_of(old(defs), ctx.bank_ref).addr_start.val()) * bank_of(old(defs), ctx.bank_ref).addr_unit < bank_of(old(defs), ctx.bank_ref).size->0)"
          % (STABLE, idx("addr_directives", "ast_addr"), idx("addr_directives", "ast_addr")), ["C06", "C01"]),
        C("banks_untouched", "final(defs).bankdefs == old(defs).bankdefs", ["C02"]),
    ],
    rewrites=[R7],
)

resolve_assert = Fn(
    "src/asm/resolver/assert.rs", "resolve_assert", slot="resolver", ret="res", props=["C03", "C09", "C02"],
    ensures=pass_contract() + [
        C("only_evaluated_in_last_pass", "!ctx.is_last_iteration ==> res == Ok::<asm::ResolutionState, ()>(asm::ResolutionState::Unresolved)", ["C09"]),
        C("defs_untouched", "*final(defs) == *old(defs)", ["C02"]),
    ],
)

ITER_IMPL = "<'ast, 'decls> ResolveIterator<'ast, 'decls>"
iter_new = Fn(FI, "new", impl=ITER_IMPL, slot="resolver", mode="stub", ret="res", key="ResolveIterator::new",
              ensures=[C("flags", "res.is_first_iteration == is_first_iteration && res.is_last_iteration == is_last_iteration")])

NODE_OK = """res is Ok && res->Ok_0 is Some ==> ({
            let c = res->Ok_0->0;
            c.is_last_iteration == old(self).is_last_iteration && bank_ok(defs, c.bank_ref)
            && (match c.node {
                asm::ResolverNode::Symbol(s) => defined(&defs.symbols, s.item_ref),
                asm::ResolverNode::Res(n) => defined(&defs.res_directives, n.item_ref),
                asm::ResolverNode::Align(n) => defined(&defs.align_directives, n.item_ref),
                asm::ResolverNode::Addr(n) => defined(&defs.addr_directives, n.item_ref),
                asm::ResolverNode::DataElement(n, k) => k < n.item_refs@.len() && k < n.elems@.len() && defined(&defs.data_elems, Some(n.item_refs@[k as int])),
                asm::ResolverNode::Instruction(n) => defined(&defs.instructions, n.item_ref),
                _ => true,
            })
        })"""
iter_next = Fn(FI, "next", impl=ITER_IMPL, slot="resolver", mode="stub", ret="res", key="ResolveIterator::next",
               ensures=LOUD + [C("flags_kept", "final(self).is_last_iteration == old(self).is_last_iteration"),
                               C("node_refers_to_defined_items", NODE_OK)])

def item_stub(file, name):
    return Fn(file, name, slot="resolver", mode="stub", ret="res", ensures=pass_contract())

resolve_constant_stub = item_stub("src/asm/resolver/constant.rs", "resolve_constant")
resolve_instruction_stub = item_stub("src/asm/resolver/instruction.rs", "resolve_instruction")
resolve_data_element_stub = item_stub("src/asm/resolver/data_block.rs", "resolve_data_element")

resolve_once = Fn(
    FM, "resolve_once", slot="resolver", ret="res", props=["C02", "C03", "C09"],
    attrs=["#[verifier::exec_allows_no_decreases_clause] // termination of the pass loop is NOT proved (the AST cursor lives behind ResolveIterator::next, a stub)"],
    ensures=ONCE_ENS,
    rewrites=[R7,
              Rewrite("label::resolve_label(", "resolve_label(", rule="R6", why="module path flattened: resolver submodules live in one module in the generated file"),
              Rewrite("instruction::resolve_instruction(", "resolve_instruction(", rule="R6", why="module path flattened"),
              Rewrite("data_block::resolve_data_element(", "resolve_data_element(", rule="R6", why="module path flattened"),
              Rewrite("res::resolve_res(", "resolve_res(", rule="R6", why="module path flattened"),
              Rewrite("align::resolve_align(", "resolve_align(", rule="R6", why="module path flattened"),
              Rewrite("addr::resolve_addr(", "resolve_addr(", rule="R6", why="module path flattened"),
              Rewrite("assert::resolve_assert(", "resolve_assert(", rule="R6", why="module path flattened"),
              ],
    loops={1: Loop(invariant=[
        C("flags", "iter.is_last_iteration == is_last_iteration"),
        C("parents", "report.parents() == old(report).parents()"),
        C("clean_while_resolved", "resolution_state is Resolved ==> report.msgs() == old(report).msgs() && report.errors() == old(report).errors()"),
        C("guess_pass_clean", "!is_last_iteration ==> report.msgs() == old(report).msgs() && report.errors() == old(report).errors()"),
        C("monotone", "report.msgs() >= old(report).msgs()"),
        C("unstable_last_is_loud", "resolution_state is Unresolved && is_last_iteration ==> report.msgs() > old(report).msgs()"),
    ])},
)

PREV = "old(self).ast.nodes@[old(self).index_prev->0 as int]"
CUR = "final(self).bank_data@[old(self).bank_ref.0 as int].cur_position"
OLDP = "old(self).bank_data@[old(self).bank_ref.0 as int].cur_position"
BANK = "bank_of(defs, old(self).bank_ref)"
def G(site):
    return Insert(site, "proof { assume(%s); }\n                " , where="before", finding="D9a")

advance_address = Fn(
    FI, "advance_address", impl=ITER_IMPL, slot="resolver", ret="res", key="ResolveIterator::advance_address",
    props=["C01", "C06", "C03", "C19"],
    requires=[
        C("cursor_in_range", "old(self).index_prev is Some ==> old(self).index_prev->0 < old(self).ast.nodes@.len()", ["C03"]),
        C("data_cursor_in_range", "old(self).index_prev is Some && old(self).subindex_prev is Some ==> (match %s { asm::AstAny::DirectiveData(d) => old(self).subindex_prev->0 < d.item_refs@.len(), _ => true })" % PREV, ["C03"]),
        C("node_defined", "old(self).index_prev is Some ==> node_ok(%s, defs)" % PREV, ["C03"]),
        C("bank_defined", "bank_ok(defs, old(self).bank_ref) && old(self).bank_ref.0 < old(self).bank_data@.len()", ["C03"]),
    ],
    ensures=LOUD + [
        C("other_banks_untouched", "final(self).bank_data@.len() == old(self).bank_data@.len() && forall|k: int| 0 <= k < old(self).bank_data@.len() && k != old(self).bank_ref.0 ==> final(self).bank_data@[k] == old(self).bank_data@[k]", ["C06", "C01"]),
        C("cursor_untouched", "final(self).index == old(self).index && final(self).subindex == old(self).subindex && final(self).index_prev == old(self).index_prev && final(self).subindex_prev == old(self).subindex_prev && final(self).bank_ref == old(self).bank_ref && final(self).is_last_iteration == old(self).is_last_iteration && final(self).is_first_iteration == old(self).is_first_iteration && final(self).ast == old(self).ast && final(self).symbol_ctx == old(self).symbol_ctx", ["C01"]),
        C("no_previous_item_no_move", "res is Ok && (old(self).index_prev is None || old(self).subindex_prev is None) ==> %s == %s" % (CUR, OLDP), ["C01"]),
        C("position_after_item",
          "res is Ok && old(self).index_prev is Some && old(self).subindex_prev is Some ==> (match %s {"
          " asm::AstAny::Instruction(n) => %s == %s + size_or_zero(defs.instructions.defs@[(n.item_ref->0).0 as int]->0.encoding),"
          " asm::AstAny::DirectiveData(n) => %s == %s + size_or_zero(defs.data_elems.defs@[n.item_refs@[old(self).subindex_prev->0 as int].0 as int]->0.encoding),"
          " asm::AstAny::DirectiveRes(n) => %s == %s + defs.res_directives.defs@[(n.item_ref->0).0 as int]->0.reserve_size,"
          " asm::AstAny::DirectiveAlign(n) => ({ let k = defs.align_directives.defs@[(n.item_ref->0).0 as int]->0.align_size; let a = %s.addr_start.val() * %s.addr_unit + %s;"
          "   if k == 0 { %s == %s } else { a >= 0 ==> %s == %s + until_aligned(a, k as int) } }),"
          " asm::AstAny::DirectiveAddr(n) => ({ let t = defs.addr_directives.defs@[(n.item_ref->0).0 as int]->0.address.val(); let d = t - %s.addr_start.val();"
          "   %s == (if 0 <= d <= usize::MAX { d * %s.addr_unit } else { 0 }) }),"
          " _ => %s == %s })" % (PREV, CUR, OLDP, CUR, OLDP, CUR, OLDP, BANK, BANK, OLDP, CUR, OLDP, CUR, OLDP, BANK, CUR, BANK, CUR, OLDP), ["C01", "C06"]),
    ],
    rewrites=[
        Rewrite("&addr.address.checked_sub(", "addr.address.checked_sub(", rule="R3", why="`&usize * usize`: the reference on the left operand of `*` is dropped (operator on a reference operand; same value)"),
    ],
    inserts=[
        Insert("                cur_bank_data.cur_position += {\n                    match instr.encoding.size", "proof { assume(cur_bank_data.cur_position + size_or_zero(instr.encoding) <= usize::MAX); }\n                ", where="before", finding="D9a", why="finding guard: bank position overflows usize (known finding D9a)"),
        Insert("                cur_bank_data.cur_position += {\n                    match data_elem.encoding.size", "proof { assume(cur_bank_data.cur_position + size_or_zero(data_elem.encoding) <= usize::MAX); }\n                ", where="before", finding="D9a", why="finding guard D9a"),
        Insert("                cur_bank_data.cur_position += res.reserve_size;", "proof { assume(cur_bank_data.cur_position + res.reserve_size <= usize::MAX); }\n                ", where="before", finding="D9a", why="finding guard D9a"),
        Insert("                cur_bank_data.cur_position += bits_until_alignment(", "proof { assume(cur_bank_data.cur_position + align.align_size <= usize::MAX); }\n                ", where="before", finding="D9a", why="finding guard D9a"),
        Insert("                let new_position = {", "proof { assume((addr.address.val() - bank.addr_start.val()) * bank.addr_unit <= usize::MAX); }\n                ", where="before", finding="D9a", why="finding guard D9a: (address - addr_start) * addr_unit overflows usize"),
    ],
)

# ---- expr::Value accessors that are plain matches: verified here (not assumed)
VLOUD = LOUD
expect_usize = Fn(FE, "expect_usize", impl="Value", slot="expr", ret="res", key="Value::expect_usize", props=["C19", "C03"],
                  ensures=VLOUD + [C("exact", "res is Ok ==> self is Integer && res->Ok_0 as int == self->Integer_0.val()", ["C19"]),
                                   C("total_on_usize_range", "self is Integer && 0 <= self->Integer_0.val() <= usize::MAX ==> res is Ok", ["C19"])])
expect_nonzero_usize = Fn(FE, "expect_nonzero_usize", impl="Value", slot="expr", ret="res", key="Value::expect_nonzero_usize", props=["C19", "C03"],
                  ensures=VLOUD + [C("exact_and_positive", "res is Ok ==> self is Integer && res->Ok_0 as int == self->Integer_0.val() && res->Ok_0 > 0", ["C19"])])
expect_bigint_v = Fn(FE, "expect_bigint", impl="Value", slot="expr", ret="res", key="Value::expect_bigint", props=["C03"],
                   ensures=[
                       C("ok_iff_integer", "res is Ok <==> self is Integer", ["C03"]),
                       C("ok_value", "res is Ok ==> *res->Ok_0 == self->Integer_0", ["C03"]),
                   ] + VLOUD)
expect_error_or_usize_v = Fn(FE, "expect_error_or_usize", impl="Value", slot="expr", ret="res", key="Value::expect_error_or_usize", props=["C19", "C03"],
                   ensures=VLOUD + [C("shape", "res is Ok ==> res->Ok_0 == self && (self is Unknown || self is FailedConstraint || (self is Integer && 0 <= self->Integer_0.val() <= usize::MAX))", ["C19"])])
to_bigint_stub = Fn(FE, "to_bigint", impl="ExprString", slot="expr", mode="stub", ret="res", key="ExprString::to_bigint", ensures=[
    C("the_integer_of_the_string", "res == str_bigint(*self)")])
get_bigint_v = Fn(FE, "get_bigint", impl="Value", slot="expr", ret="res", key="Value::get_bigint", props=["C03"],
                  ensures=[C("some_iff_numeric", "res is Some <==> (self is Integer || self is String)", ["C03"]),
                           C("integer_value", "self is Integer ==> res->0.val() == self->Integer_0.val()", ["C03"]),
                           C("the_number_itself", "res is Some ==> res->0 == num_of(*self)", ["C05"])],
                  rewrites=[Rewrite(r"&Value::(\w+)\(ref (\w+)\)", r"Value::\1(\2)", count=None, regex=True, rule="R20",
                                    why="explicit reference patterns `&V(ref x)` crash the installed Verus (panic in pattern lowering); written in the equivalent default-binding-mode form `V(x)` (x is bound by reference either way)")])
value_verified = [expect_usize, expect_nonzero_usize, expect_bigint_v, expect_error_or_usize_v, to_bigint_stub, get_bigint_v]

# ---- asm::defs::bankdef::define: establishes the data invariant "every defined bank has addr_unit > 0"
FB = "src/asm/defs/bankdef.rs"
FRESH = ("forall|j: int| 0 <= j < ast.nodes@.len() ==> (match #[trigger] ast.nodes@[j] { asm::AstAny::DirectiveBankdef(n) =>"
         " n.item_ref is Some && (n.item_ref->0).0 >= 1"
         " && (forall|j2: int| 0 <= j2 < ast.nodes@.len() && j2 != j ==> (match #[trigger] ast.nodes@[j2] { asm::AstAny::DirectiveBankdef(n2) => n2.item_ref != n.item_ref, _ => true })), _ => true })")
eval_certain_stub = Fn(FEV, "eval_certain", slot="resolver", mode="stub", ret="res", ensures=LOUD)
deflist_define = Fn("src/asm/defs/mod.rs", "define", impl="<T> DefList<T>", impl_header="<T> DefList<T>", slot="asm", ret=None, key="DefList::define", props=["C03"],
    requires=[C("slot_free", "item_ref.0 >= old(self).defs@.len() || old(self).defs@[item_ref.0 as int] is None", ["C03"])],
    ensures=[
        C("defined", "item_ref.0 < final(self).defs@.len() && final(self).defs@[item_ref.0 as int] == Some(item)", ["C03"]),
        C("len", "final(self).defs@.len() == (if item_ref.0 < old(self).defs@.len() { old(self).defs@.len() } else { (item_ref.0 + 1) as nat })", ["C03"]),
        C("others_kept", "forall|k: int| 0 <= k < final(self).defs@.len() && k != item_ref.0 ==> #[trigger] final(self).defs@[k] == (if k < old(self).defs@.len() { old(self).defs@[k] } else { None })", ["C03"]),
    ],
    loops={1: Loop(invariant=[
        C("prefix_kept", "self.defs@.len() >= old(self).defs@.len() && forall|k: int| 0 <= k < self.defs@.len() ==> #[trigger] self.defs@[k] == (if k < old(self).defs@.len() { old(self).defs@[k] } else { None })"),
        C("bound", "self.defs@.len() <= item_ref.0 + 1 || self.defs@.len() == old(self).defs@.len()"),
    ], decreases="item_ref.0 + 1 - self.defs@.len()")},
    rewrites=[Rewrite("        self.defs[item_ref.0] = Some(item);", "        self.defs.set(item_ref.0, Some(item));", rule="R14",
                      why="Verus has no IndexMut assignment on Vec: `v[i] = x` is written as vstd's `v.set(i, x)` (same effect; index bound becomes an obligation)")],
)

bankdef_define = Fn(
    FB, "define", slot="asm", ret="res", key="bankdef::define", props=["C01", "C06", "C19", "C03"],
    requires=[
        C("no_banks_yet", "old(defs).bankdefs.defs@.len() == 0", ["C03"]),
        C("bankdef_refs_fresh", FRESH, ["C03"]),
    ],
    ensures=LOUD + [
        C("address_unit_positive", "res is Ok ==> banks_wf(final(defs))", ["C01", "C06", "C19"]),
    ],
    rewrites=[
        Rewrite("for any_node in &ast.nodes", "for any_node in it: &ast.nodes", rule="R5", why="ghost iterator named"),
    ],
    closures={1: ("|s: usize| -> (r: usize) requires s * addr_unit <= usize::MAX ensures r == s * addr_unit", "")},
    loops={1: Loop(invariant=[
        C("banks_wf", "banks_wf(defs)"),
        C("clean", "report.msgs() == old(report).msgs() && report.errors() == old(report).errors() && report.parents() == old(report).parents()"),
        C("fresh", FRESH),
        C("only_earlier_defined", "forall|k: int| 1 <= k < defs.bankdefs.defs@.len() && #[trigger] defs.bankdefs.defs@[k] is Some ==> exists|j: int| 0 <= j < it.index@ && (match #[trigger] ast.nodes@[j] { asm::AstAny::DirectiveBankdef(n) => (n.item_ref->0).0 == k, _ => false })"),
    ])},
    inserts=[
        Insert("            let size = addr_size", "            proof { assume(addr_size is Some ==> addr_size->0 * addr_unit <= usize::MAX); }\n", where="before", finding="D9d",
               why="finding guard: bank size in addresses times addr_unit overflows usize (FIXME in the source; known finding D9d)"),
    ],
)

expr_value_types = [
    Type(FE, "enum", "Value", slot="expr"),
    Type(FE, "struct", "ExprString", slot="expr"),
]

resolver_types = [
    Type(FI, "struct", "ResolveIterator", slot="resolver"),
    Type(FI, "struct", "BankData", slot="resolver", derive="Clone, Copy"),
    Type(FI, "enum", "ResolverNode", slot="resolver"),
    Type(FI, "struct", "ResolverContext", slot="resolver"),
    Type(FM, "enum", "ResolutionState", slot="resolver"),
]

opts_types = [
    Type("src/asm/mod.rs", "struct", "AssemblyOptions", slot="asm"),
    Type("src/asm/mod.rs", "struct", "DriverSymbolDef", slot="asm"),
]

bigint_stubs = cb.items("stub", "util", only=["new", "checked_add", "checked_sub", "checked_mul", "checked_mod", "checked_into", "checked_into_nonzero_usize", "maybe_into", "slice", "size_or_min_size"], with_cmp=True)


# ---- constants
SYM = "final(defs).symbols.defs@[(ast_symbol.item_ref->0).0 as int]->0"
OSYM = "old(defs).symbols.defs@[(ast_symbol.item_ref->0).0 as int]->0"
resolve_constant = Fn(
    "src/asm/resolver/constant.rs", "resolve_constant", slot="resolver", ret="res", props=["C02", "C03", "C15"],
    requires=[C("symbol_defined", "defined(&old(defs).symbols, ast_symbol.item_ref)", ["C03"]),
              C("is_constant", "ast_symbol.kind is Constant", ["C03"])],
    ensures=pass_contract() + [
        C("resolved_means_unchanged_unless_frozen", "res == %s && !%s.resolved ==> expr::value_same(%s.value, %s.value)" % (STABLE, SYM, SYM, OSYM), ["C02", "C09", "C01"]),
        C("frozen_only_in_first_pass_when_statically_known", "%s.resolved && !%s.resolved ==> ctx.is_first_iteration && opts.optimize_statically_known && %s.value_statically_known" % (SYM, OSYM, OSYM), ["C02", "C08"]),
    ],
    rewrites=[Rewrite(r"println!\((?:[^()]|\((?:[^()]|\([^()]*\))*\))*\);", "", regex=True, rule="R7", why="debug printing statement deleted", count=2)],
)

# ---- instructions: the stability check around resolve_encoding (C02)
FIN = "src/asm/resolver/instruction.rs"
resolve_encoding_stub = Fn(FIN, "resolve_encoding", slot="resolver", mode="stub", ret="res", ensures=[
    C("err_is_loud", "res is Err ==> final(report).msgs() > old(report).msgs()"),
    C("some_is_clean", "res is Ok && res->Ok_0 is Some ==> final(report).msgs() == old(report).msgs() && final(report).errors() == old(report).errors()"),
    C("none_in_last_pass_is_loud", "res is Ok && res->Ok_0 is None && ctx.is_last_iteration ==> final(report).msgs() > old(report).msgs()"),
    C("none_while_guessing_is_clean", "res is Ok && res->Ok_0 is None && !ctx.is_last_iteration ==> final(report).msgs() == old(report).msgs() && final(report).errors() == old(report).errors()"),
    C("some_is_nonempty", "res is Ok && res->Ok_0 is Some ==> res->Ok_0->0@.len() >= 1"),
    C("chosen_are_sized", "res is Ok && res->Ok_0 is Some ==> forall|i: int| 0 <= i < res->Ok_0->0@.len() ==> (#[trigger] res->Ok_0->0@[i]).1.size is Some"),
    C("chosen_recorded", "res is Ok && res->Ok_0 is Some ==> chosen_encoding(final(report)) == *res->Ok_0->0@[0].1", stub_only=True),
    C("parents_balanced", "final(report).parents() == old(report).parents()"),
])
INS = "final(defs).instructions.defs@[(ast_instr.item_ref->0).0 as int]->0"
OINS = "old(defs).instructions.defs@[(ast_instr.item_ref->0).0 as int]->0"
resolve_instruction = Fn(
    FIN, "resolve_instruction", slot="resolver", ret="res", props=["C02", "C03"],
    requires=[C("item_defined", "defined(&old(defs).instructions, ast_instr.item_ref)", ["C03"])],
    ensures=pass_contract() + [
        C("resolved_means_unchanged_unless_frozen", "res == %s && !%s.resolved ==> %s.encoding.val() == %s.encoding.val()" % (STABLE, INS, INS, OINS), ["C02", "C09", "C01"]),
        C("frozen_only_in_first_pass_when_statically_known", "%s.resolved && !%s.resolved ==> ctx.is_first_iteration && opts.optimize_statically_known && %s.encoding_statically_known" % (INS, OINS, OINS), ["C02", "C08"]),
        C("stores_the_chosen_encoding_with_its_size", "res == %s && !%s.resolved ==> %s.encoding == chosen_encoding(final(report))" % (STABLE, OINS, INS), ["C02", "C01"]),
    ],
    closures={1: ("|e: &Vec<(usize, &util::BigInt)>| -> (r: bool)\n            ensures r == (e@.len() == 1)\n       ", ""),
              2: ("|e: &Vec<(usize, &util::BigInt)>| -> (r: util::BigInt)\n            requires e@.len() >= 1\n            ensures r == *e@[0].1\n       ", "")},
    rewrites=[Rewrite(r"println!\((?:[^()]|\((?:[^()]|\([^()]*\))*\))*\);", "", regex=True, rule="R7", why="debug printing statement deleted", count=2)],
)

# ---- data directives (C04): width check then slice to width
FD = "src/asm/resolver/data_block.rs"
DE = "final(defs).data_elems.defs@[ast_data.item_refs@[elem_index as int].0 as int]->0"
ODE = "old(defs).data_elems.defs@[ast_data.item_refs@[elem_index as int].0 as int]->0"
resolve_data_element = Fn(
    FD, "resolve_data_element", slot="resolver", ret="res", props=["C04", "C02", "C03"],
    requires=[
        C("element_defined", "elem_index < ast_data.item_refs@.len() && elem_index < ast_data.elems@.len() && defined(&old(defs).data_elems, Some(ast_data.item_refs@[elem_index as int]))", ["C03"]),
    ],
    ensures=pass_contract() + [
        C("resolved_means_unchanged_unless_frozen", "res == %s && !%s.resolved ==> %s.encoding.val() == %s.encoding.val()" % (STABLE, DE, DE, ODE), ["C02", "C09", "C01"]),
        C("frozen_only_in_first_pass_when_statically_known", "%s.resolved && !%s.resolved ==> ctx.is_first_iteration && opts.optimize_statically_known && %s.encoding_statically_known" % (DE, ODE, ODE), ["C02", "C08"]),
        C("width_checked_in_last_pass",
          "res is Ok && ctx.is_last_iteration && !%s.resolved && ast_data.elem_size is Some ==> %s.encoding.size == ast_data.elem_size" % (ODE, DE), ["C04"]),
        C("sized_in_last_pass",
          "res is Ok && ctx.is_last_iteration && !%s.resolved ==> %s.encoding.size is Some" % (ODE, DE), ["C04"]),
        C("accepts_only_values_that_fit_and_keeps_their_bits",
          "res is Ok && ctx.is_last_iteration && !%s.resolved && ast_data.elem_size is Some ==> exists|v: util::BigInt| #[trigger] data_fits(v, ast_data.elem_size->0, %s.encoding)" % (ODE, DE), ["C04"]),
    ],
    inserts=[
        Insert("    // Apply definite size via slice", "    let ghost pre_slice = maybe_encoding;\n", where="before"),
        Insert("            data_elem.resolved = true;", "            proof { if ctx.is_last_iteration && ast_data.elem_size is Some { assert(data_fits(pre_slice->0, ast_data.elem_size->0, data_elem.encoding)); } }\n", where="before"),
        Insert("    if Some(&prev_encoding) != maybe_encoding.as_ref()", "    proof { if ctx.is_last_iteration && ast_data.elem_size is Some { assert(data_fits(pre_slice->0, ast_data.elem_size->0, data_elem.encoding)); } }\n", where="before"),
    ],
    closures={1: ("|e: util::BigInt| -> (r: util::BigInt)\n            requires (ast_data.elem_size is Some ==> true)\n            ensures ast_data.elem_size is Some ==> r.size == ast_data.elem_size, ast_data.elem_size is None ==> r.size == Some(e.size_or_min_size_spec()),\n                ast_data.elem_size is Some && e.fits_size() ==> (forall|j: nat| #[trigger] bit_of(r.val(), j) == (j < ast_data.elem_size->0 && bit_of(e.val(), (0 + j) as nat)))\n       ", "")},
    rewrites=[Rewrite(r"println!\((?:[^()]|\((?:[^()]|\([^()]*\))*\))*\);", "", regex=True, rule="R7", why="debug printing statement deleted", count=2)],
)

# ---- eval_asm: the nested fixed-point loop of asm blocks (C09/C02)
FA = "src/asm/resolver/eval_asm.rs"
asm_result_type = Type(FA, "struct", "AsmBlockResult", slot="resolver")
asm_query_type = Type("src/expr/eval.rs", "struct", "EvalAsmBlockQuery", slot="expr")
asm_resolve_once_stub = Fn(FA, "resolve_once", slot="resolver", mode="stub", ret="res", key="eval_asm::resolve_once",
    sig_rewrites=[Rewrite("fn resolve_once(", "fn asm_resolve_once(", rule="R6", why="renamed: two functions called resolve_once live in one flattened module")],
    ensures=[
        C("strict_pass_recorded", "res is Ok && is_last_iteration ==> asm_strict_value(final(query).report) == res->Ok_0.value && asm_strict_stable(final(query).report) == !res->Ok_0.unstable && asm_strict_start(final(query).report) == position_at_start", stub_only=True),
        C("err_is_loud", "res is Err ==> final(query).report.msgs() > old(query).report.msgs()"),
        C("ok_is_clean", "res is Ok ==> final(query).report.msgs() == old(query).report.msgs()"),
    ])
asm_resolve_iteratively = Fn(FA, "resolve_iteratively", slot="resolver", ret="res", key="eval_asm::resolve_iteratively", props=["C09", "C02", "C03"], gen_name="asm_resolve_iteratively",
    sig_rewrites=[Rewrite("fn resolve_iteratively(", "fn asm_resolve_iteratively(", rule="R6", why="renamed: two functions called resolve_iteratively live in one flattened module")],
    rewrites=[Rewrite("resolve_once(", "asm_resolve_once(", count=2, rule="R6", why="renamed callee (see above)")],
    ensures=[
        C("value_of_a_strict_stable_pass", "res is Ok && !(res->Ok_0 is Unknown) ==> res->Ok_0 == asm_strict_value(final(query).report) && asm_strict_stable(final(query).report)", ["C09", "C02", "C17"]),
        C("laid_out_from_the_given_position", "res is Ok && !(res->Ok_0 is Unknown) ==> asm_strict_start(final(query).report) == position_at_start", ["C17"]),
        C("unknown_only_while_guessing", "res is Ok && res->Ok_0 is Unknown && !asm_strict_stable(final(query).report) ==> !ctx.is_last_iteration", ["C02"]),
        C("err_is_loud", "res is Err ==> final(query).report.msgs() > old(query).report.msgs()", ["C03"]),
    ],
    loops={1: Loop(invariant=[C("count", "iter_count <= max_iterations"), C("clean", "query.report.msgs() == old(query).report.msgs()")],
                   decreases="max_iterations - iter_count")},
)

COMMON = (report_fns("stub", "diagn") + bigint_stubs + itemref_items("util") + expr_value_types +
          ast_types("asm") + defs_types("asm") + opts_types + deflist_fns("verify", "asm") + resolver_types)

value_stubs2 = [v for v in value_stubs if v.name != "expect_error_or_usize"]
# ---- #if blocks whose condition never became a boolean (C03): the failure must carry a diagnostic
check_leftover_ifs = Fn(
    "src/asm/resolver/directive_if.rs", "check_leftover_ifs", slot="resolver", ret="res", key="check_leftover_ifs", props=["C03", "C16"],
    ensures=[
        C("err_is_loud", "res is Err ==> final(report).msgs() > old(report).msgs()", ["C03", "C16"]),
        C("ok_is_clean", "res is Ok ==> final(report).msgs() == old(report).msgs() && final(report).errors() == old(report).errors()", ["C03", "C16"]),
        C("ok_means_no_if_left", "res is Ok ==> forall|j: int| 0 <= j < ast.nodes@.len() ==> !(#[trigger] ast.nodes@[j] is DirectiveIf)", ["C03", "C16"]),
        C("ok_means_no_include_left_behind", "res is Ok ==> forall|j: int| 0 <= j < ast.nodes@.len() ==> !(#[trigger] ast.nodes@[j] is DirectiveInclude)", ["C16", "C14", "C03"]),
        C("err_means_an_if_or_an_include_is_left", "res is Err ==> exists|j: int| 0 <= j < ast.nodes@.len() && (#[trigger] ast.nodes@[j] is DirectiveIf || ast.nodes@[j] is DirectiveInclude)", ["C03", "C16"]),
        C("parents_balanced", "final(report).parents() == old(report).parents()", ["C03", "C16"]),
    ],
    for_to_while=[1],
    loops={1: Loop(invariant=[
        C("clean_so_far", "report.msgs() == old(report).msgs() && report.errors() == old(report).errors() && report.parents() == old(report).parents()"),
        C("no_if_so_far", "verif_vec_1@ == ast.nodes@ && verif_next_1 <= ast.nodes@.len() && forall|j: int| 0 <= j < verif_next_1 ==> !(#[trigger] ast.nodes@[j] is DirectiveIf) && !(ast.nodes@[j] is DirectiveInclude)"),
    ], decreases="ast.nodes@.len() - verif_next_1")},
)


eval_simple_stub = Fn(FEV, "eval_simple", slot="resolver", mode="stub", ret="res", ensures=LOUD + [
    C("value_from_constants_alone", "res is Ok ==> res->Ok_0 == simple_value(decls, defs, expr)")])
resolve_ifs = Fn(
    "src/asm/resolver/directive_if.rs", "resolve_ifs", slot="resolver", ret="res", key="resolve_ifs", props=["C16", "C03"],
    ensures=[
        C("err_is_loud", "res is Err ==> final(report).msgs() > old(report).msgs()", ["C03"]),
        C("ok_is_clean", "res is Ok ==> final(report).msgs() == old(report).msgs() && final(report).errors() == old(report).errors()", ["C03"]),
        C("parents_balanced", "final(report).parents() == old(report).parents()", ["C03"]),
        C("each_decided_if_is_replaced_by_its_selected_arm", "res is Ok ==> final(ast).nodes@ == expand_from(decls, defs, old(ast).nodes@, 0)", ["C16"]),
        C("count_is_the_number_of_decided_ifs", "res is Ok ==> res->Ok_0 == decided_from(decls, defs, old(ast).nodes@, 0)", ["C16"]),
    ],
    rewrites=[
        Rewrite(r"println!\((?:[^()]|\((?:[^()]|\((?:[^()]|\([^()]*\))*\))*\))*\);", "", regex=True, rule="R7", why="debug printing statement deleted", count=1),
        Rewrite(r"ast\.nodes\.splice\(\s*n\.\.n,\s*([^;]*?)\);", r"verif_splice_in(&mut ast.nodes, n, \1);", regex=True, count=2, rule="R27",
                why="Vec::splice with an empty range (an insertion) -> prelude wrapper with the assumed contract of that insertion"),
    ],
    for_to_while=[1],
    loops={1: Loop(invariant=[
        C("clean", "report.msgs() == old(report).msgs() && report.errors() == old(report).errors() && report.parents() == old(report).parents()"),
        C("range", "verif_lo_1 == 0 && verif_next_1 <= old(ast).nodes@.len()"),
        C("processed_suffix", "ast.nodes@ =~= old(ast).nodes@.subrange(0, verif_next_1 as int) + expand_from(decls, defs, old(ast).nodes@, verif_next_1 as int)"),
        C("count", "resolved_count == decided_from(decls, defs, old(ast).nodes@, verif_next_1 as int)"),
    ], decreases="verif_next_1",
       body_start=" proof { lemma_decided_bound(decls, defs, old(ast).nodes@, verif_next_1 as int); }")},
)

UNIT = Unit(
    "U-resolver", "u_resolver/skeleton.rs",
    items=COMMON + [
              bits_until_alignment, can_guess, get_output_position, get_address, eval_address, advance_address,
              merge, iter_new, iter_next, resolve_once,
              resolve_label, resolve_res, resolve_align, resolve_addr, resolve_assert, eval_stub, eval_certain_stub, eval_simple_stub, check_leftover_ifs, resolve_ifs, deflist_define, bankdef_define,
              asm_query_type, asm_result_type, asm_resolve_once_stub, asm_resolve_iteratively, resolve_data_element, resolve_encoding_stub, resolve_instruction, resolve_constant] + value_stubs2 + value_verified,
    serves=["C01", "C02", "C03", "C06", "C09", "C19"],
    description="asm::resolver: address arithmetic (iter.rs), one resolution pass (resolve_once) and the per-item resolvers for labels, #res, #align, #addr, #assert",
)

UNIT_ITERATE = Unit(
    "U-iterate", "u_resolver/skeleton.rs",
    items=COMMON + [merge, resolve_once_stub, resolve_iteratively],
    serves=["C02", "C03", "C09", "C19"],
    carry_facts_into_loops=False,   # this unit's proofs need isolated loops (loop `ensures` clauses, or the solver runs out of resources with the wider context)
    description="asm::resolver::resolve_iteratively: the fixed-point driver, verified against resolve_once's contract (which U-resolver proves, except the ghost event clause [confirms])",
)

UNITS = [UNIT, UNIT_ITERATE]
