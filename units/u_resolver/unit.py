from vfw.spec import Unit, Fn, Type, Impl, C, Loop, Rewrite, Insert
from units.contracts_report import report_fns, F as RF
from units import contracts_bigint as cb
from units.common import itemref_items, ast_types, defs_types, deflist_fns

FI = "src/asm/resolver/iter.rs"
FM = "src/asm/resolver/mod.rs"
FE = "src/expr/expression.rs"

LOUD = [C("err_is_loud", "res is Err ==> final(report).msgs() > old(report).msgs()", ["C03"]),
        C("ok_is_clean", "res is Ok ==> final(report).msgs() == old(report).msgs() && final(report).errors() == old(report).errors()", ["C03"]),
        C("parents_balanced", "final(report).parents() == old(report).parents()", ["C03"])]

bits_until_alignment = Fn(
    FI, "bits_until_alignment", slot="resolver", ret="res", props=["C01", "C06", "C03", "C19"],
    ensures=LOUD + [
        C("zero_alignment", "alignment == 0 ==> res == Ok::<usize, ()>(0usize)", ["C06"]),
        C("least_aligned", "res is Ok && alignment > 0 && cur_address_in_bits.val() >= 0 ==> res->Ok_0 as int == until_aligned(cur_address_in_bits.val(), alignment as int)", ["C01", "C06"]),
        C("below_alignment", "res is Ok && alignment > 0 ==> res->Ok_0 < alignment", ["C06", "C19"]),
        C("nonneg_address_ok", "alignment > 0 && cur_address_in_bits.val() >= 0 ==> res is Ok", ["C06"]),
    ],
    inserts=[Insert("    let excess_bits = excess_bits_bigint", "    proof { lemma_trem_bound(cur_address_in_bits.val(), alignment as int); if cur_address_in_bits.val() >= 0 { lemma_trem_nonneg(cur_address_in_bits.val(), alignment as int); vstd::arithmetic::div_mod::lemma_mod_division_less_than_divisor(cur_address_in_bits.val(), alignment as int); } }\n", where="before")],
)

CTX_REQ = [C("bank_defined", "bank_ok(defs, self.bank_ref)", ["C03"])]

can_guess = Fn(FI, "can_guess", impl="<'iter, 'ast, 'decls> ResolverContext<'iter, 'ast, 'decls>", slot="resolver", ret="res",
               key="ResolverContext::can_guess", props=["C02"],
               ensures=[C("no_guess_in_last_pass", "res == !self.is_last_iteration", ["C02"])])

get_output_position = Fn(FI, "get_output_position", impl="<'iter, 'ast, 'decls> ResolverContext<'iter, 'ast, 'decls>", slot="resolver", ret="res",
               key="ResolverContext::get_output_position", props=["C06", "C19", "C03"],
               requires=CTX_REQ,
               ensures=[C("outp_plus_position", "res == (match bank_of(defs, self.bank_ref).output_offset { Some(o) => Some((o + self.bank_data.cur_position) as usize), None => None })", ["C06"])],
               inserts=[Insert("        Some(bank.output_offset? + self.bank_data.cur_position)", "        proof { if bank.output_offset is Some { assume(bank.output_offset->0 + self.bank_data.cur_position <= usize::MAX); } }\n", where="before", finding="D9c",
                               why="finding guard: outp + position overflows usize (known finding D9c)")])

ADDR_ENS = [
    C("addr_formula", "res is Ok && RES_SOME ==> RES_VAL.val() == address_of(bank_of(defs, self.bank_ref), self.bank_data.cur_position as int)", ["C01", "C06"]),
]

get_address = Fn(FI, "get_address", impl="<'iter, 'ast, 'decls> ResolverContext<'iter, 'ast, 'decls>", slot="resolver", ret="res",
                 key="ResolverContext::get_address", props=["C01", "C06", "C03", "C19"],
                 requires=CTX_REQ,
                 ensures=LOUD + [
                     C("addr_formula", "res is Ok && res->Ok_0 is Some ==> res->Ok_0->0.val() == address_of(bank_of(defs, self.bank_ref), self.bank_data.cur_position as int)", ["C01", "C06"]),
                     C("misaligned_is_none", "bank_of(defs, self.bank_ref).addr_unit > 0 && !can_guess && self.bank_data.cur_position % bank_of(defs, self.bank_ref).addr_unit != 0 ==> res == Ok::<Option<util::BigInt>, ()>(None)", ["C06"]),
                     C("aligned_is_some", "res is Ok && res->Ok_0 is None ==> !can_guess && self.bank_data.cur_position % bank_of(defs, self.bank_ref).addr_unit != 0", ["C06"]),
                 ],
                 inserts=[Insert("        let excess_bits = cur_position % addr_unit;", "        proof { assume(addr_unit > 0); }\n", where="before", finding="D16",
                                 why="finding guard: `#bits 0` is accepted, addr_unit == 0 (known finding D16)")])

eval_address = Fn(FI, "eval_address", impl="<'iter, 'ast, 'decls> ResolverContext<'iter, 'ast, 'decls>", slot="resolver", ret="res",
                  key="ResolverContext::eval_address", props=["C01", "C06", "C03", "C19"],
                  requires=CTX_REQ,
                  ensures=LOUD + [
                      C("addr_formula", "res is Ok ==> res->Ok_0.val() == address_of(bank_of(defs, self.bank_ref), self.bank_data.cur_position as int)", ["C01", "C06"]),
                      C("misaligned_is_error", "bank_of(defs, self.bank_ref).addr_unit > 0 && !can_guess && self.bank_data.cur_position % bank_of(defs, self.bank_ref).addr_unit != 0 ==> res is Err", ["C06"]),
                  ],
                  inserts=[Insert("        let excess_bits = cur_position % addr_unit;", "        proof { assume(addr_unit > 0); }\n", where="before", finding="D16",
                                  why="finding guard: `#bits 0` is accepted, addr_unit == 0 (known finding D16)")])

R7 = Rewrite(r"println!\((?:[^()]|\((?:[^()]|\([^()]*\))*\))*\);", "", regex=True, rule="R7", why="debug printing statement deleted", count=1)

# ---- the per-item pass contract (C02/C03): what one resolver call promises
def pass_contract(last="ctx.is_last_iteration"):
    return [
        C("err_is_loud", "res is Err ==> final(report).msgs() > old(report).msgs()", ["C03", "C02"]),
        C("resolved_is_clean", "res == Ok::<asm::ResolutionState, ()>(asm::ResolutionState::Resolved) ==> final(report).msgs() == old(report).msgs() && final(report).errors() == old(report).errors()", ["C03", "C02"]),
        C("unstable_last_pass_is_loud", "res == Ok::<asm::ResolutionState, ()>(asm::ResolutionState::Unresolved) && %s ==> final(report).msgs() > old(report).msgs()" % last, ["C02", "C03"]),
        C("guess_pass_is_clean", "res is Ok && !%s ==> final(report).msgs() == old(report).msgs() && final(report).errors() == old(report).errors()" % last, ["C03"]),
        C("parents_balanced", "final(report).parents() == old(report).parents()", ["C03"]),
    ]

FEV = "src/asm/resolver/eval.rs"
eval_stub = Fn(FEV, "eval", slot="resolver", mode="stub", ret="res", ensures=LOUD)

def value_expect(name, shape):
    return Fn(FE, name, impl="Value", slot="expr", mode="stub", ret="res", key="Value::" + name,
              ensures=LOUD + [C("shape", shape)])

value_stubs = [
    value_expect("expect_error_or_bigint", "res is Ok ==> res->Ok_0 is Unknown || res->Ok_0 is FailedConstraint || res->Ok_0 is Integer"),
    value_expect("expect_error_or_usize", "res is Ok ==> res->Ok_0 is Unknown || res->Ok_0 is FailedConstraint || res->Ok_0 is Integer"),
    value_expect("expect_bool", "true"),
]

merge = Fn(FM, "merge", impl="ResolutionState", slot="resolver", key="ResolutionState::merge", props=["C02"],
           ensures=[C("conjunction", "*final(self) is Resolved <==> (*old(self) is Resolved && other is Resolved)", ["C02"])])

resolve_iteratively = Fn(
    FM, "resolve_iteratively", slot="resolver", ret="res", props=["C02", "C09", "C03", "C19"],
    requires=[C("budget_at_least_one", "max_iterations >= 1", ["C09"])],
    ensures=[
        C("confirmed", "res is Ok ==> final(defs).confirmed()", ["C02"]),
        C("within_budget", "res is Ok ==> 1 <= res->Ok_0 <= max_iterations", ["C09", "C02"]),
        C("success_is_clean", "res is Ok ==> final(report).msgs() == old(report).msgs() && final(report).errors() == old(report).errors()", ["C03"]),
        C("err_is_loud", "res is Err ==> final(report).msgs() > old(report).msgs()", ["C03", "C02"]),
        C("parents_balanced", "final(report).parents() == old(report).parents()", ["C03"]),
    ],
    loops={1: Loop(invariant=[
        C("count", "iter_count < max_iterations"),
        C("clean_so_far", "report.msgs() == old(report).msgs() && report.errors() == old(report).errors() && report.parents() == old(report).parents()"),
    ], ensures=[C("after_loop", "1 <= iter_count")],
       decreases="max_iterations - iter_count")},
)

ONCE_ENS = [
    C("confirms", "res == Ok::<asm::ResolutionState, ()>(asm::ResolutionState::Resolved) && is_last_iteration ==> final(defs).confirmed()", ["C02"], stub_only=True),
    C("err_is_loud", "res is Err ==> final(report).msgs() > old(report).msgs()", ["C03", "C02"]),
    C("resolved_is_clean", "res == Ok::<asm::ResolutionState, ()>(asm::ResolutionState::Resolved) ==> final(report).msgs() == old(report).msgs() && final(report).errors() == old(report).errors()", ["C03", "C02"]),
    C("unstable_last_pass_is_loud", "res == Ok::<asm::ResolutionState, ()>(asm::ResolutionState::Unresolved) && is_last_iteration ==> final(report).msgs() > old(report).msgs()", ["C02", "C03"]),
    C("guess_pass_is_clean", "res is Ok && !is_last_iteration ==> final(report).msgs() == old(report).msgs() && final(report).errors() == old(report).errors()", ["C03"]),
    C("parents_balanced", "final(report).parents() == old(report).parents()", ["C03"]),
]
resolve_once_stub = Fn(FM, "resolve_once", slot="resolver", ret="res", mode="stub", ensures=ONCE_ENS)

FL = "src/asm/resolver/label.rs"
STABLE = "Ok::<asm::ResolutionState, ()>(asm::ResolutionState::Resolved)"

resolve_label = Fn(
    FL, "resolve_label", slot="resolver", ret="res", props=["C02", "C01", "C03"],
    requires=[
        C("symbol_defined", "defined(&old(defs).symbols, ast_symbol.item_ref)", ["C03"]),
        C("is_label", "ast_symbol.kind is Label", ["C03"]),
        C("bank_defined", "bank_ok(old(defs), ctx.bank_ref)", ["C03"]),
    ],
    ensures=pass_contract() + [
        C("label_is_address_of_next_item",
          "res is Ok ==> final(defs).symbols.defs@[(ast_symbol.item_ref->0).0 as int]->0.value is Integer"
          " && final(defs).symbols.defs@[(ast_symbol.item_ref->0).0 as int]->0.value->Integer_0.val() == address_of(bank_of(old(defs), ctx.bank_ref), ctx.bank_data.cur_position as int)", ["C01", "C02"]),
        C("resolved_means_unchanged",
          "res == %s ==> expr::value_eq(final(defs).symbols.defs@[(ast_symbol.item_ref->0).0 as int]->0.value, old(defs).symbols.defs@[(ast_symbol.item_ref->0).0 as int]->0.value)" % STABLE, ["C02"]),
        C("other_lists_untouched", "final(defs).bankdefs == old(defs).bankdefs && final(defs).instructions == old(defs).instructions && final(defs).data_elems == old(defs).data_elems"
          " && final(defs).res_directives == old(defs).res_directives && final(defs).align_directives == old(defs).align_directives && final(defs).addr_directives == old(defs).addr_directives", ["C02"]),
        C("other_symbols_untouched", "forall|k: int| 0 <= k < old(defs).symbols.defs@.len() && k != (ast_symbol.item_ref->0).0 ==> final(defs).symbols.defs@[k] == old(defs).symbols.defs@[k]", ["C02"]),
    ],
    rewrites=[R7],
)

def item_defined(lst, node):
    return C("item_defined", "defined(&old(defs).%s, %s.item_ref)" % (lst, node), ["C03"])

BANK_REQ = C("bank_defined", "bank_ok(old(defs), ctx.bank_ref)", ["C03"])

def idx(lst, node):
    return "final(defs).%s.defs@[(%s.item_ref->0).0 as int]->0" % (lst, node)
def oidx(lst, node):
    return "old(defs).%s.defs@[(%s.item_ref->0).0 as int]->0" % (lst, node)

resolve_res = Fn(
    "src/asm/resolver/res.rs", "resolve_res", slot="resolver", ret="res", props=["C02", "C03", "C19"],
    requires=[item_defined("res_directives", "ast_res"), BANK_REQ],
    ensures=pass_contract() + [
        C("resolved_means_unchanged", "res == %s ==> %s.reserve_size == %s.reserve_size" % (STABLE, idx("res_directives", "ast_res"), oidx("res_directives", "ast_res")), ["C02"]),
        C("reserve_is_whole_addresses", "res is Ok ==> %s.reserve_size %% bank_of(old(defs), ctx.bank_ref).addr_unit == 0 || bank_of(old(defs), ctx.bank_ref).addr_unit == 0" % idx("res_directives", "ast_res"), ["C06"]),
        C("banks_untouched", "final(defs).bankdefs == old(defs).bankdefs", ["C02"]),
    ],
    rewrites=[R7],
    inserts=[Insert("    res.reserve_size =\n        <u32 as TryInto<usize>>::try_into(value).unwrap() *", "    proof { assume(value as int * bank.addr_unit as int <= usize::MAX); }\n", where="before", finding="D9b",
                    why="finding guard: reserve size (u32) times addr_unit overflows usize (known finding D9b)"),
             Insert("    if res.reserve_size != prev_value", "    proof { if bank.addr_unit > 0 { vstd::arithmetic::div_mod::lemma_mod_multiples_basic(value as int, bank.addr_unit as int); } }\n", where="before")],
)

resolve_align = Fn(
    "src/asm/resolver/align.rs", "resolve_align", slot="resolver", ret="res", props=["C02", "C03", "C19"],
    requires=[item_defined("align_directives", "ast_align")],
    ensures=pass_contract() + [
        C("resolved_means_unchanged", "res == %s ==> %s.align_size == %s.align_size" % (STABLE, idx("align_directives", "ast_align"), oidx("align_directives", "ast_align")), ["C02"]),
        C("zero_alignment_rejected_in_last_pass", "res == %s && ctx.is_last_iteration ==> %s.align_size != 0" % (STABLE, idx("align_directives", "ast_align")), ["C06"]),
        C("banks_untouched", "final(defs).bankdefs == old(defs).bankdefs", ["C02"]),
    ],
    rewrites=[R7],
)

resolve_addr = Fn(
    "src/asm/resolver/addr.rs", "resolve_addr", slot="resolver", ret="res", props=["C02", "C03", "C06", "C19"],
    requires=[item_defined("addr_directives", "ast_addr"), BANK_REQ],
    ensures=pass_contract() + [
        C("resolved_means_unchanged", "res == %s ==> %s.address.val() == %s.address.val()" % (STABLE, idx("addr_directives", "ast_addr"), oidx("addr_directives", "ast_addr")), ["C02"]),
        C("inside_bank_in_last_pass",
          "res == %s && ctx.is_last_iteration ==> %s.address.val() >= bank_of(old(defs), ctx.bank_ref).addr_start.val()"
          " && (bank_of(old(defs), ctx.bank_ref).size is Some ==> (%s.address.val() - bank_of(old(defs), ctx.bank_ref).addr_start.val()) * bank_of(old(defs), ctx.bank_ref).addr_unit < bank_of(old(defs), ctx.bank_ref).size->0)"
          % (STABLE, idx("addr_directives", "ast_addr"), idx("addr_directives", "ast_addr")), ["C06"]),
        C("banks_untouched", "final(defs).bankdefs == old(defs).bankdefs", ["C02"]),
    ],
    rewrites=[R7],
)

resolve_assert = Fn(
    "src/asm/resolver/assert.rs", "resolve_assert", slot="resolver", ret="res", props=["C03", "C09", "C02"],
    ensures=pass_contract() + [
        C("only_evaluated_in_last_pass", "!ctx.is_last_iteration ==> res == Ok::<asm::ResolutionState, ()>(asm::ResolutionState::Unresolved)", ["C09"]),
        C("defs_untouched", "*final(defs) == *old(defs)", ["C02"]),
    ],
)

ITER_IMPL = "<'ast, 'decls> ResolveIterator<'ast, 'decls>"
iter_new = Fn(FI, "new", impl=ITER_IMPL, slot="resolver", mode="stub", ret="res", key="ResolveIterator::new",
              ensures=[C("flags", "res.is_first_iteration == is_first_iteration && res.is_last_iteration == is_last_iteration")])

NODE_OK = """res is Ok && res->Ok_0 is Some ==> ({
            let c = res->Ok_0->0;
            c.is_last_iteration == old(self).is_last_iteration && bank_ok(defs, c.bank_ref)
            && (match c.node {
                asm::ResolverNode::Symbol(s) => defined(&defs.symbols, s.item_ref),
                asm::ResolverNode::Res(n) => defined(&defs.res_directives, n.item_ref),
                asm::ResolverNode::Align(n) => defined(&defs.align_directives, n.item_ref),
                asm::ResolverNode::Addr(n) => defined(&defs.addr_directives, n.item_ref),
                _ => true,
            })
        })"""
iter_next = Fn(FI, "next", impl=ITER_IMPL, slot="resolver", mode="stub", ret="res", key="ResolveIterator::next",
               ensures=LOUD + [C("flags_kept", "final(self).is_last_iteration == old(self).is_last_iteration"),
                               C("node_refers_to_defined_items", NODE_OK)])

def item_stub(file, name):
    return Fn(file, name, slot="resolver", mode="stub", ret="res", ensures=pass_contract())

resolve_constant_stub = item_stub("src/asm/resolver/constant.rs", "resolve_constant")
resolve_instruction_stub = item_stub("src/asm/resolver/instruction.rs", "resolve_instruction")
resolve_data_element_stub = item_stub("src/asm/resolver/data_block.rs", "resolve_data_element")

resolve_once = Fn(
    FM, "resolve_once", slot="resolver", ret="res", props=["C02", "C03", "C09"],
    attrs=["#[verifier::exec_allows_no_decreases_clause] // termination of the pass loop is NOT proved (the AST cursor lives behind ResolveIterator::next, a stub)"],
    ensures=ONCE_ENS,
    rewrites=[R7,
              Rewrite("label::resolve_label(", "resolve_label(", rule="R6", why="module path flattened: resolver submodules live in one module in the generated file"),
              Rewrite("instruction::resolve_instruction(", "resolve_instruction(", rule="R6", why="module path flattened"),
              Rewrite("data_block::resolve_data_element(", "resolve_data_element(", rule="R6", why="module path flattened"),
              Rewrite("res::resolve_res(", "resolve_res(", rule="R6", why="module path flattened"),
              Rewrite("align::resolve_align(", "resolve_align(", rule="R6", why="module path flattened"),
              Rewrite("addr::resolve_addr(", "resolve_addr(", rule="R6", why="module path flattened"),
              Rewrite("assert::resolve_assert(", "resolve_assert(", rule="R6", why="module path flattened"),
              ],
    loops={1: Loop(invariant=[
        C("flags", "iter.is_last_iteration == is_last_iteration"),
        C("parents", "report.parents() == old(report).parents()"),
        C("clean_while_resolved", "resolution_state is Resolved ==> report.msgs() == old(report).msgs() && report.errors() == old(report).errors()"),
        C("guess_pass_clean", "!is_last_iteration ==> report.msgs() == old(report).msgs() && report.errors() == old(report).errors()"),
        C("monotone", "report.msgs() >= old(report).msgs()"),
        C("unstable_last_is_loud", "resolution_state is Unresolved && is_last_iteration ==> report.msgs() > old(report).msgs()"),
    ])},
)

expr_value_types = [
    Type(FE, "enum", "Value", slot="expr"),
    Type(FE, "struct", "ExprString", slot="expr"),
]

resolver_types = [
    Type(FI, "struct", "ResolveIterator", slot="resolver"),
    Type(FI, "struct", "BankData", slot="resolver", derive="Clone, Copy"),
    Type(FI, "enum", "ResolverNode", slot="resolver"),
    Type(FI, "struct", "ResolverContext", slot="resolver"),
    Type(FM, "enum", "ResolutionState", slot="resolver"),
]

opts_types = [
    Type("src/asm/mod.rs", "struct", "AssemblyOptions", slot="asm"),
    Type("src/asm/mod.rs", "struct", "DriverSymbolDef", slot="asm"),
]

bigint_stubs = cb.items("stub", "util", only=["new", "checked_add", "checked_sub", "checked_mul", "checked_mod", "checked_into", "maybe_into"], with_cmp=True)

COMMON = (report_fns("stub", "diagn") + bigint_stubs + itemref_items("util") + expr_value_types +
          ast_types("asm") + defs_types("asm") + opts_types + deflist_fns("verify", "asm") + resolver_types)

UNIT = Unit(
    "U-resolver", "u_resolver/skeleton.rs",
    items=COMMON + [
              bits_until_alignment, can_guess, get_output_position, get_address, eval_address,
              merge, iter_new, iter_next, resolve_constant_stub, resolve_instruction_stub, resolve_data_element_stub, resolve_once,
              resolve_label, resolve_res, resolve_align, resolve_addr, resolve_assert, eval_stub] + value_stubs,
    serves=["C01", "C02", "C03", "C06", "C09", "C19"],
    description="asm::resolver: address arithmetic (iter.rs), one resolution pass (resolve_once) and the per-item resolvers for labels, #res, #align, #addr, #assert",
)

UNIT_ITERATE = Unit(
    "U-iterate", "u_resolver/skeleton.rs",
    items=COMMON + [merge, resolve_once_stub, resolve_iteratively],
    serves=["C02", "C03", "C09", "C19"],
    description="asm::resolver::resolve_iteratively: the fixed-point driver, verified against resolve_once's contract (which U-resolver proves, except the ghost event clause [confirms])",
)

UNITS = [UNIT, UNIT_ITERATE]
