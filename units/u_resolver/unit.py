from vfw.spec import Unit, Fn, Type, Impl, C, Loop, Rewrite, Insert
from units.contracts_report import report_fns, F as RF
from units import contracts_bigint as cb
from units.common import itemref_items, ast_types, defs_types, deflist_fns

FI = "src/asm/resolver/iter.rs"
FM = "src/asm/resolver/mod.rs"
FE = "src/expr/expression.rs"

LOUD = [C("err_is_loud", "res is Err ==> final(report).msgs() > old(report).msgs()", ["C03"]),
        C("ok_is_clean", "res is Ok ==> final(report).msgs() == old(report).msgs() && final(report).errors() == old(report).errors()", ["C03"]),
        C("parents_balanced", "final(report).parents() == old(report).parents()", ["C03"])]

bits_until_alignment = Fn(
    FI, "bits_until_alignment", slot="resolver", ret="res", props=["C01", "C06", "C03", "C19"],
    ensures=LOUD + [
        C("zero_alignment", "alignment == 0 ==> res == Ok::<usize, ()>(0usize)", ["C06"]),
        C("least_aligned", "res is Ok && alignment > 0 && cur_address_in_bits.val() >= 0 ==> res->Ok_0 as int == until_aligned(cur_address_in_bits.val(), alignment as int)", ["C01", "C06"]),
        C("below_alignment", "res is Ok && alignment > 0 ==> res->Ok_0 < alignment", ["C06", "C19"]),
        C("nonneg_address_ok", "alignment > 0 && cur_address_in_bits.val() >= 0 ==> res is Ok", ["C06"]),
    ],
    inserts=[Insert("    let excess_bits = excess_bits_bigint", "    proof { lemma_trem_bound(cur_address_in_bits.val(), alignment as int); if cur_address_in_bits.val() >= 0 { lemma_trem_nonneg(cur_address_in_bits.val(), alignment as int); vstd::arithmetic::div_mod::lemma_mod_division_less_than_divisor(cur_address_in_bits.val(), alignment as int); } }\n", where="before")],
)

CTX_REQ = [C("bank_defined", "bank_ok(defs, self.bank_ref)", ["C03"])]

can_guess = Fn(FI, "can_guess", impl="<'iter, 'ast, 'decls> ResolverContext<'iter, 'ast, 'decls>", slot="resolver", ret="res",
               key="ResolverContext::can_guess", props=["C02"],
               ensures=[C("no_guess_in_last_pass", "res == !self.is_last_iteration", ["C02"])])

get_output_position = Fn(FI, "get_output_position", impl="<'iter, 'ast, 'decls> ResolverContext<'iter, 'ast, 'decls>", slot="resolver", ret="res",
               key="ResolverContext::get_output_position", props=["C06", "C19", "C03"],
               requires=CTX_REQ,
               ensures=[C("outp_plus_position", "res == (match bank_of(defs, self.bank_ref).output_offset { Some(o) => Some((o + self.bank_data.cur_position) as usize), None => None })", ["C06"])],
               inserts=[Insert("        Some(bank.output_offset? + self.bank_data.cur_position)", "        proof { if bank.output_offset is Some { assume(bank.output_offset->0 + self.bank_data.cur_position <= usize::MAX); } }\n", where="before", finding="D9c",
                               why="finding guard: outp + position overflows usize (known finding D9c)")])

ADDR_ENS = [
    C("addr_formula", "res is Ok && RES_SOME ==> RES_VAL.val() == address_of(bank_of(defs, self.bank_ref), self.bank_data.cur_position as int)", ["C01", "C06"]),
]

get_address = Fn(FI, "get_address", impl="<'iter, 'ast, 'decls> ResolverContext<'iter, 'ast, 'decls>", slot="resolver", ret="res",
                 key="ResolverContext::get_address", props=["C01", "C06", "C03", "C19"],
                 requires=CTX_REQ,
                 ensures=LOUD + [
                     C("addr_formula", "res is Ok && res->Ok_0 is Some ==> res->Ok_0->0.val() == address_of(bank_of(defs, self.bank_ref), self.bank_data.cur_position as int)", ["C01", "C06"]),
                     C("misaligned_is_none", "bank_of(defs, self.bank_ref).addr_unit > 0 && !can_guess && self.bank_data.cur_position % bank_of(defs, self.bank_ref).addr_unit != 0 ==> res == Ok::<Option<util::BigInt>, ()>(None)", ["C06"]),
                     C("aligned_is_some", "res is Ok && res->Ok_0 is None ==> !can_guess && self.bank_data.cur_position % bank_of(defs, self.bank_ref).addr_unit != 0", ["C06"]),
                 ],
                 inserts=[Insert("        let excess_bits = cur_position % addr_unit;", "        proof { assume(addr_unit > 0); }\n", where="before", finding="D16",
                                 why="finding guard: `#bits 0` is accepted, addr_unit == 0 (known finding D16)")])

eval_address = Fn(FI, "eval_address", impl="<'iter, 'ast, 'decls> ResolverContext<'iter, 'ast, 'decls>", slot="resolver", ret="res",
                  key="ResolverContext::eval_address", props=["C01", "C06", "C03", "C19"],
                  requires=CTX_REQ,
                  ensures=LOUD + [
                      C("addr_formula", "res is Ok ==> res->Ok_0.val() == address_of(bank_of(defs, self.bank_ref), self.bank_data.cur_position as int)", ["C01", "C06"]),
                      C("misaligned_is_error", "bank_of(defs, self.bank_ref).addr_unit > 0 && !can_guess && self.bank_data.cur_position % bank_of(defs, self.bank_ref).addr_unit != 0 ==> res is Err", ["C06"]),
                  ],
                  inserts=[Insert("        let excess_bits = cur_position % addr_unit;", "        proof { assume(addr_unit > 0); }\n", where="before", finding="D16",
                                  why="finding guard: `#bits 0` is accepted, addr_unit == 0 (known finding D16)")])

expr_value_types = [
    Type(FE, "enum", "Value", slot="expr"),
    Type(FE, "struct", "ExprString", slot="expr"),
]

resolver_types = [
    Type(FI, "struct", "ResolveIterator", slot="resolver"),
    Type(FI, "struct", "BankData", slot="resolver", derive="Clone, Copy"),
    Type(FI, "enum", "ResolverNode", slot="resolver"),
    Type(FI, "struct", "ResolverContext", slot="resolver"),
    Type(FM, "enum", "ResolutionState", slot="resolver"),
]

opts_types = [
    Type("src/asm/mod.rs", "struct", "AssemblyOptions", slot="asm"),
    Type("src/asm/mod.rs", "struct", "DriverSymbolDef", slot="asm"),
]

bigint_stubs = cb.items("stub", "util", only=["new", "checked_add", "checked_sub", "checked_mul", "checked_mod", "checked_into", "maybe_into"], with_cmp=True)

UNIT = Unit(
    "U-resolver", "u_resolver/skeleton.rs",
    items=report_fns("stub", "diagn") + bigint_stubs + itemref_items("util") + expr_value_types +
          ast_types("asm") + defs_types("asm") + opts_types + deflist_fns("verify", "asm") + resolver_types + [
              bits_until_alignment, can_guess, get_output_position, get_address, eval_address,
          ],
    serves=["C01", "C02", "C03", "C06", "C09", "C19"],
    description="asm::resolver: address arithmetic (iter.rs), fixed-point driver and per-item resolvers",
)
