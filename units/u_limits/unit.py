from vfw.spec import Unit, Fn, Type, Impl, C, Loop, Rewrite, Insert
from units.contracts_report import report_fns, F as RF
from units import contracts_bigint as cb

FE = "src/expr/expression.rs"
FV = "src/expr/eval.rs"

msg_error_span = Fn(RF, "error_span", impl="Message", slot="diagn", mode="stub", key="Message::error_span")
dedup = Fn(RF, "message_with_parents_dedup", impl="Report", slot="diagn", mode="stub", key="Report::message_with_parents_dedup",
           ensures=[C("one_more_message", "final(self).msgs() == old(self).msgs() + 1"), C("parents_kept", "final(self).parents() == old(self).parents()")])

check_depth = Fn(FV, "check_recursion_depth_limit", impl="EvalContext", slot="expr", ret="res", key="EvalContext::check_recursion_depth_limit",
    props=["C19", "C03", "C17"],
    ensures=[
        C("limit_25", "res is Ok <==> self.recursion_depth < 25", ["C19"]),
        C("err_is_loud", "res is Err ==> final(report).msgs() > old(report).msgs()", ["C03", "C19"]),
        C("ok_is_clean", "res is Ok ==> final(report).msgs() == old(report).msgs()", ["C03"]),
    ],
    rewrites=[Rewrite("expr::EVAL_RECURSION_DEPTH_MAX", "EVAL_RECURSION_DEPTH_MAX", rule="R6", why="module path")])

UNIT = Unit(
    "U-limits", "u_limits/skeleton.rs",
    items=report_fns("stub", "diagn") + [msg_error_span, dedup] + cb.items("stub", "util", only=[]) + [
        Type(FE, "enum", "Value", slot="expr"),
        Type(FE, "struct", "ExprString", slot="expr"),
        Type("src/expr/mod.rs", "const", "EVAL_RECURSION_DEPTH_MAX", slot="expr"),
        Type(FV, "struct", "EvalContext", slot="expr"),
        check_depth,
    ],
    serves=["C19", "C03"],
    description="expr::EvalContext::check_recursion_depth_limit: the evaluation depth limit (function calls, asm blocks)",
)
