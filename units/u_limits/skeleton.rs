//@@INCLUDE _shared/header.rs
//@@INCLUDE _shared/ispec.rs
//@@INCLUDE _shared/num_bigint.rs
//@@INCLUDE _shared/std_gaps.rs
pub mod diagn {
    use vstd::prelude::*;
    use crate::*;
    verus! {
    #[verifier::external_body]
    pub struct Report { _p: u8 }
    impl Report {
        pub uninterp spec fn msgs(&self) -> nat;
        pub uninterp spec fn errors(&self) -> nat;
        pub uninterp spec fn parents(&self) -> nat;
    }
    #[verifier::external_body]
    pub struct Message { _p: u8 }
    /// the message is of kind Error (defined over the real field in U-report)
    pub uninterp spec fn msg_is_error(m: Message) -> bool;
    #[verifier::external_body]
    #[derive(Clone, Copy)]
    pub struct Span { _p: u8 }
    impl Clone for Message {
        #[verifier::external_body]
        fn clone(&self) -> (r: Message) ensures r == *self { unimplemented!() }
    }
    //@@ITEMS diagn
    }
}
pub mod util {
    use vstd::prelude::*;
    use vstd::std_specs::convert::*;
    use vstd::std_specs::ops::*;
    use crate::*;
    use crate::ispec::*;
    use vstd::arithmetic::power2::pow2;
    verus! {
    broadcast use {crate::num_bigint::axiom_into_refl_obeys, crate::num_bigint::axiom_into_refl};
    //@@INCLUDE _shared/util_bigint_spec_min.rs
    //@@ITEMS util
    }
}
pub mod expr {
    use vstd::prelude::*;
    use vstd::std_specs::convert::*;
    use crate::*;
    use crate::ispec::*;
    verus! {
    broadcast use {crate::num_bigint::axiom_into_refl_obeys, crate::num_bigint::axiom_into_refl};
    impl Clone for Value {
        #[verifier::external_body]
        fn clone(&self) -> (r: Value) ensures r == *self { unimplemented!() }
    }
    impl Clone for ExprString {
        #[verifier::external_body]
        fn clone(&self) -> (r: ExprString) ensures r == *self { unimplemented!() }
    }
    /// R13 helper: stands for `value.coallesce_to_integer().expect_bigint(report, span)?.to_owned()` up to the `?` (vstd gives
    /// `Cow::deref` no specification, so the chain cannot be followed through the `Cow`).  ASSUMED contract =
    /// coallesce_to_integer's assumed contract (identity unless String) composed with expect_bigint's
    /// proved contract.
    #[verifier::external_body]
    pub fn verif_coallesced_bigint(value: &Value, report: &mut diagn::Report, span: diagn::Span) -> (res: Result<util::BigInt, ()>)
        ensures
            value is Integer ==> res is Ok && res->Ok_0 == value->Integer_0,
            res is Ok ==> value is Integer || value is String,
            res is Err ==> final(report).msgs() > old(report).msgs(),
            res is Ok ==> final(report).msgs() == old(report).msgs(),
    { unimplemented!() }
    //@@ITEMS expr
    }
}
