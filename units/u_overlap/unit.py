from vfw.spec import Unit, Fn, Type, C, Loop, Rewrite, Insert
from units.contracts_report import report_fns

F = "src/util/overlap_checker.rs"

CMP = ("core::cmp::Ordering::Less", "core::cmp::Ordering::Equal", "core::cmp::Ordering::Greater")

check_overlap = Fn(
    F, "check_overlap", impl="OverlapChecker", slot="util", ret="res", props=["C06", "C03", "C19"],
    requires=[
        C("wf", "self.wf()"),
        C("fits", "position + size <= usize::MAX"),
    ],
    ensures=[
        C("index_in_range", "res.0 <= self.entries@.len()", ["C06"]),
        C("no_overlap",
          "res.1 is None ==> self.no_overlap_with(position as int, size as int)", ["C06"]),
        C("insert_keeps_order",
          "res.1 is None ==> (forall|k: int| 0 <= k < res.0 ==> self.entries@[k].position + self.entries@[k].size <= position)"
          " && (forall|k: int| res.0 <= k < self.entries@.len() ==> position + size <= self.entries@[k].position)", ["C06"]),
        C("reported_entry_is_stored",
          "res.1 is Some ==> exists|k: int| 0 <= k < self.entries@.len() && *res.1->0 == self.entries@[k]", ["C06"]),
        C("rejects_only_touching",
          "res.1 is Some ==> touches(position as int, size as int, res.1->0.position as int, res.1->0.size as int)", ["C06"]),
    ],
    closures={1: ("|e: &OverlapCheckerEntry| -> (r: core::cmp::Ordering)\n            ensures r == (if e.position < position { %s } else if e.position == position { %s } else { %s })\n       " % CMP, "")},
    loops={
        1: Loop(invariant=[
            C("range", "i <= found < self.entries@.len()"),
            C("run", "forall|k: int| i <= k <= found ==> self.entries@[k].position == position"),
        ], decreases="i"),
        2: Loop(invariant=[
            C("range", "found <= i <= self.entries@.len()"),
            C("run", "forall|k: int| found <= k < i ==> self.entries@[k].position == position"),
        ], decreases="self.entries@.len() - i"),
    },
)

check_and_insert = Fn(
    F, "check_and_insert", impl="OverlapChecker", slot="util", ret="res", props=["C06", "C03", "C19"],
    requires=[
        C("wf", "old(self).wf()"),
        C("fits", "position + size <= usize::MAX"),
    ],
    ensures=[
        C("wf_kept", "final(self).wf()", ["C06"]),
        C("ok_means_no_overlap", "res is Ok ==> old(self).no_overlap_with(position as int, size as int)", ["C06"]),
        C("ok_inserts_exactly",
          "res is Ok ==> exists|k: int| 0 <= k <= old(self).view().len() && final(self).view() == old(self).view().insert(k, (position as int, size as int))", ["C06"]),
        C("err_keeps_entries", "res is Err ==> final(self).view() == old(self).view()", ["C06"]),
        C("err_is_loud", "res is Err ==> final(report).msgs() > old(report).msgs()", ["C03", "C06"]),
        C("ok_is_clean", "res is Ok ==> final(report).msgs() == old(report).msgs()", ["C03"]),
        C("parents_balanced", "final(report).parents() == old(report).parents()", ["C03"]),
    ],
    inserts=[
        Insert("        Ok(())", "        proof { assert(self.view() =~= old(self).view().insert(index as int, (position as int, size as int))); }\n",
               where="before", why="extensionality hint for the Seq view (erased at compile time)"),
    ],
)

UNIT = Unit(
    "U-overlap", "u_overlap/skeleton.rs",
    items=report_fns("stub", "diagn") + [
        Type(F, "struct", "OverlapChecker", slot="util"),
        Type(F, "struct", "OverlapCheckerEntry", slot="util"),
        Fn(F, "new", impl="OverlapChecker", slot="util", ret="res", props=["C06"],
           ensures=[C("empty", "res.view() == Seq::<(int,int)>::empty()", ["C06"]), C("wf", "res.wf()", ["C06"])]),
        check_and_insert,
        check_overlap,
    ],
    serves=["C06", "C03", "C19"],
    description="util::OverlapChecker: sorted interval list rejecting overlapping writes and reservations",
)
