//@@INCLUDE _shared/header.rs
//@@INCLUDE _shared/diagn_opaque.rs
//@@INCLUDE _shared/std_optgaps.rs
pub mod util {
    use vstd::prelude::*;
    use crate::*;
    verus! {

    //@@INCLUDE _shared/overlap_spec.rs
    // std gap: <[T]>::binary_search_by, characterised through the closure's own contract
    pub assume_specification<'a, T, F: FnMut(&'a T) -> core::cmp::Ordering>[ <[T]>::binary_search_by ](s: &'a [T], f: F) -> (r: Result<usize, usize>)
        requires
            forall|i: int| 0 <= i < s@.len() ==> call_requires(f, (&#[trigger] s@[i],)),
        ensures
            match r {
                Ok(i) => i < s@.len() && call_ensures(f, (&s@[i as int],), core::cmp::Ordering::Equal),
                Err(i) => i <= s@.len()
                    && (forall|j: int| 0 <= j < i ==> call_ensures(f, (&#[trigger] s@[j],), core::cmp::Ordering::Less))
                    && (forall|j: int| i <= j < s@.len() ==> call_ensures(f, (&#[trigger] s@[j],), core::cmp::Ordering::Greater)),
            };

    //@@ITEMS util
    }
}
