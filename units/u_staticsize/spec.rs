    // ---- the size an expression is known to have before anything is evaluated (C02: the pessimistic size guess)
    /// Expr::try_eval_usize: the value of a constant expression (uninterpreted)
    pub uninterp spec fn const_usize(e: Expr) -> Option<usize>;
    /// expr::get_static_size_builtin_fn (uninterpreted)
    pub uninterp spec fn builtin_static_size(name: Seq<char>, locals: Map<String, StaticallyKnownLocal>, args: Seq<Expr>) -> Option<usize>;
    pub open spec fn static_size(e: Expr, locals: Map<String, StaticallyKnownLocal>) -> Option<usize>
        decreases e
    {
        match e {
            Expr::Variable(_, level, h) =>
                if level == 0 && h@.len() == 1 && locals.contains_key(h@[0]) && locals[h@[0]].size is Some { locals[h@[0]].size } else { None },
            Expr::Literal(_, v) => match v { Value::Integer(b) => b.size, _ => None },
            Expr::UnaryOp(_, _, _, _) => None,
            Expr::BinaryOp(_, _, op, l, r) =>
                if op is Concat {
                    match (static_size(*l, locals), static_size(*r, locals)) {
                        (Some(a), Some(b)) => if a + b <= usize::MAX { Some((a + b) as usize) } else { None },
                        _ => None,
                    }
                } else { None },
            Expr::Slice(_, _, left, right, _) =>
                match (const_usize(*left), const_usize(*right)) {
                    (Some(a), Some(b)) => if a + 1 <= usize::MAX && b <= a + 1 { Some((a + 1 - b) as usize) } else { None },
                    _ => None,
                },
            Expr::SliceShort(_, _, size, _) => const_usize(*size),
            Expr::TernaryOp(_, _, t, f) =>
                match (static_size(*t, locals), static_size(*f, locals)) {
                    (Some(a), Some(b)) => if a == b { Some(a) } else { None },
                    _ => None,
                },
            Expr::Block(_, exprs) => if exprs@.len() == 0 { None } else { static_size(exprs@[exprs@.len() - 1], locals) },
            Expr::Call(_, func, args) =>
                if (*func) is Variable && (*func)->Variable_1 == 0 && (*func)->Variable_2@.len() == 1 { builtin_static_size((*func)->Variable_2@[0]@, locals, args@) } else { None },
            Expr::Asm(_, _) => None,
        }
    }
    #[verifier::external_body]
    pub fn verif_try_eval_usize(e: &Expr) -> (r: Option<usize>) ensures r == const_usize(*e) { unimplemented!() }
    #[verifier::external_body]
    pub fn get_static_size_builtin_fn(name: &str, provider: &StaticallyKnownProvider, args: &Vec<Expr>) -> (r: Option<usize>)
        ensures r == builtin_static_size(name@, provider.locals@, args@)
    { unimplemented!() }
