//@@INCLUDE _shared/header.rs
//@@INCLUDE _shared/ispec.rs
//@@INCLUDE _shared/num_bigint.rs
//@@INCLUDE _shared/std_gaps.rs
pub mod axioms {
    use vstd::prelude::*;
    verus! {
    /// ASSUMED: String keys behave as hash-map keys
    #[verifier::allow(broadcast_without_trigger)]
    pub broadcast axiom fn axiom_string_key_model()
        ensures vstd::std_specs::hash::obeys_key_model::<String>();
    }
}
pub mod diagn {
    use vstd::prelude::*;
    verus! {
    #[verifier::external_body]
    pub struct Message { _p: u8 }
    #[verifier::external_body]
    #[derive(Clone, Copy)]
    pub struct Span { _p: u8 }
    }
}
pub mod util {
    use vstd::prelude::*;
    use vstd::std_specs::convert::*;
    use crate::*;
    use crate::ispec::*;
    verus! {
    //@@ITEMS util
    }
}
pub mod asm {
    use vstd::prelude::*;
    verus! {
    #[verifier::external_body]
    pub struct AstTopLevel { _p: u8 }
    }
}
pub mod expr {
    use vstd::prelude::*;
    use crate::*;
    verus! {
    broadcast use {vstd::std_specs::hash::group_hash_axioms, crate::axioms::axiom_string_key_model};

    //@@INCLUDE u_inspect/known_spec.rs
    //@@INCLUDE u_staticsize/spec.rs
    //@@ITEMS expr
    }
}
