from vfw.spec import Unit, Fn, Type, Impl, C, Loop, Rewrite, Insert
from units.u_inspect import unit as uin

F = "src/expr/inspect.rs"
size = Fn(F, "get_static_size", impl="expr::Expr", impl_header="Expr", slot="expr", ret="res", key="Expr::get_static_size", props=["C02", "C19", "C03"],
    ensures=[C("the_size_known_before_evaluation", "res == static_size(*self, provider.locals@)", ["C02", "C19"])],
    decreases="self",
    rewrites=[
        Rewrite(r"(\w+)\.try_eval_usize\(\)", r"verif_try_eval_usize(\1)", regex=True, count=None, rule="R17", why="Expr::try_eval_usize (runs the evaluator with dummy providers) -> prelude wrapper with an uninterpreted result"),
        Rewrite("expr::get_static_size_builtin_fn(", "get_static_size_builtin_fn(", rule="R6", why="module path"),
        Rewrite("*func.as_ref()", "**func", rule="R18", why="`Box::as_ref` has no vstd specification: `*b.as_ref()` is written as the equivalent deref `**b`"),
    ],
)
UNIT = Unit(
    "U-staticsize", "u_staticsize/skeleton.rs",
    items=[it for it in uin.UNIT.items if getattr(it, "key", None) != "Expr::is_value_statically_known"] + [size],
    serves=["C02", "C19", "C03"],
    description="expr::Expr::get_static_size: the size an expression is known to have before evaluation (the matcher's pessimistic size guess)",
)
