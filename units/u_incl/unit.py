from vfw.spec import Unit, Fn, Type, Impl, C, Loop, Rewrite, Insert
from units.u_resolver import unit as ur
from units.u_evalvar import unit as uev
from units import contracts_bigint as cb
from units.u_constrain import unit as uc
from units import contracts_bitvec as bv

FF = "src/asm/resolver/eval_fn.rs"
FX = "src/expr/eval.rs"
FE = "src/expr/expression.rs"
QIMPL = "<'a> EvalFunctionQuery<'a>"

QLOUD = [C("err_is_loud", "res is Err ==> final(self).report.msgs() > old(self).report.msgs()"),
         C("ok_is_clean", "res is Ok ==> final(self).report.msgs() == old(self).report.msgs() && final(self).report.errors() == old(self).report.errors()"),
         C("parents_balanced", "final(self).report.parents() == old(self).report.parents()"),
         C("query_kept", "final(self).args == old(self).args && final(self).span == old(self).span && final(self).func == old(self).func")]
ensure_min_max = Fn(FX, "ensure_min_max_arg_number", impl=QIMPL, impl_header=QIMPL, slot="expr", ret="res", key="EvalFunctionQuery::ensure_min_max_arg_number", props=["C03"],
    ensures=QLOUD + [C("ok_iff_in_range", "res is Ok <==> minimum_expected_arg_number <= old(self).args@.len() <= maximum_expected_arg_number", ["C03"])])

expect_string = Fn(FE, "expect_string", impl="Value", slot="expr", ret="res", key="Value::expect_string", props=["C03"],
    ensures=ur.LOUD + [C("ok_iff_string", "res is Ok <==> self is String", ["C03"]), C("the_string", "res is Ok ==> *res->Ok_0 == self->String_0", ["C03"])])

filename_navigate = Fn("src/util/file_navigation.rs", "filename_navigate", slot="util", mode="stub", ret="res", key="filename_navigate",
    ensures=ur.LOUD + [C("normalised_path", "res is Ok ==> res->Ok_0@ == crate::asm::resolver::nav_text(current@, relative@)")])

slice_stub = [f for f in cb.ALL_FNS if f.name == "slice"][0].as_stub("util")
from_bytes_be = [f for f in cb.ALL_FNS if f.name == "from_bytes_be"][0].as_stub("util")

QR = "query.report"
BYTES = "final(fileserver).file_bytes(final(fileserver).handle_for(nav_text(old(fileserver).file_name(ctx.file_handle_ctx->0), old(query).args@[0].value->String_0.utf8_contents@)))"
START = "(if old(query).args@.len() >= 2 { old(query).args@[1].value->Integer_0.val() } else { 0 })"
END = "(if old(query).args@.len() >= 3 { %s + old(query).args@[2].value->Integer_0.val() } else { %s.len() as int })" % (START, BYTES)
incbin = Fn(FF, "eval_builtin_incbin", slot="resolver", ret="res", key="eval_builtin_incbin", props=["C14", "C03", "C19"],
    requires=[C("included_from_a_file", "ctx.file_handle_ctx is Some", ["C03"])],
    ensures=[
        C("err_is_loud", "res is Err ==> final(query).report.msgs() > old(query).report.msgs()", ["C03", "C14"]),
        C("exactly_the_requested_bytes", "res is Ok ==> res->Ok_0 is Integer && 0 <= %s <= %s <= %s.len()"
          " && res->Ok_0->Integer_0.size == Some(((%s - %s) * 8) as usize)"
          " && ((%s == %s || %s[%s] < 0x80) ==> res->Ok_0->Integer_0.val() == num_bigint::unsigned_be(%s.subrange(%s, %s)))" % (START, END, BYTES, END, START, START, END, BYTES, START, BYTES, START, END), ["C14"]),
        C("a_range_past_the_end_is_rejected", "old(query).args@.len() >= 2 && (%s > %s.len() || %s > %s.len()) ==> res is Err" % (START, BYTES, END, BYTES), ["C14"]),
    ],
)

is_whitespace = Fn("src/syntax/token.rs", "is_whitespace", slot="syntax", ret="res", key="syntax::is_whitespace", props=["C03"],
    ensures=[C("blank_tab_cr", "res == (c == ' ' || c == '\\t' || c == '\\r')", ["C03"])])

TEXT = "final(fileserver).file_text(final(fileserver).handle_for(nav_text(old(fileserver).file_name(ctx.file_handle_ctx->0), old(query).args@[0].value->String_0.utf8_contents@)))"
DIG = "incstr_digits(%s, %s.len() as int)" % (TEXT, TEXT)
SEND = "(if old(query).args@.len() >= 3 { %s + old(query).args@[2].value->Integer_0.val() } else { %s })" % (START, DIG)
incstr = Fn(FF, "eval_builtin_incstr", slot="resolver", ret="res", key="eval_builtin_incstr", props=["C14", "C03", "C19"],
    requires=[C("included_from_a_file", "ctx.file_handle_ctx is Some", ["C03"]),
              C("digit_width", "bits_per_char == 1 || bits_per_char == 4", ["C03"])],
    ensures=[
        C("err_is_loud", "res is Err ==> final(query).report.msgs() > old(query).report.msgs()", ["C03", "C14"]),
        C("as_many_bits_as_requested_digits", "res is Ok ==> res->Ok_0 is Integer && 0 <= %s <= %s <= %s && res->Ok_0->Integer_0.size == Some(((%s - %s) * bits_per_char) as usize)" % (START, SEND, DIG, SEND, START), ["C14"]),
        C("a_range_past_the_end_is_rejected", "old(query).args@.len() >= 2 && (%s > %s || %s > %s) ==> res is Err" % (START, DIG, SEND, DIG), ["C14"]),
    ],
    for_to_while=[1],
    loops={1: Loop(invariant=[
        C("chars", "verif_vec_1@ == contents@ && verif_next_1 <= verif_vec_1@.len() && contents@.len() < 0x1000_0000_0000_0000 && (bits_per_char == 1 || bits_per_char == 4)"),
        C("bits_so_far", "bitvec.wf() && bitvec.len == bits_per_char * incstr_digits(contents@, verif_next_1 as int)"),
        C("report_kept", "query.report.msgs() == old(query).report.msgs() && query.report.errors() == old(query).report.errors() && query.report.parents() == old(query).report.parents() && query.args == old(query).args && query.span == old(query).span"),
    ], decreases="verif_vec_1@.len() - verif_next_1",
       body_start=" proof { lemma_incstr_digits_bound(contents@, verif_next_1 as int); assert((1u32 << 1usize) == 2u32) by (bit_vector); assert((1u32 << 4usize) == 16u32) by (bit_vector); }"),
           2: Loop(invariant=[
        C("bits", "bitvec.wf() && (bits_per_char == 1 || bits_per_char == 4) && bitvec.len == bits_per_char * incstr_digits(contents@, verif_next_1 - 1) + i && incstr_digits(contents@, verif_next_1 - 1) < 0x1000_0000_0000_0000"),
    ])},
    inserts=[
        Insert("    let start = {\n        if query.args.len() >= 2", """    let ghost dg = incstr_digits(contents@, contents@.len() as int);
    proof {
        lemma_incstr_digits_bound(contents@, contents@.len() as int);
        assert(bigint_size == bits_per_char * dg);
        assert((bits_per_char * dg) / (bits_per_char as int) == dg) by (nonlinear_arith) requires bits_per_char >= 1, dg >= 0;
    }
""", where="before"),
        Insert("            bigint_size / bits_per_char\n        }\n    };\n", """    proof {
        assert(start * bits_per_char >= bits_per_char * dg <==> start >= dg) by (nonlinear_arith) requires bits_per_char >= 1;
        assert(end * bits_per_char > bits_per_char * dg <==> end > dg) by (nonlinear_arith) requires bits_per_char >= 1;
        assert(end >= start ==> end * bits_per_char >= start * bits_per_char) by (nonlinear_arith) requires bits_per_char >= 1;
        assert((end - start) * bits_per_char == end * bits_per_char - start * bits_per_char) by (nonlinear_arith);
    }
""", where="after"),

    ],
)
incbinstr = Fn(FF, "eval_builtin_incbinstr", slot="resolver", ret="res", key="eval_builtin_incbinstr", props=["C14", "C03"],
    requires=[C("included_from_a_file", "ctx.file_handle_ctx is Some", ["C03"])],
    ensures=[C("err_is_loud", "res is Err ==> final(query).report.msgs() > old(query).report.msgs()", ["C03", "C14"]),
             C("one_bit_per_digit", "res is Ok ==> res->Ok_0 is Integer && res->Ok_0->Integer_0.size == Some(((%s - %s) * 1) as usize)" % (SEND, START), ["C14"])])
inchexstr = Fn(FF, "eval_builtin_inchexstr", slot="resolver", ret="res", key="eval_builtin_inchexstr", props=["C14", "C03"],
    requires=[C("included_from_a_file", "ctx.file_handle_ctx is Some", ["C03"])],
    ensures=[C("err_is_loud", "res is Err ==> final(query).report.msgs() > old(query).report.msgs()", ["C03", "C14"]),
             C("four_bits_per_digit", "res is Ok ==> res->Ok_0 is Integer && res->Ok_0->Integer_0.size == Some(((%s - %s) * 4) as usize)" % (SEND, START), ["C14"])])

UNIT = Unit(
    "U-incl", "u_incl/skeleton.rs",
    items=ur.COMMON + uev.SYMS + [
        Type(FX, "struct", "EvalFunctionQuery", slot="expr"), Type(FX, "struct", "EvalFunctionQueryArgument", slot="expr"),
        ensure_min_max, expect_string, ur.expect_usize.as_stub("expr"), from_bytes_be, filename_navigate,
        uc.make_integer,
        incbin, is_whitespace, incstr, incbinstr, inchexstr,
    ] + bv.items("stub", "util", only=["new", "write_bit", "len", "to_bigint"]),
    serves=["C14", "C03", "C19"],
    carry_facts_into_loops=False,   # this unit's proofs need isolated loops (loop `ensures` clauses, or the solver runs out of resources with the wider context)
    description="asm::resolver::eval_fn: the file inclusion functions",
)
