        // ---- file inclusion functions (C14)
        /// `util::filename_navigate(current, relative)` on success: the normalised path (left uninterpreted)
        pub uninterp spec fn nav_text(current: Seq<char>, relative: Seq<char>) -> Seq<char>;
        /// characters the string-inclusion functions skip
        pub open spec fn incstr_skipped(c: char) -> bool { c == ' ' || c == '\t' || c == '\r' || c == '_' || c == '\n' }
        /// number of digit characters among the first n characters of the file
        pub open spec fn incstr_digits(text: Seq<char>, n: int) -> int decreases n {
            if n <= 0 { 0 } else { incstr_digits(text, n - 1) + (if incstr_skipped(text[n - 1]) { 0int } else { 1int }) }
        }
        pub proof fn lemma_incstr_digits_bound(text: Seq<char>, n: int)
            requires 0 <= n
            ensures 0 <= incstr_digits(text, n) <= n
            decreases n
        {
            if n > 0 { lemma_incstr_digits_bound(text, n - 1); }
        }
        /// std gap (ASSUMED): char::to_digit is a function of (char, radix)
        pub uninterp spec fn spec_to_digit(c: char, radix: u32) -> Option<u32>;
        pub assume_specification[ char::to_digit ](c: char, radix: u32) -> (r: Option<u32>)
            requires 2 <= radix <= 36
            ensures r == spec_to_digit(c, radix);
        /// R28 helper (ASSUMED): the characters of a string, in order
        #[verifier::external_body]
        pub fn verif_chars(s: &String) -> (r: Vec<char>)
            ensures r@ == s@
        { unimplemented!() }
