from vfw.spec import Unit, Fn, Type, Impl, C, Loop, Rewrite, Insert
from units.contracts_report import report_fns

F = "src/asm/parser/mod.rs"
LOUD = [C("err_is_loud", "res is Err ==> final(report).msgs() > old(report).msgs()"),
        C("messages_never_removed", "final(report).msgs() >= old(report).msgs()"),
        C("parents_balanced", "final(report).parents() == old(report).parents()")]
parse = Fn(F, "parse", slot="parser", mode="stub", ret="res", key="parser::parse",
    ensures=LOUD + [C("the_parsed_nodes", "res is Ok ==> res->Ok_0.nodes@ == parsed_nodes(walker_text(old(walker)))")])
navigate = Fn("src/util/file_navigation.rs", "filename_navigate", slot="util", mode="stub", ret="res", key="filename_navigate",
    ensures=LOUD + [C("normalised", "res is Ok ==> res->Ok_0@ == crate::asm::parser::nav_text(current@, relative@)")])

ROOT = "name_text(&root_filename)"
PARSED = "parsed_nodes(old(fileserver).file_text(old(fileserver).handle_for(%s)))" % ROOT
resolve = Fn(F, "parse_and_resolve_includes", slot="parser", ret="res", key="parser::parse_and_resolve_includes", props=["C14", "C03"],
    attrs=["#[verifier::exec_allows_no_decreases_clause] // termination (finite include depth) is NOT proved: it rests on the cycle check below"],
    requires=[C("the_file_being_read_is_on_top_of_the_include_stack", "old(seen_filenames)@.len() > 0 ==> old(seen_filenames)@.last()@ == %s" % ROOT, ["C14", "C03"]),
              C("and_nowhere_further_down", "old(seen_filenames)@.len() > 0 ==> !texts(old(seen_filenames)@.drop_last()).contains(%s)" % ROOT, ["C14", "C03"])],
    ensures=[
        C("err_is_loud", "res is Err ==> final(report).msgs() > old(report).msgs()", ["C03"]),
        C("messages_never_removed", "final(report).msgs() >= old(report).msgs()", ["C03"]),
        C("parents_balanced", "final(report).parents() == old(report).parents()", ["C03"]),
        C("every_include_is_replaced", "res is Ok ==> no_include_left(res->Ok_0.nodes@)", ["C14"]),
        C("include_stack_restored", "res is Ok ==> final(seen_filenames)@ == old(seen_filenames)@", ["C14"]),
        C("a_file_marked_once_is_read_once", "once_has(old(once_filenames), %s) ==> res is Ok && res->Ok_0.nodes@.len() == 0" % ROOT, ["C14"]),
        C("the_set_of_once_files_only_grows", "forall|n: Seq<char>| once_has(old(once_filenames), n) ==> #[trigger] once_has(final(once_filenames), n)", ["C14"]),
    ],
    rewrites=[
        Rewrite(r"once_filenames\.contains\(root_filename\.borrow\(\)\)", "verif_once_contains(once_filenames, verif_borrow_str(&root_filename))", regex=True, count=None, rule="R8", why="HashSet<String>::contains through Borrow<str> -> prelude wrappers (uninterpreted set model)"),
        Rewrite("root_filename.borrow())?;", "verif_borrow_str(&root_filename))?;", rule="R8", why="`S::borrow()` -> prelude wrapper (the text of the name)"),
        Rewrite("let mut walker = syntax::Walker::new(\n        &src,\n        file_handle,\n        0);", "let mut walker = verif_walker_new(&src, file_handle, 0);", rule="R16", why="Walker::new -> wrapper that records the text the walker reads"),
        Rewrite(r"root_ast\.nodes\.iter\(\)\.any\((\|n\| matches!\(n, AstAny::DirectiveOnce\(_\)\))\)", r"verif_any_once(&root_ast.nodes, \1)", regex=True, rule="R29", why="iterator adapter -> prelude wrapper taking the closure unchanged"),
        Rewrite("once_filenames.insert(root_filename.borrow().to_owned());", "verif_once_insert(once_filenames, verif_to_owned(verif_borrow_str(&root_filename)));", rule="R8", why="HashSet insert / to_owned -> prelude wrappers"),
        Rewrite("                root_filename.borrow(),\n                &ast_include.filename)?;", "                verif_borrow_str(&root_filename),\n                verif_str_of(&ast_include.filename))?;", rule="R8", why="`S::borrow()`, `&String` as `&str` -> prelude wrappers"),
        Rewrite(r"seen_filenames\.contains\(&included_filename\)", "verif_names_contain(seen_filenames, &included_filename)", regex=True, count=None, rule="R16", why="Vec<String>::contains -> prelude wrapper (some element has the same text)"),
        Rewrite("included_filename.as_ref(),", "included_filename.clone(),", rule="R16", why="`String::as_ref()` passed as `S: Borrow<str>` (no vstd specification) -> the String itself is passed (a String is a Borrow<str> with the same text; ASSUMED via name_text)"),
        Rewrite(r"root_ast\.nodes\.splice\(\s*node_index\.\.\(node_index \+ 1\),\s*inner_ast\.nodes\);", "verif_splice_replace(&mut root_ast.nodes, node_index, inner_ast.nodes);", regex=True, rule="R27", why="Vec::splice over a one-element range -> prelude wrapper (the element replaced by the items)"),
    ],
    inserts=[Insert("            let inner_ast = parse_and_resolve_includes(", "            proof { assert(seen_filenames@.drop_last() =~= old(seen_filenames)@); }\n", where="before", why="the stack below the new top is the old stack"),
             Insert("verif_splice_replace(&mut root_ast.nodes, node_index, inner_ast.nodes);", "\n            proof { assert(root_ast.nodes@.len() >= node_index + inner_ast_len); }", where="after", why="the spliced vector holds the included nodes after position node_index")],
    closures={1: ("|n: &AstAny| -> (r: bool)\n            ensures r == (*n is DirectiveOnce)\n       ", "")},
    loops={1: Loop(invariant=[
        C("report", "report.msgs() >= old(report).msgs() && report.parents() == old(report).parents()"),
        C("stack", "seen_filenames@ == old(seen_filenames)@"),
        C("not_once", "!once_has(old(once_filenames), %s)" % ROOT),
        C("once_grows", "forall|n: Seq<char>| once_has(old(once_filenames), n) ==> #[trigger] once_has(once_filenames, n)"),
        C("cursor", "node_index <= root_ast.nodes@.len()"),
        C("done_so_far", "forall|j: int| 0 <= j < node_index ==> !(#[trigger] root_ast.nodes@[j] is DirectiveInclude)"),
    ], decreases="root_ast.nodes@.len() - node_index")},
)

many = Fn(F, "parse_many_and_resolve_includes", slot="parser", ret="res", key="parser::parse_many_and_resolve_includes", props=["C14", "C03"],
    ensures=[
        C("err_is_loud", "res is Err ==> final(report).msgs() > old(report).msgs()", ["C03"]),
        C("every_include_of_every_root_file_is_replaced", "res is Ok ==> no_include_left(res->Ok_0.nodes@)", ["C14"]),
    ],
    rewrites=[
        Rewrite("for file in root_filenames\n", "for file in it: root_filenames\n", rule="R5", why="ghost iterator named"),
        Rewrite("            file.borrow(),\n", "            verif_to_owned(verif_borrow_str(file)),\n", rule="R8", why="`S::borrow()` passed on as the next `S` -> the name as an owned String (the same text; ASSUMED via name_text)"),
        Rewrite("result.nodes.extend(ast.nodes);", "verif_extend_nodes(&mut result.nodes, ast.nodes);", rule="R16", why="`Vec::extend(Vec)` -> prelude wrapper (appended in order)"),
        Rewrite("let mut once_filenames = std::collections::HashSet::new();", "let mut once_filenames = verif_once_new();", rule="R8", why="HashSet::new -> prelude wrapper (empty set in the uninterpreted model)"),
    ],
    inserts=[Insert("        let ast = parse_and_resolve_includes(", "        assert(forall|n: Seq<char>| carried(n) ==> #[trigger] once_has(&once_filenames, n)); // the once set handed to this root file knows every #once file met under the earlier root files\n", where="before",
                    why="C14 obligation: the `#once` memory is shared by all root files"),
             Insert("            &mut once_filenames)?;\n", "        proof { carried = |n: Seq<char>| once_has(&once_filenames, n); }\n", where="after", why="ghost snapshot of the `#once` memory right after this root file")],
    loops={1: Loop(invariant=[
        C("report", "report.msgs() >= old(report).msgs()"),
        C("done_so_far", "no_include_left(result.nodes@)"),
        C("once_files_of_earlier_roots_are_remembered", "forall|n: Seq<char>| carried(n) ==> #[trigger] once_has(&once_filenames, n)", ["C14"]),
    ], before="    let ghost mut carried: spec_fn(Seq<char>) -> bool = |n: Seq<char>| false;",
       )},
)

UNIT = Unit(
    "U-include", "u_include/skeleton.rs",
    items=[f for f in report_fns("stub", "diagn") if f.name in ("error_span",)] + [
        Type("src/asm/parser/directive_include.rs", "struct", "AstDirectiveInclude", slot="parser"),
        Type(F, "struct", "AstTopLevel", slot="parser"),
        navigate, parse, resolve, many,
    ],
    serves=["C14", "C03"],
    description="asm::parser::parse_and_resolve_includes: every #include is replaced, the include stack discipline behind the cycle check, #once",
)
