//@@INCLUDE _shared/header.rs
//@@INCLUDE _shared/diagn_opaque.rs
//@@INCLUDE _shared/std_gaps.rs
pub mod inc_axioms {
    use vstd::prelude::*;
    verus! {
    /// text of a file name given as `S: Borrow<str>` (uninterpreted)
    pub uninterp spec fn name_text<S>(s: &S) -> Seq<char>;
    /// ASSUMED: a String used as a `Borrow<str>` name has its own text
    pub broadcast axiom fn axiom_name_text_string(s: &String)
        ensures #[trigger] name_text::<String>(s) == s@;
    }
}
pub mod util {
    use vstd::prelude::*;
    use crate::*;
    verus! {
    pub type FileServerHandle = usize;
    /// ASSUMED contract of the file server (trait methods): they fail loudly and leave the parent stack alone
    pub trait FileServer {
        spec fn file_text(&self, file_handle: FileServerHandle) -> Seq<char>;
        spec fn handle_for(&self, filename: Seq<char>) -> FileServerHandle;
        fn get_handle(&mut self, report: &mut diagn::Report, span: Option<diagn::Span>, filename: &str) -> (r: Result<FileServerHandle, ()>)
            ensures
                r is Err ==> final(report).msgs() > old(report).msgs(),
                final(report).msgs() >= old(report).msgs(),
                final(report).parents() == old(report).parents(),
                r is Ok ==> r->Ok_0 == final(self).handle_for(filename@);
        fn get_str(&self, report: &mut diagn::Report, span: Option<diagn::Span>, file_handle: FileServerHandle) -> (r: Result<String, ()>)
            ensures
                r is Err ==> final(report).msgs() > old(report).msgs(),
                final(report).msgs() >= old(report).msgs(),
                final(report).parents() == old(report).parents(),
                r is Ok ==> r->Ok_0@ == self.file_text(file_handle);
    }
    //@@ITEMS util
    }
}
pub mod syntax {
    use vstd::prelude::*;
    use crate::*;
    verus! {
    #[verifier::external_body]
    pub struct Walker<'src> { _p: &'src str }
    impl<'src> Walker<'src> {
        #[verifier::external_body]
        pub fn new(src: &'src str, src_file_handle: util::FileServerHandle, src_byte_offset: usize) -> (r: Walker<'src>) { unimplemented!() }
    }
    }
}
pub mod asm {
    use vstd::prelude::*;
    use crate::*;
    pub use parser::*;
    pub mod parser {
        use vstd::prelude::*;
        use crate::*;
        verus! {
        broadcast use {crate::std_gaps::axiom_vec_len_fits, crate::inc_axioms::axiom_name_text_string};
        /// stand-in for the AST node type: the two variants the include resolution looks at, the rest lumped together
        pub enum AstAny { DirectiveInclude(AstDirectiveInclude), DirectiveOnce(AstDirectiveOnce), Other(AstOther) }
        #[verifier::external_body]
        pub struct AstDirectiveOnce { _p: u8 }
        #[verifier::external_body]
        pub struct AstOther { _p: u8 }
        //@@INCLUDE u_include/spec.rs
        //@@ITEMS parser
        }
    }
}
