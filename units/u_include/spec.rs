        // ---- C14 / C03: include resolution
        /// text of a file name given as `S: Borrow<str>` (uninterpreted), the names of the files marked `#once`
        pub use crate::inc_axioms::name_text;
        pub uninterp spec fn once_has(set: &std::collections::HashSet<String>, name: Seq<char>) -> bool;
        /// util::filename_navigate: the normalised name of `relative` seen from `current` (uninterpreted)
        pub uninterp spec fn nav_text(current: Seq<char>, relative: Seq<char>) -> Seq<char>;
        /// the nodes the parser yields for a text (uninterpreted) and the text a walker was made from
        pub uninterp spec fn parsed_nodes(text: Seq<char>) -> Seq<AstAny>;
        pub uninterp spec fn walker_text(w: &syntax::Walker) -> Seq<char>;
        #[verifier::external_body]
        pub fn verif_walker_new<'src>(src: &'src String, handle: util::FileServerHandle, offset: usize) -> (r: syntax::Walker<'src>)
            ensures walker_text(&r) == src@
        { unimplemented!() }
        pub open spec fn texts(v: Seq<String>) -> Seq<Seq<char>> { Seq::new(v.len(), |i: int| v[i]@) }
        /// no `#include` is left among the nodes
        pub open spec fn no_include_left(nodes: Seq<AstAny>) -> bool { forall|j: int| 0 <= j < nodes.len() ==> !(#[trigger] nodes[j] is DirectiveInclude) }
        // R8/R16/R27/R29 helpers (ASSUMED contracts of the std calls they stand for)
        #[verifier::external_body]
        pub fn verif_borrow_str<S: std::borrow::Borrow<str>>(s: &S) -> (r: &str) ensures r@ == name_text(s) { unimplemented!() }
        #[verifier::external_body]
        pub fn verif_once_contains(set: &std::collections::HashSet<String>, name: &str) -> (r: bool) ensures r == once_has(set, name@) { unimplemented!() }
        #[verifier::external_body]
        pub fn verif_once_insert(set: &mut std::collections::HashSet<String>, name: String)
            ensures forall|n: Seq<char>| #[trigger] once_has(final(set), n) == (n == name@ || once_has(old(set), n))
        { unimplemented!() }
        #[verifier::external_body]
        pub fn verif_to_owned(s: &str) -> (r: String) ensures r@ == s@ { unimplemented!() }
        #[verifier::external_body]
        pub fn verif_str_of(s: &String) -> (r: &str) ensures r@ == s@ { unimplemented!() }
        #[verifier::external_body]
        pub fn verif_names_contain(v: &Vec<String>, name: &String) -> (r: bool)
            ensures r == texts(v@).contains(name@)
        { unimplemented!() }
        #[verifier::external_body]
        pub fn verif_any_once<F: FnMut(&AstAny) -> bool>(nodes: &Vec<AstAny>, f: F) -> (r: bool)
            requires forall|n: &AstAny, b: bool| call_ensures(f, (n,), b) ==> b == (*n is DirectiveOnce)
            ensures r == (exists|j: int| 0 <= j < nodes@.len() && #[trigger] nodes@[j] is DirectiveOnce)
        { unimplemented!() }
        #[verifier::external_body]
        pub fn verif_extend_nodes(v: &mut Vec<AstAny>, more: Vec<AstAny>) ensures final(v)@ == old(v)@ + more@ { unimplemented!() }
        #[verifier::external_body]
        pub fn verif_once_new() -> (r: std::collections::HashSet<String>) ensures forall|n: Seq<char>| !(#[trigger] once_has(&r, n)) { unimplemented!() }
        /// `VEC.splice(i..(i + 1), ITEMS)`: the element at i replaced by ITEMS
        #[verifier::external_body]
        pub fn verif_splice_replace(v: &mut Vec<AstAny>, i: usize, items: Vec<AstAny>)
            requires i < old(v)@.len()
            ensures final(v)@ == old(v)@.subrange(0, i as int) + items@ + old(v)@.subrange(i as int + 1, old(v)@.len() as int)
        { unimplemented!() }
