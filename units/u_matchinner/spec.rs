        // ---- evaluating one rule match (C04 typed arguments, C14 file context of arguments)
        /// what asm::resolver::eval computes and how it leaves the local variables: functions of the tables, the
        /// resolver context, the locals, the depth and the expression (ASSUMED)
        pub uninterp spec fn ev_value(opts: &asm::AssemblyOptions, decls: &asm::ItemDecls, defs: &asm::ItemDefs, ctx: asm::ResolverContext, locals: Map<Seq<char>, expr::Value>, depth: nat, e: &expr::Expr) -> expr::Value;
        pub uninterp spec fn ev_locals(opts: &asm::AssemblyOptions, decls: &asm::ItemDecls, defs: &asm::ItemDefs, ctx: asm::ResolverContext, locals: Map<Seq<char>, expr::Value>, depth: nat, e: &expr::Expr) -> Map<Seq<char>, expr::Value>;
        /// the same for a nested match (resolve_instruction_match)
        pub uninterp spec fn mt_value(opts: &asm::AssemblyOptions, decls: &asm::ItemDecls, defs: &asm::ItemDefs, ctx: asm::ResolverContext, locals: Map<Seq<char>, expr::Value>, depth: nat, m: &asm::InstructionMatch) -> expr::Value;
        pub uninterp spec fn mt_locals(opts: &asm::AssemblyOptions, decls: &asm::ItemDecls, defs: &asm::ItemDefs, ctx: asm::ResolverContext, locals: Map<Seq<char>, expr::Value>, depth: nat, m: &asm::InstructionMatch) -> Map<Seq<char>, expr::Value>;
        /// check_and_constrain_argument on success (proved in U-constrain: the value with the parameter's width, or FailedConstraint)
        pub uninterp spec fn constrained(v: expr::Value, typ: asm::RuleParameterType) -> expr::Value;
        pub open spec fn propagates(v: expr::Value) -> bool { v is Unknown || v is FailedConstraint }
        /// the production is evaluated in the rule's own file
        pub open spec fn rule_ctx_of<'a, 'b, 'c>(ctx: asm::ResolverContext<'a, 'b, 'c>, file_handle: util::FileServerHandle) -> asm::ResolverContext<'a, 'b, 'c> {
            asm::ResolverContext { file_handle_ctx: Some(file_handle), ..ctx }
        }
        pub uninterp spec fn expr_file(e: &expr::Expr) -> util::FileServerHandle;
        /// the value of a match, argument by argument from argument k on: every argument is evaluated in the CALLER's
        /// context `ctx`; a typed parameter's argument must pass its range check even if the production never reads it;
        /// an Unknown or FailedConstraint argument is the result; otherwise the production is evaluated, in the rule's
        /// file, one level deeper, with exactly the checked arguments bound to the parameters
        pub open spec fn match_outcome(opts: &asm::AssemblyOptions, decls: &asm::ItemDecls, defs: &asm::ItemDefs, ctx: asm::ResolverContext,
            arg_locals: Map<Seq<char>, expr::Value>, depth: nat, args: Seq<asm::InstructionArgument>, rule: &asm::Rule, k: int, bound: Map<Seq<char>, expr::Value>) -> expr::Value
            decreases args.len() - k
        {
            if k < 0 || k >= args.len() { ev_value(opts, decls, defs, rule_ctx_of(ctx, expr_file(&rule.expr)), bound, depth + 1, &rule.expr) }
            else { match args[k].kind {
                asm::InstructionArgumentKind::Expr(e) => {
                    let v = ev_value(opts, decls, defs, ctx, arg_locals, depth, &e);
                    let l2 = ev_locals(opts, decls, defs, ctx, arg_locals, depth, &e);
                    if propagates(v) { v } else {
                        let c = constrained(v, rule.parameters@[k].typ);
                        if propagates(c) { c } else { match_outcome(opts, decls, defs, ctx, l2, depth, args, rule, k + 1, bound.insert(rule.parameters@[k].name@, c)) }
                    }
                },
                asm::InstructionArgumentKind::Nested(m) => {
                    let v = mt_value(opts, decls, defs, ctx, arg_locals, depth, &m);
                    let l2 = mt_locals(opts, decls, defs, ctx, arg_locals, depth, &m);
                    if propagates(v) { v } else { match_outcome(opts, decls, defs, ctx, l2, depth, args, rule, k + 1, bound.insert(rule.parameters@[k].name@, v)) }
                },
            } }
        }
