from vfw.spec import Unit, Fn, Type, Impl, C, Loop, Rewrite, Insert
from units.u_resolver import unit as ur
from units.u_encoding import unit as ue
from units.u_charcount import unit as uc

FIN = "src/asm/resolver/instruction.rs"
FM = "src/asm/matcher/mod.rs"
FE = "src/expr/expression.rs"
FR = "src/asm/defs/ruledef.rs"

should_propagate = Fn(FE, "should_propagate", impl="Value", slot="expr", ret="res", key="Value::should_propagate", props=["C04"],
    ensures=[C("unknown_or_failed", "res == (self is Unknown || self is FailedConstraint)", ["C04"])])

ARGS = "opts, decls, defs, *ctx"
eval_stub = Fn("src/asm/resolver/eval.rs", "eval", slot="resolver", mode="stub", ret="res", key="eval", ensures=ur.LOUD + [
    C("value", "res is Ok ==> res->Ok_0 == ev_value(opts, decls, defs, *ctx, old(eval_ctx).locals(), old(eval_ctx).depth(), expr)"),
    C("locals_after", "res is Ok ==> final(eval_ctx).locals() == ev_locals(opts, decls, defs, *ctx, old(eval_ctx).locals(), old(eval_ctx).depth(), expr) && final(eval_ctx).depth() == old(eval_ctx).depth()")])
rim_match = Fn(FIN, "resolve_instruction_match", slot="resolver", mode="stub", ret="res", key="resolve_instruction_match", ensures=ur.LOUD + [
    C("value", "res is Ok ==> res->Ok_0 == mt_value(opts, decls, defs, *ctx, old(arg_eval_ctx).locals(), old(arg_eval_ctx).depth(), mtch)"),
    C("locals_after", "res is Ok ==> final(arg_eval_ctx).locals() == mt_locals(opts, decls, defs, *ctx, old(arg_eval_ctx).locals(), old(arg_eval_ctx).depth(), mtch) && final(arg_eval_ctx).depth() == old(arg_eval_ctx).depth()")])
constrain = Fn(FIN, "check_and_constrain_argument", slot="resolver", mode="stub", ret="res", key="check_and_constrain_argument", ensures=ur.LOUD + [
    C("checked_value", "res is Ok ==> res->Ok_0 == constrained(value, typ)")])

RULE = "crate::asm::verif_rule_of(defs, mtch)"
inner = Fn(FIN, "resolve_instruction_match_inner", slot="resolver", ret="res", key="resolve_instruction_match_inner", props=["C04", "C14", "C03"],
    requires=[
        C("ruledef_defined", "mtch.ruledef_ref.0 < defs.ruledefs.defs@.len() && defs.ruledefs.defs@[mtch.ruledef_ref.0 as int] is Some", ["C03"]),
        C("one_argument_per_parameter", "mtch.args@.len() <= %s.parameters@.len()" % RULE, ["C03"]),
    ],
    ensures=ur.LOUD + [
        C("arguments_in_the_callers_context_checked_then_the_production_in_the_rules_file",
          "res is Ok ==> res->Ok_0 == match_outcome(opts, decls, defs, *ctx, old(arg_eval_ctx).locals(), old(arg_eval_ctx).depth(), mtch.args@, %s, 0, Map::empty())" % RULE, ["C04", "C14"]),
    ],
    for_to_while=[1],
    loops={1: Loop(invariant=[
        C("kept", "report.msgs() == old(report).msgs() && report.errors() == old(report).errors() && report.parents() == old(report).parents()"),
        C("cursor", "verif_vec_1@ == mtch.args@ && verif_next_1 <= verif_vec_1@.len() && *rule == *%s && mtch.args@.len() <= rule.parameters@.len()" % RULE),
        C("depths", "arg_eval_ctx.depth() == old(arg_eval_ctx).depth() && eval_ctx.depth() == old(arg_eval_ctx).depth() + 1"),
        C("outcome_so_far", "match_outcome(opts, decls, defs, *ctx, old(arg_eval_ctx).locals(), old(arg_eval_ctx).depth(), mtch.args@, rule, 0, Map::empty())"
          " == match_outcome(opts, decls, defs, *ctx, arg_eval_ctx.locals(), old(arg_eval_ctx).depth(), mtch.args@, rule, verif_next_1 as int, eval_ctx.locals())"),
    ], decreases="verif_vec_1@.len() - verif_next_1")},
)

UNIT = Unit(
    "U-matchinner", "u_matchinner/skeleton.rs",
    items=ur.COMMON + [
        Type(uc.FS, "struct", "Span", slot="diagn", derive="drop"),
        Type(FM, "struct", "InstructionMatch", slot="asm"), Type(FM, "enum", "InstructionMatchResolution", slot="asm"),
        Type(FM, "struct", "InstructionArgument", slot="asm"), Type(FM, "enum", "InstructionArgumentKind", slot="asm"),
        Type(FR, "struct", "RuleParameter", slot="asm"), Type(FR, "enum", "RuleParameterType", slot="asm", derive="Clone, Copy"),
        should_propagate, eval_stub, rim_match, constrain, inner,
    ],
    serves=["C04", "C14", "C03"],
    description="asm::resolver::resolve_instruction_match_inner: arguments evaluated in the caller's context and range-checked, production in the rule's file",
)
