//@@INCLUDE _shared/header.rs
//@@INCLUDE _shared/ispec.rs
//@@INCLUDE _shared/num_bigint.rs
//@@INCLUDE _shared/std_gaps.rs
pub mod diagn {
    use vstd::prelude::*;
    use crate::*;
    verus! {
    /// Opaque stand-in for diagn::Report. Ghost observations:
    ///   msgs()    = messages.len()  (what has_errors()/assemble()'s assert look at)
    ///   errors()  = number of top-level messages of kind Error (what stop_at_errors looks at)
    ///   parents() = parents.len()   (pop_parent unwraps it)
    #[verifier::external_body]
    pub struct Report { _p: u8 }
    impl Report {
        pub uninterp spec fn msgs(&self) -> nat;
        pub uninterp spec fn errors(&self) -> nat;
        pub uninterp spec fn parents(&self) -> nat;
    }
    #[verifier::external_body]
    pub struct Message { _p: u8 }
    /// the message is of kind Error (defined over the real field in U-report)
    pub uninterp spec fn msg_is_error(m: Message) -> bool;
    impl Clone for Message {
        #[verifier::external_body]
        fn clone(&self) -> (r: Message) ensures r == *self { unimplemented!() }
    }
    impl Clone for Span {
        #[verifier::external_body]
        fn clone(&self) -> (r: Span) ensures r == *self { unimplemented!() }
    }
    impl Copy for Span {}
    //@@ITEMS diagn
    }
}
pub mod util {
    use vstd::prelude::*;
    use vstd::std_specs::convert::*;
    use vstd::std_specs::ops::*;
    use vstd::std_specs::cmp::*;
    use crate::*;
    use crate::ispec::*;
    use vstd::arithmetic::power2::pow2;
    verus! {
    broadcast use {crate::num_bigint::axiom_into_refl_obeys, crate::num_bigint::axiom_into_refl, crate::std_gaps::axiom_ordering_eq_obeys, crate::std_gaps::axiom_ordering_eq};
    pub trait FileServer {}
    pub type FileServerHandle = usize;
    #[verifier::external_body]
    pub struct SymbolContext { _p: u8 }
    //@@INCLUDE _shared/util_bigint_spec_min.rs
    //@@INCLUDE _shared/util_bigint_cmp.rs
    //@@ITEMS util
    }
}
pub mod expr {
    use vstd::prelude::*;
    use vstd::std_specs::convert::*;
    use vstd::std_specs::cmp::*;
    use crate::*;
    use crate::ispec::*;
    verus! {
    #[verifier::external_body]
    pub struct Expr { _p: u8 }
    #[verifier::external_body]
    pub struct EvalContext { _p: u8 }
    impl Expr {
        #[verifier::external_body]
        pub fn span(&self) -> (r: diagn::Span) ensures r.file_handle == crate::asm::resolver::expr_file(self) { unimplemented!() }
        #[verifier::external_body]
        pub fn returned_value_span(&self) -> diagn::Span { unimplemented!() }
    }
    /// the text of a name given as any `S: Into<String>` (uninterpreted; fixed for String and &String below)
    pub uninterp spec fn local_key<S>(name: S) -> Seq<char>;
    pub broadcast axiom fn axiom_local_key_ref_string(s: &String)
        ensures #[trigger] local_key::<&String>(s) == s@;
    impl EvalContext {
        pub uninterp spec fn locals(&self) -> Map<Seq<char>, Value>;
        pub uninterp spec fn depth(&self) -> nat;
        #[verifier::external_body]
        pub fn new() -> EvalContext { unimplemented!() }
        /// ASSUMED (three-line function over HashMap fields): a fresh context one level deeper
        #[verifier::external_body]
        pub fn new_deepened(from: &EvalContext) -> (r: EvalContext)
            ensures r.locals() == Map::<Seq<char>, Value>::empty(), r.depth() == from.depth() + 1
        { unimplemented!() }
        /// ASSUMED (HashMap::insert): binds one local variable
        #[verifier::external_body]
        pub fn set_local<S: Into<String>>(&mut self, name: S, value: Value)
            ensures final(self).locals() == old(self).locals().insert(local_key(name), value), final(self).depth() == old(self).depth()
        { unimplemented!() }
        /// ASSUMED: token substitutions do not touch the local variables
        #[verifier::external_body]
        pub fn set_token_subst<S: Into<String>>(&mut self, name: S, excerpt: String)
            ensures final(self).locals() == old(self).locals(), final(self).depth() == old(self).depth()
        { unimplemented!() }
    }
    //@@INCLUDE _shared/value_eq.rs
    //@@ITEMS expr
    }
}
pub mod asm {
    use vstd::prelude::*;
    use crate::*;
    pub use resolver::{ResolutionState, ResolveIterator, ResolverContext, ResolverNode, BankData};
    #[allow(unused_imports)]
    use resolver::*;
    verus! {
    #[verifier::external_body]
    pub struct Ruledef { _p: u8 }
    #[verifier::external_body]
    pub struct RuledefMap { _p: u8 }
    #[verifier::external_body]
    pub struct Function { _p: u8 }
    /// stand-in for asm::Rule: only the fields the verified functions read
    pub struct Rule { pub pattern_span: diagn::Span, pub parameters: Vec<RuleParameter>, pub expr: expr::Expr }
    /// the rule a match refers to (`ruledef.rules[rule_ref]`; left uninterpreted)
    pub uninterp spec fn verif_rule_of<'a>(defs: &'a ItemDefs, m: &InstructionMatch) -> &'a Rule;
    impl Ruledef {
        pub uninterp spec fn spec_rule(&self, rule_ref: util::ItemRef<Rule>) -> &Rule;
        #[verifier::external_body]
        pub fn get_rule(&self, rule_ref: util::ItemRef<Rule>) -> (r: &Rule)
            ensures r == self.spec_rule(rule_ref)
        { unimplemented!() }
    }
    pub broadcast axiom fn axiom_rule_of(defs: &ItemDefs, m: &InstructionMatch)
        ensures #[trigger] verif_rule_of(defs, m) == (defs.ruledefs.defs@[m.ruledef_ref.0 as int]->0).spec_rule(m.rule_ref);
    impl<'iter, 'ast, 'decls> Clone for ResolverContext<'iter, 'ast, 'decls> {
        #[verifier::external_body]
        fn clone(&self) -> (r: Self) ensures r == *self { unimplemented!() }
    }
    pub type InstructionMatches = Vec<InstructionMatch>;
    #[verifier::external_body]
    pub struct ItemDecls { _p: u8 }
    //@@ITEMS asm
    }
    pub mod resolver {
        use vstd::prelude::*;
        use vstd::std_specs::convert::*;
        use crate::*;
        use crate::ispec::*;
        use vstd::arithmetic::power2::pow2;
        verus! {
        broadcast use {crate::num_bigint::axiom_into_refl_obeys, crate::num_bigint::axiom_into_refl, crate::util::axiom_bigint_into_refl_obeys, crate::util::axiom_bigint_into_refl, crate::std_gaps::axiom_vec_len_fits, crate::expr::axiom_local_key_ref_string, crate::asm::axiom_rule_of};
        //@@INCLUDE u_resolver/spec.rs
        //@@INCLUDE u_resolver/ifs_spec.rs
        //@@INCLUDE u_encoding/spec.rs
        //@@INCLUDE u_matchinner/spec.rs
        //@@ITEMS resolver
        }
    }
}
