//@@INCLUDE _shared/header.rs
//@@INCLUDE _shared/diagn_opaque.rs
pub mod util {
    use vstd::prelude::*;
    use crate::*;
    verus! {
    /// the part of the FileServer trait the driver uses. ASSUMED contract of write_bytes (std::fs / the mock): a successful
    /// write is recorded (ghost log `written`: file name and bytes, in order) and raises no diagnostic, a failed one is
    /// not recorded and raises one
    pub trait FileServer {
        spec fn written(&self) -> Seq<(Seq<char>, Seq<u8>)>;
        fn write_bytes(&mut self, report: &mut diagn::Report, span: Option<diagn::Span>, filename: &str, data: &Vec<u8>) -> (r: Result<(), ()>)
            ensures
                r is Ok ==> final(self).written() == old(self).written().push((filename@, data@)) && *final(report) == *old(report),
                r is Err ==> final(self).written() == old(self).written() && final(report).msgs() > old(report).msgs();
    }
    #[verifier::external_body]
    pub struct BitVec { _p: u8 }
    /// opaque stand-in (only returned by the stub BitVec::to_bigint, whose value is unspecified here)
    #[verifier::external_body]
    pub struct BigInt { _p: u8 }
    #[verifier::external_body]
    #[verifier::accept_recursive_types(T)]
    pub struct SymbolManager<T> { _p: core::marker::PhantomData<T> }
    // ---- C18 / C11: one uninterpreted text per formatter (their contents are specified in U-format, U-listing,
    // U-intelhex, U-symfmt); here only WHICH formatter renders WHICH format, with which parameters
    pub uninterp spec fn bytes_binary(o: BitVec) -> Seq<u8>;
    pub uninterp spec fn text_binstr(o: BitVec) -> Seq<char>;
    pub uninterp spec fn text_hexstr(o: BitVec) -> Seq<char>;
    pub uninterp spec fn text_bindump(o: BitVec) -> Seq<char>;
    pub uninterp spec fn text_hexdump(o: BitVec) -> Seq<char>;
    pub uninterp spec fn text_mif(o: BitVec) -> Seq<char>;
    pub uninterp spec fn text_intelhex(o: BitVec, address_unit: usize) -> Seq<char>;
    pub uninterp spec fn text_separator(o: BitVec, radix: usize, separator: Seq<char>) -> Seq<char>;
    pub uninterp spec fn text_c_array(o: BitVec, radix: usize) -> Seq<char>;
    pub uninterp spec fn text_logisim(o: BitVec, bits_per_chunk: usize) -> Seq<char>;
    pub uninterp spec fn text_annotated(o: BitVec, base: usize, group: usize) -> Seq<char>;
    pub uninterp spec fn text_tcgame(o: BitVec, base: usize, group: usize) -> Seq<char>;
    pub uninterp spec fn text_addrspan(o: BitVec) -> Seq<char>;
    pub uninterp spec fn text_symbols(m: SymbolManager<asm::Symbol>) -> Seq<char>;
    pub uninterp spec fn text_mesen(m: SymbolManager<asm::Symbol>) -> Seq<char>;
    /// the UTF-8 bytes of a text (`text.bytes().collect()`)
    pub uninterp spec fn utf8_bytes(t: Seq<char>) -> Seq<u8>;
    //@@ITEMS util
    }
}
pub mod asm {
    use vstd::prelude::*;
    use crate::*;
    verus! {
    #[verifier::external_body]
    pub struct Symbol { _p: u8 }
    #[verifier::external_body]
    pub struct ItemDefs { _p: u8 }
    pub struct ItemDecls { pub symbols: util::SymbolManager<Symbol> }
    #[verifier::external_body]
    pub struct AstTopLevel { _p: u8 }
    #[verifier::external_body]
    pub struct AssemblyOptions { _p: u8 }
    //@@ITEMS asm
    }
}
pub mod driver {
    use vstd::prelude::*;
    use crate::*;
    use crate::util::*;
    verus! {
    /// R16: `text.bytes().collect()` (ASSUMED: the UTF-8 bytes of the text)
    #[verifier::external_body]
    pub fn verif_string_bytes(text: String) -> (r: Vec<u8>) ensures r@ == utf8_bytes(text@) { unimplemented!() }
    /// the usage text, as a table: which text each format name stands for
    pub open spec fn rendering(o: BitVec, syms: SymbolManager<asm::Symbol>, f: OutputFormat) -> Seq<u8> {
        match f {
            OutputFormat::Binary => bytes_binary(o),
            OutputFormat::Annotated { base, group } => utf8_bytes(text_annotated(o, base, group)),
            OutputFormat::TCGame { base, group } => utf8_bytes(text_tcgame(o, base, group)),
            OutputFormat::BinStr => utf8_bytes(text_binstr(o)),
            OutputFormat::HexStr => utf8_bytes(text_hexstr(o)),
            OutputFormat::BinDump => utf8_bytes(text_bindump(o)),
            OutputFormat::HexDump => utf8_bytes(text_hexdump(o)),
            OutputFormat::Mif => utf8_bytes(text_mif(o)),
            OutputFormat::IntelHex { address_unit } => utf8_bytes(text_intelhex(o, address_unit)),
            OutputFormat::DecComma => utf8_bytes(text_separator(o, 10, ", "@)),
            OutputFormat::HexComma => utf8_bytes(text_separator(o, 16, ", "@)),
            OutputFormat::DecSpace => utf8_bytes(text_separator(o, 10, " "@)),
            OutputFormat::HexSpace => utf8_bytes(text_separator(o, 16, " "@)),
            OutputFormat::DecC => utf8_bytes(text_c_array(o, 10)),
            OutputFormat::HexC => utf8_bytes(text_c_array(o, 16)),
            OutputFormat::LogiSim8 => utf8_bytes(text_logisim(o, 8)),
            OutputFormat::LogiSim16 => utf8_bytes(text_logisim(o, 16)),
            OutputFormat::AddressSpan => utf8_bytes(text_addrspan(o)),
            OutputFormat::Symbols => utf8_bytes(text_symbols(syms)),
            OutputFormat::SymbolsMesenMlb => utf8_bytes(text_mesen(syms)),
        }
    }
    // ---- C18 / C03: what one run of the driver writes
    /// the files the first n output groups ask for: one per group that names a format and a file and is not printed
    pub open spec fn group_files(groups: Seq<CommandOutput>, n: int, o: BitVec, syms: SymbolManager<asm::Symbol>) -> Seq<(Seq<char>, Seq<u8>)> decreases n {
        if n <= 0 { Seq::empty() } else {
            let g = groups[n - 1];
            if g.format is Some && !g.printout && g.output_filename is Some { group_files(groups, n - 1, o, syms).push(((g.output_filename->0)@, rendering(o, syms, g.format->0))) }
            else { group_files(groups, n - 1, o, syms) }
        }
    }
    /// R16 helpers: console output (no effect on any contract); `OPTION.as_ref().ok_or(())` / `OPTION.as_ref().unwrap()`
    /// what parse_command makes of an argument vector (its content is the subject of U-command)
    pub uninterp spec fn command_of(args: Seq<String>) -> Option<Command>;
    #[verifier::external_body]
    pub fn verif_println() { }
    pub fn verif_some_or_err<T>(o: &Option<T>) -> (r: Result<&T, ()>) ensures (match r { Ok(x) => *o == Some(*x), Err(_) => *o is None }) { match o { Some(x) => Ok(x), None => Err(()) } }
    pub fn verif_some_ref<T>(o: &Option<T>) -> (r: &T) requires *o is Some ensures *o == Some(*r) { match o { Some(x) => x, None => { proof { assert(false); } loop decreases 0int {} } } }
    //@@ITEMS driver
    }
}
