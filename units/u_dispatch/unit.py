from vfw.spec import Unit, Fn, Type, Impl, C, Loop, Rewrite, Insert

FD = "src/driver.rs"
FB = "src/util/bitvec_format.rs"
FS = "src/util/symbol_format.rs"
BI = "util::BitVec"


def fmt(name, text):
    return Fn(FB, name, impl=BI, impl_header="BitVec", slot="util", mode="stub", ret="res", key="BitVec::" + name, ensures=[C("the_text_of_this_format", text)])


stubs = [
    fmt("format_binary", "res@ == bytes_binary(*self)"),
    fmt("format_binstr", "res@ == text_binstr(*self)"),
    fmt("format_hexstr", "res@ == text_hexstr(*self)"),
    fmt("format_bindump", "res@ == text_bindump(*self)"),
    fmt("format_hexdump", "res@ == text_hexdump(*self)"),
    fmt("format_mif", "res@ == text_mif(*self)"),
    fmt("format_intelhex", "res@ == text_intelhex(*self, address_unit)"),
    fmt("format_separator", "res@ == text_separator(*self, radix, separator@)"),
    fmt("format_c_array", "res@ == text_c_array(*self, radix)"),
    fmt("format_logisim", "res@ == text_logisim(*self, bits_per_chunk)"),
    fmt("format_annotated", "res@ == text_annotated(*self, base, digits_per_group)"),
    fmt("format_tcgame", "res@ == text_tcgame(*self, base, digits_per_group)"),
    fmt("format_addrspan", "res@ == text_addrspan(*self)"),
    Fn(FS, "format_default", impl="util::SymbolManager<asm::Symbol>", impl_header="SymbolManager<asm::Symbol>", slot="util", mode="stub", ret="res", key="SymbolManager::format_default",
       ensures=[C("the_text_of_this_format", "res@ == text_symbols(*self)")]),
    Fn(FS, "format_mesen_mlb", impl="util::SymbolManager<asm::Symbol>", impl_header="SymbolManager<asm::Symbol>", slot="util", mode="stub", ret="res", key="SymbolManager::format_mesen_mlb",
       ensures=[C("the_text_of_this_format", "res@ == text_mesen(*self)")]),
]

format_output = Fn(FD, "format_output", slot="driver", ret="res", key="driver::format_output", props=["C18", "C11", "C12"],
    ensures=[C("each_format_name_selects_its_formatter_with_the_documented_parameters", "res@ == rendering(*output, decls.symbols, format)", ["C18", "C11", "C12"])],
    rewrites=[Rewrite("text.bytes().collect()", "verif_string_bytes(text)", rule="R16", why="`String::bytes().collect()` -> prelude wrapper (the UTF-8 bytes of the text)")],
    inserts=[Insert("\tlet text = {", '\tproof { reveal_strlit(", "); reveal_strlit(" "); }\n', where="before", why="the texts of the two separator literals")],
)

UNIT = Unit(
    "U-dispatch", "u_dispatch/skeleton.rs",
    items=stubs + [Type(FD, "enum", "OutputFormat", slot="driver", derive="Clone, Copy"), format_output],
    serves=["C18", "C11", "C12"],
    description="driver::format_output: which formatter renders which output format, with which parameters",
)
