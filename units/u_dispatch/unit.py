from vfw.spec import Unit, Fn, Type, Impl, C, Loop, Rewrite, Insert

FD = "src/driver.rs"
FB = "src/util/bitvec_format.rs"
FS = "src/util/symbol_format.rs"
BI = "util::BitVec"


def fmt(name, text):
    return Fn(FB, name, impl=BI, impl_header="BitVec", slot="util", mode="stub", ret="res", key="BitVec::" + name, ensures=[C("the_text_of_this_format", text)])


FBV = "src/util/bitvec.rs"
stubs = [
    Fn(FBV, "len", impl="BitVec", impl_header="BitVec", slot="util", mode="stub", ret="res", key="BitVec::len"),
    Fn(FBV, "to_bigint", impl="BitVec", impl_header="BitVec", slot="util", mode="stub", ret="res", key="BitVec::to_bigint"),
    fmt("format_binary", "res@ == bytes_binary(*self)"),
    fmt("format_binstr", "res@ == text_binstr(*self)"),
    fmt("format_hexstr", "res@ == text_hexstr(*self)"),
    fmt("format_bindump", "res@ == text_bindump(*self)"),
    fmt("format_hexdump", "res@ == text_hexdump(*self)"),
    fmt("format_mif", "res@ == text_mif(*self)"),
    fmt("format_intelhex", "res@ == text_intelhex(*self, address_unit)"),
    fmt("format_separator", "res@ == text_separator(*self, radix, separator@)"),
    fmt("format_c_array", "res@ == text_c_array(*self, radix)"),
    fmt("format_logisim", "res@ == text_logisim(*self, bits_per_chunk)"),
    fmt("format_annotated", "res@ == text_annotated(*self, base, digits_per_group)"),
    fmt("format_tcgame", "res@ == text_tcgame(*self, base, digits_per_group)"),
    fmt("format_addrspan", "res@ == text_addrspan(*self)"),
    Fn(FS, "format_default", impl="util::SymbolManager<asm::Symbol>", impl_header="SymbolManager<asm::Symbol>", slot="util", mode="stub", ret="res", key="SymbolManager::format_default",
       ensures=[C("the_text_of_this_format", "res@ == text_symbols(*self)")]),
    Fn(FS, "format_mesen_mlb", impl="util::SymbolManager<asm::Symbol>", impl_header="SymbolManager<asm::Symbol>", slot="util", mode="stub", ret="res", key="SymbolManager::format_mesen_mlb",
       ensures=[C("the_text_of_this_format", "res@ == text_mesen(*self)")]),
]

format_output = Fn(FD, "format_output", slot="driver", ret="res", key="driver::format_output", props=["C18", "C11", "C12"],
    ensures=[C("each_format_name_selects_its_formatter_with_the_documented_parameters", "res@ == rendering(*output, decls.symbols, format)", ["C18", "C11", "C12"])],
    rewrites=[Rewrite("text.bytes().collect()", "verif_string_bytes(text)", rule="R16", why="`String::bytes().collect()` -> prelude wrapper (the UTF-8 bytes of the text)")],
    inserts=[Insert("\tlet text = {", '\tproof { reveal_strlit(", "); reveal_strlit(" "); }\n', where="before", why="the texts of the two separator literals")],
)

FA = "src/asm/mod.rs"
assemble = Fn(FA, "assemble", slot="asm", mode="stub", ret="res", key="asm::assemble",
    ensures=[C("a_failed_assembly_left_a_message", "(res.error || res.output is None) ==> final(report).msgs() > 0"),
             C("a_successful_one_carries_its_tables", "res.output is Some ==> res.decls is Some && res.defs is Some && res.iterations_taken is Some"),
             C("nothing_is_written_while_assembling", "final(fileserver).written() == old(fileserver).written()")])
result_new = Fn(FA, "new", impl="AssemblyResult", slot="asm", mode="stub", ret="res", key="AssemblyResult::new")
print_usage = Fn(FD, "print_usage", slot="driver", mode="stub", key="driver::print_usage")
print_vs = Fn(FD, "print_version_short", slot="driver", mode="stub", key="driver::print_version_short")
print_vf = Fn(FD, "print_version_full", slot="driver", mode="stub", key="driver::print_version_full")
r_error = Fn("src/diagn/report.rs", "error", impl="Report", slot="diagn", mode="stub", key="Report::error", ensures=[C("one_more_message", "final(self).msgs() == old(self).msgs() + 1")])
FILES = "group_files(command.output_groups@, %s, %s, %s)"
with_command = Fn(FD, "assemble_with_command", slot="driver", ret="res", key="driver::assemble_with_command", props=["C18", "C03"],
    ensures=[
        C("failure_is_loud", "res is Err ==> final(report).msgs() > 0", ["C03"]),
        C("help_and_version_write_nothing", "(command.show_help || command.show_version) ==> res is Ok && final(fileserver).written() == old(fileserver).written() && *final(report) == *old(report)", ["C18"]),
        C("every_group_writes_exactly_its_own_file_in_order", "res is Ok && !command.show_help && !command.show_version ==> (res->Ok_0).output is Some && (res->Ok_0).decls is Some && final(fileserver).written() == old(fileserver).written() + "
          + FILES % ("command.output_groups@.len() as int", "(res->Ok_0).output->0", "((res->Ok_0).decls->0).symbols"), ["C18", "C03"]),
    ],
    for_to_while=[1, 2],
    rewrites=[
        Rewrite(r"println!\((?:[^;]|;(?!\n))*?\);\n", "verif_println();\n", regex=True, count=None, rule="R16", why="console output -> a call without effect on any contract (the text printed is not specified)"),
        Rewrite(r"assembly\.output\s*\.as_ref\(\)\s*\.ok_or\(\(\)\)\?", "verif_some_or_err(&assembly.output)?", regex=True, rule="R16", why="`OPTION.as_ref().ok_or(())?` -> prelude function (proved: the content, or Err for None)"),
        Rewrite(r"assembly\.(\w+)\.as_ref\(\)\.unwrap\(\)", r"verif_some_ref(&assembly.\1)", regex=True, count=2, rule="R16", why="`OPTION.as_ref().unwrap()` -> prelude function that requires `is Some`"),
    ],
    loops={
        1: Loop(invariant=[C("nothing_happens", "verif_next_1 <= verif_vec_1@.len()")], decreases="verif_vec_1@.len() - verif_next_1"),
        2: Loop(invariant=[
            C("files_so_far", "verif_vec_2@ == command.output_groups@ && verif_next_2 <= verif_vec_2@.len() && fileserver.written() == old(fileserver).written() + " + FILES % ("verif_next_2 as int", "*output", "decls.symbols")),
            C("frame", "assembly.output == Some(*output) && assembly.decls == Some(*decls)"),
        ], decreases="verif_vec_2@.len() - verif_next_2"),
    },
)

parse_command = Fn(FD, "parse_command", slot="driver", mode="stub", ret="res", key="driver::parse_command",
    requires=[C("the_program_name_is_the_first_argument", "args@.len() >= 1")],
    ensures=[C("a_function_of_the_arguments", "(match res { Ok(c) => command_of(args@) == Some(c), Err(_) => command_of(args@) is None })"),
             C("failure_is_loud", "res is Err ==> final(report).msgs() > old(report).msgs()"),
             C("success_is_clean", "res is Ok ==> *final(report) == *old(report)")])
CMD = "(command_of(args@)->0)"
drive = Fn(FD, "drive", slot="driver", ret="res", key="driver::drive", props=["C18", "C03"],
    requires=[C("the_program_name_is_the_first_argument", "args@.len() >= 1", ["C03"])],
    ensures=[
        C("failure_is_loud", "res is Err ==> final(report).msgs() > 0", ["C03", "C18"]),
        C("a_rejected_command_line_writes_nothing", "command_of(args@) is None ==> res is Err && final(fileserver).written() == old(fileserver).written()", ["C18"]),
        C("help_and_version_write_nothing", "command_of(args@) is Some && (%s.show_help || %s.show_version) ==> res is Ok && final(fileserver).written() == old(fileserver).written()" % (CMD, CMD), ["C18"]),
        C("an_accepted_one_writes_exactly_the_files_of_its_groups", "res is Ok && !%s.show_help && !%s.show_version ==> (res->Ok_0).output is Some && (res->Ok_0).decls is Some && final(fileserver).written() == old(fileserver).written() + "
          "group_files(%s.output_groups@, %s.output_groups@.len() as int, (res->Ok_0).output->0, ((res->Ok_0).decls->0).symbols)" % (CMD, CMD, CMD, CMD), ["C18", "C03"]),
    ])

UNIT = Unit(
    "U-dispatch", "u_dispatch/skeleton.rs",
    items=stubs + [r_error, Type(FA, "struct", "AssemblyResult", slot="asm"), assemble, result_new, Type(FD, "enum", "OutputFormat", slot="driver", derive="Clone, Copy"), Type(FD, "struct", "Command", slot="driver"), Type(FD, "struct", "CommandOutput", slot="driver"), print_usage, print_vs, print_vf, format_output, with_command, parse_command, drive],
    serves=["C18", "C11", "C12", "C03"],
    description="driver::format_output: which formatter renders which output format, with which parameters",
)
