from vfw.spec import Unit, Fn, Type, Impl, C, Loop, Rewrite, Insert
from units.u_resolver import unit as ur
from units.u_symbols import unit as us
from units.u_collect import unit as uco

FEV = "src/asm/resolver/eval.rs"
FX = "src/expr/eval.rs"

SYMS = [it for it in us.UNIT.items if getattr(it, "mode", "") == "type" and it.name.startswith("Symbol")] + [
    Type("src/asm/decls/mod.rs", "struct", "ItemDecls", slot="asm"),
    us.get.as_stub("util"), us.get_by_name.as_stub("util"), us.try_get_by_name.as_stub("util"), us.get_displayable_name.as_stub("util"),
]

QREP = "query.report"
eval_builtin_symbol = Fn(FEV, "eval_builtin_symbol", slot="resolver", mode="stub", ret="res", key="eval_builtin_symbol",
    ensures=[
        C("some_iff_builtin_name", "res is Ok ==> (res->Ok_0 is Some) == is_builtin_name(name@)"),
        C("err_is_loud", "res is Err ==> final(query).report.msgs() > old(query).report.msgs()"),
        C("ok_is_clean", "res is Ok ==> final(query).report.msgs() == old(query).report.msgs() && final(query).report.errors() == old(query).report.errors()"),
        C("parents_balanced", "final(query).report.parents() == old(query).report.parents()"),
        C("query_kept", "final(query).hierarchy_level == old(query).hierarchy_level && final(query).hierarchy == old(query).hierarchy && final(query).span == old(query).span"),
    ])

PLAIN_BUILTIN = "(query.hierarchy_level == 0 && query.hierarchy@.len() == 1 && is_builtin_name(query.hierarchy@[0]@))"
TARGET = "lookup_target(decls, ctx.symbol_ctx.hierarchy@, old(query).hierarchy_level, old(query).hierarchy@)"
eval_variable = Fn(FEV, "eval_variable", slot="resolver", ret="res", key="eval_variable", props=["C15", "C03"],
    requires=[
        C("path_nonempty", "old(query).hierarchy@.len() >= 1", ["C03"]),
        C("table_wf", "decls.symbols.wf()", ["C03"]),
        C("every_declared_symbol_is_defined", "forall|i: int| 0 <= i < decls.symbols.decls@.len() ==> i < defs.symbols.defs@.len() && #[trigger] defs.symbols.defs@[i] is Some", ["C03"]),
    ],
    ensures=[
        C("err_is_loud", "res is Err ==> final(query).report.msgs() > old(query).report.msgs()", ["C03", "C15"]),
        C("a_reference_is_its_declarations_value", "res is Ok && !%s ==> %s is Some && res->Ok_0 == defs.symbols.defs@[(%s->0).0 as int]->0.value" % (PLAIN_BUILTIN.replace("query.", "old(query)."), TARGET, TARGET), ["C15"]),
        C("undeclared_name_is_an_error", "!%s && %s is None ==> res is Err" % (PLAIN_BUILTIN.replace("query.", "old(query)."), TARGET), ["C15"]),
        C("unknown_value_when_guessing_is_forbidden_is_an_error", "res is Ok && !%s && ctx.is_last_iteration ==> !(res->Ok_0 is Unknown)" % PLAIN_BUILTIN.replace("query.", "old(query)."), ["C02"]),
    ],
)

maybe_get = Fn("src/asm/defs/mod.rs", "maybe_get", impl="<T> DefList<T>", impl_header="<T> DefList<T>", slot="asm", ret="res", key="DefList::maybe_get", props=["C03"],
    ensures=[C("item_or_none", "(match res { Some(x) => item_ref.0 < self.defs@.len() && self.defs@[item_ref.0 as int] == Some(*x), None => item_ref.0 >= self.defs@.len() || self.defs@[item_ref.0 as int] is None })", ["C03"])])

GTARGET = "lookup_target(decls, Seq::<String>::empty(), old(query).hierarchy_level, old(query).hierarchy@)"
eval_variable_certain = Fn(FEV, "eval_variable_certain", slot="resolver", ret="res", key="eval_variable_certain", props=["C15", "C03"],
    closures={1: ("|s: &asm::Symbol| -> (r: expr::Value)\n            ensures r == s.value\n       ", "")},
    requires=[C("path_nonempty", "old(query).hierarchy@.len() >= 1", ["C03"]), C("table_wf", "decls.symbols.wf()", ["C03"]),
 ],
    ensures=[
        C("err_is_loud", "res is Err ==> final(query).report.msgs() > old(query).report.msgs()", ["C03", "C15"]),
        C("never_unknown", "res is Ok ==> !(res->Ok_0 is Unknown)", ["C15"]),
        C("a_reference_is_its_declarations_value", "res is Ok ==> %s is Some && (%s->0).0 < defs.symbols.defs@.len() && defs.symbols.defs@[(%s->0).0 as int] is Some && res->Ok_0 == defs.symbols.defs@[(%s->0).0 as int]->0.value" % (GTARGET, GTARGET, GTARGET, GTARGET), ["C15"]),
        C("undeclared_name_is_an_error", "%s is None ==> res is Err" % GTARGET, ["C15"]),
        C("a_dotted_path_is_never_the_address", "%s is Some && (%s->0).0 < defs.symbols.defs@.len() && defs.symbols.defs@[(%s->0).0 as int] is Some && !(defs.symbols.defs@[(%s->0).0 as int]->0.value is Unknown)"
          " && !(old(query).hierarchy_level == 0 && old(query).hierarchy@.len() == 1) ==> res is Ok" % (GTARGET, GTARGET, GTARGET, GTARGET), ["C15"]),
    ],
)

eval_variable_simple = Fn(FEV, "eval_variable_simple", slot="resolver", ret="res", key="eval_variable_simple", props=["C15", "C03"],
    requires=[C("path_nonempty", "query.hierarchy@.len() >= 1", ["C03"]), C("table_wf", "decls.symbols.wf()", ["C03"]),
 ],
    ensures=[
        C("never_fails", "res is Ok", ["C03"]),
        C("a_known_reference_is_its_declarations_value", "!(res->Ok_0 is Unknown) ==> %s is Some && (%s->0).0 < defs.symbols.defs@.len() && defs.symbols.defs@[(%s->0).0 as int] is Some && res->Ok_0 == defs.symbols.defs@[(%s->0).0 as int]->0.value" % (GTARGET, GTARGET, GTARGET, GTARGET), ["C15"]),
        C("a_dotted_path_is_never_the_address", "%s is Some && (%s->0).0 < defs.symbols.defs@.len() && defs.symbols.defs@[(%s->0).0 as int] is Some && !(old(query).hierarchy_level == 0 && old(query).hierarchy@.len() == 1)"
          " ==> res->Ok_0 == defs.symbols.defs@[(%s->0).0 as int]->0.value" % (GTARGET, GTARGET, GTARGET, GTARGET), ["C15"]),
    ],
    closures={1: ("|s: util::ItemRef<asm::Symbol>| -> (r: Option<&asm::Symbol>)\n            ensures (match r { Some(x) => s.0 < defs.symbols.defs@.len() && defs.symbols.defs@[s.0 as int] == Some(*x), None => s.0 >= defs.symbols.defs@.len() || defs.symbols.defs@[s.0 as int] is None })\n       ", "")},
)

check_unused_defines = Fn("src/asm/mod.rs", "check_unused_defines", slot="asm", ret="res", key="check_unused_defines", props=["C16", "C03"],
    requires=[C("table_wf", "decls.symbols.wf()", ["C03"])],
    ensures=[
        C("a_define_that_names_no_declared_constant_is_an_error", "(res is Err) == crate::asm::resolver::some_define_unused(decls, opts.driver_symbol_defs@, opts.driver_symbol_defs@.len() as int)", ["C16"]),
        C("err_is_loud", "res is Err ==> final(report).msgs() > old(report).msgs()", ["C03", "C16"]),
        C("ok_is_clean", "res is Ok ==> final(report).msgs() == old(report).msgs()", ["C03"]),
    ],
    rewrites=[Rewrite(r"symbol_def\.name\s*\.split\(\"\.\"\)\s*\.collect::<Vec<_>>\(\)", "crate::asm::resolver::verif_split_dots(&symbol_def.name)", regex=True, rule="R16",
                      why="`split(\".\").collect()` -> prelude wrapper; the components are an uninterpreted function of the name")],
    for_to_while=[1],
    loops={1: Loop(invariant=[
        C("vec", "verif_vec_1@ == opts.driver_symbol_defs@ && verif_next_1 <= verif_vec_1@.len() && decls.symbols.wf()"),
        C("messages", "report.msgs() >= old(report).msgs() && (had_error ==> report.msgs() > old(report).msgs()) && (!had_error ==> report.msgs() == old(report).msgs())"),
        C("error_iff_an_earlier_define_is_unused", "had_error == crate::asm::resolver::some_define_unused(decls, opts.driver_symbol_defs@, verif_next_1 as int)"),
    ], decreases="verif_vec_1@.len() - verif_next_1")},
)

UNIT = Unit(
    "U-evalvar", "u_evalvar/skeleton.rs",
    items=ur.COMMON + SYMS + [
        Type(FX, "struct", "EvalVariableQuery", slot="expr"),
        ur.can_guess.as_stub("resolver"), ur.eval_address.as_stub("resolver"),
        uco.new_global, maybe_get, eval_builtin_symbol, eval_variable, eval_variable_certain, eval_variable_simple, check_unused_defines,
    ],
    serves=["C15", "C03", "C16"],
    description="asm::resolver::eval_variable: what a symbol reference evaluates to",
)
