        /// names the resolver answers itself (`$`, `pc`, the built-in functions); left uninterpreted
        pub uninterp spec fn is_builtin_name(name: Seq<char>) -> bool;
        /// the declaration a reference resolves to under the level rule of C15 (proved for try_get_by_name / get_by_name)
        pub open spec fn lookup_target(decls: &asm::ItemDecls, scope: Seq<String>, level: usize, path: Seq<String>) -> Option<util::ItemRef<asm::Symbol>> {
            if level > scope.len() { None }
            else { decls.symbols.spec_traverse(decls.symbols.spec_parent(None, crate::symspec::texts(scope.subrange(0, level as int))), crate::symspec::texts(path)) }
        }
        /// std gap (ASSUMED): `String::as_ref::<str>` is the string's own text
        pub assume_specification[ <std::string::String as std::convert::AsRef<str>>::as_ref ](s: &std::string::String) -> (r: &str)
            ensures r@ == s@;
        /// std gap (ASSUMED): `Option<Option<T>>::flatten`
        pub assume_specification<T>[ Option::<Option<T>>::flatten ](o: Option<Option<T>>) -> (r: Option<T>)
            ensures r == (match o { Some(inner) => inner, None => None::<T> });
        /// R16 helper: `NAME.split(".").collect::<Vec<_>>()`; the components are left uninterpreted
        pub uninterp spec fn split_dots<'a>(name: &'a String) -> Seq<&'a str>;
        #[verifier::external_body]
        pub fn verif_split_dots<'a>(name: &'a String) -> (r: Vec<&'a str>)
            ensures r@ == split_dots(name)
        { unimplemented!() }
        /// the declaration a command-line define names (a global dotted path)
        pub open spec fn define_target(decls: &asm::ItemDecls, name: &String) -> Option<util::ItemRef<asm::Symbol>> {
            decls.symbols.spec_traverse(decls.symbols.spec_parent(None, Seq::empty()), crate::symspec::texts(split_dots(name)))
        }
        /// one of the first n command-line defines names no declaration
        /// the define names a declared CONSTANT (C16: "a define that names no declared constant is an error")
        pub open spec fn names_a_constant(decls: &asm::ItemDecls, name: &String) -> bool {
            define_target(decls, name) is Some && decls.symbols.decls@[(define_target(decls, name)->0).0 as int].kind is Constant
        }
        pub open spec fn some_define_unused(decls: &asm::ItemDecls, defines: Seq<asm::DriverSymbolDef>, n: int) -> bool decreases n {
            n > 0 && (some_define_unused(decls, defines, n - 1) || !names_a_constant(decls, &defines[n - 1].name))
        }
