//@@INCLUDE _shared/header.rs
//@@INCLUDE _shared/ispec.rs
//@@INCLUDE _shared/num_bigint.rs
/// stand-in for std::fmt::Formatter (R38): a ghost record of the text written so far.  ASSUMED: num-bigint's
/// `LowerHex::fmt` appends an uninterpreted function of the VALUE (`lower_hex`: sign and magnitude digits, as its
/// documentation says) and nothing else; flags of the formatter (width, `#`) are not modelled
pub mod verif_std {
    pub mod fmt {
        use vstd::prelude::*;
        verus! {
        #[verifier::external_body]
        pub struct Formatter { _p: u8 }
        pub struct Error;
        impl Formatter { pub uninterp spec fn text(&self) -> Seq<char>; }
        pub uninterp spec fn lower_hex(v: int) -> Seq<char>;
        }
    }
}
pub mod util {
    use vstd::prelude::*;
    use crate::*;
    use crate::verif_std::fmt::*;
    verus! {
    impl num_bigint::BigInt {
        #[verifier::external_body]
        pub fn fmt(&self, f: &mut Formatter) -> (r: Result<(), Error>)
            ensures r is Ok ==> final(f).text() == old(f).text() + lower_hex(self@), r is Err ==> final(f).text() == old(f).text()
        { unimplemented!() }
    }
    impl BigInt { pub open spec fn val(&self) -> int { self.bigint@ } }
    //@@ITEMS util
    }
}
