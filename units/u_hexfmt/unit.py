from vfw.spec import Unit, Fn, Type, Impl, C, Loop, Rewrite, Insert

F = "src/util/bigint.rs"
fmt = Fn(F, "fmt", impl="std::fmt::LowerHex for BigInt", impl_header="BigInt", slot="util", ret="res", key="BigInt::fmt(LowerHex)", props=["C12"],
    ensures=[C("prints_the_value_as_num_bigint_prints_it_sign_and_magnitude", "res is Ok ==> final(f).text() == old(f).text() + lower_hex(self.val())", ["C12"]),
             C("a_failed_write_adds_nothing", "res is Err ==> final(f).text() == old(f).text()", ["C12"])],
    sig_rewrites=[Rewrite("std::fmt::", "verif_std::fmt::", count=None, rule="R38", why="std::fmt -> stand-in module (a ghost record of the text written)")])

UNIT = Unit(
    "U-hexfmt", "u_hexfmt/skeleton.rs",
    items=[Type(F, "struct", "BigInt", slot="util"), fmt],
    serves=["C12"],
    description="impl LowerHex for util::BigInt: the hexadecimal text of a symbol value is num-bigint's text of the VALUE",
)
