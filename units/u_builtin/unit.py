from vfw.spec import Unit, Fn, Type, Impl, C, Loop, Rewrite, Insert
from units import contracts_bigint as cb
from units.contracts_report import report_fns
from units.u_resolver import unit as ur
from units.u_constrain import unit as ucn
from units.u_incl import unit as ui
from units.u_evalfn import unit as uef
from units.u_eval import unit as uev

F = "src/expr/builtin_fn.rs"
FE = "src/expr/expression.rs"
FX = "src/expr/eval.rs"
RF = "src/diagn/report.rs"
FBI = "src/util/bigint.rs"

QL = [C("err_is_loud", "res is Err ==> final(query).report.msgs() > old(query).report.msgs()", ["C03", "C05"]),
      C("parents_balanced", "final(query).report.parents() == old(query).report.parents()", ["C03"])]
ARG0 = "old(query).args@[0].value"

expect_bool = Fn(FE, "expect_bool", impl="Value", slot="expr", ret="res", key="Value::expect_bool", props=["C03"],
    ensures=ur.LOUD + [C("ok_iff_bool", "res is Ok <==> self is Bool", ["C03"]), C("the_bool", "res is Ok ==> res->Ok_0 == self->Bool_0", ["C03"])])
expect_sized_bigint = Fn(FE, "expect_sized_bigint", impl="Value", slot="expr", ret="res", key="Value::expect_sized_bigint", props=["C03", "C05"],
    ensures=ur.LOUD + [C("ok_iff_sized_integer", "res is Ok <==> (self is Integer && self->Integer_0.size is Some)", ["C05"]),
                       C("the_integer", "res is Ok ==> *res->Ok_0 == self->Integer_0", ["C05"])])
expect_sized_integerlike = Fn(FE, "expect_sized_integerlike", impl="Value", slot="expr", ret="res", key="Value::expect_sized_integerlike", props=["C03", "C05"],
    ensures=ur.LOUD + [C("ok_iff_sized_number", "res is Ok <==> ((self is Integer || self is String) && num_of(*self).size is Some)", ["C05"]),
                       C("the_number_and_its_size", "res is Ok ==> res->Ok_0.0 == num_of(*self) && num_of(*self).size == Some(res->Ok_0.1)", ["C05"])],
    rewrites=[Rewrite("self.coallesce_to_integer().get_bigint()", "verif_coalesced_bigint(self)", rule="R16",
                      why="`coallesce_to_integer()` returns a std::borrow::Cow (no vstd support) -> prelude wrapper for the chain; ASSUMED: the integer of an integer or of a string, None otherwise")])
msg_error_span = Fn(RF, "error_span", impl="Message", slot="diagn", mode="stub", ret="res", key="Message::error_span", ensures=[])
wrap_capped = Fn(RF, "wrap_in_parents_capped", impl="Report", slot="diagn", mode="stub", ret="res", key="Report::wrap_in_parents_capped", ensures=[])
make_string = Fn(FE, "make_string", impl="Value", slot="expr", mode="stub", ret="res", key="Value::make_string",
    ensures=[C("a_string", "res is String")])

sizeof = Fn(F, "eval_builtin_sizeof", slot="expr", ret="res", key="eval_builtin_sizeof", props=["C05", "C03"],
    ensures=QL + [
        C("the_size_of_its_argument", "res is Ok ==> old(query).args@.len() == 1 && numeric(%s) && num_of(%s).size is Some && is_int(res->Ok_0, num_of(%s).size->0 as int, None)" % (ARG0, ARG0, ARG0), ["C05"]),
        C("total_on_sized_numbers", "old(query).args@.len() == 1 && numeric(%s) && num_of(%s).size is Some ==> res is Ok" % (ARG0, ARG0), ["C05"]),
    ])
strlen = Fn(F, "eval_builtin_strlen", slot="expr", ret="res", key="eval_builtin_strlen", props=["C05", "C03"],
    ensures=QL + [
        C("the_byte_length_of_the_text", "res is Ok ==> old(query).args@.len() == 1 && %s is String && is_int(res->Ok_0, utf8_len(%s->String_0.utf8_contents@) as int, None)" % (ARG0, ARG0), ["C05"]),
        C("total_on_strings", "old(query).args@.len() == 1 && %s is String ==> res is Ok" % ARG0, ["C05"]),
    ],
    rewrites=[Rewrite("s.utf8_contents.len()", "verif_string_len(&s.utf8_contents)", rule="R16", why="String::len (byte length; no vstd specification of its value) -> prelude wrapper returning the uninterpreted utf8_len of the text")])
le = Fn(F, "eval_builtin_le", slot="expr", ret="res", key="eval_builtin_le", props=["C05", "C03"],
    ensures=QL + [
        C("the_bytes_in_the_opposite_order", "res is Ok ==> old(query).args@.len() == 1 && %s is Integer && %s->Integer_0.size is Some && %s->Integer_0.size->0 %% 8 == 0"
          " && res->Ok_0 is Integer && (%s->Integer_0.fits_size() ==> util::le_swapped(%s->Integer_0, res->Ok_0->Integer_0))" % (ARG0, ARG0, ARG0, ARG0, ARG0), ["C05"]),
        C("a_size_that_is_not_whole_bytes_is_an_error", "old(query).args@.len() == 1 && %s is Integer && %s->Integer_0.size is Some && %s->Integer_0.size->0 %% 8 != 0 ==> res is Err" % (ARG0, ARG0, ARG0), ["C05"]),
    ])
assert_ = Fn(F, "eval_builtin_assert", slot="expr", ret="res", key="eval_builtin_assert", props=["C05", "C03"],
    ensures=QL + [
        C("void_when_it_holds_failed_constraint_when_not", "res is Ok ==> %s is Bool && (if %s->Bool_0 { res->Ok_0 is Void } else { res->Ok_0 is FailedConstraint })" % (ARG0, ARG0), ["C05"]),
    ],
    rewrites=[Rewrite(r"format!\(\s*\"assertion failed: \{\}\",\s*((?:[^()]|\((?:[^()]|\((?:[^()]|\([^()]*\))*\))*\))*?)\)", r'verif_fmt_str("assertion failed: {}", &\1)', regex=True, rule="R22",
                      why="format! -> wrapper (text an uninterpreted function of literal and argument)")])
encoding = Fn(F, "eval_builtin_string_encoding", slot="expr", ret="res", key="eval_builtin_string_encoding", props=["C05", "C03"],
    ensures=QL + [C("a_string_from_a_string", "res is Ok ==> old(query).args@.len() == 1 && %s is String && res->Ok_0 is String" % ARG0, ["C05"])])

BASE = [it for it in uev.UNIT.items if getattr(it, "key", None) not in ("Expr::eval_with_ctx", "eval_builtin_fn")]
UNIT = Unit(
    "U-builtin", "u_eval/skeleton.rs",
    items=BASE + [
        uef.ensure_arg_number.as_stub("expr"), ui.ensure_min_max.as_stub("expr"), ui.expect_string.as_stub("expr"),
        ur.expect_bigint_v.as_stub("expr"), expect_bool, expect_sized_bigint, expect_sized_integerlike, msg_error_span, wrap_capped, make_string,
        sizeof, strlen, le, assert_, encoding,
    ],
    serves=["C05", "C03"],
    description="expr built-in functions: sizeof, strlen, le, assert, the string encodings' entry point",
)
