from vfw.spec import Unit, Fn, Type, Impl, C, Loop, Rewrite, Insert
from units.contracts_report import report_fns, F as RF
from units import contracts_walker as cw

F = "src/expr/parser.rs"
FE = "src/expr/expression.rs"
FW = "src/syntax/walker.rs"
FT = "src/syntax/token.rs"
FX = "src/syntax/excerpt.rs"
FS = "src/diagn/span.rs"
PI = "<'a, 'src> ExpressionParser<'a, 'src>"
WI = "<'src> Walker<'src>"
P = ["C05", "C19", "C03"]

# ---- assumed contracts of the token walker (stream model, see skeleton; proved for the real walker in U-walker)
_w = cw.walker_fns("stub", "syntax")
w_maybe_expect, w_expect, w_next_linebreak, w_maybe_expect_linebreak = _w["maybe_expect"], _w["expect"], _w["next_linebreak"], _w["maybe_expect_linebreak"]
w_next_useful_is, w_next_nth_useful, w_cursor_span = _w["next_useful_is"], _w["next_nth_useful_token"], _w["get_cursor_span"]
w_span_excerpt = Fn(FW, "get_span_excerpt", impl=WI, slot="syntax", mode="stub", ret="res", key="Walker::get_span_excerpt",
    requires=[cw.INV_PRE],
    ensures=[C("the_text_under_the_span", "res@ == text_at(self.src(), span)")])
x_bigint = Fn(FX, "excerpt_as_bigint", slot="syntax", mode="stub", ret="res", key="excerpt_as_bigint",
    ensures=[C("number", "(match res { Ok(v) => number_of(span, excerpt@) == Some(v), Err(_) => number_of(span, excerpt@) is None })"),
             C("loud", "report is Some ==> (res is Err ==> final(report->0).msgs() > old(report->0).msgs()) && final(report->0).msgs() >= old(report->0).msgs()")])
x_string = Fn(FX, "excerpt_as_string_contents", slot="syntax", mode="stub", ret="res", key="excerpt_as_string_contents",
    ensures=[C("string", "(match res { Ok(v) => string_of(span, excerpt@) == Some(v@), Err(_) => string_of(span, excerpt@) is None })"),
             C("loud", "(res is Err ==> final(report).msgs() > old(report).msgs()) && final(report).msgs() >= old(report).msgs()")])
span_join = Fn(FS, "join", impl="Span", slot="diagn", mode="stub", ret="res", key="Span::join", ensures=[C("join", "res == crate::expr::join(*self, other)")])
span_dummy = Fn(FS, "new_dummy", impl="Span", slot="diagn", mode="stub", ret="res", key="Span::new_dummy", ensures=[C("dummy", "res == crate::expr::dummy()")])
expr_span = Fn(FE, "span", impl="Expr", slot="expr", mode="stub", ret="res", key="Expr::span", ensures=[C("the_first_span", "res == sspan(view_of(*self))")])
r_error_span = Fn(RF, "error_span", impl="Report", slot="diagn", mode="stub", key="Report::error_span",
    ensures=[C("one_more_message_at_the_span", "final(self).msgs() == old(self).msgs() + 1 && crate::expr::err_span(final(self)) == span")])
msg_error_span = Fn(RF, "error_span", impl="Message", slot="diagn", mode="stub", ret="res", key="Message::error_span")
r_dedup = Fn(RF, "message_with_parents_dedup", impl="Report", slot="diagn", mode="stub", key="Report::message_with_parents_dedup",
    ensures=[C("one_more_message", "final(self).msgs() == old(self).msgs() + 1")])

# ---- the parser
def sp(name, *args):
    return "%s(src_of(*old(self)), %sws_of(*old(self)), d_of(*old(self)))" % (name, "".join(a + ", " for a in args))
DEPTH = C("nesting_within_the_limit", "old(self).recursion_depth <= 50 && old(self).walker.inv()", ["C19"])
def out(spec, props=P):
    return C("agrees_with_the_reference_grammar", "outcome(*old(self), *final(self), res, %s)" % spec, props)
def closure(spec_on_s):
    return ("|s: &mut ExpressionParser<'a, 'src>| -> (r: Result<Expr, ()>)\n            requires old(s).recursion_depth <= 50 && old(s).walker.inv()\n"
            "            ensures outcome(*old(s), *final(s), r, %s)\n       " % spec_on_s, "")
def sps(name, *args):
    return "%s(src_of(*old(s)), %sws_of(*old(s)), d_of(*old(s)))" % (name, "".join(a + ", " for a in args))
MODPATH = [Rewrite("syntax::TokenKind::", "TokenKind::", count=None, rule="R6", why="module path"), Rewrite("expr::", "", count=None, rule="R6", why="module path (the unit's module is `expr`)")]

def pfn(name, spec, mode="verify", **kw):
    kw.setdefault("rewrites", [])
    kw["rewrites"] = MODPATH + kw["rewrites"]
    return Fn(F, name, impl=PI, impl_header=PI, slot="expr", ret="res", key="ExpressionParser::" + name, props=P, mode=mode,
              requires=[DEPTH] + kw.pop("requires", []), ensures=[out(spec)] + kw.pop("ensures", []),
              attrs=["#[verifier::exec_allows_no_decreases_clause]"] if mode == "verify" else [], **kw)

check_limit = Fn(F, "check_recursion_limit", impl=PI, impl_header=PI, slot="expr", ret="res", key="ExpressionParser::check_recursion_limit", props=["C19", "C03"],
    requires=[C("walker_invariant", "old(self).walker.inv()", ["C03"])],
    ensures=[C("limit_50", "res is Ok <==> old(self).recursion_depth <= 50", ["C19"]),
             C("loud_and_nothing_else_changes", "final(self).recursion_depth == old(self).recursion_depth && *final(self).walker == *old(self).walker"
               " && mut_ref_future(final(self).walker) == mut_ref_future(old(self).walker) && mut_ref_future(final(self).report) == mut_ref_future(old(self).report)"
               " && (if res is Ok { *final(self).report == *old(self).report } else { final(self).report.msgs() > old(self).report.msgs() })", ["C03", "C19"])],
    rewrites=MODPATH)
parse_expr = pfn("parse_expr", sp("sp_expr"))
TABLE_OK = "forall|i: int| 0 <= i < ops@.len() ==> !ignorable((#[trigger] ops@[i]).0)"
INNER_REQ = "forall|p: &mut ExpressionParser<'a, 'src>| (*p).recursion_depth <= 50 && (*p).walker.inv() ==> #[trigger] call_requires(parse_inner, (p,))"
def inner_ens(spec_on_p):
    return "forall|p: &mut ExpressionParser<'a, 'src>, r: Result<Expr, ()>| #[trigger] call_ensures(parse_inner, (p,), r) ==> outcome(*p, *final(p), r, %s)" % spec_on_p
def spp(name, *args):
    return "%s(src_of(*p), %sws_of(*p), d_of(*p))" % (name, "".join(a + ", " for a in args))

# the op search loop shared by the two binary helpers
def op_search(k, table):
    return Loop(invariant_except_break=[
        C("no_earlier_entry_matches", "op_match is None && find_op(ops@, hd_kind(verif_ws), 0) == find_op(ops@, hd_kind(verif_ws), verif_next_%d as int)" % k),
        C("nothing_taken_yet", "*self.walker == verif_w0 && self.walker.stream() == verif_ws && verif_w0.inv()"),
    ], invariant=[
        C("cursor", "verif_next_%d <= verif_vec_%d@.len() && verif_vec_%d@ == ops@ && ops@ == %s" % (k, k, k, table)),
        C("frame", "self.walker.inv() && self.recursion_depth == verif_depth && *self.report == verif_report && mut_ref_future(self.walker) == verif_fw && mut_ref_future(self.report) == verif_fr"),
    ], ensures=[
        C("the_first_matching_entry_is_taken", "(match op_match { Some(m) => verif_ws.len() > 0 && find_op(ops@, hd_kind(verif_ws), 0) == Some(m.1) && m.0 == verif_ws[0].tok.span && self.walker.stream() == tl(verif_ws) && self.walker.src() == verif_w0.src(),"
          " None => find_op(ops@, hd_kind(verif_ws), 0) is None && *self.walker == verif_w0 })"),
    ], decreases="verif_vec_%d@.len() - verif_next_%d" % (k, k))
SEARCH_GHOSTS = ("let ghost verif_ws = self.walker.stream(); let ghost verif_w0 = *self.walker; let ghost verif_depth = self.recursion_depth; let ghost verif_report = *self.report;"
                 " let ghost verif_fw = mut_ref_future(self.walker); let ghost verif_fr = mut_ref_future(self.report);\n\t\t")

parse_ternary = pfn("parse_ternary_conditional", sp("sp_ternary"),
    inserts=[Insert("let cond = self.parse_assignment()?;", "proof { assert(views(Seq::<Expr>::empty()) =~= Seq::<SExpr>::empty()); }\n\t\t", where="before")])
parse_assignment = pfn("parse_assignment", sp("sp_assign"),
    closures={1: closure(sps("sp_bin", "0"))},
    inserts=[Insert("self.parse_right_associative_binary_ops(", "proof { lemma_level_of(0); lemma_tables_useful(); }\n\t\t", where="before")])
right_assoc = pfn("parse_right_associative_binary_ops", sp("sp_assign"),
    requires=[C("the_assignment_table", "same_table(assign_table(), ops@)"), C("closure_callable", INNER_REQ), C("inner_is_the_concat_level", inner_ens(spp("sp_bin", "0")))],
    for_to_while=[1],
    rewrites=[Rewrite("let mut op_match = None;", "let mut op_match: Option<(Span, BinaryOp)> = None;", rule="R10", why="type ascription (the loop contract mentions the variable before inference has fixed its type)")],
    inserts=[Insert("let mut op_match: Option<(Span, BinaryOp)> = None;", SEARCH_GHOSTS + "proof { lemma_tables_useful(); assert(ops@ =~= assign_table()); }\n\t\t", where="before")],
    loops={1: op_search(1, "assign_table()")})
LEVELS = ["parse_concat", "parse_lazy_or", "parse_lazy_and", "parse_relational", "parse_binary_or", "parse_binary_xor", "parse_binary_and", "parse_shifts", "parse_addition", "parse_multiplication"]
level_fns = []
for k, name in enumerate(LEVELS):
    level_fns.append(pfn(name, sp("sp_bin", str(k)),
        closures={1: closure(sps("sp_bin", str(k + 1)))},
        inserts=[Insert("self.parse_binary_ops(", "proof { lemma_level_of(%d); lemma_tables_useful(); }\n\t\t" % k, where="before")]))
binary_ops = pfn("parse_binary_ops", sp("sp_bin", "level_of(ops@)"),
    requires=[C("a_table_of_the_grammar", "is_bin_table(ops@)"), C("closure_callable", INNER_REQ), C("inner_is_the_next_tighter_level", inner_ens(spp("sp_bin", "level_of(ops@) + 1")))],
    for_to_while=[2],
    rewrites=[Rewrite("let mut op_match = None;", "let mut op_match: Option<(Span, BinaryOp)> = None;", rule="R10", why="type ascription (the loop contract mentions the variable before inference has fixed its type)")],
    inserts=[Insert("let mut lhs = parse_inner(self)?;", "let ghost verif_k = level_of(ops@);\n\t\tproof { assert(0 <= verif_k < 10 && bin_table(verif_k) == ops@); lemma_tables_useful(); }\n\t\t", where="before"),
             Insert("let mut op_match: Option<(Span, BinaryOp)> = None;", SEARCH_GHOSTS, where="before")],
    loops={1: Loop(invariant=[
               C("the_chain_so_far", "sp_chain(src_of(*old(self)), verif_k, view_of(lhs), self.walker.stream(), d_of(*old(self))) == sp_bin(src_of(*old(self)), verif_k, ws_of(*old(self)), d_of(*old(self)))"),
               C("frame", "verif_k == level_of(ops@) && 0 <= verif_k < 10 && bin_table(verif_k) == ops@ && self.walker.inv() && self.walker.src() == src_of(*old(self)) && self.recursion_depth == old(self).recursion_depth && old(self).recursion_depth <= 50 && self.walker.stream().len() < ws_of(*old(self)).len() && self.report.msgs() >= old(self).report.msgs()"
                          " && mut_ref_future(self.walker) == mut_ref_future(old(self).walker) && mut_ref_future(self.report) == mut_ref_future(old(self).report)"),
               C("closure_callable", INNER_REQ), C("inner_is_the_next_tighter_level", inner_ens(spp("sp_bin", "verif_k + 1"))),
           ], ensures=[C("the_chain_is_complete", "sp_bin(src_of(*old(self)), verif_k, ws_of(*old(self)), d_of(*old(self))) == PRes::Good(view_of(lhs), self.walker.stream())")]),
           2: op_search(2, "bin_table(verif_k)")})
FRAME = ("self.walker.inv() && self.walker.src() == src_of(*old(self)) && self.recursion_depth == old(self).recursion_depth && old(self).recursion_depth <= 50 && self.report.msgs() >= old(self).report.msgs()"
         " && mut_ref_future(self.walker) == mut_ref_future(old(self).walker) && mut_ref_future(self.report) == mut_ref_future(old(self).report)")
SRC = "src_of(*old(self))"
D = "d_of(*old(self))"
WS0 = "ws_of(*old(self))"
parse_slice = pfn("parse_slice", sp("sp_slice"))
parse_slice_short = pfn("parse_slice_short", sp("sp_slice_short"))
parse_unary = pfn("parse_unary", sp("sp_unary"), closures={1: closure(sps("sp_call"))},
    inserts=[Insert("self.parse_unary_ops(", "proof { lemma_tables_useful(); }\n\t\t", where="before")])
unary_ops = pfn("parse_unary_ops", sp("sp_unary"),
    requires=[C("the_prefix_operator_table", "same_table(unary_table(), ops@)"), C("closure_callable", INNER_REQ), C("inner_is_the_call_level", inner_ens(spp("sp_call")))],
    for_to_while=[1],
    loops={1: Loop(before="\t\tproof { lemma_tables_useful(); assert(ops@ =~= unary_table()); }", invariant=[
        C("no_earlier_entry_matches", "verif_next_1 <= verif_vec_1@.len() && verif_vec_1@ == ops@ && ops@ == unary_table() && find_op(ops@, hd_kind(%s), 0) == find_op(ops@, hd_kind(%s), verif_next_1 as int)" % (WS0, WS0)),
        C("nothing_taken_yet", "old(self).walker.inv() && *self.walker == *old(self).walker && *self.report == *old(self).report && self.recursion_depth == old(self).recursion_depth && old(self).recursion_depth <= 50 && mut_ref_future(self.walker) == mut_ref_future(old(self).walker) && mut_ref_future(self.report) == mut_ref_future(old(self).report)"),
        C("closure_callable", INNER_REQ), C("inner_is_the_call_level", inner_ens(spp("sp_call"))),
    ], decreases="verif_vec_1@.len() - verif_next_1")})
VIEWS_PUSH = "proof { lemma_views_push(%s, %s); }"
parse_call = pfn("parse_call", sp("sp_call"),
    rewrites=[Rewrite("let mut args = Vec::new();", "let mut args: Vec<Expr> = Vec::new();", rule="R10", why="type ascription (the loop contract mentions the vector before inference has fixed its type)")],
    inserts=[Insert("let mut args: Vec<Expr> = Vec::new();", "let ghost verif_target = sp_args(%s, self.walker.stream(), %s, view_of(leaf), Seq::empty());\n\t\tproof { assert(views(Seq::<Expr>::empty()) =~= Seq::<SExpr>::empty()); }\n\t\t" % (SRC, D), where="after"),
             Insert("args.push(self.parse_expr()?);", "let ghost verif_a0 = args@;\n\t\t\t", where="before"),
             Insert("args.push(self.parse_expr()?);", "\n\t\t\tproof { lemma_views_push(verif_a0, args@[args@.len() - 1]); assert(args@ =~= verif_a0.push(args@[args@.len() - 1])); }", where="after")],
    loops={1: Loop(invariant=[
        C("the_argument_list_so_far", "sp_args(%s, self.walker.stream(), %s, view_of(leaf), views(args@)) == verif_target" % (SRC, D)),
        C("frame", FRAME + " && self.walker.stream().len() < %s.len() && verif_target == sp_call(%s, %s, %s)" % (WS0, SRC, WS0, D)),
    ], ensures=[C("a_closing_parenthesis_is_next", "hd_is(self.walker.stream(), TokenKind::ParenClose)")])})
parse_leaf = pfn("parse_leaf", sp("sp_leaf"),
    ensures=[C("expected_expression_is_reported_at_the_cursor", "!leaf_start(hd_kind(%s)) ==> res is Err && err_span(final(self).report) == old(self).walker.cursor_span()" % WS0, ["C13", "C03"])])
parse_block = pfn("parse_block", "(if hd_is(%s, TokenKind::BraceOpen) { sp_block(%s, tl(%s), %s, %s[0].tok.span, Seq::empty()) } else { PRes::Bad })" % (WS0, SRC, WS0, D, WS0),
    rewrites=[Rewrite("let mut exprs = Vec::new();", "let mut exprs: Vec<Expr> = Vec::new();", rule="R10", why="type ascription")],
    inserts=[Insert("let mut exprs: Vec<Expr> = Vec::new();", "let ghost verif_target = sp_block(%s, self.walker.stream(), %s, tk_open_span, Seq::empty());\n\t\tproof { assert(views(Seq::<Expr>::empty()) =~= Seq::<SExpr>::empty()); }\n\t\t" % (SRC, D), where="after"),
             Insert("exprs.push(self.parse_expr()?);", "let ghost verif_a0 = exprs@;\n\t\t\t", where="before"),
             Insert("exprs.push(self.parse_expr()?);", "\n\t\t\tproof { lemma_views_push(verif_a0, exprs@[exprs@.len() - 1]); assert(exprs@ =~= verif_a0.push(exprs@[exprs@.len() - 1])); }", where="after")],
    loops={1: Loop(invariant=[
        C("the_block_so_far", "sp_block(%s, self.walker.stream(), %s, tk_open_span, views(exprs@)) == verif_target" % (SRC, D)),
        C("frame", FRAME + " && self.walker.stream().len() < %s.len() && hd_is(%s, TokenKind::BraceOpen) && tk_open_span == %s[0].tok.span && verif_target == sp_block(%s, tl(%s), %s, %s[0].tok.span, Seq::empty())" % (WS0, WS0, WS0, SRC, WS0, D, WS0)),
    ], ensures=[C("a_closing_brace_is_next", "hd_is(self.walker.stream(), TokenKind::BraceClose)")])})
parse_paren = pfn("parse_parenthesized", "(if hd_is(%s, TokenKind::ParenOpen) { match sp_expr(%s, tl(%s), %s) { PRes::Bad => PRes::Bad, PRes::Good(e, w1) => if hd_is(w1, TokenKind::ParenClose) { PRes::Good(e, tl(w1)) } else { PRes::Bad } } } else { PRes::Bad })" % (WS0, SRC, WS0, D))
parse_variable = pfn("parse_variable", "sp_dots(%s, %s, dummy(), 0)" % (SRC, WS0),
    rewrites=[Rewrite(r"let mut hierarchy_level = (\w+);", r"let mut hierarchy_level: usize = \1;", regex=True, rule="R10", why="type ascription"),
              Rewrite("let mut hierarchy = Vec::new();", "let mut hierarchy: Vec<String> = Vec::new();", rule="R10", why="type ascription"),
              Rewrite("self.walker.get_span_excerpt(tk_name.span).to_string()", "verif_to_string(self.walker.get_span_excerpt(tk_name.span))", rule="R16", why="str::to_string -> prelude wrapper (the same text)")],
    inserts=[Insert("let mut hierarchy: Vec<String> = Vec::new();", "\n\t\tproof { assert(texts(Seq::<String>::empty()) =~= Seq::<Seq<char>>::empty()); }", where="after"),
             Insert("hierarchy.push(name);", "let ghost verif_h0 = hierarchy@;\n\t\t\t", where="before"),
             Insert("hierarchy.push(name);", "\n\t\t\tproof { assert(texts(hierarchy@) =~= texts(verif_h0).push(hierarchy@[hierarchy@.len() - 1]@)); }", where="after")],
    loops={1: Loop(invariant=[
               C("the_dots_so_far", "sp_dots(%s, self.walker.stream(), span, hierarchy_level as nat) == sp_dots(%s, %s, dummy(), 0)" % (SRC, SRC, WS0)),
               C("frame", FRAME + " && *self.report == *old(self).report && self.walker.stream().len() + hierarchy_level == %s.len() && (hierarchy_level > 0 ==> %s.len() < usize::MAX)" % (WS0, WS0)),
           ], ensures=[C("the_names_follow", "sp_dots(%s, %s, dummy(), 0) == sp_names(%s, self.walker.stream(), span, hierarchy_level as nat, Seq::empty())" % (SRC, WS0, SRC))]),
           2: Loop(invariant_except_break=[
               C("the_names_so_far", "sp_names(%s, self.walker.stream(), span, hierarchy_level as nat, texts(hierarchy@)) == sp_dots(%s, %s, dummy(), 0)" % (SRC, SRC, WS0)),
           ], invariant=[
               C("frame", FRAME + " && self.walker.stream().len() <= %s.len()" % WS0),
           ], ensures=[C("the_variable_is_complete", "sp_dots(%s, %s, dummy(), 0) == PRes::Good(SExpr::Var(span, hierarchy_level as nat, texts(hierarchy@)), self.walker.stream()) && self.walker.stream().len() < %s.len()" % (SRC, WS0, WS0))])})
def leaf_case(kind, good):
    return "(if hd_is(%s, TokenKind::%s) { %s } else { PRes::Bad })" % (WS0, kind, good)
TOK = WS0 + "[0].tok.span"
parse_number = pfn("parse_number", leaf_case("Number", "match number_of(%s, text_at(%s, %s)) { Some(v) => PRes::Good(SExpr::Int(%s, v), tl(%s)), None => PRes::Bad }" % (TOK, SRC, TOK, TOK, WS0)),
    rewrites=[Rewrite(r"syntax::excerpt_as_bigint\(\s*Some\(self\.report\),", "verif_excerpt_as_bigint_loud(self.report,", regex=True, rule="R16",
                      why="`excerpt_as_bigint(Some(report), ..)` -> prelude wrapper taking the report directly (Option<&mut Report> parameters cannot be given a contract); assumed: the value U-literal proves, and a diagnostic on every failure (each `return Err` there is preceded by `if let Some(report) = report { report.error_span(..) }`)")])
parse_true = pfn("parse_boolean_true", leaf_case("KeywordTrue", "PRes::Good(SExpr::Bool(%s, true), tl(%s))" % (TOK, WS0)))
parse_false = pfn("parse_boolean_false", leaf_case("KeywordFalse", "PRes::Good(SExpr::Bool(%s, false), tl(%s))" % (TOK, WS0)))
parse_string = pfn("parse_string", leaf_case("String", "match string_of(%s, text_at(%s, %s)) { Some(v) => PRes::Good(SExpr::Str(%s, v, \"utf8\"@), tl(%s)), None => PRes::Bad }" % (TOK, SRC, TOK, TOK, WS0)),
    rewrites=[Rewrite('"utf8".to_string()', 'verif_to_string("utf8")', rule="R16", why="str::to_string -> prelude wrapper (the same text)")])
parse_asm = pfn("parse_asm", sp("sp_asm"), mode="stub")
new_parser = Fn(F, "new", impl=PI, impl_header=PI, slot="expr", ret="res", key="ExpressionParser::new", props=P,
    ensures=[C("a_fresh_parser_over_the_same_report_and_walker", "*res.report == *old(report) && *res.walker == *old(walker) && mut_ref_future(res.report) == mut_ref_future(report) && mut_ref_future(res.walker) == mut_ref_future(walker) && res.recursion_depth == 0")])
TOP = "sp_expr(old(walker).src(), old(walker).stream(), 0)"
parse_top = Fn(F, "parse", slot="expr", ret="res", key="parser::parse", props=P,
    requires=[C("walker_invariant", "old(walker).inv()", ["C03"])],
    ensures=[C("agrees_with_the_reference_grammar", "final(walker).inv() && (match res { Ok(e) => %s == PRes::Good(view_of(e), final(walker).stream()), Err(_) => %s is Bad && final(report).msgs() > old(report).msgs() }) && final(report).msgs() >= old(report).msgs()" % (TOP, TOP), P)],
    rewrites=MODPATH)
report_new = Fn(RF, "new", impl="Report", slot="diagn", mode="stub", ret="res", key="Report::new")
parse_optional = Fn(F, "parse_optional", slot="expr", ret="res", key="parser::parse_optional", props=["C05", "C19"],
    requires=[C("walker_invariant", "old(walker).inv()", ["C03"])],
    ensures=[C("agrees_with_the_reference_grammar", "final(walker).inv() && (match res { Some(e) => %s == PRes::Good(view_of(e), final(walker).stream()), None => %s is Bad })" % (TOP, TOP), ["C05", "C19"])],
    rewrites=MODPATH)

UNIT = Unit(
    "U-parser", "u_parser/skeleton.rs",
    items=[
        r_error_span, msg_error_span, r_dedup, report_new, span_join, span_dummy,
        Type(FT, "struct", "Token", slot="syntax", derive="drop"), Type(FT, "enum", "TokenKind", slot="syntax", derive="Clone, Copy"),
        w_maybe_expect, w_expect, w_next_linebreak, w_maybe_expect_linebreak, w_next_useful_is, w_next_nth_useful, w_cursor_span, w_span_excerpt, x_bigint, x_string,
        Type(FE, "enum", "Expr", slot="expr"), Type(FE, "enum", "Value", slot="expr"), Type(FE, "struct", "ExprString", slot="expr"),
        Type(FE, "enum", "UnaryOp", slot="expr", derive="Clone, Copy"), Type(FE, "enum", "BinaryOp", slot="expr", derive="Clone, Copy"),
        Type("src/expr/mod.rs", "const", "PARSE_RECURSION_DEPTH_MAX", slot="expr"),
        Type(F, "struct", "ExpressionParser", slot="expr"),
        expr_span, new_parser, check_limit, parse_expr, parse_ternary, parse_assignment, right_assoc, binary_ops] + level_fns + [parse_slice, parse_slice_short, parse_unary, unary_ops, parse_call, parse_leaf, parse_block, parse_paren, parse_variable, parse_number, parse_true, parse_false, parse_string, parse_asm, parse_top, parse_optional,
    ],
    serves=["C05", "C19", "C13", "C03"],
    carry_facts_into_loops=False,
    description="expr::parser: the precedence-climbing expression parser against a reference grammar over the stream of useful tokens (precedence, associativity, separators, nesting limit)",
)
