    // ---- C05 property text: the documented expression grammar as a reference parser over the stream of useful tokens.
    // Written from the documentation (precedence table, associativity, the separators of blocks and calls), not from
    // the code; the real parser must produce exactly this tree and leave exactly this rest of the stream.

    /// the tree an expression denotes (a view of expr::Expr without Box/Vec/String)
    pub ghost enum SExpr {
        Int(Span, util::BigInt),
        Bool(Span, bool),
        Str(Span, Seq<char>, Seq<char>),
        OtherLiteral(Span),
        Var(Span, nat, Seq<Seq<char>>),
        Un(Span, Span, UnaryOp, Box<SExpr>),
        Bin(Span, Span, BinaryOp, Box<SExpr>, Box<SExpr>),
        Tern(Span, Box<SExpr>, Box<SExpr>, Box<SExpr>),
        Slice(Span, Span, Box<SExpr>, Box<SExpr>, Box<SExpr>),
        SliceShort(Span, Span, Box<SExpr>, Box<SExpr>),
        Block(Span, Seq<SExpr>),
        Call(Span, Box<SExpr>, Seq<SExpr>),
        Asm(Span, asm::AstTopLevel),
    }
    pub open spec fn sspan(e: SExpr) -> Span {
        match e {
            SExpr::Int(s, _) => s, SExpr::Bool(s, _) => s, SExpr::Str(s, _, _) => s, SExpr::OtherLiteral(s) => s, SExpr::Var(s, _, _) => s,
            SExpr::Un(s, _, _, _) => s, SExpr::Bin(s, _, _, _, _) => s, SExpr::Tern(s, _, _, _) => s, SExpr::Slice(s, _, _, _, _) => s,
            SExpr::SliceShort(s, _, _, _) => s, SExpr::Block(s, _) => s, SExpr::Call(s, _, _) => s, SExpr::Asm(s, _) => s,
        }
    }
    pub open spec fn texts(v: Seq<String>) -> Seq<Seq<char>> { Seq::new(v.len(), |i: int| v[i]@) }
    pub open spec fn views(v: Seq<Expr>) -> Seq<SExpr> decreases v { Seq::new(v.len(), |i: int| if 0 <= i < v.len() { view_of(v[i]) } else { arbitrary() }) }
    pub open spec fn view_of(e: Expr) -> SExpr decreases e {
        match e {
            Expr::Literal(s, Value::Integer(b)) => SExpr::Int(s, b),
            Expr::Literal(s, Value::Bool(b)) => SExpr::Bool(s, b),
            Expr::Literal(s, Value::String(x)) => SExpr::Str(s, x.utf8_contents@, x.encoding@),
            Expr::Literal(s, _) => SExpr::OtherLiteral(s),
            Expr::Variable(s, level, names) => SExpr::Var(s, level as nat, texts(names@)),
            Expr::UnaryOp(s, os, op, a) => SExpr::Un(s, os, op, Box::new(view_of(*a))),
            Expr::BinaryOp(s, os, op, a, b) => SExpr::Bin(s, os, op, Box::new(view_of(*a)), Box::new(view_of(*b))),
            Expr::TernaryOp(s, c, t, f) => SExpr::Tern(s, Box::new(view_of(*c)), Box::new(view_of(*t)), Box::new(view_of(*f))),
            Expr::Slice(s, ss, l, r, x) => SExpr::Slice(s, ss, Box::new(view_of(*l)), Box::new(view_of(*r)), Box::new(view_of(*x))),
            Expr::SliceShort(s, ss, n, x) => SExpr::SliceShort(s, ss, Box::new(view_of(*n)), Box::new(view_of(*x))),
            Expr::Block(s, es) => SExpr::Block(s, views(es@)),
            Expr::Call(s, f, args) => SExpr::Call(s, Box::new(view_of(*f)), views(args@)),
            Expr::Asm(s, ast) => SExpr::Asm(s, ast),
        }
    }
    pub proof fn lemma_views_push(v: Seq<Expr>, e: Expr)
        ensures views(v.push(e)) =~= views(v).push(view_of(e))
    {
    }
    /// R16 helpers (ASSUMED): `str::to_string` copies the text; excerpt_as_bigint with a report (see the rule's note)
    #[verifier::external_body]
    pub fn verif_to_string(s: &str) -> (r: String) ensures r@ == s@ { unimplemented!() }
    #[verifier::external_body]
    pub fn verif_excerpt_as_bigint_loud(report: &mut diagn::Report, span: Span, excerpt: &str) -> (res: Result<util::BigInt, ()>)
        ensures
            (match res { Ok(v) => number_of(span, excerpt@) == Some(v) && *final(report) == *old(report), Err(_) => number_of(span, excerpt@) is None && final(report).msgs() > old(report).msgs() }),
    { unimplemented!() }
    /// spans: the smallest span covering both (diagn::Span::join; uninterpreted), and the dummy span
    pub uninterp spec fn join(a: Span, b: Span) -> Span;
    pub uninterp spec fn dummy() -> Span;

    pub ghost enum PRes { Good(SExpr, Seq<UTok>), Bad }

    /// the documented nesting limit of expressions
    pub open spec fn max_depth() -> nat { 50 }

    /// binary operators from the loosest (level 0) to the tightest (level 9); all left-associative
    pub open spec fn bin_table(k: int) -> Seq<(TokenKind, BinaryOp)> {
        if k == 0 { seq![(TokenKind::At, BinaryOp::Concat)] }
        else if k == 1 { seq![(TokenKind::DoubleVerticalBar, BinaryOp::LazyOr)] }
        else if k == 2 { seq![(TokenKind::DoubleAmpersand, BinaryOp::LazyAnd)] }
        else if k == 3 { seq![(TokenKind::DoubleEqual, BinaryOp::Eq), (TokenKind::ExclamationEqual, BinaryOp::Ne), (TokenKind::LessThan, BinaryOp::Lt),
                              (TokenKind::LessThanEqual, BinaryOp::Le), (TokenKind::GreaterThan, BinaryOp::Gt), (TokenKind::GreaterThanEqual, BinaryOp::Ge)] }
        else if k == 4 { seq![(TokenKind::VerticalBar, BinaryOp::Or)] }
        else if k == 5 { seq![(TokenKind::Circumflex, BinaryOp::Xor)] }
        else if k == 6 { seq![(TokenKind::Ampersand, BinaryOp::And)] }
        else if k == 7 { seq![(TokenKind::DoubleLessThan, BinaryOp::Shl), (TokenKind::DoubleGreaterThan, BinaryOp::Shr)] }
        else if k == 8 { seq![(TokenKind::Plus, BinaryOp::Add), (TokenKind::Minus, BinaryOp::Sub)] }
        else { seq![(TokenKind::Asterisk, BinaryOp::Mul), (TokenKind::Slash, BinaryOp::Div), (TokenKind::Percent, BinaryOp::Mod)] }
    }
    pub open spec fn assign_table() -> Seq<(TokenKind, BinaryOp)> { seq![(TokenKind::Equal, BinaryOp::Assign)] }
    pub open spec fn unary_table() -> Seq<(TokenKind, UnaryOp)> { seq![(TokenKind::Exclamation, UnaryOp::Not), (TokenKind::Minus, UnaryOp::Neg)] }
    /// the level a table belongs to
    pub open spec fn is_bin_table(t: Seq<(TokenKind, BinaryOp)>) -> bool { exists|k: int| 0 <= k < 10 && #[trigger] bin_table(k) == t }
    pub open spec fn level_of(t: Seq<(TokenKind, BinaryOp)>) -> int { choose|k: int| 0 <= k < 10 && #[trigger] bin_table(k) == t }
    /// two operator tables (of at most six entries) are the same, entry by entry
    pub open spec fn same_table<O>(a: Seq<(TokenKind, O)>, b: Seq<(TokenKind, O)>) -> bool {
        a.len() == b.len() && a.len() <= 6
        && (a.len() > 0 ==> a[0] == b[0]) && (a.len() > 1 ==> a[1] == b[1]) && (a.len() > 2 ==> a[2] == b[2])
        && (a.len() > 3 ==> a[3] == b[3]) && (a.len() > 4 ==> a[4] == b[4]) && (a.len() > 5 ==> a[5] == b[5])
    }
    pub proof fn lemma_level_of(k: int)
        requires 0 <= k < 10
        ensures forall|t: Seq<(TokenKind, BinaryOp)>| #![trigger is_bin_table(t)] #![trigger level_of(t)] same_table(bin_table(k), t) ==> is_bin_table(t) && level_of(t) == k
    {
        assert forall|t: Seq<(TokenKind, BinaryOp)>| same_table(bin_table(k), t) implies is_bin_table(t) && level_of(t) == k by {
            assert(bin_table(k) =~= t);
            let j = level_of(t);
            assert(0 <= j < 10 && bin_table(j) == t);
            assert(bin_table(j)[0] == bin_table(k)[0]);
        }
    }
    pub proof fn lemma_tables_useful()
        ensures
            forall|k: int, i: int| 0 <= k < 10 && 0 <= i < bin_table(k).len() ==> !syntax::ignorable((#[trigger] bin_table(k)[i]).0),
            forall|i: int| 0 <= i < assign_table().len() ==> !syntax::ignorable((#[trigger] assign_table()[i]).0),
            forall|i: int| 0 <= i < unary_table().len() ==> !syntax::ignorable((#[trigger] unary_table()[i]).0),
    {
    }
    /// the first entry of a table, from index i on, whose token kind is k
    pub open spec fn find_op<O>(t: Seq<(TokenKind, O)>, k: TokenKind, i: int) -> Option<O> decreases t.len() - i {
        if i < 0 || i >= t.len() { None } else if t[i].0 == k { Some(t[i].1) } else { find_op(t, k, i + 1) }
    }
    pub proof fn lemma_find_op_skip<O>(t: Seq<(TokenKind, O)>, k: TokenKind, i: int)
        requires 0 <= i <= t.len(), forall|j: int| 0 <= j < i ==> (#[trigger] t[j]).0 != k
        ensures find_op(t, k, 0) == find_op(t, k, i)
        decreases i
    {
        if i > 0 { lemma_find_op_skip(t, k, i - 1); }
    }
    pub open spec fn hd_kind(ws: Seq<UTok>) -> TokenKind { if ws.len() > 0 { ws[0].tok.kind } else { TokenKind::LineBreak } }

    /// expression := ternary, one nesting level deeper
    pub open spec fn sp_expr(src: Seq<char>, ws: Seq<UTok>, d: nat) -> PRes decreases ws.len(), 40int {
        if d + 1 > max_depth() { PRes::Bad } else { sp_ternary(src, ws, d + 1) }
    }
    /// ternary := assignment [ `?` expression [ `:` expression ] ]   (a missing else arm is an empty block)
    pub open spec fn sp_ternary(src: Seq<char>, ws: Seq<UTok>, d: nat) -> PRes decreases ws.len(), 39int {
        match sp_assign(src, ws, d) {
            PRes::Bad => PRes::Bad,
            PRes::Good(cond, w1) =>
                if w1.len() <= ws.len() && hd_is(w1, TokenKind::Question) {
                    match sp_expr(src, tl(w1), d) {
                        PRes::Bad => PRes::Bad,
                        PRes::Good(t, w2) =>
                            if w2.len() < w1.len() && hd_is(w2, TokenKind::Colon) {
                                match sp_expr(src, tl(w2), d) {
                                    PRes::Bad => PRes::Bad,
                                    PRes::Good(f, w3) => PRes::Good(SExpr::Tern(join(sspan(cond), sspan(f)), Box::new(cond), Box::new(t), Box::new(f)), w3),
                                }
                            } else {
                                let f = SExpr::Block(sspan(t), Seq::empty());
                                PRes::Good(SExpr::Tern(join(sspan(cond), sspan(f)), Box::new(cond), Box::new(t), Box::new(f)), w2)
                            },
                    }
                } else { PRes::Good(cond, w1) },
        }
    }
    /// assignment := concat [ `=` expression ]   (right-associative: the right side is a whole expression)
    pub open spec fn sp_assign(src: Seq<char>, ws: Seq<UTok>, d: nat) -> PRes decreases ws.len(), 38int {
        match sp_bin(src, 0, ws, d) {
            PRes::Bad => PRes::Bad,
            PRes::Good(lhs, w1) =>
                if w1.len() <= ws.len() && w1.len() > 0 && find_op(assign_table(), hd_kind(w1), 0) is Some {
                    match sp_expr(src, tl(w1), d) {
                        PRes::Bad => PRes::Bad,
                        PRes::Good(rhs, w2) => PRes::Good(SExpr::Bin(join(sspan(lhs), sspan(rhs)), w1[0].tok.span, find_op(assign_table(), hd_kind(w1), 0)->0, Box::new(lhs), Box::new(rhs)), w2),
                    }
                } else { PRes::Good(lhs, w1) },
        }
    }
    /// level k := level k+1 { op_k level k+1 }   left-associative; a line break ends the chain; level 10 is the slice level
    pub open spec fn sp_bin(src: Seq<char>, k: int, ws: Seq<UTok>, d: nat) -> PRes decreases ws.len(), 37int - k {
        if k < 0 || k > 10 { PRes::Bad }
        else if k == 10 { sp_slice(src, ws, d) }
        else {
            match sp_bin(src, k + 1, ws, d) {
                PRes::Bad => PRes::Bad,
                PRes::Good(lhs, w1) => if w1.len() <= ws.len() { sp_chain(src, k, lhs, w1, d) } else { PRes::Bad },
            }
        }
    }
    pub open spec fn sp_chain(src: Seq<char>, k: int, lhs: SExpr, ws: Seq<UTok>, d: nat) -> PRes decreases ws.len(), 0int {
        if !(0 <= k < 10) || hd_lb(ws) { PRes::Good(lhs, ws) }
        else {
            match find_op(bin_table(k), hd_kind(ws), 0) {
                None => PRes::Good(lhs, ws),
                Some(op) =>
                    match sp_bin(src, k + 1, tl(ws), d) {
                        PRes::Bad => PRes::Bad,
                        PRes::Good(rhs, w2) =>
                            if w2.len() < ws.len() { sp_chain(src, k, SExpr::Bin(join(sspan(lhs), sspan(rhs)), ws[0].tok.span, op, Box::new(lhs), Box::new(rhs)), w2, d) }
                            else { PRes::Bad },
                    },
            }
        }
    }
    /// slice := short-slice [ `[` expression `:` expression `]` ]   (not across a line break)
    pub open spec fn sp_slice(src: Seq<char>, ws: Seq<UTok>, d: nat) -> PRes decreases ws.len(), 26int {
        match sp_slice_short(src, ws, d) {
            PRes::Bad => PRes::Bad,
            PRes::Good(inner, w1) =>
                if !(w1.len() <= ws.len()) { PRes::Bad }
                else if hd_lb(w1) || !hd_is(w1, TokenKind::BracketOpen) { PRes::Good(inner, w1) }
                else {
                    match sp_expr(src, tl(w1), d) {
                        PRes::Bad => PRes::Bad,
                        PRes::Good(l, w2) =>
                            if !(w2.len() < w1.len()) || !hd_is(w2, TokenKind::Colon) { PRes::Bad }
                            else {
                                match sp_expr(src, tl(w2), d) {
                                    PRes::Bad => PRes::Bad,
                                    PRes::Good(r, w3) =>
                                        if !hd_is(w3, TokenKind::BracketClose) { PRes::Bad }
                                        else { PRes::Good(SExpr::Slice(join(sspan(inner), w3[0].tok.span), join(w1[0].tok.span, w3[0].tok.span), Box::new(l), Box::new(r), Box::new(inner)), tl(w3)) },
                                }
                            },
                    }
                },
        }
    }
    /// short-slice := unary [ `` ` `` leaf ]
    pub open spec fn sp_slice_short(src: Seq<char>, ws: Seq<UTok>, d: nat) -> PRes decreases ws.len(), 25int {
        match sp_unary(src, ws, d) {
            PRes::Bad => PRes::Bad,
            PRes::Good(inner, w1) =>
                if !(w1.len() <= ws.len()) { PRes::Bad }
                else if hd_lb(w1) || !hd_is(w1, TokenKind::Grave) { PRes::Good(inner, w1) }
                else {
                    match sp_leaf(src, tl(w1), d) {
                        PRes::Bad => PRes::Bad,
                        PRes::Good(size, w2) => PRes::Good(SExpr::SliceShort(join(w1[0].tok.span, sspan(size)), sspan(size), Box::new(size), Box::new(inner)), w2),
                    }
                },
        }
    }
    /// unary := ( `!` | `-` ) unary | call      (every prefix operator is one nesting level)
    pub open spec fn sp_unary(src: Seq<char>, ws: Seq<UTok>, d: nat) -> PRes decreases ws.len(), 24int {
        if ws.len() > 0 && find_op(unary_table(), hd_kind(ws), 0) is Some {
            if d + 1 > max_depth() { PRes::Bad }
            else {
                match sp_unary(src, tl(ws), d + 1) {
                    PRes::Bad => PRes::Bad,
                    PRes::Good(inner, w1) => PRes::Good(SExpr::Un(join(ws[0].tok.span, sspan(inner)), ws[0].tok.span, find_op(unary_table(), hd_kind(ws), 0)->0, Box::new(inner)), w1),
                }
            }
        } else { sp_call(src, ws, d) }
    }
    /// call := leaf [ `(` [ expression { `,` expression } [ `,` ] ] `)` ]   (not across a line break)
    pub open spec fn sp_call(src: Seq<char>, ws: Seq<UTok>, d: nat) -> PRes decreases ws.len(), 23int {
        match sp_leaf(src, ws, d) {
            PRes::Bad => PRes::Bad,
            PRes::Good(leaf, w1) =>
                if !(w1.len() <= ws.len()) { PRes::Bad }
                else if hd_lb(w1) || !hd_is(w1, TokenKind::ParenOpen) { PRes::Good(leaf, w1) }
                else { sp_args(src, tl(w1), d, leaf, Seq::empty()) },
        }
    }
    pub open spec fn sp_args(src: Seq<char>, ws: Seq<UTok>, d: nat, leaf: SExpr, args: Seq<SExpr>) -> PRes decreases ws.len(), 50int {
        if hd_is(ws, TokenKind::ParenClose) { PRes::Good(SExpr::Call(join(sspan(leaf), ws[0].tok.span), Box::new(leaf), args), tl(ws)) }
        else {
            match sp_expr(src, ws, d) {
                PRes::Bad => PRes::Bad,
                PRes::Good(a, w1) =>
                    if !(w1.len() < ws.len()) { PRes::Bad }
                    else if hd_is(w1, TokenKind::ParenClose) { PRes::Good(SExpr::Call(join(sspan(leaf), w1[0].tok.span), Box::new(leaf), args.push(a)), tl(w1)) }
                    else if hd_is(w1, TokenKind::Comma) { sp_args(src, tl(w1), d, leaf, args.push(a)) }
                    else { PRes::Bad },
            }
        }
    }
    /// leaf := block | `(` expression `)` | variable | number | string | asm block | true | false
    pub open spec fn sp_leaf(src: Seq<char>, ws: Seq<UTok>, d: nat) -> PRes decreases ws.len(), 22int {
        if hd_is(ws, TokenKind::BraceOpen) { sp_block(src, tl(ws), d, ws[0].tok.span, Seq::empty()) }
        else if hd_is(ws, TokenKind::ParenOpen) {
            match sp_expr(src, tl(ws), d) {
                PRes::Bad => PRes::Bad,
                PRes::Good(e, w1) => if hd_is(w1, TokenKind::ParenClose) { PRes::Good(e, tl(w1)) } else { PRes::Bad },
            }
        }
        else if hd_is(ws, TokenKind::Identifier) || hd_is(ws, TokenKind::Dot) { sp_dots(src, ws, dummy(), 0) }
        else if hd_is(ws, TokenKind::Number) {
            match number_of(ws[0].tok.span, text_at(src, ws[0].tok.span)) { Some(v) => PRes::Good(SExpr::Int(ws[0].tok.span, v), tl(ws)), None => PRes::Bad }
        }
        else if hd_is(ws, TokenKind::String) {
            match string_of(ws[0].tok.span, text_at(src, ws[0].tok.span)) { Some(s) => PRes::Good(SExpr::Str(ws[0].tok.span, s, "utf8"@), tl(ws)), None => PRes::Bad }
        }
        else if hd_is(ws, TokenKind::KeywordAsm) { sp_asm(src, ws, d) }
        else if hd_is(ws, TokenKind::KeywordTrue) { PRes::Good(SExpr::Bool(ws[0].tok.span, true), tl(ws)) }
        else if hd_is(ws, TokenKind::KeywordFalse) { PRes::Good(SExpr::Bool(ws[0].tok.span, false), tl(ws)) }
        else { PRes::Bad }
    }
    pub open spec fn leaf_start(k: TokenKind) -> bool {
        k is BraceOpen || k is ParenOpen || k is Identifier || k is Dot || k is Number || k is String || k is KeywordAsm || k is KeywordTrue || k is KeywordFalse
    }
    /// block := `{` { expression ( line break | `,` ) } [ expression ] `}`
    pub open spec fn sp_block(src: Seq<char>, ws: Seq<UTok>, d: nat, open: Span, exprs: Seq<SExpr>) -> PRes decreases ws.len(), 50int {
        if hd_is(ws, TokenKind::BraceClose) { PRes::Good(SExpr::Block(join(open, ws[0].tok.span), exprs), tl(ws)) }
        else {
            match sp_expr(src, ws, d) {
                PRes::Bad => PRes::Bad,
                PRes::Good(e, w1) =>
                    if !(w1.len() < ws.len()) { PRes::Bad }
                    else if hd_lb(w1) { sp_block(src, dec_lb(w1), d, open, exprs.push(e)) }
                    else if hd_is(w1, TokenKind::BraceClose) { PRes::Good(SExpr::Block(join(open, w1[0].tok.span), exprs.push(e)), tl(w1)) }
                    else if hd_is(w1, TokenKind::Comma) { sp_block(src, tl(w1), d, open, exprs.push(e)) }
                    else { PRes::Bad },
            }
        }
    }
    /// variable := { `.` } name { `.` name }     (dots and names on one line)
    pub open spec fn sp_dots(src: Seq<char>, ws: Seq<UTok>, span: Span, level: nat) -> PRes decreases ws.len(), 1int {
        if !hd_lb(ws) && hd_is(ws, TokenKind::Dot) { sp_dots(src, tl(ws), join(span, ws[0].tok.span), level + 1) }
        else { sp_names(src, ws, span, level, Seq::empty()) }
    }
    pub open spec fn sp_names(src: Seq<char>, ws: Seq<UTok>, span: Span, level: nat, names: Seq<Seq<char>>) -> PRes decreases ws.len(), 0int {
        if !hd_is(ws, TokenKind::Identifier) { PRes::Bad }
        else {
            let names2 = names.push(text_at(src, ws[0].tok.span));
            let span2 = join(span, ws[0].tok.span);
            let w1 = tl(ws);
            if !hd_lb(w1) && hd_is(w1, TokenKind::Dot) { sp_names(src, tl(w1), span2, level, names2) }
            else { PRes::Good(SExpr::Var(span2, level, names2), w1) }
        }
    }
    /// `asm { ... }`: the nested assembly parser (not under contract here)
    pub uninterp spec fn sp_asm(src: Seq<char>, ws: Seq<UTok>, d: nat) -> PRes;

    /// the last diagnostic's span (ghost observation recorded by Report::error_span's stub contract)
    pub uninterp spec fn err_span(r: &diagn::Report) -> Span;

    /// what a parsing function must achieve against the reference result `sp`
    #[verifier::prophetic]
    pub open spec fn outcome<'a, 'src>(pre: ExpressionParser<'a, 'src>, post: ExpressionParser<'a, 'src>, res: Result<Expr, ()>, sp: PRes) -> bool {
        &&& post.walker.src() == pre.walker.src()
        &&& post.walker.inv()
        &&& mut_ref_future(post.walker) == mut_ref_future(pre.walker)
        &&& mut_ref_future(post.report) == mut_ref_future(pre.report)
        &&& post.report.msgs() >= pre.report.msgs()
        &&& match res {
            Ok(e) => sp == PRes::Good(view_of(e), post.walker.stream()) && post.recursion_depth == pre.recursion_depth
                     && post.walker.stream().len() < pre.walker.stream().len(),
            Err(_) => sp is Bad && post.report.msgs() > pre.report.msgs() && post.recursion_depth >= pre.recursion_depth,
        }
    }
    pub open spec fn src_of<'a, 'src>(p: ExpressionParser<'a, 'src>) -> Seq<char> { p.walker.src() }
    pub open spec fn ws_of<'a, 'src>(p: ExpressionParser<'a, 'src>) -> Seq<UTok> { p.walker.stream() }
    pub open spec fn d_of<'a, 'src>(p: ExpressionParser<'a, 'src>) -> nat { p.recursion_depth as nat }
