//@@INCLUDE _shared/header.rs
//@@INCLUDE _shared/diagn_opaque.rs
pub mod util {
    use vstd::prelude::*;
    verus! {
    #[verifier::external_body]
    pub struct BigInt { _p: u8 }
    }
}
pub mod asm {
    use vstd::prelude::*;
    verus! {
    #[verifier::external_body]
    pub struct AstTopLevel { _p: u8 }
    }
}
pub mod syntax {
    use vstd::prelude::*;
    use crate::*;
    verus! {
    //@@INCLUDE _shared/token_stream.rs
    /// Opaque stand-in for the token walker.  ASSUMED model (the walker scans a &str; outside Verus' reach): in front
    /// of the cursor lies a finite stream of useful tokens; at the end of the text the walker answers with a
    /// LineBreak pseudo token, so a line break is always seen there and no other kind ever matches.
    #[verifier::external_body]
    pub struct Walker<'src> { _p: &'src str }
    impl<'src> Walker<'src> {
        pub uninterp spec fn stream(&self) -> Seq<UTok>;
        /// the walker's own invariant (cursor inside the text on a character boundary; defined in U-walker)
        pub uninterp spec fn inv(&self) -> bool;
        /// the text the walker was made from (never changes)
        pub uninterp spec fn src(&self) -> Seq<char>;
        /// the zero-width span at the cursor (where "expected ..." diagnostics point)
        pub uninterp spec fn cursor_span(&self) -> diagn::Span;
    }
    /// the text a span covers
    pub uninterp spec fn text_at(src: Seq<char>, span: diagn::Span) -> Seq<char>;
    /// what the literal scanners make of a token's text (U-literal proves excerpt_as_bigint; uninterpreted here)
    pub uninterp spec fn number_of(span: diagn::Span, text: Seq<char>) -> Option<util::BigInt>;
    pub uninterp spec fn string_of(span: diagn::Span, text: Seq<char>) -> Option<Seq<char>>;
    //@@ITEMS syntax
    }
}
pub mod expr {
    use vstd::prelude::*;
    use crate::*;
    use crate::syntax::{UTok, TokenKind, hd_is, hd_lb, tl, dec_lb, text_at, number_of, string_of};
    use crate::diagn::Span;
    verus! {
    //@@INCLUDE u_parser/spec.rs
    //@@ITEMS expr
    }
}
