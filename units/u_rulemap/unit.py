from vfw.spec import Unit, Fn, Type, Impl, C, Loop, Rewrite, Insert
from units.common import itemref_items, deflist_fns

F = "src/asm/defs/ruledef_map.rs"

query_prefixed = Fn(F, "query_prefixed", impl="RuledefMap", slot="defs", ret="res", props=["C08", "C03"],
    ensures=[
        C("bucket_of_truncation",
          "forall|i: int, k: RuledefMapPrefix| 0 <= i <= nz(prefix@) && k@ =~= trunc(prefix@, i) ==> #[trigger] res@[i]@ == #[trigger] self.bucket(k)", ["C08"]),
        C("nothing_beyond_the_prefix", "forall|i: int| nz(prefix@) < i <= 4 ==> (#[trigger] res@[i])@.len() == 0", ["C08"]),
    ],
    loops={
        1: Loop(invariant_except_break=[
            C("done", "forall|a: int, k: RuledefMapPrefix| 0 <= a < i && k@ =~= trunc(prefix@, a) ==> #[trigger] results@[a]@ == #[trigger] self.bucket(k)"),
            C("rest_empty", "forall|a: int| i <= a <= 4 ==> (#[trigger] results@[a])@.len() == 0"),
            C("no_nul_so_far", "forall|t: int| 0 <= t < i && t < 4 ==> #[trigger] prefix@[t] != '\\0'"),
        ], ensures=[
            C("all_truncations", "forall|a: int, k: RuledefMapPrefix| 0 <= a <= nz(prefix@) && k@ =~= trunc(prefix@, a) ==> #[trigger] results@[a]@ == #[trigger] self.bucket(k)"),
            C("beyond_empty", "forall|a: int| nz(prefix@) < a <= 4 ==> (#[trigger] results@[a])@.len() == 0"),
        ]),
        2: Loop(invariant=[
            C("trunc", "i <= j <= 4 && forall|t: int| 0 <= t < 4 ==> #[trigger] subprefix@[t] == (if i <= t < j { '\\0' } else { prefix@[t] })"),
        ]),
    },
    inserts=[Insert("            if i < MAX_PREFIX_SIZE &&", "            proof { assert forall|k: RuledefMapPrefix| k@ =~= trunc(prefix@, i as int) implies k == subprefix by { assert(k@ =~= subprefix@); assert(k =~= subprefix); } }\n", where="before")],
)

FW = "src/syntax/walker.rs"
FT = "src/syntax/token.rs"
WI = "<'src> Walker<'src>"
w_nth = Fn(FW, "next_nth_token", impl=WI, impl_header=WI, slot="syntax", mode="stub", ret="res", key="Walker::next_nth_token",
    ensures=[C("the_nth_raw_token", "res.kind == raw_kind(self, nth as int) && text_at(self, res.span) == raw_text(self, nth as int) && (!ignorable(res.kind) ==> raw_text(self, nth as int).len() >= 1)")])
w_excerpt = Fn(FW, "get_span_excerpt", impl=WI, impl_header=WI, slot="syntax", mode="stub", ret="res", key="Walker::get_span_excerpt",
    ensures=[C("the_text_under_the_span", "res@ == text_at(self, span)")])
tk_ignorable = Fn(FT, "is_ignorable", impl="TokenKind", slot="syntax", mode="stub", ret="res", key="TokenKind::is_ignorable", ensures=[C("blank_comment_linebreak", "res == ignorable(self)")])
tk_allowed = Fn(FT, "is_allowed_pattern_token", impl="TokenKind", slot="syntax", mode="stub", ret="res", key="TokenKind::is_allowed_pattern_token")
W = "walker"
CAT = "cat(walker, %s)"
parse_prefix = Fn(F, "parse_prefix", impl="RuledefMap", slot="defs", ret="res", key="RuledefMap::parse_prefix", props=["C08", "C03"],
    attrs=["#[verifier::loop_isolation(true)]"],
    ensures=[C("the_first_four_characters_of_the_leading_run_of_tokens_lower_cased", "res@ =~= text_key(lead_chars(walker, 0, 4))", ["C08"])],
    for_to_while=[2],
    rewrites=[Rewrite("let mut prefix_index = 0;", "let mut prefix_index: usize = 0;", rule="R10", why="type ascription"),
              Rewrite("let mut walker_index = 0;", "let mut walker_index: usize = 0;", rule="R10", why="type ascription"),
              Rewrite("for c in walker.get_span_excerpt(token.span).chars()", "let verif_excerpt = walker.get_span_excerpt(token.span);\n                for c in verif_excerpt.chars()", rule="R16",
                      why="the iterated string gets a name (R28 turns `NAME.chars()` into an index loop over its characters)"),
              Rewrite("syntax::", "crate::syntax::", count=None, rule="R6", why="module path")],
    loops={
        1: Loop(invariant_except_break=[
                C("a_run_of_tokens_so_far", "walker_index <= 4 && run_of_tokens(walker, walker_index as int) && walker_index <= cat(walker, walker_index as int).len()"),
                C("key_so_far", "prefix_index == (if cat(walker, walker_index as int).len() < 4 { cat(walker, walker_index as int).len() } else { 4 })"
                                " && forall|j: int| 0 <= j < 4 ==> #[trigger] prefix@[j] == (if j < prefix_index { spec_lower(cat(walker, walker_index as int)[j]) } else { '\\0' })"),
                C("done_when_full", "prefix_index >= 4 ==> prefix@ =~= text_key(lead_chars(walker, 0, 4))"),
            ], ensures=[C("the_key", "prefix@ =~= text_key(lead_chars(walker, 0, 4))")], decreases="4 - prefix_index",
            body_end=" proof { lemma_lead_split(walker, walker_index as int, 4); lemma_cat_len(walker, walker_index as int); if prefix_index >= 4 { assert(prefix@ =~= text_key(lead_chars(walker, 0, 4))); } }"),
        2: Loop(invariant=[
                C("token", "verif_vec_2@ == crate::syntax::raw_text(walker, walker_index - 1) && verif_vec_2@.len() >= 1 && verif_next_2 <= verif_vec_2@.len() && 1 <= walker_index <= 4 && prefix_index <= 4"
                           " && cat(walker, walker_index as int) == cat(walker, walker_index - 1) + verif_vec_2@ && walker_index - 1 <= cat(walker, walker_index - 1).len() && run_of_tokens(walker, walker_index as int)"),
                C("key_so_far", "prefix_index == (if cat(walker, walker_index - 1).len() + verif_next_2 < 4 { cat(walker, walker_index - 1).len() + verif_next_2 } else { 4 })"
                                " && forall|j: int| 0 <= j < 4 ==> #[trigger] prefix@[j] == (if j < prefix_index { spec_lower(cat(walker, walker_index as int)[j]) } else { '\\0' })"),
            ], ensures=[C("full_or_token_used_up", "prefix_index >= 4 || verif_next_2 == verif_vec_2@.len()")], decreases="verif_vec_2@.len() - verif_next_2"),
    },
    inserts=[Insert("walker_index += 1;", "\n            proof { lemma_cat_len(walker, walker_index - 1); assert(cat(walker, walker_index as int) == cat(walker, walker_index - 1) + crate::syntax::raw_text(walker, walker_index - 1)); }", where="after"),
             Insert("            else\n            {\n", "                proof { lemma_lead_split(walker, walker_index - 1, 4); assert(lead_chars(walker, walker_index - 1, (4 - (walker_index - 1)) as nat) =~= Seq::<char>::empty()); assert(prefix@ =~= text_key(lead_chars(walker, 0, 4))); }\n", where="after")],
)

FRD = "src/asm/defs/ruledef.rs"
insert = Fn(F, "insert", impl="RuledefMap", slot="defs", props=["C08", "C03"],
    ensures=[
        C("filed_under_its_leading_literals",
          "forall|k: RuledefMapPrefix| k@ =~= rule_key(rule.pattern@) ==> #[trigger] final(self).bucket(k) == old(self).bucket(k).push(RuledefMapEntry { ruledef_ref: ruledef_ref, rule_ref: rule_ref })", ["C08"]),
        C("other_buckets_untouched",
          "forall|k: RuledefMapPrefix| !(k@ =~= rule_key(rule.pattern@)) ==> #[trigger] final(self).bucket(k) == old(self).bucket(k)", ["C08"]),
    ],
    rewrites=[
        Rewrite("for part in &rule.pattern", "for part in it: &rule.pattern", rule="R5", why="ghost iterator named"),
        Rewrite("        self.prefixes_to_rules\n            .entry(prefix)\n            .or_insert_with(|| Vec::new())\n            .push(entry);",
                "        verif_bucket_push(&mut self.prefixes_to_rules, prefix, entry);", rule="R19",
                why="HashMap entry API -> prelude wrapper with an ASSUMED contract (append to the bucket of the key)"),
    ],
    loops={"for part in": Loop(invariant_except_break=[
        C("all_exact_so_far", "prefix_index == it.index@ && prefix_index <= 4 && lead(rule.pattern@, it.index@ as int) == it.index@"),
    ], invariant=[
        C("prefix", "prefix_index <= 4 && forall|j: int| 0 <= j < 4 ==> #[trigger] prefix@[j] == (if j < prefix_index { spec_lower(rule.pattern@[j]->Exact_0) } else { '\\0' })"),
    ], ensures=[
        C("run_of_literals_ended", "prefix_index <= 4 && lead(rule.pattern@, prefix_index as int) == prefix_index && (prefix_index == 4 || prefix_index >= rule.pattern@.len() || !(rule.pattern@[prefix_index as int] is Exact))"),
    ], body_start="            proof { assert(*part == rule.pattern@[it.index@ as int]); lemma_lead_step(rule.pattern@, it.index@ as int); }")},
    inserts=[Insert("        let entry = RuledefMapEntry {", "        proof { lemma_lead_total(rule.pattern@, prefix_index as int); assert(prefix@ =~= rule_key(rule.pattern@)); assert forall|k: RuledefMapPrefix| #[trigger] k@ =~= rule_key(rule.pattern@) implies k == prefix by { assert(k@ =~= prefix@); assert(k =~= prefix); } }\n", where="before")],
)

get_rule = Fn(FRD, "get_rule", impl="Ruledef", slot="defs", ret="res", key="Ruledef::get_rule", props=["C03"],
    requires=[C("in_range", "rule_ref.0 < self.rules@.len()", ["C03"])],
    ensures=[C("the_rule", "*res == self.rules@[rule_ref.0 as int]", ["C08"])])

ENTRY = "RuledefMapEntry { ruledef_ref: util::ItemRef::<Ruledef>(%s as usize, core::marker::PhantomData), rule_ref: util::ItemRef::<Rule>(%s as usize, core::marker::PhantomData) }"
ALLDEF = "(forall|d: int| 0 <= d < ruledefs.defs@.len() ==> #[trigger] ruledefs.defs@[d] is Some)"
build = Fn(F, "build", impl="RuledefMap", slot="defs", props=["C08", "C03"], key="RuledefMap::build",
    requires=[C("ruledefs_defined", ALLDEF, ["C03"])],
    ensures=[
        C("every_rule_of_every_ruledef_is_filed_under_its_key", "forall|d: int, r: int| 0 <= d < ruledefs.defs@.len() && !(ruledefs.defs@[d]->0).is_subruledef && 0 <= r < (ruledefs.defs@[d]->0).rules@.len() ==> #[trigger] rule_filed(final(self), ruledefs, d, r)", ["C08"]),
        C("nothing_is_removed", "buckets_grow(old(self), final(self))", ["C08"]),
    ],
    rewrites=[Rewrite("for rule_ref in ruledef.iter_rule_refs()\n            {", "for verif_rule_index in 0..ruledef.rules.len()\n            { let rule_ref = util::ItemRef::<asm::Rule>::new(verif_rule_index);", rule="R32",
                      why="`iter_rule_refs()` returns `impl Iterator` (`(0..rules.len()).map(ItemRef::new)`), which Verus cannot iterate: the call is replaced by that definition (range + the map applied at the top of the body)")],
    for_to_while=[1],
    loops={
        1: Loop(invariant=[
            C("defined", ALLDEF + " && verif_hi_1 == ruledefs.defs@.len() && verif_next_1 <= verif_hi_1"),
            C("filed_so_far", "forall|d: int, r: int| 0 <= d < verif_next_1 && !(ruledefs.defs@[d]->0).is_subruledef && 0 <= r < (ruledefs.defs@[d]->0).rules@.len() ==> #[trigger] rule_filed(self, ruledefs, d, r)"),
            C("grown", "buckets_grow(old(self), self)"),
        ], decreases="verif_hi_1 - verif_next_1"),
        2: Loop(invariant=[
            C("ctx", ALLDEF + " && i < ruledefs.defs@.len() && *ruledef == ruledefs.defs@[i as int]->0 && ruledef_ref.0 == i && !ruledef.is_subruledef"),
            C("earlier", "forall|d: int, r: int| 0 <= d < i && !(ruledefs.defs@[d]->0).is_subruledef && 0 <= r < (ruledefs.defs@[d]->0).rules@.len() ==> #[trigger] rule_filed(self, ruledefs, d, r)"),
            C("this_ruledef_so_far", "forall|r: int| 0 <= r < verif_rule_index ==> #[trigger] rule_filed(self, ruledefs, i as int, r)"),
            C("grown", "buckets_grow(old(self), self)"),
        ], body_start=" let ghost before = *self;",
           body_end=""" proof {
                    let entry = RuledefMapEntry { ruledef_ref: ruledef_ref, rule_ref: rule_ref };
                    assert forall|k: RuledefMapPrefix, e: RuledefMapEntry| (#[trigger] before.bucket(k).contains(e)) implies self.bucket(k).contains(e) by {
                        lemma_push_contains(before.bucket(k), entry);
                    }
                    assert forall|k: RuledefMapPrefix| k@ =~= rule_key(rule.pattern@) implies (#[trigger] self.bucket(k)).contains(entry) by {
                        lemma_push_contains(before.bucket(k), entry);
                    }
                    assert(entry == RuledefMapEntry { ruledef_ref: util::ItemRef::<Ruledef>(i, core::marker::PhantomData), rule_ref: util::ItemRef::<Rule>(verif_rule_index, core::marker::PhantomData) });
                    assert(rule_filed(self, ruledefs, i as int, verif_rule_index as int));
                    assert(buckets_grow(&before, self));
                    assert forall|d: int, r: int| rule_filed(&before, ruledefs, d, r) implies #[trigger] rule_filed(self, ruledefs, d, r) by {
                        lemma_filed_mono(&before, self, ruledefs, d, r);
                    }
                }"""),
    },
)

UNIT = Unit(
    "U-rulemap", "u_rulemap/skeleton.rs",
    items=itemref_items("util") + [
        Type(F, "const", "MAX_PREFIX_SIZE", slot="defs"),
        Type(F, "type", "RuledefMapPrefix", slot="defs"),
        Type(F, "struct", "RuledefMap", slot="defs"),
        Type(F, "struct", "RuledefMapEntry", slot="defs", derive="Clone, Copy"),
        query_prefixed,
        Type(FRD, "struct", "Rule", slot="defs"), Type(FRD, "type", "RulePattern", slot="defs"), Type(FRD, "enum", "RulePatternPart", slot="defs"),
        insert, Type(FT, "struct", "Token", slot="syntax", derive="drop"), Type(FT, "enum", "TokenKind", slot="syntax", derive="Clone, Copy"), w_nth, w_excerpt, tk_ignorable, tk_allowed, parse_prefix,
        Type(FRD, "struct", "Ruledef", slot="defs"), Type("src/asm/defs/mod.rs", "struct", "DefList", slot="defs"), get_rule, build,
    ] + [f.in_slot("defs") for f in deflist_fns("verify", "defs") if f.name in ("get", "len")],
    serves=["C08", "C03"],
    description="asm::defs::RuledefMap::query_prefixed: the rule prefix index is queried with every truncation of the instruction prefix",
)
