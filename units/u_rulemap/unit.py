from vfw.spec import Unit, Fn, Type, Impl, C, Loop, Rewrite, Insert
from units.common import itemref_items

F = "src/asm/defs/ruledef_map.rs"

query_prefixed = Fn(F, "query_prefixed", impl="RuledefMap", slot="defs", ret="res", props=["C08", "C03"],
    ensures=[
        C("bucket_of_truncation",
          "forall|i: int, k: RuledefMapPrefix| 0 <= i <= nz(prefix@) && k@ =~= trunc(prefix@, i) ==> #[trigger] res@[i]@ == #[trigger] self.bucket(k)", ["C08"]),
        C("nothing_beyond_the_prefix", "forall|i: int| nz(prefix@) < i <= 4 ==> (#[trigger] res@[i])@.len() == 0", ["C08"]),
    ],
    loops={
        1: Loop(invariant_except_break=[
            C("done", "forall|a: int, k: RuledefMapPrefix| 0 <= a < i && k@ =~= trunc(prefix@, a) ==> #[trigger] results@[a]@ == #[trigger] self.bucket(k)"),
            C("rest_empty", "forall|a: int| i <= a <= 4 ==> (#[trigger] results@[a])@.len() == 0"),
            C("no_nul_so_far", "forall|t: int| 0 <= t < i && t < 4 ==> #[trigger] prefix@[t] != '\\0'"),
        ], ensures=[
            C("all_truncations", "forall|a: int, k: RuledefMapPrefix| 0 <= a <= nz(prefix@) && k@ =~= trunc(prefix@, a) ==> #[trigger] results@[a]@ == #[trigger] self.bucket(k)"),
            C("beyond_empty", "forall|a: int| nz(prefix@) < a <= 4 ==> (#[trigger] results@[a])@.len() == 0"),
        ]),
        2: Loop(invariant=[
            C("trunc", "i <= j <= 4 && forall|t: int| 0 <= t < 4 ==> #[trigger] subprefix@[t] == (if i <= t < j { '\\0' } else { prefix@[t] })"),
        ]),
    },
    inserts=[Insert("            if i < MAX_PREFIX_SIZE &&", "            proof { assert forall|k: RuledefMapPrefix| k@ =~= trunc(prefix@, i as int) implies k == subprefix by { assert(k@ =~= subprefix@); assert(k =~= subprefix); } }\n", where="before")],
)

UNIT = Unit(
    "U-rulemap", "u_rulemap/skeleton.rs",
    items=itemref_items("util") + [
        Type(F, "const", "MAX_PREFIX_SIZE", slot="defs"),
        Type(F, "type", "RuledefMapPrefix", slot="defs"),
        Type(F, "struct", "RuledefMap", slot="defs"),
        Type(F, "struct", "RuledefMapEntry", slot="defs", derive="Clone, Copy"),
        query_prefixed,
    ],
    serves=["C08", "C03"],
    description="asm::defs::RuledefMap::query_prefixed: the rule prefix index is queried with every truncation of the instruction prefix",
)
