from vfw.spec import Unit, Fn, Type, Impl, C, Loop, Rewrite, Insert
from units.common import itemref_items, deflist_fns

F = "src/asm/defs/ruledef_map.rs"

query_prefixed = Fn(F, "query_prefixed", impl="RuledefMap", slot="defs", ret="res", props=["C08", "C03"],
    ensures=[
        C("bucket_of_truncation",
          "forall|i: int, k: RuledefMapPrefix| 0 <= i <= nz(prefix@) && k@ =~= trunc(prefix@, i) ==> #[trigger] res@[i]@ == #[trigger] self.bucket(k)", ["C08"]),
        C("nothing_beyond_the_prefix", "forall|i: int| nz(prefix@) < i <= 4 ==> (#[trigger] res@[i])@.len() == 0", ["C08"]),
    ],
    loops={
        1: Loop(invariant_except_break=[
            C("done", "forall|a: int, k: RuledefMapPrefix| 0 <= a < i && k@ =~= trunc(prefix@, a) ==> #[trigger] results@[a]@ == #[trigger] self.bucket(k)"),
            C("rest_empty", "forall|a: int| i <= a <= 4 ==> (#[trigger] results@[a])@.len() == 0"),
            C("no_nul_so_far", "forall|t: int| 0 <= t < i && t < 4 ==> #[trigger] prefix@[t] != '\\0'"),
        ], ensures=[
            C("all_truncations", "forall|a: int, k: RuledefMapPrefix| 0 <= a <= nz(prefix@) && k@ =~= trunc(prefix@, a) ==> #[trigger] results@[a]@ == #[trigger] self.bucket(k)"),
            C("beyond_empty", "forall|a: int| nz(prefix@) < a <= 4 ==> (#[trigger] results@[a])@.len() == 0"),
        ]),
        2: Loop(invariant=[
            C("trunc", "i <= j <= 4 && forall|t: int| 0 <= t < 4 ==> #[trigger] subprefix@[t] == (if i <= t < j { '\\0' } else { prefix@[t] })"),
        ]),
    },
    inserts=[Insert("            if i < MAX_PREFIX_SIZE &&", "            proof { assert forall|k: RuledefMapPrefix| k@ =~= trunc(prefix@, i as int) implies k == subprefix by { assert(k@ =~= subprefix@); assert(k =~= subprefix); } }\n", where="before")],
)

FRD = "src/asm/defs/ruledef.rs"
insert = Fn(F, "insert", impl="RuledefMap", slot="defs", props=["C08", "C03"],
    ensures=[
        C("filed_under_its_leading_literals",
          "forall|k: RuledefMapPrefix| k@ =~= rule_key(rule.pattern@) ==> #[trigger] final(self).bucket(k) == old(self).bucket(k).push(RuledefMapEntry { ruledef_ref: ruledef_ref, rule_ref: rule_ref })", ["C08"]),
        C("other_buckets_untouched",
          "forall|k: RuledefMapPrefix| !(k@ =~= rule_key(rule.pattern@)) ==> #[trigger] final(self).bucket(k) == old(self).bucket(k)", ["C08"]),
    ],
    rewrites=[
        Rewrite("for part in &rule.pattern", "for part in it: &rule.pattern", rule="R5", why="ghost iterator named"),
        Rewrite("        self.prefixes_to_rules\n            .entry(prefix)\n            .or_insert_with(|| Vec::new())\n            .push(entry);",
                "        verif_bucket_push(&mut self.prefixes_to_rules, prefix, entry);", rule="R19",
                why="HashMap entry API -> prelude wrapper with an ASSUMED contract (append to the bucket of the key)"),
    ],
    loops={"for part in": Loop(invariant_except_break=[
        C("all_exact_so_far", "prefix_index == it.index@ && prefix_index <= 4 && lead(rule.pattern@, it.index@ as int) == it.index@"),
    ], invariant=[
        C("prefix", "prefix_index <= 4 && forall|j: int| 0 <= j < 4 ==> #[trigger] prefix@[j] == (if j < prefix_index { spec_lower(rule.pattern@[j]->Exact_0) } else { '\\0' })"),
    ], ensures=[
        C("run_of_literals_ended", "prefix_index <= 4 && lead(rule.pattern@, prefix_index as int) == prefix_index && (prefix_index == 4 || prefix_index >= rule.pattern@.len() || !(rule.pattern@[prefix_index as int] is Exact))"),
    ], body_start="            proof { assert(*part == rule.pattern@[it.index@ as int]); lemma_lead_step(rule.pattern@, it.index@ as int); }")},
    inserts=[Insert("        let entry = RuledefMapEntry {", "        proof { lemma_lead_total(rule.pattern@, prefix_index as int); assert(prefix@ =~= rule_key(rule.pattern@)); assert forall|k: RuledefMapPrefix| #[trigger] k@ =~= rule_key(rule.pattern@) implies k == prefix by { assert(k@ =~= prefix@); assert(k =~= prefix); } }\n", where="before")],
)

get_rule = Fn(FRD, "get_rule", impl="Ruledef", slot="defs", ret="res", key="Ruledef::get_rule", props=["C03"],
    requires=[C("in_range", "rule_ref.0 < self.rules@.len()", ["C03"])],
    ensures=[C("the_rule", "*res == self.rules@[rule_ref.0 as int]", ["C08"])])

ENTRY = "RuledefMapEntry { ruledef_ref: util::ItemRef::<Ruledef>(%s as usize, core::marker::PhantomData), rule_ref: util::ItemRef::<Rule>(%s as usize, core::marker::PhantomData) }"
ALLDEF = "(forall|d: int| 0 <= d < ruledefs.defs@.len() ==> #[trigger] ruledefs.defs@[d] is Some)"
build = Fn(F, "build", impl="RuledefMap", slot="defs", props=["C08", "C03"], key="RuledefMap::build",
    requires=[C("ruledefs_defined", ALLDEF, ["C03"])],
    ensures=[
        C("every_rule_of_every_ruledef_is_filed_under_its_key", "forall|d: int, r: int| 0 <= d < ruledefs.defs@.len() && !(ruledefs.defs@[d]->0).is_subruledef && 0 <= r < (ruledefs.defs@[d]->0).rules@.len() ==> #[trigger] rule_filed(final(self), ruledefs, d, r)", ["C08"]),
        C("nothing_is_removed", "buckets_grow(old(self), final(self))", ["C08"]),
    ],
    rewrites=[Rewrite("for rule_ref in ruledef.iter_rule_refs()\n            {", "for verif_rule_index in 0..ruledef.rules.len()\n            { let rule_ref = util::ItemRef::<asm::Rule>::new(verif_rule_index);", rule="R32",
                      why="`iter_rule_refs()` returns `impl Iterator` (`(0..rules.len()).map(ItemRef::new)`), which Verus cannot iterate: the call is replaced by that definition (range + the map applied at the top of the body)")],
    for_to_while=[1],
    loops={
        1: Loop(invariant=[
            C("defined", ALLDEF + " && verif_hi_1 == ruledefs.defs@.len() && verif_next_1 <= verif_hi_1"),
            C("filed_so_far", "forall|d: int, r: int| 0 <= d < verif_next_1 && !(ruledefs.defs@[d]->0).is_subruledef && 0 <= r < (ruledefs.defs@[d]->0).rules@.len() ==> #[trigger] rule_filed(self, ruledefs, d, r)"),
            C("grown", "buckets_grow(old(self), self)"),
        ], decreases="verif_hi_1 - verif_next_1"),
        2: Loop(invariant=[
            C("ctx", ALLDEF + " && i < ruledefs.defs@.len() && *ruledef == ruledefs.defs@[i as int]->0 && ruledef_ref.0 == i && !ruledef.is_subruledef"),
            C("earlier", "forall|d: int, r: int| 0 <= d < i && !(ruledefs.defs@[d]->0).is_subruledef && 0 <= r < (ruledefs.defs@[d]->0).rules@.len() ==> #[trigger] rule_filed(self, ruledefs, d, r)"),
            C("this_ruledef_so_far", "forall|r: int| 0 <= r < verif_rule_index ==> #[trigger] rule_filed(self, ruledefs, i as int, r)"),
            C("grown", "buckets_grow(old(self), self)"),
        ], body_start=" let ghost before = *self;",
           body_end=""" proof {
                    let entry = RuledefMapEntry { ruledef_ref: ruledef_ref, rule_ref: rule_ref };
                    assert forall|k: RuledefMapPrefix, e: RuledefMapEntry| (#[trigger] before.bucket(k).contains(e)) implies self.bucket(k).contains(e) by {
                        lemma_push_contains(before.bucket(k), entry);
                    }
                    assert forall|k: RuledefMapPrefix| k@ =~= rule_key(rule.pattern@) implies (#[trigger] self.bucket(k)).contains(entry) by {
                        lemma_push_contains(before.bucket(k), entry);
                    }
                    assert(entry == RuledefMapEntry { ruledef_ref: util::ItemRef::<Ruledef>(i, core::marker::PhantomData), rule_ref: util::ItemRef::<Rule>(verif_rule_index, core::marker::PhantomData) });
                    assert(rule_filed(self, ruledefs, i as int, verif_rule_index as int));
                    assert(buckets_grow(&before, self));
                    assert forall|d: int, r: int| rule_filed(&before, ruledefs, d, r) implies #[trigger] rule_filed(self, ruledefs, d, r) by {
                        lemma_filed_mono(&before, self, ruledefs, d, r);
                    }
                }"""),
    },
)

UNIT = Unit(
    "U-rulemap", "u_rulemap/skeleton.rs",
    items=itemref_items("util") + [
        Type(F, "const", "MAX_PREFIX_SIZE", slot="defs"),
        Type(F, "type", "RuledefMapPrefix", slot="defs"),
        Type(F, "struct", "RuledefMap", slot="defs"),
        Type(F, "struct", "RuledefMapEntry", slot="defs", derive="Clone, Copy"),
        query_prefixed,
        Type(FRD, "struct", "Rule", slot="defs"), Type(FRD, "type", "RulePattern", slot="defs"), Type(FRD, "enum", "RulePatternPart", slot="defs"),
        insert,
        Type(FRD, "struct", "Ruledef", slot="defs"), Type("src/asm/defs/mod.rs", "struct", "DefList", slot="defs"), get_rule, build,
    ] + [f.in_slot("defs") for f in deflist_fns("verify", "defs") if f.name in ("get", "len")],
    serves=["C08", "C03"],
    description="asm::defs::RuledefMap::query_prefixed: the rule prefix index is queried with every truncation of the instruction prefix",
)
