//@@INCLUDE _shared/header.rs
pub mod axioms {
    use vstd::prelude::*;
    verus! {
    /// ASSUMED: [char; 4] keys behave as hash-map keys (Hash/Eq of arrays of char are structural)
    #[verifier::allow(broadcast_without_trigger)]
    pub broadcast axiom fn axiom_char4_key_model()
        ensures vstd::std_specs::hash::obeys_key_model::<[char; 4]>();
    }
}
pub mod util {
    use vstd::prelude::*;
    use crate::*;
    verus! {
    //@@ITEMS util
    }
}
pub mod asm {
    use vstd::prelude::*;
    use crate::*;
    verus! {
    #[verifier::external_body]
    pub struct Ruledef { _p: u8 }
    #[verifier::external_body]
    pub struct Rule { _p: u8 }
    pub mod defs {
        use vstd::prelude::*;
        use crate::*;
        broadcast use {vstd::std_specs::hash::group_hash_axioms, crate::axioms::axiom_char4_key_model};

        /// number of leading non-NUL characters of a prefix (at most 4)
        pub open spec fn nz(p: Seq<char>) -> int {
            if p[0] == '\0' { 0 } else if p[1] == '\0' { 1 } else if p[2] == '\0' { 2 } else if p[3] == '\0' { 3 } else { 4 }
        }
        /// the first i characters of p, NUL-padded to 4
        pub open spec fn trunc(p: Seq<char>, i: int) -> Seq<char> {
            Seq::new(4, |j: int| if j < i { p[j] } else { '\0' })
        }
        impl RuledefMap {
            pub open spec fn bucket(&self, key: RuledefMapPrefix) -> Seq<RuledefMapEntry> {
                if self.prefixes_to_rules@.contains_key(key) { self.prefixes_to_rules@[key]@ } else { Seq::empty() }
            }
        }
        //@@ITEMS defs
    }
    }
}
