//@@INCLUDE _shared/header.rs
pub mod axioms {
    use vstd::prelude::*;
    verus! {
    /// ASSUMED: [char; 4] keys behave as hash-map keys (Hash/Eq of arrays of char are structural)
    #[verifier::allow(broadcast_without_trigger)]
    pub broadcast axiom fn axiom_char4_key_model()
        ensures vstd::std_specs::hash::obeys_key_model::<[char; 4]>();
    }
}
pub mod diagn {
    use vstd::prelude::*;
    verus! {
    #[verifier::external_body]
    #[derive(Clone, Copy)]
    pub struct Span { _p: u8 }
    }
}
pub mod expr {
    use vstd::prelude::*;
    verus! {
    #[verifier::external_body]
    pub struct Expr { _p: u8 }
    }
}
pub mod util {
    use vstd::prelude::*;
    use crate::*;
    verus! {
    //@@ITEMS util
    }
}
pub mod syntax {
    use vstd::prelude::*;
    use crate::*;
    verus! {
    /// opaque stand-in for the token walker (parse_prefix reads raw tokens through three stubs)
    #[verifier::external_body]
    pub struct Walker<'src> { _p: &'src str }
    #[verifier::external_body]
    #[derive(Clone, Copy)]
    pub struct SpanToken { _p: u8 }
    /// kind and text of the n-th raw token in front of the cursor (blanks and comments included; uninterpreted)
    pub uninterp spec fn raw_kind(w: &Walker, n: int) -> TokenKind;
    pub uninterp spec fn raw_text(w: &Walker, n: int) -> Seq<char>;
    pub uninterp spec fn text_at(w: &Walker, span: diagn::Span) -> Seq<char>;
    pub open spec fn ignorable(k: TokenKind) -> bool { k is Whitespace || k is Comment || k is LineBreak }
    /// derived PartialEq of TokenKind (ASSUMED to be what #[derive] generates: equal variants)
    impl vstd::std_specs::cmp::PartialEqSpecImpl for TokenKind {
        open spec fn obeys_eq_spec() -> bool { true }
        open spec fn eq_spec(&self, other: &TokenKind) -> bool { *self == *other }
    }
    impl PartialEq for TokenKind {
        #[verifier::external_body]
        fn eq(&self, other: &TokenKind) -> (r: bool) { unimplemented!() }
    }
    /// R28 helper: `STR.chars()` as the vector of the string's characters in order (ASSUMED)
    #[verifier::external_body]
    pub fn verif_chars(s: &&str) -> (r: Vec<char>) ensures r@ == (**s)@ { unimplemented!() }
    //@@ITEMS syntax
    }
}
pub mod asm {
    use vstd::prelude::*;
    use crate::*;
    pub use defs::*;
    verus! {
    pub mod defs {
        use vstd::prelude::*;
        use crate::*;
        use crate::syntax::verif_chars;
        broadcast use {vstd::std_specs::hash::group_hash_axioms, crate::axioms::axiom_char4_key_model};

        /// number of leading non-NUL characters of a prefix (at most 4)
        pub open spec fn nz(p: Seq<char>) -> int {
            if p[0] == '\0' { 0 } else if p[1] == '\0' { 1 } else if p[2] == '\0' { 2 } else if p[3] == '\0' { 3 } else { 4 }
        }
        /// the first i characters of p, NUL-padded to 4
        pub open spec fn trunc(p: Seq<char>, i: int) -> Seq<char> {
            Seq::new(4, |j: int| if j < i { p[j] } else { '\0' })
        }
        impl RuledefMap {
            pub open spec fn bucket(&self, key: RuledefMapPrefix) -> Seq<RuledefMapEntry> {
                if self.prefixes_to_rules@.contains_key(key) { self.prefixes_to_rules@[key]@ } else { Seq::empty() }
            }
        }
        #[verifier::external_body]
        pub struct RuleParameter { _p: u8 }
        /// std gap (ASSUMED): char::to_ascii_lowercase is a function of the character
        pub uninterp spec fn spec_lower(c: char) -> char;
        pub assume_specification[ char::to_ascii_lowercase ](c: &char) -> (r: char)
            ensures r == spec_lower(*c);

        /// number of leading `Exact` parts of a pattern, capped at 4
        pub open spec fn lead(pat: Seq<RulePatternPart>, k: int) -> int decreases k {
            if k <= 0 { 0 } else if lead(pat, k - 1) == k - 1 && k - 1 < 4 && k - 1 < pat.len() && pat[k - 1] is Exact { k } else { lead(pat, k - 1) }
        }
        /// C08 property text: the key a rule is filed under = its first <= 4 leading literal characters,
        /// lower-cased, NUL-padded
        pub open spec fn rule_key(pat: Seq<RulePatternPart>) -> Seq<char> {
            Seq::new(4, |j: int| if j < lead(pat, 4) { spec_lower(pat[j]->Exact_0) } else { '\0' })
        }

        /// R19 helper: stands for `MAP.entry(KEY).or_insert_with(|| Vec::new()).push(ENTRY)` (HashMap entry API,
        /// no vstd specification). ASSUMED contract: the bucket of KEY gets ENTRY appended (a missing bucket counts
        /// as empty), every other bucket is unchanged.
        #[verifier::external_body]
        pub fn verif_bucket_push(m: &mut std::collections::HashMap<RuledefMapPrefix, Vec<RuledefMapEntry>>, key: RuledefMapPrefix, entry: RuledefMapEntry)
            ensures
                final(m)@.contains_key(key),
                final(m)@[key]@ == (if old(m)@.contains_key(key) { old(m)@[key]@ } else { Seq::empty() }).push(entry),
                forall|k: RuledefMapPrefix| k != key ==> (#[trigger] final(m)@.contains_key(k) == old(m)@.contains_key(k)) && (old(m)@.contains_key(k) ==> final(m)@[k] == old(m)@[k]),
        { unimplemented!() }
        pub proof fn lemma_lead_step(pat: Seq<RulePatternPart>, k: int)
            requires 0 <= k
            ensures lead(pat, k + 1) == (if lead(pat, k) == k && k < 4 && k < pat.len() && pat[k] is Exact { k + 1 } else { lead(pat, k) }),
                    0 <= lead(pat, k) <= k, lead(pat, k) <= 4
            decreases k
        {
            if k > 0 { lemma_lead_step(pat, k - 1); }
        }
        /// once the run of leading literals has stopped at n (or reached 4), lead stays n
        pub proof fn lemma_lead_total(pat: Seq<RulePatternPart>, n: int)
            requires 0 <= n <= 4, lead(pat, n) == n, n == 4 || n >= pat.len() || !(pat[n] is Exact)
            ensures lead(pat, 4) == n
        {
            lemma_lead_step(pat, 0); lemma_lead_step(pat, 1); lemma_lead_step(pat, 2); lemma_lead_step(pat, 3);
        }
        /// C08: the rule (d, r) is among the candidates filed under its own key
        pub open spec fn rule_filed(m: &RuledefMap, ruledefs: &DefList<Ruledef>, d: int, r: int) -> bool {
            forall|k: RuledefMapPrefix| k@ =~= rule_key((ruledefs.defs@[d]->0).rules@[r].pattern@) ==>
                (#[trigger] m.bucket(k)).contains(RuledefMapEntry { ruledef_ref: util::ItemRef::<Ruledef>(d as usize, core::marker::PhantomData), rule_ref: util::ItemRef::<Rule>(r as usize, core::marker::PhantomData) })
        }
        /// every entry of `a` is still in `b` (buckets only grow)
        pub open spec fn buckets_grow(a: &RuledefMap, b: &RuledefMap) -> bool {
            forall|k: RuledefMapPrefix, e: RuledefMapEntry| (#[trigger] a.bucket(k).contains(e)) ==> b.bucket(k).contains(e)
        }
        /// one insertion keeps what was there (bucket k either unchanged or extended by one entry)
        pub open spec fn buckets_step(a: &RuledefMap, b: &RuledefMap, k: RuledefMapPrefix) -> bool {
            forall|e: RuledefMapEntry| (#[trigger] a.bucket(k).contains(e)) ==> b.bucket(k).contains(e)
        }
        pub proof fn lemma_filed_mono(a: &RuledefMap, b: &RuledefMap, ruledefs: &DefList<Ruledef>, d: int, r: int)
            requires rule_filed(a, ruledefs, d, r), buckets_grow(a, b)
            ensures rule_filed(b, ruledefs, d, r)
        {
            let e = RuledefMapEntry { ruledef_ref: util::ItemRef::<Ruledef>(d as usize, core::marker::PhantomData), rule_ref: util::ItemRef::<Rule>(r as usize, core::marker::PhantomData) };
            assert forall|k: RuledefMapPrefix| k@ =~= rule_key((ruledefs.defs@[d]->0).rules@[r].pattern@) implies (#[trigger] b.bucket(k)).contains(e) by {
                assert(a.bucket(k).contains(e));
            }
        }
        pub proof fn lemma_push_contains(s: Seq<RuledefMapEntry>, x: RuledefMapEntry)
            ensures s.push(x).contains(x), forall|e: RuledefMapEntry| s.contains(e) ==> #[trigger] s.push(x).contains(e)
        {
            assert(s.push(x)[s.len() as int] == x);
            assert forall|e: RuledefMapEntry| s.contains(e) implies #[trigger] s.push(x).contains(e) by {
                let i = choose|i: int| 0 <= i < s.len() && s[i] == e;
                assert(s.push(x)[i] == e);
            }
        }
        // ---- the key of an instruction text (parse_prefix)
        /// the characters of the raw tokens n, n+1, .. up to the first blank, comment or line break (at most `fuel` tokens)
        pub open spec fn lead_chars(w: &syntax::Walker, n: int, fuel: nat) -> Seq<char> decreases fuel {
            if fuel == 0 || syntax::ignorable(syntax::raw_kind(w, n)) { Seq::empty() } else { syntax::raw_text(w, n) + lead_chars(w, n + 1, (fuel - 1) as nat) }
        }
        /// the characters of the raw tokens 0 .. n-1
        pub open spec fn cat(w: &syntax::Walker, n: int) -> Seq<char> decreases n {
            if n <= 0 { Seq::empty() } else { cat(w, n - 1) + syntax::raw_text(w, n - 1) }
        }
        /// C08 property text: the key an instruction is looked up under = the first <= 4 characters of its leading run of
        /// tokens (everything up to the first blank, comment or line break, whatever kind the tokens are), lower-cased, NUL-padded
        pub open spec fn text_key(cs: Seq<char>) -> Seq<char> {
            Seq::new(4, |j: int| if j < cs.len() { spec_lower(cs[j]) } else { '\0' })
        }
        pub open spec fn run_of_tokens(w: &syntax::Walker, t: int) -> bool {
            forall|k: int| 0 <= k < t ==> !syntax::ignorable(#[trigger] syntax::raw_kind(w, k)) && syntax::raw_text(w, k).len() >= 1
        }
        pub proof fn lemma_cat_len(w: &syntax::Walker, t: int)
            requires 0 <= t, run_of_tokens(w, t)
            ensures cat(w, t).len() >= t
            decreases t
        {
            if t > 0 { lemma_cat_len(w, t - 1); assert(!syntax::ignorable(syntax::raw_kind(w, t - 1))); }
        }
        /// a run of t tokens (t <= fuel): the leading characters are theirs followed by what comes after
        pub proof fn lemma_lead_split(w: &syntax::Walker, t: int, fuel: nat)
            requires 0 <= t <= fuel, run_of_tokens(w, t)
            ensures lead_chars(w, 0, fuel) =~= cat(w, t) + lead_chars(w, t, (fuel - t) as nat)
            decreases t
        {
            if t > 0 {
                lemma_lead_split(w, t - 1, fuel);
                assert(!syntax::ignorable(syntax::raw_kind(w, t - 1)));
                assert(lead_chars(w, t - 1, (fuel - (t - 1)) as nat) =~= syntax::raw_text(w, t - 1) + lead_chars(w, t, (fuel - t) as nat));
            }
        }
        //@@ITEMS defs
    }
    }
}
