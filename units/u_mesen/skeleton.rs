//@@INCLUDE _shared/header.rs
//@@INCLUDE _shared/ispec.rs
//@@INCLUDE _shared/num_bigint.rs
//@@INCLUDE _shared/std_gaps.rs
pub mod diagn {
    use vstd::prelude::*;
    verus! {
    #[verifier::external_body]
    #[derive(Clone, Copy)]
    pub struct Span { _p: u8 }
    }
}
pub mod expr {
    use vstd::prelude::*;
    verus! {
    #[verifier::external_body]
    pub struct Value { _p: u8 }
    }
}
pub mod util {
    use vstd::prelude::*;
    use vstd::std_specs::convert::*;
    use crate::*;
    use crate::ispec::*;
    verus! {
    broadcast use {crate::num_bigint::axiom_into_refl_obeys, crate::num_bigint::axiom_into_refl};
    #[verifier::external_body]
    pub struct SymbolContext { _p: u8 }
    /// opaque stand-in (the lifted closure is emitted inside the `impl` block it was cut from; it has no `self`)
    #[verifier::external_body]
    #[verifier::accept_recursive_types(T)]
    pub struct SymbolManager<T> { _p: core::marker::PhantomData<T> }
    //@@INCLUDE _shared/util_bigint_spec_min.rs
    // ---- C12: a Mesen label-file entry
    /// text of `format!(LIT, value)` (uninterpreted) and of `name.replace(".", "_")`
    pub uninterp spec fn hex_text(v: int) -> Seq<char>;
    pub uninterp spec fn underscored(name: Seq<char>) -> Seq<char>;
    #[verifier::external_body]
    pub fn verif_fmt_hex_usize(lit: &str, a: usize) -> (r: String) ensures r@ == hex_text(a as int) { unimplemented!() }
    #[verifier::external_body]
    pub fn verif_fmt_hex_bigint(lit: &str, a: &BigInt) -> (r: String) ensures r@ == hex_text(a.val()) { unimplemented!() }
    #[verifier::external_body]
    pub fn verif_replace_dots(name: &str) -> (r: String) ensures r@ == underscored(name@) { unimplemented!() }
    /// the PRG file offset Mesen expects for a label at address `addr` of a bank that starts at `start` and is
    /// written `outp` bits into the file: bytes from the start of the file minus the 16-byte iNES header
    pub open spec fn prg_offset(addr: int, start: int, outp: int) -> int { addr - start + outp / 8 - 16 }
    //@@ITEMS util
    }
}
pub mod asm {
    use vstd::prelude::*;
    use crate::*;
    verus! {
    /// stand-in for asm::ItemDefs: only the fields the formatter reads
    pub struct ItemDefs { pub symbols: DefList<Symbol>, pub bankdefs: DefList<Bankdef> }
    //@@ITEMS asm
    }
}
