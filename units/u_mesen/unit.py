from vfw.spec import Unit, Fn, Type, Impl, C, Loop, Rewrite, Insert
from units.common import itemref_items, deflist_fns
from units import contracts_bigint as cb
from units.u_symbols import unit as us

F = "src/util/symbol_format.rs"
IMPL = "util::SymbolManager<asm::Symbol>"

SYM = "defs.symbols.defs@[symbol_decl.item_ref.0 as int]->0"
BANK = "defs.bankdefs.defs@[(%s.bankdef_ref->0).0 as int]->0" % SYM
A = "bigint.val()"
S = "%s.addr_start.val()" % BANK
O = "%s.output_offset->0" % BANK
PRG = "prg_offset(%s, %s, %s as int)" % (A, S, O)
LABEL_IN_PRG = "0 <= %s <= usize::MAX && 0 <= %s <= usize::MAX && %s >= %s && %s - %s + %s / 8 <= usize::MAX && %s >= 0" % (A, S, A, S, A, S, O, PRG)
ENTRY_P = '"P:"@ + hex_text(%s) + ":"@ + underscored(name@) + "\\n"@' % PRG
ENTRY_R = '"R:"@ + hex_text(%s) + ":"@ + underscored(name@) + "\\n"@' % A
mesen = Fn(F, "format_mesen_mlb", impl=IMPL, impl_header="SymbolManager<asm::Symbol>", slot="util", key="SymbolManager::format_mesen_mlb::entry", props=["C12", "C03", "C19"],
    gen_name="verif_closure_mesen_entry",
    lift={"closure": "mesen_entry", "ordinal": 1, "part": "lifted",
          "params": ["result: &mut String", "symbol_decl: &util::SymbolDecl<asm::Symbol>", "name: &str", "bigint: &util::BigInt"],
          "captures": [("defs", "&asm::ItemDefs", "defs")]},
    requires=[
        C("symbol_defined", "symbol_decl.item_ref.0 < defs.symbols.defs@.len() && defs.symbols.defs@[symbol_decl.item_ref.0 as int] is Some", ["C03"]),
        C("bank_defined", "%s.bankdef_ref is Some ==> (%s.bankdef_ref->0).0 < defs.bankdefs.defs@.len() && defs.bankdefs.defs@[(%s.bankdef_ref->0).0 as int] is Some" % (SYM, SYM, SYM), ["C03"]),
    ],
    ensures=[
        C("constants_and_bankless_symbols_are_left_out", "symbol_decl.kind is Constant || %s.bankdef_ref is None ==> final(result)@ == old(result)@" % SYM, ["C12"]),
        C("a_label_in_the_file_gets_its_prg_offset", "!(symbol_decl.kind is Constant) && %s.bankdef_ref is Some && %s.output_offset is Some ==> final(result)@ == old(result)@ + (if %s { %s } else { Seq::<char>::empty() })" % (SYM, BANK, LABEL_IN_PRG, ENTRY_P), ["C12", "C19"]),
        C("a_label_outside_the_file_is_a_ram_label", "!(symbol_decl.kind is Constant) && %s.bankdef_ref is Some && %s.output_offset is None ==> final(result)@ == old(result)@ + %s" % (SYM, BANK, ENTRY_R), ["C12"]),
    ],
    rewrites=[
        Rewrite('format!("{:x}", prg_offset)', 'verif_fmt_hex_usize("{:x}", prg_offset)', rule="R22", why="format! -> wrapper (hexadecimal text of the number, uninterpreted)"),
        Rewrite('format!("{:x}", bigint)', 'verif_fmt_hex_bigint("{:x}", bigint)', rule="R22", why="format! -> wrapper"),
        Rewrite('name.replace(".", "_")', "verif_replace_dots(name)", count=2, rule="R16", why="str::replace -> prelude wrapper (uninterpreted result)"),
    ],
    closures={1: ("|offset: usize| -> (r: Option<usize>)\n                ensures r == (if offset + output_offset / 8 <= usize::MAX { Some((offset + output_offset / 8) as usize) } else { None::<usize> })\n           ", ""),
              2: ("|offset: usize| -> (r: Option<usize>)\n                ensures r == (if offset >= 0x10 { Some((offset - 0x10) as usize) } else { None::<usize> })\n           ", "")},
    inserts=[Insert("let symbol = defs.symbols.get(symbol_decl.item_ref);", 'proof { reveal_strlit("P:"); reveal_strlit("R:"); reveal_strlit(":"); reveal_strlit("\\n"); }\n                ', where="before",
                    why="the texts of the string literals the formatter writes")],
)

UNIT = Unit(
    "U-mesen", "u_mesen/skeleton.rs",
    items=itemref_items("util") + [t.in_slot("util") for t in cb.TYPES] + cb.items("stub", "util", only=["maybe_into"])[len(cb.TYPES):] + [
        it for it in us.UNIT.items if getattr(it, "mode", "") == "type" and getattr(it, "name", "") in ("SymbolDecl", "SymbolKind")] + [
        Type("src/asm/defs/symbol.rs", "struct", "Symbol", slot="asm"), Type("src/asm/defs/bankdef.rs", "struct", "Bankdef", slot="asm"),
        Type("src/asm/defs/mod.rs", "struct", "DefList", slot="asm"),
    ] + [f for f in deflist_fns("stub", "asm") if f.name == "get"] + [mesen],
    serves=["C12", "C03", "C19"],
    description="the Mesen .mlb entry formatter (the closure of SymbolManager::format_mesen_mlb, lifted to a function, R25)",
)
