//@@INCLUDE _shared/header.rs
//@@INCLUDE _shared/diagn_opaque.rs
//@@INCLUDE _shared/std_minmax.rs
//@@INCLUDE _shared/symspec.rs
pub mod util {
    use vstd::prelude::*;
    use crate::*;
    use crate::symspec::*;
    verus! {
    #[verifier::external_body]
    pub struct BigInt { _p: u8 }
    pub type FileServerHandle = usize;
    broadcast use {crate::symspec::lemma_texts_subrange, crate::symspec::lemma_drop_first_is_subrange, crate::symspec::axiom_key_text_string};
    //@@INCLUDE _shared/symbols_util.rs
    //@@ITEMS util
    }
}
pub mod expr {
    use vstd::prelude::*;
    use crate::*;
    verus! {
    #[verifier::external_body]
    pub struct Expr { _p: u8 }
    #[verifier::external_body]
    pub struct Value { _p: u8 }
    }
}
pub mod syntax {
    use vstd::prelude::*;
    verus! {
    #[verifier::external_body]
    pub struct Token { _p: u8 }
    }
}
pub mod asm {
    use vstd::prelude::*;
    use crate::*;
    verus! {
    #[verifier::external_body]
    pub struct Ruledef { _p: u8 }
    #[verifier::external_body]
    pub struct Bankdef { _p: u8 }
    #[verifier::external_body]
    pub struct Symbol { _p: u8 }
    #[verifier::external_body]
    pub struct Function { _p: u8 }
    #[verifier::external_body]
    pub struct Instruction { _p: u8 }
    #[verifier::external_body]
    pub struct DataElement { _p: u8 }
    #[verifier::external_body]
    pub struct ResDirective { _p: u8 }
    #[verifier::external_body]
    pub struct AlignDirective { _p: u8 }
    #[verifier::external_body]
    pub struct AddrDirective { _p: u8 }
    //@@INCLUDE u_collect/spec.rs
    //@@ITEMS asm
    }
    pub mod decls {
        use vstd::prelude::*;
        use crate::*;
        use crate::symspec::*;
        use crate::asm::*;
        verus! {
        //@@ITEMS decls
        }
    }
}
