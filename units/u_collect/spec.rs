    /// C15: the label scope in force before node `i` of the file: the recorded scope path of the closest
    /// preceding symbol node's declaration (the global scope when there is none)
    pub open spec fn scope_before(nodes: Seq<AstAny>, table: &util::SymbolManager<Symbol>, i: int) -> Seq<String>
        decreases i
    {
        if i <= 0 { Seq::empty() }
        else {
            match nodes[i - 1] {
                AstAny::Symbol(n) => table.decls@[(n.item_ref->0).0 as int].ctx.hierarchy@,
                _ => scope_before(nodes, table, i - 1),
            }
        }
    }
    /// every symbol node among the first `i` has a declaration in the table
    pub open spec fn declared_upto(nodes: Seq<AstAny>, table: &util::SymbolManager<Symbol>, i: int) -> bool {
        forall|j: int| 0 <= j < i ==> (match #[trigger] nodes[j] { AstAny::Symbol(n) => n.item_ref is Some && (n.item_ref->0).0 < table.decls@.len(), _ => true })
    }
    /// scope_before only reads the declarations the first `i` nodes point at
    pub proof fn lemma_scope_before_stable(n1: Seq<AstAny>, t1: &util::SymbolManager<Symbol>, n2: Seq<AstAny>, t2: &util::SymbolManager<Symbol>, i: int)
        requires
            0 <= i <= n1.len(), i <= n2.len(),
            forall|j: int| 0 <= j < i ==> #[trigger] n1[j] == n2[j],
            declared_upto(n1, t1, i),
            t1.decls@.len() <= t2.decls@.len(),
            forall|k: int| 0 <= k < t1.decls@.len() ==> (#[trigger] t2.decls@[k]).ctx == t1.decls@[k].ctx,
        ensures scope_before(n1, t1, i) == scope_before(n2, t2, i)
        decreases i
    {
        if i > 0 {
            match n1[i - 1] {
                AstAny::Symbol(n) => {}
                _ => { lemma_scope_before_stable(n1, t1, n2, t2, i - 1); }
            }
        }
    }
    pub proof fn lemma_scope_before_all(n1: Seq<AstAny>, t1: &util::SymbolManager<Symbol>, n2: Seq<AstAny>, t2: &util::SymbolManager<Symbol>, i: int)
        requires
            0 <= i <= n1.len(), i <= n2.len(),
            forall|j: int| 0 <= j < i ==> #[trigger] n1[j] == n2[j],
            declared_upto(n1, t1, i),
            t1.decls@.len() <= t2.decls@.len(),
            forall|k: int| 0 <= k < t1.decls@.len() ==> (#[trigger] t2.decls@[k]).ctx == t1.decls@[k].ctx,
        ensures forall|j: int| 0 <= j <= i ==> #[trigger] scope_before(n1, t1, j) == scope_before(n2, t2, j)
    {
        assert forall|j: int| 0 <= j <= i implies #[trigger] scope_before(n1, t1, j) == scope_before(n2, t2, j) by {
            lemma_scope_before_stable(n1, t1, n2, t2, j);
        }
    }
