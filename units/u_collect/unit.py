from vfw.spec import Unit, Fn, Type, Impl, C, Loop, Rewrite, Insert
from units.contracts_report import report_fns
from units.common import itemref_items, ast_types
from units.u_symbols import unit as us

F = "src/asm/decls/symbol.rs"
FS = "src/util/symbol_manager.rs"

NODE_OK = "(match #[trigger] %s.nodes@[j] { asm::AstAny::Symbol(n) => n.item_ref is Some ==> (n.item_ref->0).0 < %s.symbols.decls@.len(), _ => true })"

new_global = Fn(FS, "new_global", impl="SymbolContext", slot="util", ret="res", key="SymbolContext::new_global", props=["C15"],
                ensures=[C("global_scope", "res.hierarchy@.len() == 0", ["C15"])])

LEX = '(match #[trigger] old(ast).nodes@[j] { asm::AstAny::Symbol(n) => n.item_ref is None ==> ({   let d = %(D)s.symbols.decls@[(%(A)s.nodes@[j]->Symbol_0.item_ref->0).0 as int];   let scope = asm::scope_before(%(A)s.nodes@, &%(D)s.symbols, j);   n.hierarchy_level <= scope.len() && d.depth == n.hierarchy_level && d.ctx.hierarchy@ == scope.subrange(0, n.hierarchy_level as int).push(n.name) }), _ => true })'

LEX_ALL = LEX.replace("n.item_ref is None ==> ", "")
FIRST_ROUND = "forall|j: int| 0 <= j < old(ast).nodes@.len() ==> (match #[trigger] old(ast).nodes@[j] { asm::AstAny::Symbol(n) => n.item_ref is None, _ => true })"

collect = Fn(
    F, "collect", slot="decls", ret="res", key="decls::symbol::collect", props=["C15", "C03"],
    requires=[
        C("table_wf", "old(decls).symbols.wf()", ["C03"]),
        C("earlier_refs_exist", "forall|j: int| 0 <= j < old(ast).nodes@.len() ==> " + NODE_OK % ("old(ast)", "old(decls)"), ["C03"]),
    ],
    ensures=[
        C("err_is_loud", "res is Err ==> final(report).msgs() > old(report).msgs()", ["C03"]),
        C("ok_is_clean", "res is Ok ==> final(report).msgs() == old(report).msgs()", ["C03"]),
        C("same_nodes", "final(ast).nodes@.len() == old(ast).nodes@.len()", ["C15"]),
        C("all_declared", "res is Ok ==> asm::declared_upto(final(ast).nodes@, &final(decls).symbols, final(ast).nodes@.len() as int)", ["C15"]),
        C("only_item_refs_filled_in", "forall|j: int| 0 <= j < old(ast).nodes@.len() ==> (match #[trigger] old(ast).nodes@[j] {"
          " asm::AstAny::Symbol(n) => final(ast).nodes@[j] is Symbol && (n.item_ref is Some ==> final(ast).nodes@[j] == old(ast).nodes@[j])"
          " && final(ast).nodes@[j]->Symbol_0.name == n.name && final(ast).nodes@[j]->Symbol_0.hierarchy_level == n.hierarchy_level,"
          " _ => final(ast).nodes@[j] == old(ast).nodes@[j] })", ["C15"]),
        C("lexical_scope", "res is Ok ==> forall|j: int| 0 <= j < old(ast).nodes@.len() ==> " + LEX % {"A": "final(ast)", "D": "final(decls)"}, ["C15"]),
        C("every_symbol_is_declared_in_the_scope_of_the_labels_before_it", "res is Ok ==> forall|j: int| 0 <= j < old(ast).nodes@.len() ==> " + LEX_ALL % {"A": "final(ast)", "D": "final(decls)"}, ["C15"],
          guard=FIRST_ROUND, finding="D36"),
        C("table_stays_well_formed", "res is Ok ==> final(decls).symbols.wf()", ["C03"]),
        C("earlier_declarations_kept", "final(decls).symbols.decls@.len() >= old(decls).symbols.decls@.len() && forall|k: int| 0 <= k < old(decls).symbols.decls@.len() ==> (#[trigger] final(decls).symbols.decls@[k]).ctx == old(decls).symbols.decls@[k].ctx", ["C15"]),
    ],
    for_to_while=[1],
    loops={1: Loop(invariant=[
        C("len", "ast.nodes@.len() == old(ast).nodes@.len() && verif_next_1 <= ast.nodes@.len()"),
        C("clean", "report.msgs() == old(report).msgs()"),
        C("wf", "decls.symbols.wf()"),
        C("rest_untouched", "forall|j: int| verif_next_1 <= j < ast.nodes@.len() ==> #[trigger] ast.nodes@[j] == old(ast).nodes@[j]"),
        C("declared", "asm::declared_upto(ast.nodes@, &decls.symbols, verif_next_1 as int)"),
        C("scope_carried", "symbol_ctx.hierarchy@ == asm::scope_before(ast.nodes@, &decls.symbols, verif_next_1 as int)"),
        C("decls_grow", "decls.symbols.decls@.len() >= old(decls).symbols.decls@.len() && forall|k: int| 0 <= k < old(decls).symbols.decls@.len() ==> (#[trigger] decls.symbols.decls@[k]).ctx == old(decls).symbols.decls@[k].ctx"),
        C("refs_exist", "forall|j: int| 0 <= j < ast.nodes@.len() ==> " + NODE_OK % ("ast", "decls")),
        C("shape_kept", "forall|j: int| 0 <= j < verif_next_1 ==> (match #[trigger] old(ast).nodes@[j] {"
          " asm::AstAny::Symbol(n) => ast.nodes@[j] is Symbol && (n.item_ref is Some ==> ast.nodes@[j] == old(ast).nodes@[j])"
          " && ast.nodes@[j]->Symbol_0.name == n.name && ast.nodes@[j]->Symbol_0.hierarchy_level == n.hierarchy_level,"
          " _ => ast.nodes@[j] == old(ast).nodes@[j] })"),
        C("scoped_so_far", "forall|j: int| 0 <= j < verif_next_1 ==> " + LEX % {"A": "ast", "D": "decls"}),
    ], decreases="ast.nodes@.len() - verif_next_1",
       body_start=" let ghost nodes0 = ast.nodes@; let ghost t0 = decls.symbols; let ghost i0 = verif_next_1 as int;",
       body_end=" proof { asm::lemma_scope_before_all(nodes0, &t0, ast.nodes@, &decls.symbols, i0); }")},
    inserts=[Insert("continue", "proof { asm::lemma_scope_before_all(nodes0, &t0, ast.nodes@, &decls.symbols, i0); } ", where="before",
                    why="ghost call at the `continue` exit of the loop body (the walk skips a non-symbol node)")],
)

decl_stub = us.declare.as_stub("util")
get_stub = us.get.as_stub("util")

UNIT = Unit(
    "U-collect", "u_collect/skeleton.rs",
    items=report_fns("stub", "diagn") + itemref_items("util") + [it for it in us.UNIT.items if getattr(it, "mode", "") == "type" and it.name.startswith("Symbol")] + [new_global, get_stub, decl_stub] + ast_types("asm") + [
        Type("src/asm/decls/mod.rs", "struct", "ItemDecls", slot="asm"),
        collect,
    ],
    serves=["C15", "C03"],
    description="asm::decls::symbol::collect: the label scope carried along the AST walk",
)
