from vfw.spec import Unit, Fn, Type, Impl, C, Loop, Rewrite, Insert
from units.u_resolver import unit as ur
from units.u_evalvar import unit as uev

FC = "src/asm/resolver/constant.rs"
FE = "src/expr/expression.rs"
FI = ur.FI
WHY29 = "iterator adapter -> prelude wrapper taking the closure unchanged; assumed: what `iter().find()` computes from a closure that compares the names"

is_unknown = Fn(FE, "is_unknown", impl="Value", slot="expr", ret="res", key="Value::is_unknown", props=["C03"],
    ensures=[C("unknown", "res == (self is Unknown)", ["C03"])])

REF = "((ast_symbol.item_ref->0).0 as int)"
S = "final(defs).symbols.defs@[%s]->0" % REF
O = "old(defs).symbols.defs@[%s]->0" % REF
DEFINE = "define_for(opts.driver_symbol_defs@, decls.symbols.decls@[%s].name@, opts.driver_symbol_defs@.len() as int)" % REF
rcs = Fn(FC, "resolve_constant_simple", slot="resolver", ret="res", key="resolve_constant_simple", props=["C16", "C15", "C03"],
    requires=[
        C("symbol_declared_and_defined", "ast_symbol.item_ref is Some && %s < decls.symbols.decls@.len() && %s < old(defs).symbols.defs@.len() && old(defs).symbols.defs@[%s] is Some" % (REF, REF, REF), ["C03"]),
        C("is_constant", "ast_symbol.kind is Constant", ["C03"]),
    ],
    ensures=ur.LOUD + [
        C("only_this_symbol_changes", "final(defs).symbols.defs@.len() == old(defs).symbols.defs@.len() && final(defs).symbols.defs@[%s] is Some"
          " && (forall|k: int| 0 <= k < old(defs).symbols.defs@.len() && k != %s ==> final(defs).symbols.defs@[k] == old(defs).symbols.defs@[k])"
          " && final(defs).bankdefs == old(defs).bankdefs && final(defs).instructions == old(defs).instructions && final(defs).data_elems == old(defs).data_elems" % (REF, REF), ["C16"]),
        C("a_frozen_constant_is_left_alone", "%s.resolved ==> res == Ok::<asm::ResolutionState, ()>(asm::ResolutionState::Resolved) && %s == %s" % (O, S, O), ["C16"]),
        C("a_define_replaces_the_value_for_good", "!%s.resolved && %s is Some ==> res == Ok::<asm::ResolutionState, ()>(asm::ResolutionState::Resolved)"
          " && %s.value == opts.driver_symbol_defs@[%s->0].value && %s.resolved" % (O, DEFINE, S, DEFINE, S), ["C16"]),
        C("otherwise_the_value_from_constants_alone", "res is Ok && !%s.resolved && %s is None ==> %s.value == simple_value(decls, old(defs), &ast_symbol.kind->Constant_0.expr)"
          " && (%s.resolved ==> opts.optimize_statically_known && %s.value_statically_known && !(%s.value is Unknown))" % (O, DEFINE, S, S, O, S), ["C15", "C16"]),
        C("resolved_iff_settled", "res is Ok ==> (res->Ok_0 is Resolved) == const_settled(%s)" % S, ["C15"]),
    ],
    rewrites=[
        Rewrite(r"println!\((?:[^()]|\((?:[^()]|\([^()]*\))*\))*\);", "", regex=True, rule="R7", why="debug printing statement deleted", count=2),
        Rewrite(r"opts\.driver_symbol_defs\s*\.iter\(\)\s*\.find\((\|\w+\| (?:[^()]|\((?:[^()]|\([^()]*\))*\))*?)\)", r"verif_find_define(&opts.driver_symbol_defs, Ghost(symbol_decl.name@), \1)", regex=True, rule="R29", why=WHY29),
    ],
    closures={1: ("|s: &&asm::DriverSymbolDef| -> (r: bool)\n            ensures r == (s.name@ == symbol_decl.name@)\n       ", "")},
)

ITER_IMPL = ur.ITER_IMPL
iter_new = Fn(FI, "new", impl=ITER_IMPL, slot="resolver", mode="stub", ret="res", key="ResolveIterator::new",
    ensures=[C("at_the_start", "res.index == 0 && res.ast == ast")])
next_simple = Fn(FI, "next_simple", impl=ITER_IMPL, slot="resolver", mode="stub", ret="res", key="ResolveIterator::next_simple",
    requires=[C("cursor_in_range", "old(self).index <= old(self).ast.nodes@.len()"),
              C("symbols_declared", "forall|j: int| 0 <= j < old(self).ast.nodes@.len() ==> (match #[trigger] old(self).ast.nodes@[j] { asm::AstAny::Symbol(s) => s.item_ref is Some, _ => true })")],
    ensures=[C("report_untouched", "*final(_report) == *old(_report)"),
        C("never_fails", "res is Ok"),
        C("one_node_per_call", "final(self).ast == old(self).ast && final(self).index == (if old(self).index < old(self).ast.nodes@.len() { old(self).index + 1 } else { old(self).index as int })"),
        C("end_of_program", "(res->Ok_0 is None) == (old(self).index >= old(self).ast.nodes@.len())"),
        C("node", "old(self).index < old(self).ast.nodes@.len() ==> (match old(self).ast.nodes@[old(self).index as int] {"
          " asm::AstAny::Symbol(s) => res->Ok_0->0.node == asm::ResolverNode::Symbol(&s), _ => res->Ok_0->0.node is None })"),
    ])

rcss = Fn(FC, "resolve_constants_simple", slot="resolver", ret="res", key="resolve_constants_simple", props=["C15", "C16", "C03"],
    attrs=["#[verifier::exec_allows_no_decreases_clause] // termination of the walk is NOT proved here (the cursor lives behind next_simple, a stub; next_simple itself is proved in U-cursor)"],
    requires=[C("symbol_nodes_ok", "symbol_nodes_ok(ast.nodes@, decls, old(defs))", ["C03"])],
    ensures=ur.LOUD + [
        C("counts_every_settled_constant", "res is Ok ==> res->Ok_0 == settled_constants(ast.nodes@, final(defs), ast.nodes@.len() as int)", ["C15"]),
        C("symbol_table_shape_kept", "final(defs).symbols.defs@.len() == old(defs).symbols.defs@.len()", ["C15"]),
    ],
    loops={1: Loop(invariant=[
        C("clean", "report.msgs() == old(report).msgs() && report.errors() == old(report).errors() && report.parents() == old(report).parents()"),
        C("cursor", "iter.ast == ast && iter.index <= ast.nodes@.len() && iter.index == visited"),
        C("nodes_ok", "symbol_nodes_ok(ast.nodes@, decls, defs) && defs.symbols.defs@.len() == old(defs).symbols.defs@.len()"),
        C("count_so_far", "resolved_count == settled_constants(ast.nodes@, defs, visited)"),
    ], ensures=[C("all_visited", "visited == ast.nodes@.len()")],
       before="    let ghost mut visited: int = 0;",
       body_start=" let ghost defs0 = *defs; let ghost i0 = visited; proof { lemma_settled_bound(ast.nodes@, defs, i0); visited = visited + 1; }",
       body_end=" proof { match ast.nodes@[i0] { asm::AstAny::Symbol(s) => { lemma_settled_frame(ast.nodes@, &defs0, defs, i0, (s.item_ref->0).0 as int); }, _ => {} } }")},
)

UNIT = Unit(
    "U-prepass", "u_prepass/skeleton.rs",
    items=ur.COMMON + uev.SYMS + [is_unknown, ur.eval_simple_stub, rcs, iter_new, next_simple, rcss],
    serves=["C15", "C16", "C03"],
    carry_facts_into_loops=False,   # this unit's proofs need isolated loops (loop `ensures` clauses, or the solver runs out of resources with the wider context)
    description="asm::resolver::resolve_constants_simple / resolve_constant_simple: the address-free pre-pass over constants",
)
