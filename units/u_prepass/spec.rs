        // ---- the address-free pre-pass over constants (C16 defines, C15 use-before-declaration)
        /// a constant whose value the pre-pass has settled: frozen, or known
        pub open spec fn const_settled(s: asm::Symbol) -> bool { s.resolved || !(s.value is Unknown) }
        /// the first command-line define with that name, if any
        pub open spec fn define_for(defines: Seq<asm::DriverSymbolDef>, name: Seq<char>, n: int) -> Option<int> decreases n {
            if n <= 0 { None } else { match define_for(defines, name, n - 1) { Some(j) => Some(j), None => if defines[n - 1].name@ == name { Some(n - 1) } else { None } } }
        }
        /// R29 helper for `defines.iter().find(CLOSURE)`: the closure is passed unchanged and must compare the names
        #[verifier::external_body]
        pub fn verif_find_define<'a, F: FnMut(&&'a asm::DriverSymbolDef) -> bool>(defines: &'a Vec<asm::DriverSymbolDef>, name: Ghost<Seq<char>>, same_name: F) -> (r: Option<&'a asm::DriverSymbolDef>)
            requires forall|d: &&asm::DriverSymbolDef, b: bool| call_ensures(same_name, (d,), b) ==> b == (d.name@ == name@)
            ensures (match r { Some(d) => define_for(defines@, name@, defines@.len() as int) is Some && *d == defines@[define_for(defines@, name@, defines@.len() as int)->0],
                               None => define_for(defines@, name@, defines@.len() as int) is None })
        { unimplemented!() }
        /// number of settled constants among the symbol nodes of the first n AST nodes
        pub open spec fn settled_constants(nodes: Seq<asm::AstAny>, defs: &asm::ItemDefs, n: int) -> int decreases n {
            if n <= 0 { 0 } else {
                settled_constants(nodes, defs, n - 1) + (match nodes[n - 1] {
                    asm::AstAny::Symbol(s) => if s.kind is Constant && const_settled(defs.symbols.defs@[(s.item_ref->0).0 as int]->0) { 1int } else { 0int },
                    _ => 0int })
            }
        }
        /// the symbol nodes of the AST refer to distinct, declared and defined symbols
        pub open spec fn symbol_nodes_ok(nodes: Seq<asm::AstAny>, decls: &asm::ItemDecls, defs: &asm::ItemDefs) -> bool {
            &&& forall|j: int| 0 <= j < nodes.len() ==> (match #[trigger] nodes[j] { asm::AstAny::Symbol(s) =>
                    s.item_ref is Some && (s.item_ref->0).0 < decls.symbols.decls@.len() && (s.item_ref->0).0 < defs.symbols.defs@.len() && defs.symbols.defs@[(s.item_ref->0).0 as int] is Some, _ => true })
            &&& forall|i: int, j: int| 0 <= i < j < nodes.len() ==> (match (#[trigger] nodes[i], #[trigger] nodes[j]) { (asm::AstAny::Symbol(a), asm::AstAny::Symbol(b)) => a.item_ref != b.item_ref, _ => true })
        }
        pub proof fn lemma_settled_frame(nodes: Seq<asm::AstAny>, d1: &asm::ItemDefs, d2: &asm::ItemDefs, n: int, changed: int)
            requires
                0 <= n <= nodes.len(),
                d1.symbols.defs@.len() == d2.symbols.defs@.len(),
                forall|k: int| 0 <= k < d1.symbols.defs@.len() && k != changed ==> d1.symbols.defs@[k] == d2.symbols.defs@[k],
                forall|j: int| 0 <= j < n ==> (match #[trigger] nodes[j] { asm::AstAny::Symbol(s) => s.item_ref is Some && (s.item_ref->0).0 < d1.symbols.defs@.len() && (s.item_ref->0).0 != changed, _ => true }),
            ensures settled_constants(nodes, d1, n) == settled_constants(nodes, d2, n)
            decreases n
        {
            if n > 0 { lemma_settled_frame(nodes, d1, d2, n - 1, changed); }
        }
        pub proof fn lemma_settled_bound(nodes: Seq<asm::AstAny>, d: &asm::ItemDefs, n: int)
            requires 0 <= n
            ensures 0 <= settled_constants(nodes, d, n) <= n
            decreases n
        {
            if n > 0 { lemma_settled_bound(nodes, d, n - 1); }
        }
