//@@INCLUDE _shared/header.rs
//@@INCLUDE _shared/diagn_opaque.rs
pub mod util {
    use vstd::prelude::*;
    use crate::*;
    verus! {
    /// R8 helper: stands for `MAP.get(KEY.borrow())` on a HashMap<String, ItemRef<T>> with a key of a type
    /// S: Borrow<str>.  ASSUMED contract: the result is the uninterpreted lookup `spec_lookup` of the key's
    /// text in the map (vstd cannot relate String keys to borrowed &str keys for a generic S).
    pub uninterp spec fn key_text<S>(s: &S) -> Seq<char>;
    pub uninterp spec fn spec_lookup<T>(m: &std::collections::HashMap<String, util::ItemRef<T>>, key: Seq<char>) -> Option<util::ItemRef<T>>;
    #[verifier::external_body]
    pub fn verif_lookup<'a, T, S: std::borrow::Borrow<str>>(m: &'a std::collections::HashMap<String, util::ItemRef<T>>, key: &S) -> (r: Option<&'a util::ItemRef<T>>)
        ensures (match r { Some(x) => spec_lookup(m, key_text(key)) == Some(*x), None => spec_lookup(m, key_text(key)) is None })
    { unimplemented!() }

    pub open spec fn texts<S>(s: Seq<S>) -> Seq<Seq<char>> { Seq::new(s.len(), |i: int| key_text(&s[i])) }

    impl<T> SymbolManager<T> {
        /// every stored reference points at an existing declaration
        pub open spec fn wf(&self) -> bool {
            &&& forall|key: Seq<char>| (#[trigger] spec_lookup(&self.globals, key)) is Some ==> (spec_lookup(&self.globals, key)->0).0 < self.decls@.len()
            &&& forall|i: int, key: Seq<char>| 0 <= i < self.decls@.len() && (#[trigger] spec_lookup(&self.decls@[i].children, key)) is Some ==> (spec_lookup(&self.decls@[i].children, key)->0).0 < self.decls@.len()
        }
        pub open spec fn children_of(&self, parent: Option<util::ItemRef<T>>) -> &std::collections::HashMap<String, util::ItemRef<T>> {
            match parent { Some(p) => &self.decls@[p.0 as int].children, None => &self.globals }
        }
        /// C15 property text: descend from `parent` along a dotted path; the last component is the result
        pub open spec fn spec_traverse(&self, parent: Option<util::ItemRef<T>>, path: Seq<Seq<char>>) -> Option<util::ItemRef<T>>
            decreases path.len()
        {
            if path.len() == 0 { None }
            else {
                match spec_lookup(self.children_of(parent), path[0]) {
                    None => None,
                    Some(c) => if path.len() == 1 { Some(c) } else { self.spec_traverse(Some(c), path.drop_first()) },
                }
            }
        }
        /// descend from `parent` along the whole path; the empty path is `parent` itself
        pub open spec fn spec_parent(&self, parent: Option<util::ItemRef<T>>, path: Seq<Seq<char>>) -> Option<util::ItemRef<T>>
            decreases path.len()
        {
            if path.len() == 0 { parent }
            else {
                match spec_lookup(self.children_of(parent), path[0]) {
                    None => None,
                    Some(c) => self.spec_parent(Some(c), path.drop_first()),
                }
            }
        }
        pub open spec fn ref_ok(&self, r: Option<util::ItemRef<T>>) -> bool { r is Some ==> (r->0).0 < self.decls@.len() }
    }
    //@@ITEMS util
    }
}
