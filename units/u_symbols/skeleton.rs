//@@INCLUDE _shared/header.rs
//@@INCLUDE _shared/diagn_opaque.rs
//@@INCLUDE _shared/std_minmax.rs
//@@INCLUDE _shared/symspec.rs
pub mod util {
    use vstd::prelude::*;
    use crate::*;
    use crate::symspec::*;
    verus! {
    //@@INCLUDE _shared/symbols_util.rs
    //@@ITEMS util
    }
}
