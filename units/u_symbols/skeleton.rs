//@@INCLUDE _shared/header.rs
//@@INCLUDE _shared/diagn_opaque.rs
//@@INCLUDE _shared/std_minmax.rs
//@@INCLUDE _shared/symspec.rs
pub mod util {
    use vstd::prelude::*;
    use crate::*;
    use crate::symspec::*;
    verus! {
    broadcast use {crate::symspec::lemma_texts_subrange, crate::symspec::lemma_drop_first_is_subrange, crate::symspec::axiom_key_text_string};
    //@@INCLUDE _shared/symbols_util.rs
    //@@ITEMS util
    }
}
