from vfw.spec import Unit, Fn, Type, Impl, C, Loop, Rewrite, Insert
from units.contracts_report import report_fns
from units.common import itemref_items

F = "src/util/symbol_manager.rs"
IMPL = "<T> SymbolManager<T>"

R8 = Rewrite(r"(self\.get_children\([^()]*\))\s*\.get\(([^()]+?)\.borrow\(\)\)", r"verif_lookup(\1, &\2)", regex=True, count=None, rule="R8",
             why="HashMap<String,_>::get with a borrowed key of a generic S: Borrow<str> -> prelude wrapper with an assumed (uninterpreted) lookup contract")

SLICE1 = Insert("                    self.traverse(", "                    proof { assert(texts(hierarchy@.subrange(1, hierarchy@.len() as int)) =~= texts(hierarchy@).drop_first()); }\n", where="before")

traverse = Fn(F, "traverse", impl=IMPL, impl_header=IMPL, slot="util", ret="res", key="SymbolManager::traverse", props=["C15", "C03"],
    requires=[C("wf", "self.wf() && self.ref_ok(parent_ref)", ["C03"])],
    ensures=[C("descends_along_path", "res == self.spec_traverse(parent_ref, texts(hierarchy@))", ["C15"]),
             C("result_exists", "self.ref_ok(res)", ["C03"])],
    decreases="hierarchy@.len()",
    rewrites=[R8])

get_parent = Fn(F, "get_parent", impl=IMPL, impl_header=IMPL, slot="util", ret="res", key="SymbolManager::get_parent", props=["C15", "C03"],
    requires=[C("wf", "self.wf() && self.ref_ok(parent_ref)", ["C03"])],
    ensures=[C("descends_along_path", "res == self.spec_parent(parent_ref, texts(hierarchy@))", ["C15"]),
             C("result_exists", "self.ref_ok(res)", ["C03"])],
    decreases="hierarchy@.len()",
    rewrites=[R8])

get_children = Fn(F, "get_children", impl=IMPL, impl_header=IMPL, slot="util", ret="res", key="SymbolManager::get_children", props=["C15", "C03"],
    requires=[C("ref_ok", "self.ref_ok(parent_ref)", ["C03"])],
    ensures=[C("children", "res == self.children_of(parent_ref)", ["C15"])])

get = Fn(F, "get", impl=IMPL, impl_header=IMPL, slot="util", ret="res", key="SymbolManager::get", props=["C03"],
    requires=[C("exists", "item_ref.0 < self.decls@.len()", ["C03"])],
    ensures=[C("decl", "*res == self.decls@[item_ref.0 as int]", ["C15"])])

try_get_by_name = Fn(F, "try_get_by_name", impl=IMPL, impl_header=IMPL, slot="util", ret="res", key="SymbolManager::try_get_by_name", props=["C15", "C03"],
    requires=[C("wf", "self.wf()", ["C03"])],
    ensures=[
        C("level_rule", "res == (if hierarchy_level > ctx.hierarchy@.len() { None } else {"
                        " self.spec_traverse(self.spec_parent(None, texts(ctx.hierarchy@.subrange(0, hierarchy_level as int))), texts(hierarchy@)) })", ["C15"]),
        C("result_exists", "self.ref_ok(res)", ["C03"]),
    ],
    sig_rewrites=[Rewrite("where S: std::borrow::Borrow<str> + std::fmt::Debug", "where S: std::borrow::Borrow<str>", rule="R1", why="Debug bound dropped (no Debug specs in the verified set)")])

UNIT = Unit(
    "U-symbols", "u_symbols/skeleton.rs",
    items=report_fns("stub", "diagn") + itemref_items("util") + [
        Type(F, "struct", "SymbolManager", slot="util", attrs=["#[verifier::accept_recursive_types(T)]"],
             rewrites=[Rewrite("    pub span_refs: std::collections::HashMap<diagn::Span, util::ItemRef<T>>,\n", "", rule="R1", why="field `span_refs` (HashMap keyed by Span, needs Hash/Eq impls) is not used by the verified functions and is dropped from the stand-in")]),
        Type(F, "struct", "SymbolDecl", slot="util", attrs=["#[verifier::accept_recursive_types(T)]"]),
        Type(F, "enum", "SymbolKind", slot="util", derive="Clone, Copy"),
        Type(F, "struct", "SymbolContext", slot="util"),
        get, get_children, traverse, get_parent, try_get_by_name,
    ],
    serves=["C15", "C03"],
    description="util::SymbolManager lookups: dot-level rule and dotted-path descent",
)
