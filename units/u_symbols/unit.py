from vfw.spec import Unit, Fn, Type, Impl, C, Loop, Rewrite, Insert
from units.contracts_report import report_fns
from units.common import itemref_items

F = "src/util/symbol_manager.rs"
IMPL = "<T> SymbolManager<T>"

R8 = Rewrite(r"(self\.get_children\([^()]*\))\s*\.get\(([^()]+?)\.borrow\(\)\)", r"verif_lookup(\1, &\2)", regex=True, count=None, rule="R8",
             why="HashMap<String,_>::get with a borrowed key of a generic S: Borrow<str> -> prelude wrapper with an assumed (uninterpreted) lookup contract")

SLICE1 = Insert("                    self.traverse(", "                    proof { assert(texts(hierarchy@.subrange(1, hierarchy@.len() as int)) =~= texts(hierarchy@).drop_first()); }\n", where="before")

traverse = Fn(F, "traverse", impl=IMPL, impl_header=IMPL, slot="util", ret="res", key="SymbolManager::traverse", props=["C15", "C03"],
    requires=[C("wf", "self.wf() && self.ref_ok(parent_ref)", ["C03"])],
    ensures=[C("descends_along_path", "res == self.spec_traverse(parent_ref, texts(hierarchy@))", ["C15"]),
             C("result_exists", "self.ref_ok(res)", ["C03"])],
    decreases="hierarchy@.len()",
    rewrites=[R8])

get_parent = Fn(F, "get_parent", impl=IMPL, impl_header=IMPL, slot="util", ret="res", key="SymbolManager::get_parent", props=["C15", "C03"],
    requires=[C("wf", "self.wf() && self.ref_ok(parent_ref)", ["C03"])],
    ensures=[C("descends_along_path", "res == self.spec_parent(parent_ref, texts(hierarchy@))", ["C15"]),
             C("result_exists", "self.ref_ok(res)", ["C03"])],
    decreases="hierarchy@.len()",
    rewrites=[R8])

get_children = Fn(F, "get_children", impl=IMPL, impl_header=IMPL, slot="util", ret="res", key="SymbolManager::get_children", props=["C15", "C03"],
    requires=[C("ref_ok", "self.ref_ok(parent_ref)", ["C03"])],
    ensures=[C("children", "res == self.children_of(parent_ref)", ["C15"])])

get = Fn(F, "get", impl=IMPL, impl_header=IMPL, slot="util", ret="res", key="SymbolManager::get", props=["C03"],
    requires=[C("exists", "item_ref.0 < self.decls@.len()", ["C03"])],
    ensures=[C("decl", "*res == self.decls@[item_ref.0 as int]", ["C15"])])

try_get_by_name = Fn(F, "try_get_by_name", impl=IMPL, impl_header=IMPL, slot="util", ret="res", key="SymbolManager::try_get_by_name", props=["C15", "C03"],
    requires=[C("wf", "self.wf()", ["C03"])],
    ensures=[
        C("level_rule", "res == (if hierarchy_level > ctx.hierarchy@.len() { None } else {"
                        " self.spec_traverse(self.spec_parent(None, texts(ctx.hierarchy@.subrange(0, hierarchy_level as int))), texts(hierarchy@)) })", ["C15"]),
        C("result_exists", "self.ref_ok(res)", ["C03"]),
    ],
    sig_rewrites=[Rewrite("where S: std::borrow::Borrow<str> + std::fmt::Debug", "where S: std::borrow::Borrow<str>", rule="R1", why="Debug bound dropped (no Debug specs in the verified set)")])

get_mut = Fn(F, "get_mut", impl=IMPL, impl_header=IMPL, slot="util", ret="res", key="SymbolManager::get_mut", props=["C03"],
    requires=[C("exists", "item_ref.0 < old(self).decls@.len()", ["C03"])],
    ensures=[C("decl", "*res == old(self).decls@[item_ref.0 as int]", ["C15"]),
             C("frame", "final(self).decls@ == old(self).decls@.update(item_ref.0 as int, *final(res)) && final(self).globals == old(self).globals && final(self).report_as == old(self).report_as", ["C15"])])

get_displayable_name = Fn(F, "get_displayable_name", impl=IMPL, impl_header=IMPL, slot="util", mode="stub", ret="res", key="SymbolManager::get_displayable_name", ensures=[])
get_by_name = Fn(F, "get_by_name", impl=IMPL, impl_header=IMPL, slot="util", ret="res", key="SymbolManager::get_by_name", props=["C15", "C03"],
    requires=[C("wf", "self.wf()", ["C03"])],
    ensures=[
        C("found_iff_the_level_rule_finds_it", "(match res { Ok(r) => Some(r), Err(_) => None::<util::ItemRef<T>> }) == (if hierarchy_level > ctx.hierarchy@.len() { None } else {"
          " self.spec_traverse(self.spec_parent(None, texts(ctx.hierarchy@.subrange(0, hierarchy_level as int))), texts(hierarchy@)) })", ["C15"]),
        C("unknown_name_is_an_error", "res is Err ==> final(report).msgs() > old(report).msgs()", ["C15", "C03"]),
        C("ok_is_clean", "res is Ok ==> final(report).msgs() == old(report).msgs() && final(report).errors() == old(report).errors()", ["C03"]),
        C("parents_balanced", "final(report).parents() == old(report).parents()", ["C03"]),
        C("result_exists", "res is Ok ==> res->Ok_0.0 < self.decls@.len()", ["C03"]),
    ],
    sig_rewrites=[Rewrite("where S: std::borrow::Borrow<str> + std::fmt::Debug", "where S: std::borrow::Borrow<str>", rule="R1", why="Debug bound dropped (no Debug specs in the verified set)")],
    rewrites=[Rewrite(r"hierarchy\s*\.iter\(\)\s*\.map\(\|s\| s\.borrow\(\)\.to_string\(\)\)\s*\.collect::<Vec<String>>\(\)", "verif_to_strings(hierarchy)", regex=True, rule="R16",
                      why="iterator adapter chain (only used to print the unknown name) -> prelude wrapper with no contract")])

PARENT = "old(self).spec_parent(None, texts(ctx.hierarchy@.subrange(0, hierarchy_level as int)))"
get_children_mut = Fn(F, "get_children_mut", impl=IMPL, impl_header=IMPL, slot="util", mode="verify", ret="res", key="SymbolManager::get_children_mut",
    requires=[C("ref_ok", "old(self).ref_ok(parent_ref)")],
    ensures=[
        C("is_the_children_map", "*res == *old(self).children_of(parent_ref)"),
        C("frame", "(match parent_ref { None => final(self).globals == *final(res) && final(self).decls@ == old(self).decls@,"
                   " Some(p) => final(self).globals == old(self).globals && final(self).decls@.len() == old(self).decls@.len()"
                   " && final(self).decls@[p.0 as int] == (util::SymbolDecl { children: *final(res), ..old(self).decls@[p.0 as int] })"
                   " && (forall|i: int| 0 <= i < old(self).decls@.len() && i != p.0 ==> #[trigger] final(self).decls@[i] == old(self).decls@[i]) })"),
        C("report_as_kept", "final(self).report_as == old(self).report_as"),
    ])

declare = Fn(F, "declare", impl=IMPL, impl_header=IMPL, slot="util", ret="res", key="SymbolManager::declare", props=["C15", "C03"],
    requires=[C("wf", "old(self).wf()", ["C03"])],
    ensures=[
        C("skipped_level_is_an_error", "hierarchy_level > ctx.hierarchy@.len() ==> res is Err", ["C15"]),
        C("duplicate_is_an_error", "hierarchy_level <= ctx.hierarchy@.len() && spec_lookup(old(self).children_of(%s), name@) is Some ==> res is Err" % PARENT, ["C15"]),
        C("otherwise_declared", "hierarchy_level <= ctx.hierarchy@.len() && spec_lookup(old(self).children_of(%s), name@) is None ==> res is Ok" % PARENT, ["C15"]),
        C("err_is_loud", "res is Err ==> final(report).msgs() > old(report).msgs()", ["C03", "C15"]),
        C("ok_is_clean", "res is Ok ==> final(report).msgs() == old(report).msgs()", ["C03"]),
        C("new_reference_is_next_index", "res is Ok ==> res->Ok_0.0 == old(self).decls@.len() && final(self).decls@.len() == old(self).decls@.len() + 1", ["C15"]),
        C("bound_under_its_parent", "res is Ok ==> forall|k: Seq<char>| #[trigger] spec_lookup(final(self).children_of(%s), k) == (if k == name@ { Some(res->Ok_0) } else { spec_lookup(old(self).children_of(%s), k) })" % (PARENT, PARENT), ["C15"]),
        C("table_stays_well_formed", "res is Ok ==> final(self).wf()", ["C15", "C03"]),
        C("children_come_after_their_parents", "old(self).forest() ==> final(self).forest()", ["C15", "C12"]),
        C("other_scopes_untouched", "res is Ok ==> (forall|i: int, k: Seq<char>| 0 <= i < old(self).decls@.len() && !(%s is Some && (%s->0).0 == i) ==> #[trigger] spec_lookup(&final(self).decls@[i].children, k) == spec_lookup(&old(self).decls@[i].children, k))"
          " && (%s is Some ==> forall|k: Seq<char>| #[trigger] spec_lookup(&final(self).globals, k) == spec_lookup(&old(self).globals, k))" % (PARENT, PARENT, PARENT), ["C15"]),
        C("error_changes_nothing", "res is Err ==> final(self).decls@ == old(self).decls@ && final(self).globals == old(self).globals", ["C15"]),
        C("earlier_declarations_kept", "forall|k: int| 0 <= k < old(self).decls@.len() && k < final(self).decls@.len() ==> (#[trigger] final(self).decls@[k]).ctx == old(self).decls@[k].ctx && final(self).decls@[k].depth == old(self).decls@[k].depth && final(self).decls@[k].name == old(self).decls@[k].name", ["C15"]),
        C("declaration_records_its_scope", "res is Ok ==> final(self).decls@[res->Ok_0.0 as int].depth == hierarchy_level && final(self).decls@[res->Ok_0.0 as int].ctx.hierarchy@ == ctx.hierarchy@.subrange(0, hierarchy_level as int).push(name)", ["C15"]),
    ],
    rewrites=[
        Rewrite("children.get(&name)", "verif_lookup_string(children, &name)", rule="R8", why="HashMap<String,_>::get -> prelude wrapper (uninterpreted lookup model)"),
        Rewrite("        children.insert(\n            name.clone(),\n            item_ref);", "        verif_insert(children, name.clone(), item_ref);", rule="R8", why="HashMap<String,_>::insert -> prelude wrapper (uninterpreted lookup model)"),
        Rewrite("            let mut new_hierarchy = ctx.hierarchy[0..hierarchy_level]\n                .iter()\n                .cloned()\n                .collect::<Vec<_>>();",
                "            let mut new_hierarchy = verif_clone_strings(&ctx.hierarchy[0..hierarchy_level]);", rule="R16", why="iterator adapter chain over a slice of Strings -> prelude wrapper"),
        Rewrite("            children: std::collections::HashMap::new(),", "            children: verif_new_children(),", rule="R8", why="empty children map in the lookup model"),
        Rewrite("        self.span_refs.insert(\n            span,\n            item_ref);\n", "", rule="R1", why="statement on the dropped field `span_refs` deleted"),
    ],
)

UNIT = Unit(
    "U-symbols", "u_symbols/skeleton.rs",
    items=report_fns("stub", "diagn") + itemref_items("util") + [
        Type(F, "struct", "SymbolManager", slot="util", attrs=["#[verifier::accept_recursive_types(T)]"],
             rewrites=[Rewrite("    pub span_refs: std::collections::HashMap<diagn::Span, util::ItemRef<T>>,\n", "", rule="R1", why="field `span_refs` (HashMap keyed by Span, needs Hash/Eq impls) is not used by the verified functions and is dropped from the stand-in")]),
        Type(F, "struct", "SymbolDecl", slot="util", attrs=["#[verifier::accept_recursive_types(T)]"]),
        Type(F, "enum", "SymbolKind", slot="util", derive="Clone, Copy"),
        Type(F, "struct", "SymbolContext", slot="util"),
        get, get_children, traverse, get_parent, try_get_by_name, get_displayable_name, get_by_name, get_mut, get_children_mut, declare,
    ],
    serves=["C15", "C03"],
    description="util::SymbolManager lookups: dot-level rule and dotted-path descent",
)
