"""Items shared by several units."""
from vfw.spec import Fn, Type, Impl, C, Rewrite

FIR = "src/util/item_ref.rs"


def itemref_items(slot="util"):
    return [
        Type(FIR, "struct", "ItemRef", slot=slot, attrs=["#[verifier::accept_recursive_types(T)]"], derive="drop",
             rewrites=[Rewrite("    std::marker::PhantomData<*const T>);", "    pub std::marker::PhantomData<*const T>);", rule="R2",
                               why="visibility widened to pub (no runtime meaning)")]),
        Fn(FIR, "new", impl="<T> ItemRef<T>", impl_header="<T> ItemRef<T>", slot=slot, ret="res", key="ItemRef::new",
           ensures=[C("index", "res.0 == value")]),
        Impl(FIR, "<T> Clone for ItemRef<T>", slot=slot, mode="stub",
             fns={"clone": Fn(FIR, "clone", key="ItemRef::clone", ret="res", ensures=[C("same", "res.0 == self.0")])}),
        Impl(FIR, "<T> Copy for ItemRef<T>", slot=slot),
    ]

AP = "src/asm/parser/"


def ast_types(slot="asm"):
    """all AST node types, extracted verbatim (derives dropped, fields pub)"""
    T = []
    def t(file, kind, name):
        T.append(Type(AP + file, kind, name, slot=slot))
    t("mod.rs", "enum", "AstAny")
    t("mod.rs", "struct", "AstTopLevel")
    t("directive_addr.rs", "struct", "AstDirectiveAddr")
    t("directive_align.rs", "struct", "AstDirectiveAlign")
    t("directive_assert.rs", "struct", "AstDirectiveAssert")
    t("directive_bank.rs", "struct", "AstDirectiveBank")
    t("directive_bankdef.rs", "struct", "AstDirectiveBankdef")
    t("directive_bits.rs", "struct", "AstDirectiveBits")
    t("directive_data.rs", "struct", "AstDirectiveData")
    t("directive_fn.rs", "struct", "AstDirectiveFn")
    t("directive_fn.rs", "struct", "AstFnParameter")
    t("directive_if.rs", "struct", "AstDirectiveIf")
    t("directive_include.rs", "struct", "AstDirectiveInclude")
    t("directive_labelalign.rs", "struct", "AstDirectiveLabelAlign")
    t("directive_noemit.rs", "struct", "AstDirectiveNoEmit")
    t("directive_once.rs", "struct", "AstDirectiveOnce")
    t("directive_res.rs", "struct", "AstDirectiveRes")
    t("directive_ruledef.rs", "struct", "AstDirectiveRuledef")
    t("directive_ruledef.rs", "struct", "AstRule")
    t("directive_ruledef.rs", "enum", "AstRulePatternPart")
    t("directive_ruledef.rs", "struct", "AstRuleParameter")
    t("directive_ruledef.rs", "enum", "AstRuleParameterType")
    t("instruction.rs", "struct", "AstInstruction")
    t("symbol.rs", "struct", "AstSymbol")
    t("symbol.rs", "enum", "AstSymbolKind")
    t("symbol.rs", "struct", "AstSymbolConstant")
    return T


AD = "src/asm/defs/"


def defs_types(slot="asm"):
    return [
        Type(AD + "mod.rs", "struct", "ItemDefs", slot=slot),
        Type(AD + "mod.rs", "struct", "DefList", slot=slot),
        Type(AD + "symbol.rs", "struct", "Symbol", slot=slot),
        Type(AD + "bankdef.rs", "struct", "Bankdef", slot=slot),
        Type(AD + "instruction.rs", "struct", "Instruction", slot=slot),
        Type(AD + "data_block.rs", "struct", "DataElement", slot=slot),
        Type(AD + "res.rs", "struct", "ResDirective", slot=slot),
        Type(AD + "align.rs", "struct", "AlignDirective", slot=slot),
        Type(AD + "addr.rs", "struct", "AddrDirective", slot=slot),
    ]


def deflist_fns(mode="verify", slot="asm"):
    F = AD + "mod.rs"
    WF = "item_ref.0 < self.defs@.len() && self.defs@[item_ref.0 as int] is Some"
    fns = [
        Fn(F, "len", impl="<T> DefList<T>", impl_header="<T> DefList<T>", slot=slot, mode=mode, ret="res", key="DefList::len", props=["C03"],
           ensures=[C("len", "res == self.defs@.len()", ["C03"])]),
        Fn(F, "get", impl="<T> DefList<T>", impl_header="<T> DefList<T>", slot=slot, mode=mode, ret="res", key="DefList::get", props=["C03"],
           requires=[C("defined", WF, ["C03"])],
           ensures=[C("item", "*res == self.defs@[item_ref.0 as int]->0", ["C03"])]),
        Fn(F, "get_mut", impl="<T> DefList<T>", impl_header="<T> DefList<T>", slot=slot, mode="stub", ret="res", key="DefList::get_mut", props=["C03"],
           requires=[C("defined", "item_ref.0 < old(self).defs@.len() && old(self).defs@[item_ref.0 as int] is Some", ["C03"])],
           ensures=[C("item", "*res == old(self).defs@[item_ref.0 as int]->0", ["C03"]),
                    C("frame", "final(self).defs@ == old(self).defs@.update(item_ref.0 as int, Some(*final(res)))", ["C03"])]),
    ]
    return fns
