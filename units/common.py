"""Items shared by several units."""
from vfw.spec import Fn, Type, Impl, C, Rewrite

FIR = "src/util/item_ref.rs"


def itemref_items(slot="util"):
    return [
        Type(FIR, "struct", "ItemRef", slot=slot, attrs=["#[verifier::accept_recursive_types(T)]"], derive="drop",
             rewrites=[Rewrite("    std::marker::PhantomData<*const T>);", "    pub std::marker::PhantomData<*const T>);", rule="R2",
                               why="visibility widened to pub (no runtime meaning)")]),
        Impl(FIR, "<T> Clone for ItemRef<T>", slot=slot, mode="stub",
             fns={"clone": Fn(FIR, "clone", key="ItemRef::clone", ret="res", ensures=[C("same", "res.0 == self.0")])}),
        Impl(FIR, "<T> Copy for ItemRef<T>", slot=slot),
    ]
