//@@INCLUDE _shared/header.rs
//@@INCLUDE _shared/diagn_opaque.rs
//@@INCLUDE _shared/std_minmax.rs
//@@INCLUDE _shared/symspec.rs
pub mod expr {
    use vstd::prelude::*;
    use crate::*;
    verus! {
    /// stand-in for expr::Value: only the variant the symbol listing reads is spelled out
    pub enum Value { Unknown, Void, Integer(util::BigInt), Bool(bool), Other(u8) }
    }
}
pub mod util {
    use vstd::prelude::*;
    use crate::*;
    use crate::symspec::*;
    verus! {
    broadcast use {crate::symspec::lemma_texts_subrange, crate::symspec::lemma_drop_first_is_subrange, crate::symspec::axiom_key_text_string};
    #[verifier::external_body]
    pub struct BigInt { _p: u8 }
    //@@INCLUDE _shared/symbols_util.rs
    //@@INCLUDE u_symfmt/spec.rs
    //@@ITEMS util
    }
}
pub mod asm {
    use vstd::prelude::*;
    use crate::*;
    verus! {
    #[verifier::external_body]
    pub struct Bankdef { _p: u8 }
    #[verifier::external_body]
    pub struct ItemDecls { _p: u8 }
    /// stand-in for asm::ItemDefs: only the field the listing reads
    pub struct ItemDefs { pub symbols: DefList<Symbol> }
    //@@ITEMS asm
    }
}
