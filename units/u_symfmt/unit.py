from vfw.spec import Unit, Fn, Type, Impl, C, Loop, Rewrite, Insert
from units.common import itemref_items, deflist_fns
from units.u_symbols import unit as us

F = "src/util/symbol_format.rs"
FS = "src/util/symbol_manager.rs"
IMPL = "util::SymbolManager<asm::Symbol>"
HDR = "SymbolManager<asm::Symbol>"

KIDS = "sorted_kids(children)"
format_recursive = Fn(F, "format_recursive", impl=IMPL, impl_header=HDR, slot="util", key="SymbolManager::format_recursive", props=["C12", "C03"],
    attrs=["#[verifier::exec_allows_no_decreases_clause] // termination of the exec recursion is NOT proved here (the spec recursion is: by path length)"],
    requires=[
        C("table_wf", "self.wf() && self.forest()", ["C03"]),
        C("children_refer_to_declarations", "forall|key: Seq<char>| (#[trigger] spec_lookup(children, key)) is Some ==> (spec_lookup(children, key)->0).0 < self.decls@.len()", ["C03"]),
        C("children_are_deeper_than_the_path", "forall|key: Seq<char>| (#[trigger] spec_lookup(children, key)) is Some ==> (spec_lookup(children, key)->0).0 >= old(hierarchy)@.len()", ["C03"]),
        C("declared_symbols_are_defined", "forall|i: int| 0 <= i < self.decls@.len() ==> (#[trigger] self.decls@[i]).item_ref.0 < defs.symbols.defs@.len() && defs.symbols.defs@[self.decls@[i].item_ref.0 as int] is Some", ["C03"]),
    ],
    ensures=[
        C("exactly_the_declared_unsuppressed_integer_symbols_in_declaration_order", "final(result)@ == old(result)@ + kids_text(self, defs, %s, %s.len() as int, old(hierarchy)@)" % (KIDS, KIDS), ["C12"]),
        C("path_restored", "final(hierarchy)@ == old(hierarchy)@", ["C12"]),
    ],
    rewrites=[
        Rewrite(r"let mut sorted_children = children\s*\.iter\(\)\s*\.collect::<Vec<_>>\(\);\s*sorted_children\.sort_by_key\(\|c\| c\.1\.0\);", "let sorted_children = verif_sorted_children(children);", regex=True, rule="R23",
                why="HashMap iteration + collect + sort_by_key -> prelude wrapper returning the entries by growing declaration index (assumed)"),
        Rewrite("for (child_name, child_ref) in sorted_children\n        {", "for verif_pair in sorted_children\n        { let (child_name, child_ref) = verif_pair;", rule="R21",
                why="tuple pattern in the loop header -> variable destructured first thing in the body"),
        Rewrite('name.push_str(&format!("{}", hierarchy[i]));', "name.push_str(&verif_fmt_display_str(&hierarchy[i]));", rule="R22", why="format! -> wrapper"),
        Rewrite("formatter(result, symbol_decl, &name, &bigint);", "verif_call_formatter(formatter, result, symbol_decl, &name, &bigint);", rule="R17", why="call of the generic FnMut formatter -> prelude wrapper (assumed: appends this format's entry)"),
    ],
    for_to_while=[1],
    loops={
        1: Loop(invariant=[
            C("cursor", "verif_vec_1@.len() == %s.len() && verif_next_1 <= verif_vec_1@.len() && forall|i: int| 0 <= i < verif_vec_1@.len() ==> *(#[trigger] verif_vec_1@[i]).0 == %s[i].0 && *verif_vec_1@[i].1 == %s[i].1" % (KIDS, KIDS, KIDS)),
            C("kids_are_entries", "forall|i: int| 0 <= i < %s.len() ==> spec_lookup(children, (#[trigger] %s[i]).0@) == Some(%s[i].1)" % (KIDS, KIDS, KIDS)),
            C("wf", "self.wf() && self.forest() && hierarchy@ == old(hierarchy)@"),
            C("in_table", "forall|key: Seq<char>| (#[trigger] spec_lookup(children, key)) is Some ==> (spec_lookup(children, key)->0).0 < self.decls@.len()"),
            C("deeper", "forall|key: Seq<char>| (#[trigger] spec_lookup(children, key)) is Some ==> (spec_lookup(children, key)->0).0 >= old(hierarchy)@.len()"),
            C("defined", "forall|i: int| 0 <= i < self.decls@.len() ==> (#[trigger] self.decls@[i]).item_ref.0 < defs.symbols.defs@.len() && defs.symbols.defs@[self.decls@[i].item_ref.0 as int] is Some"),
            C("text_so_far", "result@ == old(result)@ + kids_text(self, defs, %s, verif_next_1 as int, old(hierarchy)@)" % KIDS),
        ], decreases="verif_vec_1@.len() - verif_next_1",
           body_start=" let ghost k0 = verif_next_1 as int; let ghost kid = sorted_kids(children)[k0]; let ghost res0 = result@; proof { assert(spec_lookup(children, kid.0@) == Some(kid.1)); }",
           body_end=" proof { let p2 = old(hierarchy)@.push(kid.0); assert(kid.1.0 < self.decls@.len()); assert(old(hierarchy)@.len() < self.decls@.len());"
                    " assert(symbol_text(self, defs, kid.0, kid.1, old(hierarchy)@) == own_text(self, defs, kid.1, p2) + kids_text(self, defs, sorted_kids(&self.decls@[kid.1.0 as int].children), sorted_kids(&self.decls@[kid.1.0 as int].children).len() as int, p2));"
                    " assert(result@ =~= res0 + symbol_text(self, defs, kid.0, kid.1, old(hierarchy)@)); }"),
        2: Loop(invariant=[
            C("name_so_far", "name@ == dotted(hierarchy@, i as int) && hierarchy@ == old(hierarchy)@.push(*child_name)"),
        ]),
    },
)
format_ = Fn(F, "format", impl=IMPL, impl_header=HDR, slot="util", ret="res", key="SymbolManager::format", props=["C12", "C03"],
    requires=[
        C("table_wf", "self.wf() && self.forest()", ["C03"]),
        C("declared_symbols_are_defined", "forall|i: int| 0 <= i < self.decls@.len() ==> (#[trigger] self.decls@[i]).item_ref.0 < defs.symbols.defs@.len() && defs.symbols.defs@[self.decls@[i].item_ref.0 as int] is Some", ["C03"]),
    ],
    ensures=[C("the_whole_table_from_the_global_scope", "res@ == kids_text(self, defs, sorted_kids(&self.globals), sorted_kids(&self.globals).len() as int, Seq::empty())", ["C12"])],
    rewrites=[Rewrite("&mut vec![],", "&mut Vec::new(),", rule="R16", why="`vec![]` -> `Vec::new()` (the element type is inferred from the callee)")],
)

UNIT = Unit(
    "U-symfmt", "u_symfmt/skeleton.rs",
    items=itemref_items("util") + [it for it in us.UNIT.items if getattr(it, "mode", "") == "type" and getattr(it, "name", "").startswith("Symbol")] + [
        us.get.as_stub("util"),
        Type("src/asm/defs/symbol.rs", "struct", "Symbol", slot="asm"), Type("src/asm/defs/mod.rs", "struct", "DefList", slot="asm"),
    ] + [f for f in deflist_fns("stub", "asm") if f.name == "get"] + [format_recursive, format_],
    serves=["C12", "C03"],
    description="util::SymbolManager::format / format_recursive: which symbols a symbol-table listing contains, and in which order",
)
