    // ---- C12: what a symbol-table listing contains
    /// the dotted name of a path of label names
    pub open spec fn dotted(h: Seq<String>, n: int) -> Seq<char> decreases n {
        if n <= 0 { Seq::empty() } else if n == 1 { h[0]@ } else { dotted(h, n - 1) + "."@ + h[n - 1]@ }
    }
    /// what the format at hand writes for one symbol (the formatter closure; uninterpreted)
    pub uninterp spec fn entry_text(decl: SymbolDecl<asm::Symbol>, name: Seq<char>, value: BigInt) -> Seq<char>;
    /// the entries of a children map ordered by declaration index (HashMap iteration + sort_by_key; uninterpreted)
    pub uninterp spec fn sorted_kids(m: &std::collections::HashMap<String, ItemRef<asm::Symbol>>) -> Seq<(String, ItemRef<asm::Symbol>)>;
    /// the line of a symbol itself: present exactly when it is not suppressed and its final value is an integer
    pub open spec fn own_text(m: &SymbolManager<asm::Symbol>, defs: &asm::ItemDefs, r: ItemRef<asm::Symbol>, path: Seq<String>) -> Seq<char> {
        let decl = m.decls@[r.0 as int];
        let sym = defs.symbols.defs@[decl.item_ref.0 as int]->0;
        if !sym.no_emit && sym.value is Integer { entry_text(decl, dotted(path, path.len() as int), sym.value->Integer_0) } else { Seq::empty() }
    }
    /// the first n children (by declaration index), each followed by its own children
    pub open spec fn kids_text(m: &SymbolManager<asm::Symbol>, defs: &asm::ItemDefs, kids: Seq<(String, ItemRef<asm::Symbol>)>, n: int, path: Seq<String>) -> Seq<char>
        decreases m.decls@.len() - path.len(), 1int, n
    {
        if n <= 0 || n > kids.len() { Seq::empty() } else {
            kids_text(m, defs, kids, n - 1, path) + symbol_text(m, defs, kids[n - 1].0, kids[n - 1].1, path)
        }
    }
    pub open spec fn symbol_text(m: &SymbolManager<asm::Symbol>, defs: &asm::ItemDefs, name: String, r: ItemRef<asm::Symbol>, path: Seq<String>) -> Seq<char>
        decreases m.decls@.len() - path.len(), 0int, 0int
    {
        if path.len() < m.decls@.len() && r.0 < m.decls@.len() {
            let p2 = path.push(name);
            own_text(m, defs, r, p2) + kids_text(m, defs, sorted_kids(&m.decls@[r.0 as int].children), sorted_kids(&m.decls@[r.0 as int].children).len() as int, p2)
        } else { Seq::empty() }
    }
    /// R23/R31 helper (ASSUMED): `MAP.iter().collect::<Vec<_>>()` followed by `sort_by_key(|c| c.1.0)`: the entries of
    /// the map, each exactly once, by growing declaration index
    #[verifier::external_body]
    pub fn verif_sorted_children<'a>(m: &'a std::collections::HashMap<String, ItemRef<asm::Symbol>>) -> (r: Vec<(&'a String, &'a ItemRef<asm::Symbol>)>)
        ensures
            r@.len() == sorted_kids(m).len(),
            forall|i: int| 0 <= i < r@.len() ==> *(#[trigger] r@[i]).0 == sorted_kids(m)[i].0 && *r@[i].1 == sorted_kids(m)[i].1,
            forall|i: int| 0 <= i < r@.len() ==> spec_lookup(m, (#[trigger] sorted_kids(m)[i]).0@) == Some(sorted_kids(m)[i].1),
            forall|i: int, j: int| 0 <= i < j < r@.len() ==> (#[trigger] sorted_kids(m)[i]).1.0 < (#[trigger] sorted_kids(m)[j]).1.0,
            forall|key: Seq<char>| (#[trigger] spec_lookup(m, key)) is Some ==> exists|i: int| 0 <= i < r@.len() && #[trigger] sorted_kids(m)[i].0@ == key,
    { unimplemented!() }
    /// R22 helper (ASSUMED): `format!("{}", STRING)` is the string's text
    #[verifier::external_body]
    pub fn verif_fmt_display_str(s: &String) -> (r: String) ensures r@ == s@ { unimplemented!() }
    /// R17 helper: the call of the formatter closure (ASSUMED: it appends this format's entry for the symbol)
    #[verifier::external_body]
    pub fn verif_call_formatter<F>(f: &mut F, result: &mut String, decl: &SymbolDecl<asm::Symbol>, name: &str, value: &BigInt)
        where F: FnMut(&mut String, &SymbolDecl<asm::Symbol>, &str, &BigInt) -> ()
        ensures final(result)@ == old(result)@ + entry_text(*decl, name@, *value)
    { unimplemented!() }
    pub proof fn lemma_dotted_push(h: Seq<String>, x: String)
        ensures dotted(h.push(x), h.len() as int) == dotted(h, h.len() as int)
        decreases h.len()
    {
        lemma_dotted_prefix(h, h.push(x), h.len() as int);
    }
    pub proof fn lemma_dotted_prefix(a: Seq<String>, b: Seq<String>, n: int)
        requires 0 <= n <= a.len(), n <= b.len(), forall|i: int| 0 <= i < n ==> a[i] == b[i]
        ensures dotted(a, n) == dotted(b, n)
        decreases n
    {
        if n > 1 { lemma_dotted_prefix(a, b, n - 1); }
    }
