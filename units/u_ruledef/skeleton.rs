//@@INCLUDE _shared/header.rs
//@@INCLUDE _shared/std_gaps.rs
pub mod diagn {
    use vstd::prelude::*;
    use vstd::std_specs::cmp::*;
    use crate::*;
    verus! {
    #[verifier::external_body]
    pub struct Message { _p: u8 }
    #[verifier::external_body]
    pub struct Report { _p: u8 }
    impl Report {
        pub uninterp spec fn msgs(&self) -> nat;
    }
    impl Span {
        /// the span points into a file (it is not the dummy span)
        pub closed spec fn is_located(&self) -> bool { self.location.0 != usize::MAX }
        /// byte offset of the span's start in its file
        pub closed spec fn start(&self) -> usize { self.location.0 }
    }
    //@@ITEMS diagn
    }
}
pub mod util {
    use vstd::prelude::*;
    use crate::*;
    verus! {
    pub type FileServerHandle = usize;
    #[verifier::external_body]
    pub struct BigInt { _p: u8 }
    //@@ITEMS util
    }
}
pub mod expr {
    use vstd::prelude::*;
    use crate::*;
    verus! {
    #[verifier::external_body]
    pub struct Expr { _p: u8 }
    impl Clone for Expr {
        #[verifier::external_body]
        fn clone(&self) -> (r: Expr) ensures r == *self { unimplemented!() }
    }
    #[verifier::external_body]
    pub struct Value { _p: u8 }
    }
}
pub mod syntax {
    use vstd::prelude::*;
    use crate::*;
    verus! {
    /// opaque stand-in for the token walker (the candidate generators that use it are stubs)
    #[verifier::external_body]
    pub struct Walker<'src> { _p: &'src str }
    impl<'src> Walker<'src> {
        /// what a walker was made from: (text, file handle, byte offset of the text in the file)
        pub uninterp spec fn key(&self) -> (Seq<char>, usize, usize);
        #[verifier::external_body]
        pub fn new(src: &'src str, src_file_handle: util::FileServerHandle, src_byte_offset: usize) -> (r: Walker<'src>)
            ensures r.key() == (src@, src_file_handle, src_byte_offset)
        { unimplemented!() }
    }
    }
}
pub mod asm {
    use vstd::prelude::*;
    use vstd::std_specs::cmp::*;
    use crate::*;
    verus! {
    broadcast use {crate::std_gaps::axiom_vec_len_fits};
    #[verifier::external_body]
    pub struct ItemDecls { _p: u8 }
    //@@INCLUDE u_ruledef/spec.rs
    //@@ITEMS asm
    }
}
