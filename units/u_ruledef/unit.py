from vfw.spec import Unit, Fn, Type, Impl, C, Loop, Rewrite, Insert
from units.common import itemref_items
from units.contracts_report import report_fns
from units.u_charcount import unit as uc

FR = "src/asm/defs/ruledef.rs"
FP = "src/asm/parser/directive_ruledef.rs"
LOUD = [C("err_is_loud", "res is Err ==> final(report).msgs() > old(report).msgs()", ["C03"])]
param = Fn(FR, "resolve_rule_parameter", slot="asm", mode="stub", ret="res", key="ruledef::resolve_rule_parameter",
    ensures=LOUD + [C("messages_kept_on_ok", "final(report).msgs() >= old(report).msgs()")])
resolve_rule = Fn(FR, "resolve_rule", slot="asm", ret="res", key="ruledef::resolve_rule", props=["C07", "C01", "C03"],
    ensures=LOUD + [
        C("one_pattern_part_per_source_part", "res is Ok ==> res->Ok_0.pattern@.len() == ast_rule.pattern@.len() && forall|k: int| 0 <= k < ast_rule.pattern@.len() ==> part_of(#[trigger] ast_rule.pattern@[k], res->Ok_0.pattern@[k])", ["C07", "C01"]),
        C("the_count_is_the_number_of_literal_characters", "res is Ok ==> res->Ok_0.exact_part_count == count_exact(res->Ok_0.pattern@, res->Ok_0.pattern@.len() as int)", ["C07", "C01"]),
        C("production_kept", "res is Ok ==> res->Ok_0.expr == ast_rule.expr && res->Ok_0.pattern_span == ast_rule.pattern_span", ["C01"]),
    ],
    for_to_while=[1],
    loops={1: Loop(invariant=[
        C("cursor", "verif_vec_1@ == ast_rule.pattern@ && verif_next_1 <= verif_vec_1@.len() && report.msgs() >= old(report).msgs()"),
        C("parts_so_far", "pattern@.len() == verif_next_1 && forall|k: int| 0 <= k < verif_next_1 ==> part_of(#[trigger] ast_rule.pattern@[k], pattern@[k])"),
        C("count_so_far", "exact_parts == count_exact(pattern@, pattern@.len() as int) && exact_parts <= verif_next_1"),
    ], decreases="verif_vec_1@.len() - verif_next_1",
       body_start=" let ghost p0 = pattern@;",
       body_end=" proof { assert(pattern@.drop_last() =~= p0); assert forall|k: int| 0 <= k < p0.len() implies count_exact(pattern@, k) == count_exact(p0, k) by { lemma_count_exact_prefix(p0, pattern@, k); } lemma_count_exact_prefix(p0, pattern@, p0.len() as int); }")},
    rewrites=[Rewrite("let mut exact_parts = 0;", "let mut exact_parts: usize = 0;", rule="R10", why="type ascription (the invariant mentions the counter before inference has fixed its type)")],
)

UNIT = Unit(
    "U-ruledef", "u_ruledef/skeleton.rs",
    items=itemref_items("util") + [
        Type(uc.FS, "struct", "Span", slot="diagn", derive="Clone, Copy"),
        Type(FR, "struct", "Rule", slot="asm"), Type(FR, "type", "RulePattern", slot="asm"), Type(FR, "enum", "RulePatternPart", slot="asm"),
        Type(FR, "struct", "RuleParameter", slot="asm"), Type(FR, "enum", "RuleParameterType", slot="asm", derive="Clone, Copy"),
        Type(FR, "struct", "Ruledef", slot="asm"),
        Type(FP, "struct", "AstRule", slot="asm"), Type(FP, "enum", "AstRulePatternPart", slot="asm"), Type(FP, "struct", "AstRuleParameter", slot="asm"), Type(FP, "enum", "AstRuleParameterType", slot="asm"),
        param, resolve_rule,
    ],
    serves=["C07", "C01", "C03"],
    description="asm::defs::ruledef::resolve_rule: the pattern and the literal-part count stored with a rule",
)
