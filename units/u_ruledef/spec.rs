    // ---- C07 / C01: the literal-part count stored with a rule (what match_instr ranks candidates by)
    /// number of `Exact` parts among the first n pattern parts
    pub open spec fn count_exact(p: Seq<RulePatternPart>, n: int) -> int decreases n {
        if n <= 0 { 0 } else { count_exact(p, n - 1) + (if p[n - 1] is Exact { 1int } else { 0int }) }
    }
    /// pattern part k is the image of the AST part k
    pub open spec fn part_of(a: AstRulePatternPart, p: RulePatternPart) -> bool {
        match a {
            AstRulePatternPart::Whitespace => p is Whitespace,
            AstRulePatternPart::Exact(c) => p == RulePatternPart::Exact(c),
            AstRulePatternPart::Parameter(_) => p is ParameterIndex,
        }
    }
    pub proof fn lemma_count_exact_prefix(a: Seq<RulePatternPart>, b: Seq<RulePatternPart>, n: int)
        requires 0 <= n <= a.len(), n <= b.len(), forall|i: int| 0 <= i < n ==> a[i] == b[i]
        ensures count_exact(a, n) == count_exact(b, n)
        decreases n
    {
        if n > 0 { lemma_count_exact_prefix(a, b, n - 1); }
    }
