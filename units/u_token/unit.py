from vfw.spec import Unit, Fn, Type, Impl, C, Loop, Rewrite, Insert

FT = "src/syntax/token.rs"
CI = "<'a> CharWalker<'a>"
def cw(name, **kw):
    return Fn(FT, name, impl=CI, impl_header=CI, slot="syntax", key="CharWalker::" + name, **kw)
SAME = "final(self).src == old(self).src"
cw_new = cw("new", mode="stub", ret="res", ensures=[C("at_the_first_character", "res.wf() && res.src == src && res.pos@ == 0")])
cw_advance = cw("advance", mode="stub", requires=[C("wf", "old(self).wf()")], ensures=[C("one_character_further", "final(self).wf() && %s && final(self).pos@ == old(self).next_pos()" % SAME)])
cw_ended = cw("ended", mode="stub", ret="res", requires=[C("wf", "self.wf()")], ensures=[C("at_the_end", "res == (self.pos@ >= self.src@.len())")])
consume_char = cw("consume_char", ret="res", props=["C05", "C03"], requires=[C("wf", "old(self).wf()")],
    ensures=[C("takes_the_character_iff_it_is_the_wanted_one", "final(self).wf() && %s && res == (old(self).current == wanted) && final(self).pos@ == (if res { old(self).next_pos() } else { old(self).pos@ })" % SAME, ["C05"])])
consume_until = cw("consume_until_char", props=["C05", "C03"], requires=[C("wf", "old(self).wf()")],
    ensures=[C("stops_at_the_next_occurrence_or_the_end", "final(self).wf() && %s && final(self).pos@ == find_char(old(self).src@, wanted, old(self).pos@)" % SAME, ["C05"])],
    loops={1: Loop(invariant=[C("scan", "self.wf() && self.src == old(self).src && old(self).pos@ <= self.pos@ && find_char(self.src@, wanted, self.pos@) == find_char(self.src@, wanted, old(self).pos@)")],
                   decreases="self.src@.len() - self.pos@")})
FNPTR = [Rewrite(r"(\w+): fn\(char\) -> bool", r"\1: impl Fn(char) -> bool + Copy", regex=True, count=None, rule="R17",
                 why="function pointer parameter `fn(char) -> bool` (unsupported type) -> `impl Fn(char) -> bool + Copy`; the callers pass the same function items")]
def total(f):
    return "(forall|c: char| #[trigger] call_requires(%s, (c,)))" % f
def decides(f, p):
    return "(forall|c: char, r: bool| #[trigger] call_ensures(%s, (c,), r) ==> r == %s(c))" % (f, p)
consume_if = cw("consume_if", ret="res", props=["C05", "C03"], sig_rewrites=FNPTR,
    requires=[C("wf", "old(self).wf()"), C("test_is_total", total("fn_test"))],
    ensures=[C("takes_the_character_iff_the_test_accepts_it", "final(self).wf() && %s && call_ensures(fn_test, (old(self).current,), res) && final(self).pos@ == (if res { old(self).next_pos() } else { old(self).pos@ })" % SAME, ["C05"])])
consume_while = cw("consume_while", ret="res", props=["C05", "C03"], sig_rewrites=FNPTR,
    requires=[C("wf", "old(self).wf()"), C("tests_are_total", total("fn_start") + " && " + total("fn_mid"))],
    ensures=[C("one_start_character_then_the_longest_run_of_mid_characters",
               "final(self).wf() && %s && call_ensures(fn_start, (old(self).current,), res) && (if res { old(self).next_pos() <= final(self).pos@"
               " && (forall|i: int| old(self).pos@ < i < final(self).pos@ ==> call_ensures(fn_mid, (#[trigger] old(self).src@[i],), true))"
               " && call_ensures(fn_mid, (final(self).current,), false) } else { final(self).pos@ == old(self).pos@ })" % SAME, ["C05"])],
    rewrites=[Rewrite("while self.consume_if(fn_mid) {}", "while self.consume_if(fn_mid) { }", rule="R10", why="(spacing only: the loop body must be a block the contract can be attached to)")],
    loops={1: Loop(invariant=[C("run_so_far", "self.wf() && self.src == old(self).src && old(self).next_pos() <= self.pos@ && " + total("fn_mid") +
                                " && (forall|i: int| old(self).pos@ < i < self.pos@ ==> call_ensures(fn_mid, (#[trigger] self.src@[i],), true))")],
                   ensures=[C("run_ended", "call_ensures(fn_mid, (self.current,), false)")])},
    attrs=["#[verifier::exec_allows_no_decreases_clause]"])
def pred(name, spec):
    return Fn(FT, name, slot="syntax", ret="res", key="token::" + name, props=["C05"], ensures=[C("character_class", "res == %s(c)" % spec, ["C05"])])
preds = [pred("is_whitespace", "is_ws"), pred("is_number_start", "digit"), pred("is_number_mid", "number_mid"), pred("is_bin_number_mid", "bin_mid"), pred("is_hex_number_mid", "hex_mid")]
RUN_HINT = ("proof { let s = src@; let p0 = %s; let p1 = walker.pos@; if %s < s.len() && p1 > %s { assert forall|i: int| %s + 1 <= i < p1 implies (%s)(#[trigger] s[i]) by { } lemma_run_end(s, %s, %s + 1, p1); } }")
check_ws = Fn(FT, "check_for_whitespace", slot="syntax", ret="res", key="token::check_for_whitespace", props=["C05", "C03"],
    ensures=[C("a_run_of_blanks", "res == whitespace_token(src@)", ["C05"])],
    inserts=[Insert("Some((TokenKind::Whitespace, walker.length))", "proof { let s = src@; let p1 = walker.pos@; assert forall|i: int| 1 <= i < p1 implies is_ws(#[trigger] s[i]) by { } lemma_run_end(s, |c: char| is_ws(c), 1, p1); }\n\t", where="before")])
check_num = Fn(FT, "check_for_number", slot="syntax", ret="res", key="token::check_for_number", props=["C05", "C03"],
    ensures=[C("digit_run_or_prefixed_run", "res == number_token(src@)", ["C05"])],
    inserts=[Insert("return Some((TokenKind::Number, walker.length));", "proof { let s = src@; let p1 = walker.pos@; assert forall|i: int| 1 <= i < p1 implies number_mid(#[trigger] s[i]) by { } lemma_run_end(s, |c: char| number_mid(c), 1, p1); }\n\t\t", where="before", occ=1),
             Insert("return Some((TokenKind::Number, walker.length));", "proof { let s = src@; let p1 = walker.pos@; assert forall|i: int| 2 <= i < p1 implies hex_mid(#[trigger] s[i]) by { } lemma_run_end(s, |c: char| hex_mid(c), 2, p1); }\n\t\t\t", where="before", occ=2),
             Insert("return Some((TokenKind::Number, walker.length));", "proof { let s = src@; let p1 = walker.pos@; assert forall|i: int| 2 <= i < p1 implies bin_mid(#[trigger] s[i]) by { } lemma_run_end(s, |c: char| bin_mid(c), 2, p1); }\n\t\t\t", where="before", occ=3)])
consume_str = cw("consume_str", ret="res", props=["C05", "C07", "C03"],
    requires=[C("wf", "old(self).wf()"), C("no_nul_in_the_wanted_text", "forall|k: int| 0 <= k < wanted@.len() ==> #[trigger] wanted@[k] != '\\0'")],
    ensures=[C("takes_the_text_iff_it_stands_here", "final(self).wf() && %s && res == starts_with_at(old(self).src@, old(self).pos@, wanted@) && final(self).pos@ == (if res { old(self).pos@ + wanted@.len() } else { old(self).pos@ })" % SAME, ["C05", "C07"])],
    for_to_while=[1],
    loops={1: Loop(invariant=[
        C("matched_so_far", "cloned.wf() && old(self).wf() && cloned.src == old(self).src && *self == *old(self) && verif_vec_1@ == wanted@ && verif_next_1 <= verif_vec_1@.len() && cloned.pos@ == old(self).pos@ + verif_next_1"
          " && old(self).pos@ + verif_next_1 <= old(self).src@.len() && (forall|k: int| 0 <= k < verif_next_1 ==> old(self).src@[old(self).pos@ + k] == #[trigger] wanted@[k])"
          " && (forall|k: int| 0 <= k < wanted@.len() ==> #[trigger] wanted@[k] != '\\0')"),
    ], decreases="verif_vec_1@.len() - verif_next_1")},
    inserts=[Insert("return false;", "proof { let k = verif_next_1 - 1; if old(self).pos@ + k < old(self).src@.len() { assert(old(self).src@[old(self).pos@ + k] != wanted@[k]); } }\n\t\t\t\t", where="before")],
)
check_comment = Fn(FT, "check_for_comment", slot="syntax", ret="res", key="token::check_for_comment", props=["C07", "C05", "C03"],
    attrs=["#[verifier::exec_allows_no_decreases_clause]"],
    ensures=[C("line_comment_or_nested_block_comment", "res == comment_token(src@)", ["C07", "C05"])],
    rewrites=[Rewrite("let mut nesting = 0;", "let mut nesting: usize = 0;", rule="R10", why="type ascription")],
    inserts=[Insert("{", "\n\tproof { reveal_strlit(\";*\"); reveal_strlit(\"*;\"); if src@.len() >= 1 { lemma_find_bounds(src@, '\\n', 1); } }\n", where="after", occ=1)],
    loops={1: Loop(invariant_except_break=[
        C("scan", "2 <= walker.pos@ && nesting + 2 <= walker.pos@ && block_end(src@, walker.pos@, nesting as nat) == block_end(src@, 2, 0)"),
    ], invariant=[C("cursor", "walker.wf() && walker.src@ == src@")],
       ensures=[C("the_end_of_the_comment", "walker.pos@ == block_end(src@, 2, 0)")],
       body_start=" proof { reveal_strlit(\";*\"); reveal_strlit(\"*;\"); lemma_boff_ge(src@, walker.pos@); }")},
)
check_string = Fn(FT, "check_for_string", slot="syntax", ret="res", key="token::check_for_string", props=["C05", "C03"],
    attrs=["#[verifier::exec_allows_no_decreases_clause]"],   # termination is not claimed; a loop added to the function is then decided on its merits

    ensures=[C("quote_to_the_next_quote", "res == string_token(src@)", ["C05"])],
    inserts=[Insert("{", "\n\tproof { if src@.len() >= 1 { lemma_find_bounds(src@, '\"', 1); } }\n", where="after", occ=1)])

UNIT = Unit(
    "U-token", "u_token/skeleton.rs",
    items=[
        Type(FT, "enum", "TokenKind", slot="syntax", derive="Clone, Copy"),
        Type(FT, "struct", "CharWalker", slot="syntax", derive="drop",
             rewrites=[Rewrite("pub char_indices: std::str::CharIndices<'a>,", "pub pos: Ghost<int>,", rule="R40",
                               why="the `CharIndices` iterator field (external type) -> a ghost character position; only the ASSUMED stubs `new`/`advance` touch it")]),
        cw_new, cw_advance, cw_ended, consume_char, consume_until, consume_if, consume_while, consume_str] + preds + [check_ws, check_num, check_comment, check_string,
    ],
    serves=["C05", "C07", "C03"],
    carry_facts_into_loops=False,
    description="syntax::token: the tokenizer's character cursor and the string-literal rule (a quote to the next quote)",
)
