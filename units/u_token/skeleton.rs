//@@INCLUDE _shared/header.rs
pub mod syntax {
    use vstd::prelude::*;
    use crate::*;
    verus! {
    // ---- the tokenizer's character cursor.  The real CharWalker steps through `src.char_indices()` (an iterator outside
    // Verus' reach); the stand-in keeps the real fields `src`, `current`, `length` and replaces the iterator by a ghost
    // position `pos` (R40).  `new`, `advance` and `ended` - the three functions that touch the iterator or the byte length -
    // are ASSUMED stubs; everything built on them is verified.
    /// byte offset of the character with index i (sum of the UTF-8 lengths of the characters before it)
    pub open spec fn boff(s: Seq<char>, i: int) -> int decreases i {
        if i <= 0 { 0 } else { boff(s, i - 1) + s[i - 1].len_utf8() as int }
    }
    impl<'a> CharWalker<'a> {
        pub open spec fn wf(&self) -> bool {
            &&& 0 <= self.pos@ <= self.src@.len()
            &&& self.current == (if self.pos@ < self.src@.len() { self.src@[self.pos@] } else { '\0' })
            &&& self.length == boff(self.src@, self.pos@)
        }
        /// the cursor one character further (it stays at the end)
        pub open spec fn next_pos(&self) -> int { if self.pos@ < self.src@.len() { self.pos@ + 1 } else { self.pos@ } }
    }
    impl<'a> Clone for CharWalker<'a> {
        #[verifier::external_body]
        fn clone(&self) -> (r: CharWalker<'a>) ensures r == *self { unimplemented!() }
    }
    /// first index i >= from with s[i] == c; the length of s if there is none
    pub open spec fn find_char(s: Seq<char>, c: char, from: int) -> int decreases s.len() - from {
        if from < 0 || from >= s.len() { s.len() as int } else if s[from] == c { from } else { find_char(s, c, from + 1) }
    }
    pub proof fn lemma_find_bounds(s: Seq<char>, c: char, from: int)
        requires 0 <= from <= s.len()
        ensures from <= find_char(s, c, from) <= s.len(), find_char(s, c, from) < s.len() ==> s[find_char(s, c, from)] == c
        decreases s.len() - from
    {
        if from < s.len() && s[from] != c { lemma_find_bounds(s, c, from + 1); }
    }
    // character classes of the tokenizer
    pub open spec fn is_ws(c: char) -> bool { c == ' ' || c == '\t' || c == '\r' }
    pub open spec fn digit(c: char) -> bool { c >= '0' && c <= '9' }
    pub open spec fn letter(c: char) -> bool { (c >= 'a' && c <= 'z') || (c >= 'A' && c <= 'Z') }
    pub open spec fn number_mid(c: char) -> bool { letter(c) || digit(c) || c == '_' }
    pub open spec fn bin_mid(c: char) -> bool { (c >= '0' && c <= '1') || c == '_' }
    pub open spec fn hex_mid(c: char) -> bool { (c >= 'a' && c <= 'f') || (c >= 'A' && c <= 'F') || digit(c) || c == '_' }
    /// end of the run of characters satisfying `p` that starts at index `from`
    pub open spec fn run_end(s: Seq<char>, p: spec_fn(char) -> bool, from: int) -> int decreases s.len() - from {
        if from < 0 || from >= s.len() { s.len() as int } else if !p(s[from]) { from } else { run_end(s, p, from + 1) }
    }
    pub proof fn lemma_run_end(s: Seq<char>, p: spec_fn(char) -> bool, from: int, at: int)
        requires 0 <= from <= at <= s.len(), forall|i: int| from <= i < at ==> p(#[trigger] s[i]), at == s.len() || !p(s[at])
        ensures run_end(s, p, from) == at
        decreases at - from
    {
        if from < at { lemma_run_end(s, p, from + 1, at); }
    }
    /// a token made of one `start` character and the longest run of `mid` characters after it
    pub open spec fn run_token(s: Seq<char>, start: spec_fn(char) -> bool, mid: spec_fn(char) -> bool, from: int, kind: TokenKind) -> Option<(TokenKind, usize)> {
        if from < s.len() && start(s[from]) { Some((kind, boff(s, run_end(s, mid, from + 1)) as usize)) } else { None }
    }
    /// C05: blanks; numbers - a decimal digit followed by letters, digits and `_` (so `0x1F`, `1_000`), or `$` followed by at
    /// least one hex digit or `_`, or `%` followed by at least one binary digit or `_`
    pub open spec fn whitespace_token(s: Seq<char>) -> Option<(TokenKind, usize)> { run_token(s, |c: char| is_ws(c), |c: char| is_ws(c), 0, TokenKind::Whitespace) }
    pub open spec fn number_token(s: Seq<char>) -> Option<(TokenKind, usize)> {
        if s.len() > 0 && digit(s[0]) { run_token(s, |c: char| digit(c), |c: char| number_mid(c), 0, TokenKind::Number) }
        else if s.len() > 0 && s[0] == '$' { run_token(s, |c: char| hex_mid(c), |c: char| hex_mid(c), 1, TokenKind::Number) }
        else if s.len() > 0 && s[0] == '%' { run_token(s, |c: char| bin_mid(c), |c: char| bin_mid(c), 1, TokenKind::Number) }
        else { None }
    }
    pub proof fn lemma_boff_ge(s: Seq<char>, i: int)
        requires 0 <= i <= s.len()
        ensures boff(s, i) >= i
        decreases i
    {
        if i > 0 { lemma_boff_ge(s, i - 1); }
    }
    /// the characters of `w` stand at index i of s
    pub open spec fn starts_with_at(s: Seq<char>, i: int, w: Seq<char>) -> bool {
        0 <= i && i + w.len() <= s.len() && forall|k: int| 0 <= k < w.len() ==> s[i + k] == #[trigger] w[k]
    }
    /// R28 helper: `STR.chars()` as the vector of the string's characters in order (ASSUMED)
    #[verifier::external_body]
    pub fn verif_chars(s: &&str) -> (r: Vec<char>) ensures r@ == (**s)@ { unimplemented!() }
    /// C07: comments.  `;` starts a comment that runs up to (not including) the next line break; `;*` starts a block
    /// comment that runs to its matching `*;` - block comments nest, `;*` is looked for before `*;` at every position -
    /// or to the end of the text if it is never closed.
    pub open spec fn block_end(s: Seq<char>, i: int, nesting: nat) -> int decreases (if s.len() > i { s.len() - i } else { 0 }) {
        if i < 0 || i >= s.len() { s.len() as int }
        else if starts_with_at(s, i, ";*"@) { block_end(s, i + 2, nesting + 1) }
        else if starts_with_at(s, i, "*;"@) { if nesting == 0 { i + 2 } else { block_end(s, i + 2, (nesting - 1) as nat) } }
        else { block_end(s, i + 1, nesting) }
    }
    pub open spec fn comment_token(s: Seq<char>) -> Option<(TokenKind, usize)> {
        if s.len() == 0 || s[0] != ';' { None }
        else if s.len() > 1 && s[1] == '*' { Some((TokenKind::Comment, boff(s, block_end(s, 2, 0)) as usize)) }
        else { Some((TokenKind::Comment, boff(s, find_char(s, '\n', 1)) as usize)) }
    }
    /// derived PartialEq of TokenKind (ASSUMED to be what #[derive] generates: equal variants)
    impl vstd::std_specs::cmp::PartialEqSpecImpl for TokenKind {
        open spec fn obeys_eq_spec() -> bool { true }
        open spec fn eq_spec(&self, other: &TokenKind) -> bool { *self == *other }
    }
    impl PartialEq for TokenKind {
        #[verifier::external_body]
        fn eq(&self, other: &TokenKind) -> (r: bool) { unimplemented!() }
    }
    /// C05: a string token is a double quote, everything up to the NEXT double quote, and that quote (no escapes at
    /// the token level); without a closing quote there is no string token
    pub open spec fn string_token(s: Seq<char>) -> Option<(TokenKind, usize)> {
        if s.len() > 0 && s[0] == '"' && find_char(s, '"', 1) < s.len() { Some((TokenKind::String, boff(s, find_char(s, '"', 1) + 1) as usize)) } else { None }
    }
    //@@ITEMS syntax
    }
}
