from vfw.spec import Unit, Fn, Type, Impl, C, Loop, Rewrite, Insert, Raw
from units.u_resolver.unit import NODE_OK
from units.u_resolver.unit import COMMON, LOUD, FI, ITER_IMPL, advance_address, bits_until_alignment
from units.u_output.unit import overlap_items, bitvec_items

# ---- ResolveIterator::next: the AST cursor (proved here, used as a stub contract by resolve_once and build_output)
ITER_WF = ("%s.index <= %s.ast.nodes@.len() && %s.bank_ref.0 < %s.bank_data@.len() && bank_ok(defs, %s.bank_ref)"
           " && (%s.index_prev is Some ==> %s.index_prev->0 < %s.ast.nodes@.len())"
           " && (%s.index_prev is Some && %s.subindex_prev is Some ==> (match %s.ast.nodes@[%s.index_prev->0 as int] { asm::AstAny::DirectiveData(d) => %s.subindex_prev->0 < d.item_refs@.len(), _ => true }))"
           " && (if %s.index < %s.ast.nodes@.len() { match %s.ast.nodes@[%s.index as int] { asm::AstAny::DirectiveData(d) => %s.subindex < d.item_refs@.len(), _ => %s.subindex == 0 } } else { %s.subindex == 0 })")
def iter_wf(x):
    return ITER_WF.replace("%s", x)

next_verified = Fn(FI, "next", impl=ITER_IMPL, slot="resolver", ret="res", key="ResolveIterator::next", props=["C01", "C03", "C06", "C15"],
    requires=[
        C("cursor_well_formed", iter_wf("old(self)"), ["C03"]),
        C("ast_refers_to_defined_items", "ast_ok(old(self).ast, decls, defs, old(self).bank_data@.len() as int)", ["C03"]),
    ],
    ensures=LOUD + [
        C("flags_kept", "final(self).is_last_iteration == old(self).is_last_iteration && final(self).ast == old(self).ast", ["C02"]),
        C("end_of_program", "res is Ok && res->Ok_0 is None ==> final(self).index >= final(self).ast.nodes@.len()", ["C01"]),
        C("context_flags", "res is Ok && res->Ok_0 is Some ==> res->Ok_0->0.is_last_iteration == old(self).is_last_iteration && res->Ok_0->0.is_first_iteration == old(self).is_first_iteration", ["C02"]),
        C("context_bank_defined", "res is Ok && res->Ok_0 is Some ==> bank_ok(defs, res->Ok_0->0.bank_ref)", ["C06", "C03"]),
        C("node_refers_to_defined_items", "res is Ok && res->Ok_0 is Some ==> (match res->Ok_0->0.node {"
          " asm::ResolverNode::Symbol(s) => defined(&defs.symbols, s.item_ref),"
          " asm::ResolverNode::Instruction(n) => defined(&defs.instructions, n.item_ref),"
          " asm::ResolverNode::DataElement(n, k) => k < n.item_refs@.len() && k < n.elems@.len() && defined(&defs.data_elems, Some(n.item_refs@[k as int])),"
          " asm::ResolverNode::Res(n) => defined(&defs.res_directives, n.item_ref),"
          " asm::ResolverNode::Align(n) => defined(&defs.align_directives, n.item_ref),"
          " asm::ResolverNode::Addr(n) => defined(&defs.addr_directives, n.item_ref),"
          " _ => true })", ["C03", "C01"]),
        C("cursor_stays_well_formed", "res is Ok ==> " + iter_wf("final(self)"), ["C03"]),
        C("top_level_symbols_start_on_a_label_alignment_boundary", "res is Ok && old(self).index < old(self).ast.nodes@.len() ==> (match old(self).ast.nodes@[old(self).index as int] {"
          " asm::AstAny::Symbol(s) => (bank_of(defs, old(self).bank_ref).label_align is Some && bank_of(defs, old(self).bank_ref).label_align->0 > 0 && decls.symbols.spec_decl(s.item_ref->0).depth == 0 && bank_of(defs, old(self).bank_ref).addr_start.val() >= 0) ==>"
          " final(self).bank_ref == old(self).bank_ref && (bank_of(defs, old(self).bank_ref).addr_start.val() * bank_of(defs, old(self).bank_ref).addr_unit + final(self).bank_data@[old(self).bank_ref.0 as int].cur_position) % (bank_of(defs, old(self).bank_ref).label_align->0 as int) == 0,"
          " _ => true })", ["C06", "C01"]),
        C("scope_follows_the_walk", "res is Ok && old(self).index < old(self).ast.nodes@.len() ==> (match old(self).ast.nodes@[old(self).index as int] {"
          " asm::AstAny::Symbol(s) => *final(self).symbol_ctx == decls.symbols.spec_decl(s.item_ref->0).ctx,"
          " _ => final(self).symbol_ctx == old(self).symbol_ctx })", ["C15"]),
        C("context_carries_the_scope", "res is Ok && res->Ok_0 is Some ==> res->Ok_0->0.symbol_ctx == final(self).symbol_ctx", ["C15"]),
        C("scope_kept_at_the_end", "res is Ok && res->Ok_0 is None ==> final(self).symbol_ctx == old(self).symbol_ctx", ["C15"]),
    ],
    inserts=[
        Insert("        let ast_any = &self.ast.nodes[self.index];", "\n        proof { assert(node_ok(self.ast.nodes@[self.index as int], defs)); assert(*ast_any == self.ast.nodes@[self.index as int]); }\n", where="after"),
        Insert("        Ok(Some(ResolverContext {", "        proof { if self.index < self.ast.nodes@.len() { assert(node_ok(self.ast.nodes@[self.index as int], defs)); } }\n", where="before"),
        Insert("                        cur_bank_data.cur_position += bits_until_alignment(", "                        let ghost pos0 = cur_bank_data.cur_position; proof { let b = bank_of(defs, old(self).bank_ref); if label_align > 0 { lemma_until_aligned_lands(b.addr_start.val() * b.addr_unit + pos0, label_align as int); } }\n", where="before"),
        Insert("                        cur_bank_data.cur_position += bits_until_alignment(", "                        proof { assume(cur_bank_data.cur_position + label_align <= usize::MAX); }\n", where="before", finding="D9a",
               why="finding guard D9a: bank position + alignment overflows usize"),
    ],
)


next_simple = Fn(FI, "next_simple", impl=ITER_IMPL, slot="resolver", ret="res", key="ResolveIterator::next_simple", props=["C15", "C03"],
    requires=[
        C("cursor_in_range", "old(self).index <= old(self).ast.nodes@.len() && old(self).index < usize::MAX", ["C03"]),
        C("symbols_declared", "forall|j: int| 0 <= j < old(self).ast.nodes@.len() ==> (match #[trigger] old(self).ast.nodes@[j] { asm::AstAny::Symbol(s) => s.item_ref is Some, _ => true })", ["C03"]),
    ],
    ensures=[
        C("never_fails", "res is Ok", ["C03"]),
        C("one_node_per_call", "final(self).ast == old(self).ast && final(self).index == (if old(self).index < old(self).ast.nodes@.len() { old(self).index + 1 } else { old(self).index as int })", ["C15"]),
        C("end_of_program", "(res->Ok_0 is None) == (old(self).index >= old(self).ast.nodes@.len())", ["C15"]),
        C("scope_follows_the_walk", "old(self).index < old(self).ast.nodes@.len() ==> (match old(self).ast.nodes@[old(self).index as int] {"
          " asm::AstAny::Symbol(s) => *final(self).symbol_ctx == decls.symbols.spec_decl(s.item_ref->0).ctx && res->Ok_0->0.node == asm::ResolverNode::Symbol(&s),"
          " _ => final(self).symbol_ctx == old(self).symbol_ctx && res->Ok_0->0.node is None })", ["C15"]),
        C("context_carries_the_scope", "res->Ok_0 is Some ==> res->Ok_0->0.symbol_ctx == final(self).symbol_ctx", ["C15"]),
        C("scope_kept_at_the_end", "res->Ok_0 is None ==> final(self).symbol_ctx == old(self).symbol_ctx", ["C15"]),
    ],
    rewrites=[Rewrite("        static DUMMY_BANK_DATA: BankData = BankData {\n            cur_position: 0,\n        };\n", "", rule="R24",
                      why="a `static` item declared inside the function body is hoisted, unchanged, to module level (Verus does not support item statements inside bodies)")],
)
HOISTED = Raw("resolver", "hoisted::DUMMY_BANK_DATA", """
// R24: hoisted from the body of ResolveIterator::next_simple (same item)
exec static DUMMY_BANK_DATA: BankData
    ensures DUMMY_BANK_DATA.cur_position == 0
{
    BankData {
        cur_position: 0,
    }
}
""")


# refinement check: the stub contract of `next` that resolve_once uses (U-resolver, clause NODE_OK) follows
# from the contract proved here, under the proved contract's own precondition
REFINE = Raw("resolver", "refine::next_stub_of_resolve_once", """
impl<'ast, 'decls> ResolveIterator<'ast, 'decls> {
pub fn verif_refine_next_for_resolve_once<'iter>(
        &'iter mut self,
        report: &mut diagn::Report,
        decls: &'decls asm::ItemDecls,
        defs: &asm::ItemDefs)
        -> (res: Result<Option<ResolverContext<'iter, 'ast, 'decls>>, ()>)
    requires
        %s,
        ast_ok(old(self).ast, decls, defs, old(self).bank_data@.len() as int),
    ensures
        res is Err ==> final(report).msgs() > old(report).msgs(),
        res is Ok ==> final(report).msgs() == old(report).msgs() && final(report).errors() == old(report).errors(),
        final(report).parents() == old(report).parents(),
        final(self).is_last_iteration == old(self).is_last_iteration,
        %s,
{
    self.next(report, decls, defs)
}
}
""" % (iter_wf("old(self)"), NODE_OK))

UNIT = Unit(
    "U-cursor", "u_output/skeleton.rs",
    items=COMMON + overlap_items + bitvec_items + [advance_address.as_stub("resolver"), bits_until_alignment.as_stub("resolver"), next_verified, HOISTED, next_simple, REFINE],
    serves=["C01", "C03", "C06", "C02", "C15"],
    description="ResolveIterator::next: the walk over the AST shared by the resolve passes and build_output",
)
