        // ---- spec side for asm::output (C06)

        /// two bank output windows have a bit in common; a bank without size extends to infinity
        pub open spec fn windows_share_bit(o1: int, s1: Option<usize>, o2: int, s2: Option<usize>) -> bool {
            match (s1, s2) {
                (None, None) => true,
                (Some(a), None) => a > 0 && o1 + a > o2,
                (None, Some(b)) => b > 0 && o2 + b > o1,
                (Some(a), Some(b)) => overlaps(o1, a as int, o2, b as int),
            }
        }

        pub open spec fn all_banks_defined(defs: &asm::ItemDefs, from: int) -> bool {
            forall|k: int| from <= k < defs.bankdefs.defs@.len() ==> #[trigger] defs.bankdefs.defs@[k] is Some
        }

        pub open spec fn bank_at(defs: &asm::ItemDefs, k: int) -> asm::Bankdef { defs.bankdefs.defs@[k]->0 }

        pub open spec fn pair_disjoint(defs: &asm::ItemDefs, a: int, b: int) -> bool {
            bank_at(defs, a).output_offset is Some && bank_at(defs, b).output_offset is Some ==>
                !windows_share_bit(bank_at(defs, a).output_offset->0 as int, bank_at(defs, a).size,
                                   bank_at(defs, b).output_offset->0 as int, bank_at(defs, b).size)
        }

        pub open spec fn filled_to_end(defs: &asm::ItemDefs, k: int, len: int) -> bool {
            let b = bank_at(defs, k);
            b.fill && b.size is Some && b.size->0 > 0 && b.output_offset is Some ==> len >= b.output_offset->0 + b.size->0
        }

        // ---- composition of the checks (C06): what build_output's result satisfies
        pub open spec fn span_in(sp: util::BitVecSpan, x: nat) -> bool { sp.offset is Some && sp.offset->0 <= x < sp.offset->0 + sp.size }
        /// bit x lies inside one of the first n recorded items
        pub open spec fn spans_cover(ss: Seq<util::BitVecSpan>, n: int, x: nat) -> bool decreases n {
            n > 0 && (spans_cover(ss, n - 1, x) || span_in(ss[n - 1], x))
        }
        /// "no two emitted items occupy the same output bit"
        pub open spec fn items_disjoint(ss: Seq<util::BitVecSpan>) -> bool {
            forall|i: int, j: int| 0 <= i < j < ss.len() && ss[i].offset is Some && ss[j].offset is Some ==>
                !overlaps(ss[i].offset->0 as int, ss[i].size as int, ss[j].offset->0 as int, ss[j].size as int)
        }
        /// "every bit not written by an item is zero"
        pub open spec fn set_bits_inside_items(v: int, ss: Seq<util::BitVecSpan>) -> bool {
            forall|x: nat| #[trigger] bit_of(v, x) ==> spans_cover(ss, ss.len() as int, x)
        }
        pub open spec fn stored(view: Seq<(int, int)>, p: int, s: int) -> bool { exists|k: int| 0 <= k < view.len() && #[trigger] view[k] == (p, s) }
        /// every recorded item that occupies bits is an entry of the overlap checker
        pub open spec fn sized_items_stored(ss: Seq<util::BitVecSpan>, view: Seq<(int, int)>) -> bool {
            forall|i: int| 0 <= i < ss.len() && (#[trigger] ss[i]).offset is Some && ss[i].size > 0 ==> stored(view, ss[i].offset->0 as int, ss[i].size as int)
        }
        pub proof fn lemma_spans_cover_prefix(a: Seq<util::BitVecSpan>, b: Seq<util::BitVecSpan>, n: int, x: nat)
            requires 0 <= n <= a.len(), n <= b.len(), forall|k: int| 0 <= k < n ==> a[k] == b[k]
            ensures spans_cover(a, n, x) == spans_cover(b, n, x)
            decreases n
        {
            if n > 0 { lemma_spans_cover_prefix(a, b, n - 1, x); }
        }
        pub proof fn lemma_spans_cover_push(ss: Seq<util::BitVecSpan>, sp: util::BitVecSpan)
            ensures forall|x: nat| #[trigger] spans_cover(ss.push(sp), ss.len() as int + 1, x) == (spans_cover(ss, ss.len() as int, x) || span_in(sp, x))
        {
            assert forall|x: nat| #[trigger] spans_cover(ss.push(sp), ss.len() as int + 1, x) == (spans_cover(ss, ss.len() as int, x) || span_in(sp, x)) by {
                lemma_spans_cover_prefix(ss.push(sp), ss, ss.len() as int, x);
            }
        }
        pub proof fn lemma_stored_insert(view: Seq<(int, int)>, k: int, e: (int, int))
            requires 0 <= k <= view.len()
            ensures stored(view.insert(k, e), e.0, e.1),
                    forall|p: int, s: int| stored(view, p, s) ==> stored(view.insert(k, e), p, s)
        {
            let nv = view.insert(k, e);
            assert(nv[k] == e);
            assert forall|p: int, s: int| stored(view, p, s) implies stored(view.insert(k, e), p, s) by {
                let j = choose|j: int| 0 <= j < view.len() && #[trigger] view[j] == (p, s);
                if j < k { assert(nv[j] == (p, s)); } else { assert(nv[j + 1] == (p, s)); }
            }
        }
        /// a new item that the checker accepted is disjoint from every recorded item
        pub proof fn lemma_new_item_disjoint(ss: Seq<util::BitVecSpan>, chk: &util::OverlapChecker, p: int, s: int)
            requires sized_items_stored(ss, chk.view()), chk.no_overlap_with(p, s)
            ensures forall|i: int| 0 <= i < ss.len() && (#[trigger] ss[i]).offset is Some ==> !overlaps(ss[i].offset->0 as int, ss[i].size as int, p, s)
        {
            assert forall|i: int| 0 <= i < ss.len() && (#[trigger] ss[i]).offset is Some implies !overlaps(ss[i].offset->0 as int, ss[i].size as int, p, s) by {
                if ss[i].size > 0 {
                    let k = choose|k: int| 0 <= k < chk.view().len() && #[trigger] chk.view()[k] == (ss[i].offset->0 as int, ss[i].size as int);
                    assert(!overlaps(p, s, chk.entries@[k].position as int, chk.entries@[k].size as int));
                }
            }
        }


        pub proof fn lemma_stored_mono(view: Seq<(int, int)>, nv: Seq<(int, int)>)
            requires nv == view || exists|k: int, p: int, s: int| 0 <= k <= view.len() && nv == #[trigger] view.insert(k, (p, s))
            ensures forall|p: int, s: int| stored(view, p, s) ==> stored(nv, p, s)
        {
            if nv != view {
                let (k, p, s) = choose|k: int, p: int, s: int| 0 <= k <= view.len() && nv == #[trigger] view.insert(k, (p, s));
                lemma_stored_insert(view, k, (p, s));
            }
        }
        pub proof fn lemma_inserted_is_stored(view: Seq<(int, int)>, nv: Seq<(int, int)>, p: int, s: int)
            requires exists|k: int| 0 <= k <= view.len() && nv == #[trigger] view.insert(k, (p, s))
            ensures stored(nv, p, s)
        {
            let k = choose|k: int| 0 <= k <= view.len() && nv == #[trigger] view.insert(k, (p, s));
            lemma_stored_insert(view, k, (p, s));
        }

        /// C06/C01: an item recorded at address a of bank b sits at outp_b + p with a = addr_b + p / unit_b, inside
        /// the bank's window
        pub open spec fn placed_in(defs: &asm::ItemDefs, sp: util::BitVecSpan, b: int) -> bool {
            &&& 0 <= b < defs.bankdefs.defs@.len() && defs.bankdefs.defs@[b] is Some
            &&& bank_at(defs, b).output_offset is Some
            &&& sp.offset is Some && sp.offset->0 >= bank_at(defs, b).output_offset->0
            &&& sp.addr.val() == crate::asm::resolver::address_of(bank_at(defs, b), sp.offset->0 - bank_at(defs, b).output_offset->0)
            &&& (bank_at(defs, b).size is Some ==> sp.offset->0 - bank_at(defs, b).output_offset->0 + sp.size <= bank_at(defs, b).size->0)
        }
        pub open spec fn items_placed(defs: &asm::ItemDefs, ss: Seq<util::BitVecSpan>) -> bool {
            forall|i: int| 0 <= i < ss.len() && (#[trigger] ss[i]).offset is Some && ss[i].size > 0 ==> exists|b: int| #[trigger] placed_in(defs, ss[i], b)
        }
