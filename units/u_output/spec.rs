        // ---- spec side for asm::output (C06)

        /// two bank output windows have a bit in common; a bank without size extends to infinity
        pub open spec fn windows_share_bit(o1: int, s1: Option<usize>, o2: int, s2: Option<usize>) -> bool {
            match (s1, s2) {
                (None, None) => true,
                (Some(a), None) => a > 0 && o1 + a > o2,
                (None, Some(b)) => b > 0 && o2 + b > o1,
                (Some(a), Some(b)) => overlaps(o1, a as int, o2, b as int),
            }
        }

        pub open spec fn all_banks_defined(defs: &asm::ItemDefs, from: int) -> bool {
            forall|k: int| from <= k < defs.bankdefs.defs@.len() ==> #[trigger] defs.bankdefs.defs@[k] is Some
        }

        pub open spec fn bank_at(defs: &asm::ItemDefs, k: int) -> asm::Bankdef { defs.bankdefs.defs@[k]->0 }

        pub open spec fn pair_disjoint(defs: &asm::ItemDefs, a: int, b: int) -> bool {
            bank_at(defs, a).output_offset is Some && bank_at(defs, b).output_offset is Some ==>
                !windows_share_bit(bank_at(defs, a).output_offset->0 as int, bank_at(defs, a).size,
                                   bank_at(defs, b).output_offset->0 as int, bank_at(defs, b).size)
        }

        pub open spec fn filled_to_end(defs: &asm::ItemDefs, k: int, len: int) -> bool {
            let b = bank_at(defs, k);
            b.fill && b.size is Some && b.size->0 > 0 && b.output_offset is Some ==> len >= b.output_offset->0 + b.size->0
        }
