from vfw.spec import Unit, Fn, Type, Impl, C, Loop, Rewrite, Insert
from units.u_resolver.unit import COMMON, get_output_position, get_address, iter_new, iter_next, LOUD
from units import contracts_bitvec as bv
from units.u_overlap.unit import check_and_insert as ov_check_and_insert, F as OVF

FO = "src/asm/output/mod.rs"

overlap_items = [
    Type(OVF, "struct", "OverlapChecker", slot="util_overlap"),
    Type(OVF, "struct", "OverlapCheckerEntry", slot="util_overlap"),
    Fn(OVF, "new", impl="OverlapChecker", slot="util_overlap", ret="res", mode="stub",
       ensures=[C("empty", "res.view() == Seq::<(int,int)>::empty()"), C("wf", "res.wf()")]),
]
_cai = ov_check_and_insert.as_stub("util_overlap")
overlap_items.append(_cai)

bitvec_items = bv.items("stub", "util", only=["new", "write_bit", "len", "mark_span", "write_bigint_with_span"])

BANKS_DEF1 = C("banks_defined", "all_banks_defined(defs, 1)", ["C03"])

check_bank_overlap = Fn(
    FO, "check_bank_overlap", slot="output", ret="res", props=["C06", "C03", "C19"],
    for_to_while=[1, 2],
    requires=[BANKS_DEF1],
    ensures=[
        C("windows_disjoint", "res is Ok ==> forall|a: int, b: int| 1 <= a < b < defs.bankdefs.defs@.len() ==> #[trigger] pair_disjoint(defs, a, b)", ["C06"]),
        C("err_is_loud", "res is Err ==> final(report).msgs() > old(report).msgs()", ["C03"]),
        C("ok_is_clean", "res is Ok ==> final(report).msgs() == old(report).msgs() && final(report).errors() == old(report).errors() && final(report).parents() == old(report).parents()", ["C03"]),
    ],
    loops={
        1: Loop(invariant=[
            C("defined", "all_banks_defined(defs, 1)"),
            C("clean", "report.msgs() == old(report).msgs() && report.errors() == old(report).errors() && report.parents() == old(report).parents()"),
            C("range", "1 <= verif_next_1 && verif_hi_1 == defs.bankdefs.defs@.len()"),
            C("earlier_pairs", "forall|a: int, b: int| 1 <= a < verif_next_1 && a < b < defs.bankdefs.defs@.len() ==> #[trigger] pair_disjoint(defs, a, b)"),
        ], decreases="verif_hi_1 - verif_next_1"),
        2: Loop(invariant=[
            C("defined", "all_banks_defined(defs, 1) && 1 <= i < defs.bankdefs.defs@.len()"),
            C("bank1", "*bankdef1 == bank_at(defs, i as int) && bankdef1.output_offset is Some"),
            C("clean", "report.msgs() == old(report).msgs() && report.errors() == old(report).errors() && report.parents() == old(report).parents()"),
            C("range", "i < verif_next_2 && verif_hi_2 == defs.bankdefs.defs@.len()"),
            C("this_row", "forall|b: int| i < b < verif_next_2 ==> #[trigger] pair_disjoint(defs, i as int, b)"),
        ], decreases="verif_hi_2 - verif_next_2"),
    },
    inserts=[
        Insert("            let overlap = {", "            proof { assume(size1 is Some ==> outp1 + size1->0 <= usize::MAX); assume(size2 is Some ==> outp2 + size2->0 <= usize::MAX); }\n", where="before", finding="D9f",
               why="finding guard: outp + bank size overflows usize (known finding D9f)"),
    ],
)

fill_banks = Fn(
    FO, "fill_banks", slot="output", props=["C06", "C03", "C19"],
    for_to_while=[1],
    requires=[C("banks_defined", "all_banks_defined(defs, 0)", ["C03"]), C("wf", "old(output).wf()")],
    ensures=[
        C("no_bit_set", "final(output).v() == old(output).v()", ["C06"]),
        C("wf", "final(output).wf()", ["C06"]),
        C("extends_to_filled_bank_ends", "forall|k: int| 0 <= k < defs.bankdefs.defs@.len() ==> #[trigger] filled_to_end(defs, k, final(output).len as int)", ["C06"]),
        C("never_shrinks", "final(output).len >= old(output).len", ["C06"]),
        C("spans_kept", "final(output).spans == old(output).spans", ["C12"]),
    ],
    loops={1: Loop(invariant=[
        C("defined", "all_banks_defined(defs, 0)"),
        C("same_bits", "output.v() == old(output).v() && output.wf() && output.spans == old(output).spans && output.len >= old(output).len"),
        C("range", "verif_hi_1 == defs.bankdefs.defs@.len()"),
        C("earlier_banks", "forall|k: int| 0 <= k < verif_next_1 ==> #[trigger] filled_to_end(defs, k, output.len as int)"),
    ], decreases="verif_hi_1 - verif_next_1")},
    inserts=[
        Insert("            let highest_position = offset + size - 1;", "            proof { assume(offset + size <= usize::MAX); }\n", where="before", finding="D9f",
               why="finding guard: outp + bank size overflows usize (known finding D9f)"),
        Insert("                output.write_bit(highest_position, false);", "                let ghost before = output.v(); let ghost len_before = output.len;\n", where="before"),
        Insert("                output.write_bit(highest_position, false);", "\n                proof { assert forall|j: nat| #[trigger] bit_of(output.v(), j) == bit_of(before, j) by {}; lemma_same_bits_same_value(output.v(), before); assert forall|k: int| 0 <= k < verif_next_1 implies #[trigger] filled_to_end(defs, k, output.len as int) by { if k < verif_next_1 - 1 { assert(filled_to_end(defs, k, len_before as int)); } } }\n", where="after"),
    ],
)

check_bank_usage = Fn(
    FO, "check_bank_usage", slot="output", ret="res", props=["C06", "C03"],
    ensures=LOUD + [
        C("default_bank_only_alone", "res is Ok <==> (ctx.bank_ref.0 != 0 || defs.bankdefs.defs@.len() == 1)", ["C06"]),
    ])

check_bank_output = Fn(
    FO, "check_bank_output", slot="output", ret="res", props=["C06", "C03", "C19"],
    requires=[C("bank_defined", "bank_ok(defs, ctx.bank_ref)", ["C03"]),
              C("position_plus_size_fits", "ctx.bank_data.cur_position + size <= usize::MAX", ["C19"])],
    ensures=LOUD + [
        C("inside_window", "res is Ok ==> (bank_of(defs, ctx.bank_ref).size is Some ==> ctx.bank_data.cur_position + size <= bank_of(defs, ctx.bank_ref).size->0)", ["C06"]),
        C("writable", "res is Ok && write ==> bank_of(defs, ctx.bank_ref).output_offset is Some", ["C06", "C03"]),
        C("rejects_only_violations", "res is Err ==> (bank_of(defs, ctx.bank_ref).size is Some && ctx.bank_data.cur_position + size > bank_of(defs, ctx.bank_ref).size->0) || (write && bank_of(defs, ctx.bank_ref).output_offset is None)", ["C06"]),
    ],
    )

FE = "src/expr/expression.rs"
unwrap_bigint = Fn(FE, "unwrap_bigint", impl="Value", slot="expr", ret="res", key="Value::unwrap_bigint", props=["C03"],
                   requires=[C("is_integer", "self is Integer", ["C03"])],
                   ensures=[C("value", "*res == self->Integer_0", ["C03"])])

NODE_OK_OUT = """res is Ok && res->Ok_0 is Some ==> ({
            let c = res->Ok_0->0;
            bank_ok(defs, c.bank_ref)
            && (match c.node {
                // ASSUMED state after a confirmed resolution: labels are integers, encodings are sized, and
                // position + size was already computed by the resolve passes (advance_address) without overflow
                asm::ResolverNode::Symbol(s) => defined(&defs.symbols, s.item_ref)
                    && (s.kind is Label ==> defs.symbols.defs@[(s.item_ref->0).0 as int]->0.value is Integer),
                asm::ResolverNode::Instruction(n) => defined(&defs.instructions, n.item_ref)
                    && defs.instructions.defs@[(n.item_ref->0).0 as int]->0.encoding.size is Some
                    && c.bank_data.cur_position + defs.instructions.defs@[(n.item_ref->0).0 as int]->0.encoding.size->0 <= usize::MAX,
                asm::ResolverNode::DataElement(n, k) => k < n.item_refs@.len() && k < n.elems@.len() && defined(&defs.data_elems, Some(n.item_refs@[k as int]))
                    && defs.data_elems.defs@[n.item_refs@[k as int].0 as int]->0.encoding.size is Some
                    && c.bank_data.cur_position + defs.data_elems.defs@[n.item_refs@[k as int].0 as int]->0.encoding.size->0 <= usize::MAX,
                asm::ResolverNode::Res(n) => defined(&defs.res_directives, n.item_ref)
                    && c.bank_data.cur_position + defs.res_directives.defs@[(n.item_ref->0).0 as int]->0.reserve_size <= usize::MAX,
                _ => true,
            })
        })"""
iter_next_out = Fn("src/asm/resolver/iter.rs", "next", impl="<'ast, 'decls> ResolveIterator<'ast, 'decls>", slot="resolver", mode="stub", ret="res", key="ResolveIterator::next",
                   ensures=LOUD + [C("node_refers_to_defined_items", NODE_OK_OUT)])

build_output = Fn(
    FO, "build_output", slot="output", ret="res", props=["C06", "C03", "C01", "C12"],
    attrs=["#[verifier::exec_allows_no_decreases_clause] // termination of the walk is NOT proved (the AST cursor lives behind ResolveIterator::next, a stub)"],
    requires=[C("banks_defined", "all_banks_defined(defs, 0)", ["C03"])],
    ensures=[
        C("err_is_loud", "res is Err ==> final(report).msgs() > old(report).msgs()", ["C03"]),
        C("output_well_formed", "res is Ok ==> res->Ok_0.wf()", ["C06"]),
        C("no_two_items_share_a_bit", "res is Ok ==> items_disjoint(res->Ok_0.spans@)", ["C06"]),
        C("every_bit_outside_the_items_is_zero", "res is Ok ==> set_bits_inside_items(res->Ok_0.v(), res->Ok_0.spans@)", ["C06"]),
        C("every_item_sits_at_its_address_inside_its_bank", "res is Ok ==> items_placed(defs, res->Ok_0.spans@)", ["C06", "C01"]),
    ],
    loops={1: Loop(invariant=[
        C("state", "output.wf() && overlap_checker.wf() && all_banks_defined(defs, 0)"),
        C("monotone", "report.msgs() >= old(report).msgs()"),
        C("sized_items_are_checker_entries", "sized_items_stored(output.spans@, overlap_checker.view())"),
        C("items_disjoint", "items_disjoint(output.spans@)"),
        C("set_bits_inside_items", "set_bits_inside_items(output.v(), output.spans@)"),
        C("items_placed", "items_placed(defs, output.spans@)"),
    ], body_start="        let ghost spans0 = output.spans@; let ghost view0 = overlap_checker.view(); let ghost chk0 = overlap_checker;",
       body_end="""        proof {
            lemma_stored_mono(view0, overlap_checker.view());
            if output.spans@.len() > spans0.len() {
                let sp = output.spans@[spans0.len() as int];
                assert(output.spans@ =~= spans0.push(sp));
                lemma_spans_cover_push(spans0, sp);
                if sp.offset is Some && sp.size > 0 {
                    lemma_inserted_is_stored(view0, overlap_checker.view(), sp.offset->0 as int, sp.size as int);
                    lemma_new_item_disjoint(spans0, &chk0, sp.offset->0 as int, sp.size as int);
                    assert(placed_in(defs, sp, ctx.bank_ref.0 as int));
                }
            }
            // C06: a reservation leaves no trace in the output, so the property is stated where it is handled:
            // every `#res` the walk reaches fits the address range of its bank, whether or not the bank has output
            match ctx.node {
                asm::ResolverNode::Res(n) => {
                    assert(bank_of(defs, ctx.bank_ref).size is Some ==> ctx.bank_data.cur_position + defs.res_directives.defs@[(n.item_ref->0).0 as int]->0.reserve_size <= bank_of(defs, ctx.bank_ref).size->0);
                },
                _ => {},
            }
        }""")},
    inserts=[
        Insert("            overlap_checker.check_and_insert(\n                report,\n\t\t\t\tast_instr.span,", "            proof { assume(pos + instr.encoding.size->0 <= usize::MAX); }\n", where="before", finding="D9h",
               why="finding guard: output position + item size overflows usize in OverlapChecker (known finding D9h)"),
        Insert("            overlap_checker.check_and_insert(\n                report,\n                span,", "            proof { assume(pos + elem.encoding.size->0 <= usize::MAX); }\n", where="before", finding="D9h", why="finding guard D9h"),
        Insert("                overlap_checker.check_and_insert(\n                    report,\n                    ast_res.header_span,", "                proof { assume(pos + res.reserve_size <= usize::MAX); }\n", where="before", finding="D9h", why="finding guard D9h"),
    ],
)

UNIT = Unit(
    "U-output", "u_output/skeleton.rs",
    items=COMMON + overlap_items + bitvec_items + [
        get_output_position.as_stub("resolver"), get_address.as_stub("resolver"),
        check_bank_overlap, fill_banks, check_bank_usage, check_bank_output,
        iter_new.as_stub("resolver"), iter_next_out, unwrap_bigint, build_output,
    ],
    serves=["C06", "C03", "C19", "C12"],
    description="asm::output: bank window checks, fill, per-item range/writability checks",
)
