from vfw.spec import Unit, Fn, Type, Impl, C, Loop, Rewrite, Insert
from units.contracts_report import report_fns

FD = "src/driver.rs"
FA = "src/asm/mod.rs"

make_opts = Fn(FD, "make_opts", slot="driver", mode="stub", ret="res", key="driver::make_opts", ensures=[C("the_option_table", "res == the_opts()")],
               sig_rewrites=[Rewrite("getopts::", "verif_getopts::", count=None, rule="R38", why="getopts -> stand-in module")])
parse_output_format = Fn(FD, "parse_output_format", slot="driver", mode="stub", ret="res", key="driver::parse_output_format",
    ensures=[C("a_function_of_the_text", "(match res { Ok(f) => format_of(format_str@) == Some(f), Err(_) => format_of(format_str@) is None })"),
             C("failure_is_loud", "res is Err ==> final(report).msgs() > old(report).msgs()"),
             C("success_is_clean", "res is Ok ==> *final(report) == *old(report)")])
parse_define_arg = Fn(FD, "parse_define_arg", slot="driver", mode="stub", ret="res", key="driver::parse_define_arg",
    ensures=[C("failure_is_loud", "res is Err ==> final(report).msgs() > old(report).msgs()"),
             C("success_is_clean", "res is Ok ==> *final(report) == *old(report)")])
derive = Fn(FD, "derive_output_filename", slot="driver", mode="stub", ret="res", key="driver::derive_output_filename",
    ensures=[C("a_function_of_input_name_and_format", "(match res { Ok(n) => derived_name(input_filename@, format) == Some(n@), Err(_) => derived_name(input_filename@, format) is None })"),
             C("never_the_input_file_itself", "res is Ok ==> (res->Ok_0)@ != input_filename@"),
             C("failure_is_loud", "res is Err ==> final(report).msgs() > old(report).msgs()"),
             C("success_is_clean", "res is Ok ==> *final(report) == *old(report)")])
opts_new = Fn(FA, "new", impl="AssemblyOptions", slot="asm", ret="res", key="AssemblyOptions::new", props=["C18"],
    ensures=[C("documented_defaults", "res.max_iterations == 10 && !res.debug_iterations && res.optimize_statically_known && res.optimize_instruction_matching && res.driver_symbol_defs@.len() == 0", ["C18", "C08"])])

N = "arg_groups(args@).len() as int"
parse_define_arg.ensures.insert(0, C("what_the_text_defines", "res is Ok ==> is_define(raw_str@, res->Ok_0)"))
parse_command = Fn(FD, "parse_command", slot="driver", ret="res", key="driver::parse_command", props=["C18", "C03"],
    requires=[C("the_program_name_is_the_first_argument", "args@.len() >= 1", ["C03"])],
    ensures=[
        C("failure_is_loud", "res is Err ==> final(report).msgs() > old(report).msgs()", ["C03", "C18"]),
        C("success_is_clean", "res is Ok ==> *final(report) == *old(report)", ["C03"]),
        C("one_output_group_per_argument_group_each_accepted_by_the_option_parser", "res is Ok ==> (res->Ok_0).output_groups@.len() == %s && (forall|i: int| 0 <= i < %s ==> (#[trigger] parsed_group(args@, i)) is Some)" % (N, N), ["C18"]),
        C("each_group_is_what_its_own_options_say_with_the_documented_defaults_and_a_safe_derived_name",
          "res is Ok ==> (forall|i: int| 0 <= i < %s ==> group_ok(#[trigger] (res->Ok_0).output_groups@[i], m(args@, i), (res->Ok_0).input_filenames@))" % N, ["C18"]),
        C("global_options_are_honoured_wherever_they_appear", "res is Ok ==> globals(res->Ok_0, args@, %s)" % N, ["C18", "C16", "C09", "C08", "C14"]),
    ],
    rewrites=[
        Rewrite(r"args\[1\.\.\]\s*\.split\(\|arg\| arg == \"--\"\)\s*\.collect::<Vec<_>>\(\)", "verif_split_groups(args)", regex=True, rule="R16",
                why="`args[1..].split(|arg| arg == \"--\").collect()` -> prelude wrapper (ASSUMED: the groups of arguments between the `--` separators)"),
        Rewrite(r"report\.error\(format!\(\"\{\}\", failure\)\);", "report.error(\"\");", regex=True, rule="R22", why="the text of getopts' failure message is not specified"),
        Rewrite(r"parsed\.opt_str\(\"f\"\)\.as_ref\(\)", "&parsed.opt_str(\"f\")", regex=True, rule="R16", why="`OPTION.as_ref()` in an `if let` -> a borrow of the option (same pattern, default binding)"),
        Rewrite(r"parsed\.opt_str\(\"o\"\)\.as_ref\(\)", "&parsed.opt_str(\"o\")", regex=True, rule="R16", why="same"),
        Rewrite("&format_str)?", "format_str.as_str())?", rule="R16", why="deref coercion `&&String -> &str` written out"),
        Rewrite("output_filename.clone()", "verif_string_clone(output_filename)", rule="R16", why="String::clone -> prelude wrapper (same text)"),
        Rewrite(r"(\S+) \|= (parsed\.opt_present\(\"[a-z-]+\"\));", r"{ let verif_b = \2; \1 = \1 || verif_b; }", regex=True, count=None, rule="R3", why="`a |= b` on bools (unsupported operator) -> `a = a || b` with b evaluated first"),
        Rewrite(r"(\S+) \|=\s+(parsed\.opt_present\(\"debug-iters\"\));", r"{ let verif_b = \2; \1 = \1 || verif_b; }", regex=True, count=None, rule="R3", why="same"),
        Rewrite(r"(\S+) &=\s+!(parsed\.opt_present\(\"[a-z-]+\"\));", r"{ let verif_b = \2; \1 = \1 && !verif_b; }", regex=True, count=None, rule="R3", why="`a &= !b` on bools -> `a = a && !b` with b evaluated first"),
        Rewrite("for define_arg in parsed.opt_strs(\"d\")", "let verif_defs = parsed.opt_strs(\"d\");\n\t\tlet ghost c0 = command;\n\t\tfor define_arg in &verif_defs", rule="R21", why="by-value iteration of a Vec<String> whose elements are only read -> iteration by reference (+ a ghost snapshot)"),
        Rewrite("&define_arg)?", "define_arg.as_str())?", rule="R16", why="deref coercion written out"),
        Rewrite("parsed.opt_str(\"color\").as_ref().map(|s| s.as_ref())", "verif_opt_as_str(&parsed.opt_str(\"color\"))", rule="R16", why="`OPTION<String>.as_ref().map(|s| s.as_ref())` -> prelude function (proved: the text, borrowed)"),
        Rewrite("t.parse::<usize>()", "verif_parse_usize(&t)", rule="R16", why="`str::parse::<usize>()` -> prelude wrapper (ASSUMED: a function of the text)"),
        Rewrite("for input_filename in parsed.free.into_iter()", "for input_filename in it: parsed.free.into_iter()", rule="R5", why="ghost iterator named"),
        Rewrite("command.input_filenames.contains(&derived_filename)", "verif_contains_text(&command.input_filenames, &derived_filename)", rule="R16", why="`Vec<String>::contains` -> prelude wrapper (ASSUMED: some element has the same text)"),
    ],
    inserts=[Insert("\t\tlet mut group = CommandOutput {", "\t\tlet ghost pm = parsed;\n\t\tproof { assert(parsed_group(args@, k as int) == Some(pm)); }\n", where="before", why="ghost name for this group's matches")],
    for_to_while=[1, 2, 4],
    loops={
        1: Loop(invariant=[
                C("groups", "verif_next_1 <= verif_vec_1@.len() && verif_vec_1@.len() == %s && (forall|i: int| 0 <= i < verif_vec_1@.len() ==> (#[trigger] verif_vec_1@[i])@ == arg_groups(args@)[i]) && parse_opts == the_opts() && *report == *old(report)" % N),
                C("groups_so_far", "command.output_groups@.len() == verif_next_1 && (forall|i: int| 0 <= i < verif_next_1 ==> (#[trigger] parsed_group(args@, i)) is Some) && (forall|i: int| 0 <= i < verif_next_1 ==> group_raw(#[trigger] command.output_groups@[i], m(args@, i)))"),
                C("globals_so_far", "globals(command, args@, verif_next_1 as int)"),
            ], decreases="verif_vec_1@.len() - verif_next_1",
            body_start=" let ghost k = verif_next_1; let ghost d0 = command.opts.driver_symbol_defs@; proof { reveal_strlit(\"on\"); reveal_strlit(\"off\"); assert(\"off\"@.len() == 3 && \"on\"@.len() == 2); }",
            body_end=" proof { let n1 = k as int + 1; assert(m(args@, n1 - 1) == pm); assert(command.input_filenames@ == in0 + pm.free@); assert(in0 == inputs(args@, k as int)); assert(command.opts == c2.opts && command.quiet == c2.quiet && command.use_colors == c2.use_colors && command.show_help == c2.show_help && command.show_version == c2.show_version); assert(def_texts(args@, n1) == def_texts(args@, n1 - 1) + pm.strs_of(\"d\"@)); }"),
        2: Loop(invariant=[
                C("defs", "verif_defs@.len() == pm.strs_of(\"d\"@).len() && (forall|i: int| 0 <= i < verif_defs@.len() ==> (#[trigger] verif_defs@[i])@ == pm.strs_of(\"d\"@)[i]) && verif_vec_2@ == verif_defs@ && verif_next_2 <= verif_vec_2@.len() && *report == *old(report) && same_but_defs(command, c0) && command.opts.driver_symbol_defs@.len() == d0.len() + verif_next_2"),
                C("defs_so_far", "(forall|j: int| 0 <= j < d0.len() ==> command.opts.driver_symbol_defs@[j] == d0[j]) && (forall|j: int| 0 <= j < verif_next_2 ==> is_define(#[trigger] pm.strs_of(\"d\"@)[j], command.opts.driver_symbol_defs@[d0.len() + j]))"),
            ], decreases="verif_vec_2@.len() - verif_next_2",
            body_start=" let ghost defs0 = command.opts.driver_symbol_defs@;",
            body_end=" proof { let j = verif_next_2 - 1; assert(verif_defs@[j]@ == pm.strs_of(\"d\"@)[j]); assert(command.opts.driver_symbol_defs@ == defs0.push(command.opts.driver_symbol_defs@[d0.len() + j])); assert(is_define(pm.strs_of(\"d\"@)[j], command.opts.driver_symbol_defs@[d0.len() + j])); }"),
        3: Loop(invariant=[
                C("inputs_so_far", "it.seq() == pm.free@ && command.input_filenames@ == in0 + it.history() && same_but_inputs(command, c2) && *report == *old(report)"),
            ], before="\t\tlet ghost c2 = command; let ghost in0 = command.input_filenames@;"),
        4: Loop(invariant=[
                C("frame", "verif_next_4 <= command.output_groups@.len() && command.output_groups@.len() == %s && *report == *old(report) && same_but_groups(command, c1)" % N),
                C("defaults_so_far", "(forall|i: int| 0 <= i < verif_next_4 ==> group_ok(#[trigger] command.output_groups@[i], m(args@, i), command.input_filenames@)) && (forall|i: int| verif_next_4 <= i < %s ==> group_raw(#[trigger] command.output_groups@[i], m(args@, i)))" % N),
            ], decreases="command.output_groups@.len() - verif_next_4",
            before="\tlet ghost c1 = command;"),
    },
)

UNIT = Unit(
    "U-command", "u_command/skeleton.rs",
    items=report_fns("stub", "diagn") + [
        Type(FA, "struct", "AssemblyOptions", slot="asm"), Type(FA, "struct", "DriverSymbolDef", slot="asm"), opts_new,
        Type(FD, "enum", "OutputFormat", slot="driver", derive="Clone, Copy"), Type(FD, "struct", "Command", slot="driver"), Type(FD, "struct", "CommandOutput", slot="driver"),
        make_opts, parse_output_format, parse_define_arg, derive, parse_command],
    serves=["C18", "C03", "C14"],
    description="driver::parse_command: groups, global options, default formats and derived output names",
)
