//@@INCLUDE _shared/header.rs
//@@INCLUDE _shared/diagn_opaque.rs
/// stand-in for the parts of the external crate getopts that driver::parse_command touches (R38: `getopts::` is renamed to
/// `verif_getopts::`).  ASSUMED: what getopts finds in one group of arguments is a function of the option table and the
/// argument texts (`parse_of`); a `Matches` answers `opt_str` / `opt_present` / `opt_strs` as uninterpreted functions of
/// the option name, and carries the free arguments in its public field `free`.  Which arguments getopts takes for which
/// option is NOT modelled.
pub mod verif_getopts {
    use vstd::prelude::*;
    verus! {
    #[verifier::external_body]
    pub struct Options { _p: u8 }
    #[verifier::external_body]
    pub struct Fail { _p: u8 }
    #[verifier::external_body]
    pub struct Found { _p: u8 }
    pub struct Matches { pub free: Vec<String>, pub found: Found }
    pub uninterp spec fn parse_of(o: Options, args: Seq<String>) -> Option<Matches>;
    impl Options {
        #[verifier::external_body]
        pub fn parse(&self, args: &[String]) -> (r: Result<Matches, Fail>)
            ensures (match r { Ok(m) => parse_of(*self, args@) == Some(m), Err(_) => parse_of(*self, args@) is None })
        { unimplemented!() }
    }
    impl Matches {
        pub uninterp spec fn str_of(&self, name: Seq<char>) -> Option<Seq<char>>;
        pub uninterp spec fn present(&self, name: Seq<char>) -> bool;
        pub uninterp spec fn strs_of(&self, name: Seq<char>) -> Seq<Seq<char>>;
        #[verifier::external_body]
        pub fn opt_str(&self, name: &str) -> (r: Option<String>)
            ensures (match r { Some(s) => self.str_of(name@) == Some(s@), None => self.str_of(name@) is None })
        { unimplemented!() }
        #[verifier::external_body]
        pub fn opt_present(&self, name: &str) -> (r: bool)
            ensures r == self.present(name@)
        { unimplemented!() }
        #[verifier::external_body]
        pub fn opt_strs(&self, name: &str) -> (r: Vec<String>)
            ensures r@.len() == self.strs_of(name@).len(), forall|i: int| 0 <= i < r@.len() ==> (#[trigger] r@[i])@ == self.strs_of(name@)[i]
        { unimplemented!() }
    }
    }
    impl std::fmt::Display for Fail { fn fmt(&self, f: &mut std::fmt::Formatter) -> std::fmt::Result { Ok(()) } }
}
pub mod expr {
    use vstd::prelude::*;
    verus! {
    #[verifier::external_body]
    pub struct Value { _p: u8 }
    }
}
pub mod asm {
    use vstd::prelude::*;
    use crate::*;
    verus! {
    //@@ITEMS asm
    }
}
pub mod driver {
    use vstd::prelude::*;
    use crate::*;
    use crate::verif_getopts::*;
    verus! {
    // ---- std gaps (ASSUMED): `args[1..].split(|arg| arg == "--").collect()` yields the groups of arguments between the
    // `--` separators, after the program name (an uninterpreted function of the argument vector; at least one group);
    // `str::parse::<usize>()` is a function of the text
    pub uninterp spec fn arg_groups(args: Seq<String>) -> Seq<Seq<String>>;
    #[verifier::external_body]
    pub fn verif_split_groups<'a>(args: &'a Vec<String>) -> (r: Vec<&'a [String]>)
        requires args@.len() >= 1
        ensures r@.len() == arg_groups(args@).len(), r@.len() >= 1, forall|i: int| 0 <= i < r@.len() ==> (#[trigger] r@[i])@ == arg_groups(args@)[i]
    { unimplemented!() }
    pub uninterp spec fn dec_usize(t: Seq<char>) -> Option<usize>;
    #[verifier::external_body]
    pub fn verif_parse_usize(t: &String) -> (r: Result<usize, ()>)
        ensures (match r { Ok(v) => dec_usize(t@) == Some(v), Err(_) => dec_usize(t@) is None })
    { unimplemented!() }
    /// `OPTION<String>.as_ref().map(|s| s.as_ref())`: the text, borrowed
    pub fn verif_opt_as_str<'a>(o: &'a Option<String>) -> (r: Option<&'a str>)
        ensures (match r { Some(s) => *o is Some && (o->0)@ == s@, None => *o is None })
    { match o { Some(s) => Some(s.as_str()), None => None } }
    /// `Vec<String>::contains(&String)`: some element has the same text
    #[verifier::external_body]
    pub fn verif_contains_text(v: &Vec<String>, s: &String) -> (r: bool)
        ensures r == (exists|j: int| 0 <= j < v@.len() && (#[trigger] v@[j])@ == s@)
    { unimplemented!() }
    #[verifier::external_body]
    pub fn verif_string_clone(s: &String) -> (r: String) ensures r@ == s@ { unimplemented!() }

    pub uninterp spec fn the_opts() -> Options;
    pub uninterp spec fn format_of(text: Seq<char>) -> Option<OutputFormat>;
    pub uninterp spec fn derived_name(input: Seq<char>, format: OutputFormat) -> Option<Seq<char>>;
    //@@INCLUDE u_command/spec.rs
    //@@ITEMS driver
    }
}
