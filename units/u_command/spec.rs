    // ---- property text (C18): what the command line means, group by group
    pub open spec fn parsed_group(args: Seq<String>, i: int) -> Option<Matches> { parse_of(the_opts(), arg_groups(args)[i]) }
    pub open spec fn m(args: Seq<String>, i: int) -> Matches { parsed_group(args, i)->0 }
    /// the input files: the free arguments of every group, in order
    pub open spec fn inputs(args: Seq<String>, n: int) -> Seq<String> decreases n {
        if n <= 0 { Seq::empty() } else { inputs(args, n - 1) + m(args, n - 1).free@ }
    }
    /// a global flag is honoured wherever it appears
    pub open spec fn any_present(args: Seq<String>, n: int, name: Seq<char>) -> bool decreases n {
        if n <= 0 { false } else { any_present(args, n - 1, name) || m(args, n - 1).present(name) }
    }
    /// the iteration budget: the last `-t` given, 10 without one
    pub open spec fn last_iters(args: Seq<String>, n: int) -> usize decreases n {
        if n <= 0 { 10 } else { match m(args, n - 1).str_of("t"@) { Some(t) => dec_usize(t)->0, None => last_iters(args, n - 1) } }
    }
    /// colours: the last `--color` given, on without one
    pub open spec fn last_color(args: Seq<String>, n: int) -> bool decreases n {
        if n <= 0 { true } else if m(args, n - 1).present("color"@) { m(args, n - 1).str_of("color"@) == Some("on"@) } else { last_color(args, n - 1) }
    }
    /// the texts of all `-d` arguments, in order
    pub open spec fn def_texts(args: Seq<String>, n: int) -> Seq<Seq<char>> decreases n {
        if n <= 0 { Seq::empty() } else { def_texts(args, n - 1) + m(args, n - 1).strs_of("d"@) }
    }
    /// what parse_define_arg answers for a text (its content is proved in U-define)
    pub uninterp spec fn is_define(text: Seq<char>, d: asm::DriverSymbolDef) -> bool;

    /// a group as its own options say, before defaults
    pub open spec fn group_raw(g: CommandOutput, mt: Matches) -> bool {
        g.printout == mt.present("p"@)
        && (match mt.str_of("f"@) { Some(f) => format_of(f) is Some && g.format == format_of(f), None => g.format is None })
        && (match mt.str_of("o"@) { Some(o) => g.output_filename is Some && (g.output_filename->0)@ == o, None => g.output_filename is None })
    }
    pub open spec fn default_format(printout: bool) -> OutputFormat {
        if printout { OutputFormat::Annotated { base: 16, group: 2 } } else { OutputFormat::Binary }
    }
    /// a group as the command finally holds it: its own format or the default one; its own file name, or one derived from the
    /// FIRST input file with the format's extension that is none of the input files, or none when it prints
    pub open spec fn group_ok(g: CommandOutput, mt: Matches, ins: Seq<String>) -> bool {
        g.printout == mt.present("p"@)
        && (match mt.str_of("f"@) { Some(f) => format_of(f) is Some && g.format == format_of(f), None => g.format == Some(default_format(g.printout)) })
        && (match mt.str_of("o"@) {
            Some(o) => g.output_filename is Some && (g.output_filename->0)@ == o,
            None => if !g.printout && ins.len() >= 1 {
                    g.output_filename is Some && derived_name(ins[0]@, g.format->0) == Some((g.output_filename->0)@)
                    && (forall|j: int| 0 <= j < ins.len() ==> (#[trigger] ins[j])@ != (g.output_filename->0)@)
                } else { g.output_filename is None } })
    }
    pub open spec fn globals(c: Command, args: Seq<String>, n: int) -> bool {
        c.input_filenames@ == inputs(args, n)
        && c.quiet == any_present(args, n, "q"@) && c.show_version == any_present(args, n, "v"@) && c.show_help == any_present(args, n, "h"@)
        && c.opts.debug_iterations == any_present(args, n, "debug-iters"@)
        && c.opts.optimize_statically_known == !any_present(args, n, "debug-no-optimize-static"@)
        && c.opts.optimize_instruction_matching == !any_present(args, n, "debug-no-optimize-matcher"@)
        && c.opts.max_iterations == last_iters(args, n) && c.opts.max_iterations >= 1
        && c.use_colors == last_color(args, n)
        && c.opts.driver_symbol_defs@.len() == def_texts(args, n).len()
        && (forall|j: int| 0 <= j < def_texts(args, n).len() ==> is_define(#[trigger] def_texts(args, n)[j], c.opts.driver_symbol_defs@[j]))
    }
    /// everything but the defines is as in c0
    pub open spec fn same_but_defs(c: Command, c0: Command) -> bool {
        c.input_filenames == c0.input_filenames && c.output_groups == c0.output_groups && c.quiet == c0.quiet && c.use_colors == c0.use_colors
        && c.show_version == c0.show_version && c.show_help == c0.show_help && c.opts.max_iterations == c0.opts.max_iterations
        && c.opts.debug_iterations == c0.opts.debug_iterations && c.opts.optimize_statically_known == c0.opts.optimize_statically_known
        && c.opts.optimize_instruction_matching == c0.opts.optimize_instruction_matching
    }
    /// everything but the groups is as in c0
    pub open spec fn same_but_groups(c: Command, c0: Command) -> bool {
        c.input_filenames == c0.input_filenames && c.opts == c0.opts && c.quiet == c0.quiet && c.use_colors == c0.use_colors
        && c.show_version == c0.show_version && c.show_help == c0.show_help
    }
    /// everything but the input files is as in c0
    pub open spec fn same_but_inputs(c: Command, c0: Command) -> bool {
        c.output_groups == c0.output_groups && c.opts == c0.opts && c.quiet == c0.quiet && c.use_colors == c0.use_colors
        && c.show_version == c0.show_version && c.show_help == c0.show_help
    }
