from vfw.spec import Unit, Fn, Type, Impl, C, Loop, Rewrite, Insert
from units.contracts_report import report_fns

F = "src/util/file_navigation.rs"
LOUD = [C("err_is_loud", "res is Err ==> final(report).msgs() > old(report).msgs()", ["C03", "C14"]),
        C("ok_is_clean", "res is Ok ==> final(report).msgs() == old(report).msgs() && final(report).errors() == old(report).errors()", ["C03"]),
        C("parents_balanced", "final(report).parents() == old(report).parents()", ["C03"])]
is_std_path = Fn(F, "is_std_path", slot="util", mode="stub", ret="res", key="is_std_path", ensures=[C("std", "res == is_std(path@)")])
validate = Fn(F, "filename_validate_relative", slot="util", mode="stub", ret="res", key="filename_validate_relative", ensures=LOUD)

COMPS = "nav_components(current@, relative@)"
navigate = Fn(F, "filename_navigate", slot="util", ret="res", key="filename_navigate", props=["C14", "C03"],
    ensures=LOUD + [
        C("std_paths_verbatim", "is_std(relative@) ==> res is Ok && res->Ok_0@ == relative@", ["C14"]),
        C("leaving_the_root_directory_is_an_error", "!is_std(relative@) && collapse(%s, %s.len() as int) is None ==> res is Err" % (COMPS, COMPS), ["C14"]),
        C("result_is_the_normalised_path", "!is_std(relative@) && res is Ok ==> collapse(%s, %s.len() as int) is Some"
          " && res->Ok_0@ == join_slash(collapse(%s, %s.len() as int)->0, collapse(%s, %s.len() as int)->0.len() as int)" % ((COMPS,) * 6), ["C14"]),
    ],
    rewrites=[
        Rewrite('current.replace("\\\\", "/")', "verif_to_slashes(current)", rule="R16", why="str::replace -> prelude wrapper (uninterpreted result)"),
        Rewrite('relative.replace("\\\\", "/")', "verif_to_slashes(relative)", rule="R16", why="str::replace -> prelude wrapper"),
        Rewrite('for split in current.split("/")', "for split in verif_split_slash(&current)", rule="R16", why="str::split -> prelude wrapper returning the components"),
        Rewrite("relative.to_string()", "verif_to_string(relative)", rule="R16", why="str::to_string -> prelude wrapper (the same text)"),
        Rewrite(r'new_filename == ("[^"]*")', r"verif_string_is(&new_filename, \1)", regex=True, count=3, rule="R16", why="`String == &str` (no vstd specification) -> prelude wrapper comparing the texts"),
        Rewrite('nav.starts_with("/")', "verif_starts_with_slash(&nav)", rule="R16", why="str::starts_with -> prelude wrapper"),
        Rewrite(r'nav\s*\.split\("/"\)\s*\.filter\(\|s\| s\.len\(\) > 0 && s != &"\."\)\s*\.collect\(\)', "verif_kept_components(&nav)", regex=True, rule="R29",
                why="split/filter/collect chain -> prelude wrapper; assumed: the non-empty components other than `.` in order"),
    ],
    inserts=[
        Insert("\tlet current = verif_to_slashes(current);", "\tlet ghost old_current = current@;\n", where="before"),
        Insert("\tpath_components.remove(path_components.len() - 1);\n", "\tlet ghost full = texts_of(path_components@);\n", where="before"),
        Insert("\tpath_components.remove(path_components.len() - 1);\n", "\tproof { assert(texts_of(path_components@) =~= full.drop_last()); }\n", where="after"),
        Insert("\t// Collapse `..` components", "\tproof { assert(texts_of(path_components@) =~= nav_components(old_current, relative@)); }\n", where="before"),
        Insert("\t\t\t\treport.error_span(\"cannot navigate out of project directory\", span);", "\t\t\t\tproof { assert(texts_of(path_components@)[i as int] == path_components@[i as int]@); lemma_collapse_none(texts_of(path_components@), (i + 1) as int, path_components@.len() as int); }\n", where="before"),
        Insert("\t\t\tcontinue;", "\t\t\tproof { assert(texts_of(new_path_components@) =~= st.drop_last()); assert(texts_of(path_components@)[i as int] == path_components@[i as int]@); }\n", where="before"),
        Insert("\t\tnew_path_components.push(path_components[i]);\n", "\t\tlet ghost st2 = texts_of(new_path_components@);\n", where="before"),
        Insert("\t\tnew_path_components.push(path_components[i]);\n", "\t\tproof { assert(texts_of(new_path_components@) =~= st2.push(path_components@[i as int]@)); assert(texts_of(path_components@)[i as int] == path_components@[i as int]@); }\n", where="after"),
    ],
    for_to_while=[1, 2, 3],
    loops={
        1: Loop(body_start=" let ghost pc0 = path_components@;",
                body_end="\t\tproof { lemma_texts_push(pc0, split); assert(texts_of(verif_vec_1@)[verif_next_1 - 1] == split@); assert(split_slash(current@).subrange(0, verif_next_1 as int) =~= split_slash(current@).subrange(0, verif_next_1 - 1).push(split@)); assert(texts_of(path_components@) =~= split_slash(current@).subrange(0, verif_next_1 as int)); }",
                invariant=[C("dir", "verif_next_1 <= verif_vec_1@.len() && texts_of(verif_vec_1@) == split_slash(current@) && texts_of(path_components@) =~= split_slash(current@).subrange(0, verif_next_1 as int)"),
                           C("kept", "report.msgs() == old(report).msgs() && report.errors() == old(report).errors() && report.parents() == old(report).parents()")],
                decreases="verif_vec_1@.len() - verif_next_1"),
        2: Loop(body_start=" let ghost pc0 = path_components@;",
                body_end="\t\tproof { lemma_texts_push(pc0, split); assert(texts_of(verif_vec_2@)[verif_next_2 - 1] == split@); assert(texts_of(verif_vec_2@).subrange(0, verif_next_2 as int) =~= texts_of(verif_vec_2@).subrange(0, verif_next_2 - 1).push(split@)); assert(texts_of(path_components@) =~= base_components + texts_of(verif_vec_2@).subrange(0, verif_next_2 as int)); }",
                invariant=[C("rel", "verif_next_2 <= verif_vec_2@.len() && texts_of(path_components@) =~= base_components + texts_of(verif_vec_2@).subrange(0, verif_next_2 as int)"),
                           C("kept", "report.msgs() == old(report).msgs() && report.errors() == old(report).errors() && report.parents() == old(report).parents()")],
                decreases="verif_vec_2@.len() - verif_next_2",
                before="\tlet ghost base_components = texts_of(path_components@);"),
        3: Loop(body_start=" let ghost st = texts_of(new_path_components@);",
                invariant=[C("collapsed_so_far", "!is_std(relative@) && texts_of(path_components@) == nav_components(old_current, relative@) && verif_hi_3 == path_components@.len() && verif_next_3 <= verif_hi_3 && collapse(texts_of(path_components@), verif_next_3 as int) == Some(texts_of(new_path_components@))"),
                           C("kept", "report.msgs() == old(report).msgs() && report.errors() == old(report).errors() && report.parents() == old(report).parents()")],
                decreases="verif_hi_3 - verif_next_3"),
        4: Loop(invariant=[C("joined_so_far", "i <= new_path_components@.len() && new_filename@ =~= join_slash(texts_of(new_path_components@), i as int) + (if 0 < i < new_path_components@.len() { \"/\"@ } else { Seq::<char>::empty() })")],
                body_start="\t\tproof { reveal_strlit(\"/\"); assert(texts_of(new_path_components@)[i as int] == new_path_components@[i as int]@); }"),
    },
)

UNIT = Unit(
    "U-navigate", "u_navigate/skeleton.rs",
    items=report_fns("stub", "diagn") + [is_std_path, validate, navigate],
    serves=["C14", "C03"],
    description="util::filename_navigate: relative path navigation, `..` collapsing, confinement to the root directory",
)
