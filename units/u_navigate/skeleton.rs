//@@INCLUDE _shared/header.rs
//@@INCLUDE _shared/diagn_opaque.rs
pub mod util {
    use vstd::prelude::*;
    use crate::*;
    verus! {
    // ---- property text (C14): path normalisation over component sequences
    /// how a text splits at '/' (str::split; left uninterpreted) and what '\\' -> '/' replacement yields
    pub uninterp spec fn split_slash(s: Seq<char>) -> Seq<Seq<char>>;
    pub uninterp spec fn to_slashes(s: Seq<char>) -> Seq<char>;
    pub uninterp spec fn starts_with_slash(s: Seq<char>) -> bool;
    pub uninterp spec fn is_std(s: Seq<char>) -> bool;
    pub open spec fn texts_of(v: Seq<&str>) -> Seq<Seq<char>> { Seq::new(v.len(), |i: int| v[i]@) }
    /// the components of the relative path that count: non-empty and not "."
    pub open spec fn kept(c: Seq<char>) -> bool { c.len() > 0 && c != "."@ }
    pub open spec fn filter_kept(cs: Seq<Seq<char>>, n: int) -> Seq<Seq<char>> decreases n {
        if n <= 0 { Seq::empty() } else if kept(cs[n - 1]) { filter_kept(cs, n - 1).push(cs[n - 1]) } else { filter_kept(cs, n - 1) }
    }
    /// collapsing `..`: every `..` removes the component before it; a `..` with nothing before it (it would leave the
    /// directory the root file lives in) is an error (None)
    pub open spec fn collapse(cs: Seq<Seq<char>>, n: int) -> Option<Seq<Seq<char>>> decreases n {
        if n <= 0 { Some(Seq::empty()) } else { match collapse(cs, n - 1) {
            None => None,
            Some(stack) => if cs[n - 1] == ".."@ { if stack.len() == 0 { None } else { Some(stack.drop_last()) } } else { Some(stack.push(cs[n - 1])) },
        } }
    }
    pub open spec fn join_slash(cs: Seq<Seq<char>>, n: int) -> Seq<char> decreases n {
        if n <= 0 { Seq::empty() } else if n == 1 { cs[0] } else { join_slash(cs, n - 1) + "/"@ + cs[n - 1] }
    }
    /// the components the navigation works on: the directory of the current file (unless the relative path is
    /// absolute) followed by the kept components of the relative path
    pub open spec fn nav_components(current: Seq<char>, relative: Seq<char>) -> Seq<Seq<char>> {
        let cur = split_slash(to_slashes(current));
        let rel = split_slash(to_slashes(relative));
        (if starts_with_slash(to_slashes(relative)) { Seq::empty() } else { cur.drop_last() }) + filter_kept(rel, rel.len() as int)
    }
    /// once the collapse has failed it stays failed
    pub proof fn lemma_collapse_none(cs: Seq<Seq<char>>, k: int, n: int)
        requires 0 <= k <= n, collapse(cs, k) is None
        ensures collapse(cs, n) is None
        decreases n - k
    {
        if k < n { lemma_collapse_none(cs, k + 1, n); }
    }
    pub proof fn lemma_texts_push(v: Seq<&str>, x: &str)
        ensures texts_of(v.push(x)) =~= texts_of(v).push(x@)
    {
    }
    // R16/R29 helpers for the &str API (ASSUMED contracts: uninterpreted functions of the text)
    #[verifier::external_body]
    pub fn verif_to_slashes(s: &str) -> (r: String) ensures r@ == to_slashes(s@) { unimplemented!() }
    #[verifier::external_body]
    pub fn verif_split_slash<'a>(s: &'a String) -> (r: Vec<&'a str>) ensures texts_of(r@) == split_slash(s@), r@.len() >= 1 { unimplemented!() }
    #[verifier::external_body]
    pub fn verif_starts_with_slash(s: &String) -> (r: bool) ensures r == starts_with_slash(s@) { unimplemented!() }
    #[verifier::external_body]
    pub fn verif_kept_components<'a>(s: &'a String) -> (r: Vec<&'a str>)
        ensures texts_of(r@) == filter_kept(split_slash(s@), split_slash(s@).len() as int)
    { unimplemented!() }
    /// R16 helpers (ASSUMED): `STRING == "lit"` compares the texts; `str::to_string` copies the text
    #[verifier::external_body]
    pub fn verif_string_is(a: &String, b: &str) -> (r: bool) ensures r == (a@ == b@) { unimplemented!() }
    #[verifier::external_body]
    pub fn verif_to_string(s: &str) -> (r: String) ensures r@ == s@ { unimplemented!() }
    //@@ITEMS util
    }
}
