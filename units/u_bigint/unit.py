from vfw.spec import Unit
from units.contracts_report import report_fns
from units import contracts_bigint as cb

UNIT = Unit(
    "U-bigint", "u_bigint/skeleton.rs",
    items=report_fns("stub", "diagn") + cb.items("verify", "util"),
    serves=["C04", "C05", "C19", "C03", "C01"],
    description="util::BigInt: wrapper over num_bigint::BigInt with an optional size",
)
