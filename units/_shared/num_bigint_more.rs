    // ---- checked conversions to machine integers
    pub struct TryFromBigIntError { pub _p: u8 }

    impl<'a> TryFromSpecImpl<&'a BigInt> for usize {
        open spec fn obeys_try_from_spec() -> bool { true }
        open spec fn try_from_spec(x: &'a BigInt) -> Result<usize, TryFromBigIntError> {
            if 0 <= x@ <= usize::MAX { Ok(x@ as usize) } else { Err(TryFromBigIntError { _p: 0 }) }
        }
    }
    impl<'a> TryFrom<&'a BigInt> for usize {
        type Error = TryFromBigIntError;
        #[verifier::external_body]
        fn try_from(x: &'a BigInt) -> (r: Result<usize, TryFromBigIntError>) { unimplemented!() }
    }
    impl<'a> TryFromSpecImpl<&'a BigInt> for u64 {
        open spec fn obeys_try_from_spec() -> bool { true }
        open spec fn try_from_spec(x: &'a BigInt) -> Result<u64, TryFromBigIntError> {
            if 0 <= x@ <= u64::MAX { Ok(x@ as u64) } else { Err(TryFromBigIntError { _p: 0 }) }
        }
    }
    impl<'a> TryFrom<&'a BigInt> for u64 {
        type Error = TryFromBigIntError;
        #[verifier::external_body]
        fn try_from(x: &'a BigInt) -> (r: Result<u64, TryFromBigIntError>) { unimplemented!() }
    }
    impl<'a> TryFromSpecImpl<&'a BigInt> for u32 {
        open spec fn obeys_try_from_spec() -> bool { true }
        open spec fn try_from_spec(x: &'a BigInt) -> Result<u32, TryFromBigIntError> {
            if 0 <= x@ <= u32::MAX { Ok(x@ as u32) } else { Err(TryFromBigIntError { _p: 0 }) }
        }
    }
    impl<'a> TryFrom<&'a BigInt> for u32 {
        type Error = TryFromBigIntError;
        #[verifier::external_body]
        fn try_from(x: &'a BigInt) -> (r: Result<u32, TryFromBigIntError>) { unimplemented!() }
    }

    // ---- more operators on reference operands
    impl<'a, 'b> RemSpecImpl<&'b BigInt> for &'a BigInt {
        open spec fn obeys_rem_spec() -> bool { true }
        open spec fn rem_req(self, rhs: &'b BigInt) -> bool { rhs@ != 0 }
        open spec fn rem_spec(self, rhs: &'b BigInt) -> BigInt { mk(trem(self@, rhs@)) }
    }
    impl<'a, 'b> core::ops::Rem<&'b BigInt> for &'a BigInt {
        type Output = BigInt;
        #[verifier::external_body]
        fn rem(self, rhs: &'b BigInt) -> (r: BigInt) { unimplemented!() }
    }
    impl<'a> ShlSpecImpl<usize> for &'a BigInt {
        open spec fn obeys_shl_spec() -> bool { true }
        open spec fn shl_req(self, rhs: usize) -> bool { true }
        open spec fn shl_spec(self, rhs: usize) -> BigInt { mk(self@ * vstd::arithmetic::power2::pow2(rhs as nat)) }
    }
    impl<'a> core::ops::Shl<usize> for &'a BigInt {
        type Output = BigInt;
        #[verifier::external_body]
        fn shl(self, rhs: usize) -> (r: BigInt) { unimplemented!() }
    }
    impl<'a> ShrSpecImpl<usize> for &'a BigInt {
        open spec fn obeys_shr_spec() -> bool { true }
        open spec fn shr_req(self, rhs: usize) -> bool { true }
        /// `>>` rounds toward negative infinity (floor), as documented by num-bigint
        open spec fn shr_spec(self, rhs: usize) -> BigInt { mk(self@ / (vstd::arithmetic::power2::pow2(rhs as nat) as int)) }
    }
    impl<'a> core::ops::Shr<usize> for &'a BigInt {
        type Output = BigInt;
        #[verifier::external_body]
        fn shr(self, rhs: usize) -> (r: BigInt) { unimplemented!() }
    }
    impl<'a> NegSpecImpl for &'a BigInt {
        open spec fn obeys_neg_spec() -> bool { true }
        open spec fn neg_req(self) -> bool { true }
        open spec fn neg_spec(self) -> BigInt { mk(-self@) }
    }
    impl<'a> core::ops::Neg for &'a BigInt {
        type Output = BigInt;
        #[verifier::external_body]
        fn neg(self) -> (r: BigInt) { unimplemented!() }
    }
    impl<'a, 'b> BitAndSpecImpl<&'b BigInt> for &'a BigInt {
        open spec fn obeys_bitand_spec() -> bool { true }
        open spec fn bitand_req(self, rhs: &'b BigInt) -> bool { true }
        open spec fn bitand_spec(self, rhs: &'b BigInt) -> BigInt { mk(crate::num_bigint::bitand_spec(self@, rhs@)) }
    }
    impl<'a, 'b> core::ops::BitAnd<&'b BigInt> for &'a BigInt {
        type Output = BigInt;
        #[verifier::external_body]
        fn bitand(self, rhs: &'b BigInt) -> (r: BigInt) { unimplemented!() }
    }
    impl<'a, 'b> BitOrSpecImpl<&'b BigInt> for &'a BigInt {
        open spec fn obeys_bitor_spec() -> bool { true }
        open spec fn bitor_req(self, rhs: &'b BigInt) -> bool { true }
        open spec fn bitor_spec(self, rhs: &'b BigInt) -> BigInt { mk(crate::num_bigint::bitor_spec(self@, rhs@)) }
    }
    impl<'a, 'b> core::ops::BitOr<&'b BigInt> for &'a BigInt {
        type Output = BigInt;
        #[verifier::external_body]
        fn bitor(self, rhs: &'b BigInt) -> (r: BigInt) { unimplemented!() }
    }
    impl<'a, 'b> BitXorSpecImpl<&'b BigInt> for &'a BigInt {
        open spec fn obeys_bitxor_spec() -> bool { true }
        open spec fn bitxor_req(self, rhs: &'b BigInt) -> bool { true }
        open spec fn bitxor_spec(self, rhs: &'b BigInt) -> BigInt { mk(crate::num_bigint::bitxor_spec(self@, rhs@)) }
    }
    impl<'a, 'b> core::ops::BitXor<&'b BigInt> for &'a BigInt {
        type Output = BigInt;
        #[verifier::external_body]
        fn bitxor(self, rhs: &'b BigInt) -> (r: BigInt) { unimplemented!() }
    }

    // ---- by-value arithmetic used by the literal parser
    impl MulSpecImpl<usize> for BigInt {
        open spec fn obeys_mul_spec() -> bool { true }
        open spec fn mul_req(self, rhs: usize) -> bool { true }
        open spec fn mul_spec(self, rhs: usize) -> BigInt { mk(self@ * rhs) }
    }
    impl core::ops::Mul<usize> for BigInt {
        type Output = BigInt;
        #[verifier::external_body]
        fn mul(self, rhs: usize) -> (r: BigInt) { unimplemented!() }
    }
    impl AddSpecImpl<u32> for BigInt {
        open spec fn obeys_add_spec() -> bool { true }
        open spec fn add_req(self, rhs: u32) -> bool { true }
        open spec fn add_spec(self, rhs: u32) -> BigInt { mk(self@ + rhs) }
    }
    impl core::ops::Add<u32> for BigInt {
        type Output = BigInt;
        #[verifier::external_body]
        fn add(self, rhs: u32) -> (r: BigInt) { unimplemented!() }
    }

    impl<'a> ShrSpecImpl<u32> for &'a BigInt {
        open spec fn obeys_shr_spec() -> bool { true }
        open spec fn shr_req(self, rhs: u32) -> bool { true }
        open spec fn shr_spec(self, rhs: u32) -> BigInt { mk(self@ / (vstd::arithmetic::power2::pow2(rhs as nat) as int)) }
    }
    impl<'a> core::ops::Shr<u32> for &'a BigInt {
        type Output = BigInt;
        #[verifier::external_body]
        fn shr(self, rhs: u32) -> (r: BigInt) { unimplemented!() }
    }
    impl<'a> ShlSpecImpl<u32> for &'a BigInt {
        open spec fn obeys_shl_spec() -> bool { true }
        open spec fn shl_req(self, rhs: u32) -> bool { true }
        open spec fn shl_spec(self, rhs: u32) -> BigInt { mk(self@ * vstd::arithmetic::power2::pow2(rhs as nat)) }
    }
    impl<'a> core::ops::Shl<u32> for &'a BigInt {
        type Output = BigInt;
        #[verifier::external_body]
        fn shl(self, rhs: u32) -> (r: BigInt) { unimplemented!() }
    }
    impl<'a> ShrSpecImpl<u64> for &'a BigInt {
        open spec fn obeys_shr_spec() -> bool { true }
        open spec fn shr_req(self, rhs: u64) -> bool { true }
        open spec fn shr_spec(self, rhs: u64) -> BigInt { mk(self@ / (vstd::arithmetic::power2::pow2(rhs as nat) as int)) }
    }
    impl<'a> core::ops::Shr<u64> for &'a BigInt {
        type Output = BigInt;
        #[verifier::external_body]
        fn shr(self, rhs: u64) -> (r: BigInt) { unimplemented!() }
    }
    impl BigInt {
        /// number of trailing zero bits, None for 0 (as documented)
        #[verifier::external_body]
        pub fn trailing_zeros(&self) -> (r: Option<u64>)
            ensures self@ == 0 <==> r is None,
                    r is Some ==> self@ % (vstd::arithmetic::power2::pow2(r->0 as nat) as int) == 0 && !crate::ispec::bit_of(self@, r->0 as nat) == false
        { unimplemented!() }
    }

    impl ShlSpecImpl<usize> for BigInt {
        open spec fn obeys_shl_spec() -> bool { true }
        open spec fn shl_req(self, rhs: usize) -> bool { true }
        open spec fn shl_spec(self, rhs: usize) -> BigInt { mk(self@ * vstd::arithmetic::power2::pow2(rhs as nat)) }
    }
    impl core::ops::Shl<usize> for BigInt {
        type Output = BigInt;
        #[verifier::external_body]
        fn shl(self, rhs: usize) -> (r: BigInt) { unimplemented!() }
    }
