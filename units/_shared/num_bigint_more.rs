    // ---- checked conversions to machine integers
    pub struct TryFromBigIntError { pub _p: u8 }

    impl<'a> TryFromSpecImpl<&'a BigInt> for usize {
        open spec fn obeys_try_from_spec() -> bool { true }
        open spec fn try_from_spec(x: &'a BigInt) -> Result<usize, TryFromBigIntError> {
            if 0 <= x@ <= usize::MAX { Ok(x@ as usize) } else { Err(TryFromBigIntError { _p: 0 }) }
        }
    }
    impl<'a> TryFrom<&'a BigInt> for usize {
        type Error = TryFromBigIntError;
        #[verifier::external_body]
        fn try_from(x: &'a BigInt) -> (r: Result<usize, TryFromBigIntError>) { unimplemented!() }
    }
    impl<'a> TryFromSpecImpl<&'a BigInt> for u32 {
        open spec fn obeys_try_from_spec() -> bool { true }
        open spec fn try_from_spec(x: &'a BigInt) -> Result<u32, TryFromBigIntError> {
            if 0 <= x@ <= u32::MAX { Ok(x@ as u32) } else { Err(TryFromBigIntError { _p: 0 }) }
        }
    }
    impl<'a> TryFrom<&'a BigInt> for u32 {
        type Error = TryFromBigIntError;
        #[verifier::external_body]
        fn try_from(x: &'a BigInt) -> (r: Result<u32, TryFromBigIntError>) { unimplemented!() }
    }
