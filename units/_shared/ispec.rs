// ---- integer specification library (spec functions + proved lemmas; nothing assumed here)
pub mod ispec {
    use vstd::prelude::*;
    use vstd::arithmetic::power2::*;
    use vstd::arithmetic::div_mod::*;
    verus! {

    /// number of bits of the magnitude: 0 for 0, floor(log2 n) + 1 otherwise
    pub open spec fn bitlen(n: nat) -> nat decreases n { if n == 0 { 0 } else { 1 + bitlen(n / 2) } }

    pub open spec fn abs(v: int) -> nat { if v < 0 { (-v) as nat } else { v as nat } }

    /// bit i of the infinite two's-complement expansion of v (floor division)
    pub open spec fn bit_of(v: int, i: nat) -> bool { (v / (pow2(i) as int)) % 2 == 1 }

    pub open spec fn set_bit_spec(v: int, i: nat, b: bool) -> int {
        if bit_of(v, i) == b { v } else if b { v + pow2(i) } else { v - pow2(i) }
    }

    /// minimal width in which v is representable as unsigned (v >= 0) or two's complement (v < 0); 1 for 0
    pub open spec fn min_size_spec(v: int) -> nat {
        if v == 0 { 1 } else if v > 0 { bitlen(v as nat) } else { bitlen((-(v + 1)) as nat) + 1 }
    }

    // ---- property text (C04)
    pub open spec fn in_range_u(v: int, n: nat) -> bool { 0 <= v < pow2(n) }
    //   for n == 0 the bound 2^(n-1) is one half, so only 0 is in range
    pub open spec fn in_range_s(v: int, n: nat) -> bool { if n == 0 { v == 0 } else { -(pow2((n - 1) as nat) as int) <= v < pow2((n - 1) as nat) } }
    pub open spec fn in_range_i(v: int, n: nat) -> bool { if n == 0 { v == 0 } else { -(pow2((n - 1) as nat) as int) <= v < pow2(n) } }

    pub proof fn lemma_bitlen_le(v: nat, n: nat)
        ensures bitlen(v) <= n <==> v < pow2(n)
        decreases n
    {
        lemma_pow2_pos(n);
        if n == 0 {
            lemma2_to64();
            if v != 0 { assert(bitlen(v) >= 1); }
        } else {
            lemma_pow2_unfold(n);
            if v == 0 {
            } else {
                lemma_bitlen_le(v / 2, (n - 1) as nat);
                let p = pow2((n - 1) as nat);
                assert(pow2(n) == 2 * p);
                assert((v / 2 < p) <==> (v < 2 * p)) by {
                    lemma_fundamental_div_mod(v as int, 2);
                }
            }
        }
    }

    /// the range predicates of the property text, expressed through the minimal width
    pub proof fn lemma_min_size_range(v: int, n: nat)
        requires n >= 1
        ensures min_size_spec(v) <= n <==> in_range_i(v, n),
                (v >= 0 ==> (min_size_spec(v) <= n <==> in_range_u(v, n))),
                (v > 0 ==> (min_size_spec(v) < n <==> in_range_s(v, n))),
                (v < 0 ==> (min_size_spec(v) <= n <==> in_range_s(v, n))),
    {
        lemma_pow2_pos(n);
        lemma_pow2_pos((n - 1) as nat);
        lemma_pow2_unfold(n);
        if v > 0 {
            lemma_bitlen_le(v as nat, n);
            lemma_bitlen_le(v as nat, (n - 1) as nat);
        } else if v < 0 {
            lemma_bitlen_le((-(v + 1)) as nat, (n - 1) as nat);
        }
    }

    //@@INCLUDE _shared/ispec_bits.rs
    }
}
