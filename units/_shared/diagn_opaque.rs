// ---- stand-in for crate::diagn (opaque Report, opaque Span); contracts come from the contract table
pub mod diagn {
    use vstd::prelude::*;
    use crate::*;
    verus! {
    /// Opaque stand-in for diagn::Report. Ghost observations:
    ///   msgs()    = number of top-level messages (`messages.len()`): what `has_errors()` and
    ///               `assemble()`'s `assert!(report.has_errors())` look at
    ///   parents() = depth of the parent stack (`parents.len()`): `pop_parent` unwraps it
    #[verifier::external_body]
    pub struct Report { _p: u8 }
    impl Report {
        pub uninterp spec fn msgs(&self) -> nat;
        pub uninterp spec fn errors(&self) -> nat;
        pub uninterp spec fn parents(&self) -> nat;
    }
    #[verifier::external_body]
    pub struct Message { _p: u8 }
    /// the message is of kind Error (defined over the real field in U-report)
    pub uninterp spec fn msg_is_error(m: Message) -> bool;
    #[verifier::external_body]
    #[derive(Clone, Copy)]
    pub struct Span { _p: u8 }
    //@@ITEMS diagn
    }
}
