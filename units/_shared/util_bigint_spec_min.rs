    // ---- spec side of util::BigInt (view = mathematical value + optional size)
    impl BigInt {
        pub open spec fn val(&self) -> int { self.bigint@ }
        pub open spec fn size_or_min_size_spec(&self) -> usize { match self.size { Some(s) => s, None => min_size_spec(self.val()) as usize } }
        /// a sized non-negative value fits its size (holds for literals, slices, concatenations, constrained arguments)
        pub open spec fn fits_size(&self) -> bool {
            match self.size { Some(s) => self.val() >= 0 ==> self.val() < vstd::arithmetic::power2::pow2(s as nat), None => true }
        }
    }
    impl<T: Into<num_bigint::BigInt>> FromSpecImpl<T> for BigInt {
        open spec fn obeys_from_spec() -> bool { <T as IntoSpec<num_bigint::BigInt>>::obeys_into_spec() }
        open spec fn from_spec(v: T) -> BigInt {
            BigInt { bigint: <T as IntoSpec<num_bigint::BigInt>>::into_spec(v), size: None }
        }
    }

    /// core's identity conversion `impl<T> From<T> for T`, for util::BigInt
    pub broadcast axiom fn axiom_bigint_into_refl_obeys()
        ensures <BigInt as IntoSpec<BigInt>>::obeys_into_spec();
    pub broadcast axiom fn axiom_bigint_into_refl(x: BigInt)
        ensures #[trigger] <BigInt as IntoSpec<BigInt>>::into_spec(x) == x;
    impl Clone for BigInt {
        #[verifier::external_body]
        fn clone(&self) -> (r: BigInt) ensures r == *self { unimplemented!() }
    }

