    // ---- spec side of util::BigInt (view = mathematical value + optional size)
    impl BigInt {
        pub open spec fn val(&self) -> int { self.bigint@ }
    }
    impl<T: Into<num_bigint::BigInt>> FromSpecImpl<T> for BigInt {
        open spec fn obeys_from_spec() -> bool { <T as IntoSpec<num_bigint::BigInt>>::obeys_into_spec() }
        open spec fn from_spec(v: T) -> BigInt {
            BigInt { bigint: <T as IntoSpec<num_bigint::BigInt>>::into_spec(v), size: None }
        }
    }
