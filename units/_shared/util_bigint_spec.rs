    // ---- spec side of util::BigInt (view = mathematical value + optional size)
    impl BigInt {
        pub open spec fn val(&self) -> int { self.bigint@ }
        pub open spec fn size_or_min_size_spec(&self) -> usize { match self.size { Some(s) => s, None => min_size_spec(self.val()) as usize } }
        /// a sized non-negative value fits its size (holds for literals, slices, concatenations, constrained arguments)
        pub open spec fn fits_size(&self) -> bool {
            match self.size { Some(s) => self.val() >= 0 ==> self.val() < vstd::arithmetic::power2::pow2(s as nat), None => true }
        }
    }
    /// `le(x)` (convert_le): the same size n = 8k, and the k bytes of x's low n bits read in the opposite order
    pub open spec fn le_swapped(x: BigInt, r: BigInt) -> bool {
        x.size is Some && r.size == x.size
        && exists|b: Seq<u8>| b.len() == x.size->0 / 8 && #[trigger] low_bits_are(num_bigint::unsigned_le(b), x.val(), x.size->0 as nat) && r.val() == num_bigint::unsigned_be(b)
    }
    /// u is the unsigned value of the low n bits of v
    pub open spec fn low_bits_are(u: int, v: int, n: nat) -> bool {
        0 <= u < vstd::arithmetic::power2::pow2(n) && forall|j: nat| j < n ==> #[trigger] bit_of(u, j) == bit_of(v, j)
    }
    impl<T: Into<num_bigint::BigInt>> FromSpecImpl<T> for BigInt {
        open spec fn obeys_from_spec() -> bool { <T as IntoSpec<num_bigint::BigInt>>::obeys_into_spec() }
        open spec fn from_spec(v: T) -> BigInt {
            BigInt { bigint: <T as IntoSpec<num_bigint::BigInt>>::into_spec(v), size: None }
        }
    }

    /// core's identity conversion `impl<T> From<T> for T`, for util::BigInt
    pub broadcast axiom fn axiom_bigint_into_refl_obeys()
        ensures <BigInt as IntoSpec<BigInt>>::obeys_into_spec();
    pub broadcast axiom fn axiom_bigint_into_refl(x: BigInt)
        ensures #[trigger] <BigInt as IntoSpec<BigInt>>::into_spec(x) == x;
    impl Clone for BigInt {
        #[verifier::external_body]
        fn clone(&self) -> (r: BigInt) ensures r == *self { unimplemented!() }
    }

    // ---- contracts of the operator impls on &util::BigInt (checked by Verus against the impl bodies)
    impl<'a> NegSpecImpl for &'a BigInt {
        open spec fn obeys_neg_spec() -> bool { true }
        open spec fn neg_req(self) -> bool { true }
        open spec fn neg_spec(self) -> BigInt { BigInt { bigint: num_bigint::mk(-self.val()), size: None } }
    }
    impl<'a> NotSpecImpl for &'a BigInt {
        open spec fn obeys_not_spec() -> bool { true }
        open spec fn not_req(self) -> bool { true }
        /// `!x` is the bit-wise complement of the infinite two's-complement expansion: -x - 1, without a size
        open spec fn not_spec(self) -> BigInt { BigInt { bigint: num_bigint::mk(-self.val() - 1), size: None } }
    }
    impl<'a> BitAndSpecImpl<&'a BigInt> for &'a BigInt {
        open spec fn obeys_bitand_spec() -> bool { true }
        open spec fn bitand_req(self, rhs: &'a BigInt) -> bool { true }
        open spec fn bitand_spec(self, rhs: &'a BigInt) -> BigInt { BigInt { bigint: num_bigint::mk(num_bigint::bitand_spec(self.val(), rhs.val())), size: None } }
    }
    impl<'a> BitOrSpecImpl<&'a BigInt> for &'a BigInt {
        open spec fn obeys_bitor_spec() -> bool { true }
        open spec fn bitor_req(self, rhs: &'a BigInt) -> bool { true }
        open spec fn bitor_spec(self, rhs: &'a BigInt) -> BigInt { BigInt { bigint: num_bigint::mk(num_bigint::bitor_spec(self.val(), rhs.val())), size: None } }
    }
    impl<'a> BitXorSpecImpl<&'a BigInt> for &'a BigInt {
        open spec fn obeys_bitxor_spec() -> bool { true }
        open spec fn bitxor_req(self, rhs: &'a BigInt) -> bool { true }
        open spec fn bitxor_spec(self, rhs: &'a BigInt) -> BigInt { BigInt { bigint: num_bigint::mk(num_bigint::bitxor_spec(self.val(), rhs.val())), size: None } }
    }
