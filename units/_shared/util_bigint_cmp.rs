    // ---- comparisons on util::BigInt: the real impls compare the values only (sizes are ignored)
    impl PartialEqSpecImpl for BigInt {
        open spec fn obeys_eq_spec() -> bool { true }
        open spec fn eq_spec(&self, other: &BigInt) -> bool { self.val() == other.val() }
    }
    impl PartialOrdSpecImpl for BigInt {
        open spec fn obeys_partial_cmp_spec() -> bool { true }
        open spec fn partial_cmp_spec(&self, other: &BigInt) -> Option<core::cmp::Ordering> {
            Some(num_bigint::cmp_of(self.val(), other.val()))
        }
    }
