    // ---- abstract view of util::BitVec: (len, bits) with bit i = bit_of(v(), i)
    impl BitVec {
        /// the bit store seen as one unbounded integer; output bit i is bit_of(self.v(), i)
        pub open spec fn v(&self) -> int { self.data.val() }
        /// representation invariant: no bit is set at or beyond `len` (so reads beyond the end are zero)
        pub open spec fn wf(&self) -> bool {
            forall|j: nat| j >= self.len ==> !#[trigger] bit_of(self.v(), j)
        }
    }
