    /// R8 helper: stands for `MAP.get(KEY.borrow())` on a HashMap<String, ItemRef<T>> with a key of a type
    /// S: Borrow<str>.  ASSUMED contract: the result is the uninterpreted lookup `spec_lookup` of the key's
    /// text in the map (vstd cannot relate String keys to borrowed &str keys for a generic S).
    pub uninterp spec fn spec_lookup<T>(m: &std::collections::HashMap<String, util::ItemRef<T>>, key: Seq<char>) -> Option<util::ItemRef<T>>;
    #[verifier::external_body]
    pub fn verif_lookup<'a, T, S: std::borrow::Borrow<str>>(m: &'a std::collections::HashMap<String, util::ItemRef<T>>, key: &S) -> (r: Option<&'a util::ItemRef<T>>)
        ensures (match r { Some(x) => spec_lookup(m, key_text(key)) == Some(*x), None => spec_lookup(m, key_text(key)) is None })
    { unimplemented!() }

    // std gaps (ASSUMED)
    pub assume_specification<T>[ <[T]>::split_last ](s: &[T]) -> (r: Option<(&T, &[T])>)
        ensures (match r { None => s@.len() == 0, Some((last, rest)) => s@.len() >= 1 && *last == s@[s@.len() - 1] && rest@ == s@.subrange(0, s@.len() - 1) });

    /// R8b/R8c helpers for HashMap<String, ItemRef<T>> with owned String keys (same uninterpreted lookup model)
    #[verifier::external_body]
    pub fn verif_lookup_string<'a, T>(m: &'a std::collections::HashMap<String, util::ItemRef<T>>, key: &String) -> (r: Option<&'a util::ItemRef<T>>)
        ensures (match r { Some(x) => spec_lookup(m, key@) == Some(*x), None => spec_lookup(m, key@) is None })
    { unimplemented!() }
    #[verifier::external_body]
    pub fn verif_insert<T>(m: &mut std::collections::HashMap<String, util::ItemRef<T>>, key: String, value: util::ItemRef<T>)
        ensures forall|k: Seq<char>| #[trigger] spec_lookup(final(m), k) == (if k == key@ { Some(value) } else { spec_lookup(old(m), k) })
    { unimplemented!() }
    /// R16b helper: stands for `SLICE.iter().cloned().collect::<Vec<_>>()` on a slice of Strings
    #[verifier::external_body]
    pub fn verif_clone_strings(s: &[String]) -> (r: Vec<String>)
        ensures r@ == s@
    { unimplemented!() }
    /// R16 helper: `SLICE.iter().map(|s| s.borrow().to_string()).collect::<Vec<String>>()` (text used only in a message)
    #[verifier::external_body]
    pub fn verif_to_strings<S: std::borrow::Borrow<str>>(s: &[S]) -> (r: Vec<String>) { unimplemented!() }
    /// an empty children map (HashMap::new) has no entries in the lookup model (ASSUMED)
    #[verifier::external_body]
    pub fn verif_new_children<T>() -> (r: std::collections::HashMap<String, util::ItemRef<T>>)
        ensures forall|k: Seq<char>| (#[trigger] spec_lookup(&r, k)) is None
    { unimplemented!() }

    impl Clone for SymbolContext {
        #[verifier::external_body]
        fn clone(&self) -> (r: SymbolContext) ensures r == *self { unimplemented!() }
    }
    impl<T> SymbolManager<T> {
        /// every stored reference points at an existing declaration
        pub open spec fn wf(&self) -> bool {
            &&& forall|key: Seq<char>| (#[trigger] spec_lookup(&self.globals, key)) is Some ==> (spec_lookup(&self.globals, key)->0).0 < self.decls@.len()
            &&& forall|i: int, key: Seq<char>| 0 <= i < self.decls@.len() && (#[trigger] spec_lookup(&self.decls@[i].children, key)) is Some ==> (spec_lookup(&self.decls@[i].children, key)->0).0 < self.decls@.len()
        }
        /// every child was declared after its parent (so the declarations form a forest, children by growing index)
        pub open spec fn forest(&self) -> bool {
            forall|i: int, key: Seq<char>| 0 <= i < self.decls@.len() && (#[trigger] spec_lookup(&self.decls@[i].children, key)) is Some ==> (spec_lookup(&self.decls@[i].children, key)->0).0 > i
        }
        pub open spec fn children_of(&self, parent: Option<util::ItemRef<T>>) -> &std::collections::HashMap<String, util::ItemRef<T>> {
            match parent { Some(p) => &self.decls@[p.0 as int].children, None => &self.globals }
        }
        /// C15 property text: descend from `parent` along a dotted path; the last component is the result
        pub open spec fn spec_traverse(&self, parent: Option<util::ItemRef<T>>, path: Seq<Seq<char>>) -> Option<util::ItemRef<T>>
            decreases path.len()
        {
            if path.len() == 0 { None }
            else {
                match spec_lookup(self.children_of(parent), path[0]) {
                    None => None,
                    Some(c) => if path.len() == 1 { Some(c) } else { self.spec_traverse(Some(c), path.drop_first()) },
                }
            }
        }
        /// descend from `parent` along the whole path; the empty path is `parent` itself
        pub open spec fn spec_parent(&self, parent: Option<util::ItemRef<T>>, path: Seq<Seq<char>>) -> Option<util::ItemRef<T>>
            decreases path.len()
        {
            if path.len() == 0 { parent }
            else {
                match spec_lookup(self.children_of(parent), path[0]) {
                    None => None,
                    Some(c) => self.spec_parent(Some(c), path.drop_first()),
                }
            }
        }
        pub open spec fn ref_ok(&self, r: Option<util::ItemRef<T>>) -> bool { r is Some ==> (r->0).0 < self.decls@.len() }
    }
