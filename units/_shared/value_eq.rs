    // ---- expr::Value: Clone and the derived PartialEq (ASSUMED to be what #[derive] generates:
    // variant-wise comparison; Integer compares through util::BigInt's PartialEq, i.e. values only)
    impl Clone for Value {
        #[verifier::external_body]
        fn clone(&self) -> (r: Value) ensures r == *self { unimplemented!() }
    }
    impl Clone for ExprString {
        #[verifier::external_body]
        fn clone(&self) -> (r: ExprString) ensures r == *self { unimplemented!() }
    }
    pub open spec fn value_eq(a: Value, b: Value) -> bool {
        match (a, b) {
            (Value::Unknown, Value::Unknown) => true,
            (Value::Void, Value::Void) => true,
            (Value::Integer(x), Value::Integer(y)) => x.val() == y.val(),
            (Value::Bool(x), Value::Bool(y)) => x == y,
            (Value::Function(x), Value::Function(y)) => x == y,
            (Value::FailedConstraint(x), Value::FailedConstraint(y)) => derived_eq_opaque(a, b),
            (Value::String(x), Value::String(y)) => derived_eq_opaque(a, b),
            (Value::ExprBuiltInFunction(x), Value::ExprBuiltInFunction(y)) => derived_eq_opaque(a, b),
            (Value::AsmBuiltInFunction(x), Value::AsmBuiltInFunction(y)) => derived_eq_opaque(a, b),
            _ => false,
        }
    }
    /// ExprString::to_bigint: the encoded bytes as one integer (uninterpreted here)
    pub uninterp spec fn str_bigint(s: ExprString) -> util::BigInt;
    /// what Value::get_bigint yields for the two numeric variants
    pub open spec fn num_of(v: Value) -> util::BigInt {
        match v { Value::Integer(x) => x, Value::String(s) => str_bigint(s), _ => arbitrary() }
    }
    /// the same value for everything that reads it: equal, and for integers of the same size (`sizeof`,
    /// concatenation and slices read the size, which util::BigInt's equality ignores)
    pub open spec fn value_same(a: Value, b: Value) -> bool {
        value_eq(a, b) && (a is Integer ==> a->Integer_0.size == b->Integer_0.size)
    }
    /// equality of the String/Message-carrying variants: left uninterpreted
    pub uninterp spec fn derived_eq_opaque(a: Value, b: Value) -> bool;
    impl PartialEqSpecImpl for Value {
        open spec fn obeys_eq_spec() -> bool { true }
        open spec fn eq_spec(&self, other: &Value) -> bool { value_eq(*self, *other) }
    }
    impl PartialEq for Value {
        #[verifier::external_body]
        fn eq(&self, other: &Value) -> (r: bool) { unimplemented!() }
    }
