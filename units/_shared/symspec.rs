pub mod symspec {
    use vstd::prelude::*;
    verus! {
    /// the text of a key of a generic type S: Borrow<str>
    pub uninterp spec fn key_text<S>(s: &S) -> Seq<char>;
    /// the text of an owned String key is its character sequence (ASSUMED link between the generic key_text and String)
    pub broadcast axiom fn axiom_key_text_string(s: &String)
        ensures #[trigger] key_text(s) == s@;
    pub open spec fn texts<S>(s: Seq<S>) -> Seq<Seq<char>> { Seq::new(s.len(), |i: int| key_text(&s[i])) }

    /// texts() commutes with taking sub-ranges (used for `&hierarchy[1..]`, `split_last`, ...)
    pub broadcast proof fn lemma_texts_subrange<S>(s: Seq<S>, a: int, b: int)
        requires 0 <= a <= b <= s.len()
        ensures #[trigger] texts(s.subrange(a, b)) =~= texts(s).subrange(a, b)
    {
    }
    pub broadcast proof fn lemma_drop_first_is_subrange(t: Seq<Seq<char>>)
        requires t.len() >= 1
        ensures #[trigger] t.drop_first() =~= t.subrange(1, t.len() as int)
    {
    }

    }
}
