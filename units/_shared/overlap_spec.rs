    /// the two intervals intersect, where a zero-sized one counts when it lies strictly inside the other
    pub open spec fn touches(p1: int, s1: int, p2: int, s2: int) -> bool {
        p1 < p2 + s2 && p2 < p1 + s1 && (s1 > 0 || s2 > 0)
    }

    /// property text (C06): two items occupy a common output bit
    pub open spec fn overlaps(p1: int, s1: int, p2: int, s2: int) -> bool {
        s1 > 0 && s2 > 0 && p1 < p2 + s2 && p2 < p1 + s1
    }

    impl OverlapChecker {
        /// abstract view: the list of (position, size) in storage order
        pub open spec fn view(&self) -> Seq<(int, int)> {
            Seq::new(self.entries@.len(), |i: int| (self.entries@[i].position as int, self.entries@[i].size as int))
        }

        pub open spec fn fits(&self) -> bool {
            forall|i: int| 0 <= i < self.entries@.len() ==> #[trigger] self.entries@[i].position + self.entries@[i].size <= usize::MAX
        }

        /// representation invariant: every entry ends before any later entry begins
        /// (so entries are sorted, pairwise disjoint, and of several entries at one position
        /// only the last can have a non-zero size)
        pub open spec fn ordered(&self) -> bool {
            forall|i: int, j: int| 0 <= i < j < self.entries@.len() ==>
                self.entries@[i].position + self.entries@[i].size <= self.entries@[j].position
        }

        pub open spec fn wf(&self) -> bool {
            self.fits() && self.ordered()
        }

        /// C06, "no two emitted items occupy the same output bit", over the stored entries
        pub open spec fn disjoint(&self) -> bool {
            forall|i: int, j: int| 0 <= i < j < self.entries@.len() ==> !overlaps(
                self.entries@[i].position as int, self.entries@[i].size as int,
                self.entries@[j].position as int, self.entries@[j].size as int)
        }

        pub proof fn lemma_wf_disjoint(&self)
            requires self.wf()
            ensures self.disjoint()
        {
        }

        pub open spec fn no_overlap_with(&self, position: int, size: int) -> bool {
            forall|k: int| 0 <= k < self.entries@.len() ==> !overlaps(position, size,
                #[trigger] self.entries@[k].position as int, self.entries@[k].size as int)
        }
    }

