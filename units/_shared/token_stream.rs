    // ---- the stream-of-useful-tokens model shared by U-parser (which assumes it of the walker) and U-walker (which proves it)
    /// A useful token (not blank, comment or line break) of the text still in front of the cursor, with the number of
    /// line breaks between the previous useful token and this one.
    pub ghost struct UTok { pub tok: Token, pub lbs: nat }
    pub open spec fn hd_is(ws: Seq<UTok>, k: TokenKind) -> bool { ws.len() > 0 && ws[0].tok.kind == k }
    pub open spec fn hd_lb(ws: Seq<UTok>) -> bool { ws.len() == 0 || ws[0].lbs > 0 }
    pub open spec fn tl(ws: Seq<UTok>) -> Seq<UTok> { ws.drop_first() }
    /// one line break in front of the next useful token consumed
    pub open spec fn dec_lb(ws: Seq<UTok>) -> Seq<UTok> {
        if ws.len() > 0 && ws[0].lbs > 0 { ws.update(0, UTok { tok: ws[0].tok, lbs: (ws[0].lbs - 1) as nat }) } else { ws }
    }
    /// kinds the walker skips: never the kind of a useful token
    pub open spec fn ignorable(k: TokenKind) -> bool { k is Whitespace || k is Comment || k is LineBreak }
