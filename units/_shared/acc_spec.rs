    // ---- property text (C11): the value of n consecutive output bits starting at p, MSB first
    pub open spec fn acc(v: int, p: int, n: int) -> int decreases n {
        if n <= 0 { 0 } else { 2 * acc(v, p, n - 1) + (if bit_of(v, (p + n - 1) as nat) { 1int } else { 0int }) }
    }
    pub proof fn lemma_acc_bound(v: int, p: int, n: int)
        requires 0 <= n, p >= 0
        ensures 0 <= acc(v, p, n) < pow2(n as nat)
        decreases n
    {
        vstd::arithmetic::power2::lemma2_to64();
        if n > 0 { lemma_acc_bound(v, p, n - 1); vstd::arithmetic::power2::lemma_pow2_unfold(n as nat); }
    }
    /// the lower-case digit character of a value below 16
    pub open spec fn digit_char(d: int) -> char {
        if d < 10 { (('0' as u8) + d) as u8 as char } else { (('a' as u8) + d - 10) as u8 as char }
    }
    pub open spec fn ceil_div(a: int, b: int) -> int { (a + b - 1) / b }

    pub proof fn lemma_shift_or(x: u8, b: u8)
        requires x < 128, b <= 1
        ensures ((x << 1u8) | b) == x * 2 + b
    {
        assert(((x << 1u8) | b) == x * 2 + b) by (bit_vector) requires x < 128, b <= 1;
    }
