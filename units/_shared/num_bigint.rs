// ---- stand-in for the external crate num-bigint 0.4 (ASSUMED contracts, from its documentation).
// view: the mathematical integer.  Every fn below is external_body: nothing here is proved.
pub mod num_bigint {
    use vstd::prelude::*;
    use vstd::std_specs::convert::*;
    use vstd::std_specs::ops::*;
    use crate::ispec::*;
    verus! {

    pub struct BigInt { pub v: Ghost<int> }

    impl View for BigInt { type V = int; open spec fn view(&self) -> int { self.v@ } }

    pub open spec fn mk(v: int) -> BigInt { BigInt { v: Ghost(v) } }

    pub enum Sign { Minus, NoSign, Plus }

    impl PartialEq for Sign {
        #[verifier::external_body]
        fn eq(&self, other: &Sign) -> (r: bool)
            ensures r == (*self == *other)
        { unimplemented!() }
    }

    pub open spec fn sign_of(v: int) -> Sign {
        if v < 0 { Sign::Minus } else if v == 0 { Sign::NoSign } else { Sign::Plus }
    }

    /// truncating division / remainder (num-bigint follows Rust's primitive integer semantics)
    pub open spec fn tdiv(a: int, b: int) -> int {
        if b == 0 { 0 } else if (a >= 0) == (b > 0) { (abs(a) / abs(b)) as int } else { -((abs(a) / abs(b)) as int) }
    }
    pub open spec fn trem(a: int, b: int) -> int { a - b * tdiv(a, b) }

    /// bitwise operations on the infinite two's-complement expansion, characterised bit by bit
    pub uninterp spec fn bitand_spec(a: int, b: int) -> int;
    pub uninterp spec fn bitor_spec(a: int, b: int) -> int;
    pub uninterp spec fn bitxor_spec(a: int, b: int) -> int;
    pub broadcast axiom fn axiom_bitand(a: int, b: int, i: nat)
        ensures #[trigger] bit_of(bitand_spec(a, b), i) == (bit_of(a, i) && bit_of(b, i));
    pub broadcast axiom fn axiom_bitor(a: int, b: int, i: nat)
        ensures #[trigger] bit_of(bitor_spec(a, b), i) == (bit_of(a, i) || bit_of(b, i));
    pub broadcast axiom fn axiom_bitxor(a: int, b: int, i: nat)
        ensures #[trigger] bit_of(bitxor_spec(a, b), i) == (bit_of(a, i) != bit_of(b, i));

    /// byte-string encodings
    pub open spec fn unsigned_be(bytes: Seq<u8>) -> int decreases bytes.len() {
        if bytes.len() == 0 { 0 } else { unsigned_be(bytes.drop_last()) * 256 + bytes.last() as int }
    }
    pub open spec fn signed_be(bytes: Seq<u8>) -> int {
        if bytes.len() > 0 && bytes[0] >= 0x80 { unsigned_be(bytes) - vstd::arithmetic::power2::pow2((8 * bytes.len()) as nat) } else { unsigned_be(bytes) }
    }

    impl Clone for BigInt {
        #[verifier::external_body]
        fn clone(&self) -> (r: BigInt) ensures r == *self { unimplemented!() }
    }

    impl BigInt {
        #[verifier::external_body]
        pub fn sign(&self) -> (r: Sign)
            ensures r == sign_of(self@)
        { unimplemented!() }

        /// bit length of the magnitude. ASSUMED additionally: it is below 2^63 (a value with more bits cannot be stored)
        #[verifier::external_body]
        pub fn bits(&self) -> (r: u64)
            ensures r == bitlen(abs(self@)), r < 0x8000_0000_0000_0000u64
        { unimplemented!() }

        #[verifier::external_body]
        pub fn bit(&self, bit: u64) -> (r: bool)
            ensures r == bit_of(self@, bit as nat)
        { unimplemented!() }

        #[verifier::external_body]
        pub fn set_bit(&mut self, bit: u64, value: bool)
            ensures final(self)@ == set_bit_spec(old(self)@, bit as nat, value)
        { unimplemented!() }

        #[verifier::external_body]
        pub fn checked_add(&self, v: &BigInt) -> (r: Option<BigInt>)
            ensures r == Some(mk(self@ + v@))
        { unimplemented!() }

        #[verifier::external_body]
        pub fn checked_sub(&self, v: &BigInt) -> (r: Option<BigInt>)
            ensures r == Some(mk(self@ - v@))
        { unimplemented!() }

        #[verifier::external_body]
        pub fn checked_mul(&self, v: &BigInt) -> (r: Option<BigInt>)
            ensures r == Some(mk(self@ * v@))
        { unimplemented!() }

        #[verifier::external_body]
        pub fn checked_div(&self, v: &BigInt) -> (r: Option<BigInt>)
            ensures r == (if v@ == 0 { None } else { Some(mk(tdiv(self@, v@))) })
        { unimplemented!() }

        #[verifier::external_body]
        pub fn from_signed_bytes_be(bytes: &[u8]) -> (r: BigInt)
            ensures r@ == signed_be(bytes@)
        { unimplemented!() }

        /// two's-complement little-endian bytes (ASSUMED, from the crate's documentation): at least one byte
        #[verifier::external_body]
        pub fn to_signed_bytes_le(&self) -> (r: Vec<u8>)
            ensures r@.len() >= 1, signed_le(r@) == self@, r@.len() < 0x1000_0000_0000_0000
        { unimplemented!() }
        #[verifier::external_body]
        pub fn from_signed_bytes_le(bytes: &[u8]) -> (r: BigInt)
            ensures r@ == signed_le(bytes@)
        { unimplemented!() }
        /// sign and magnitude as little-endian bytes (ASSUMED, from the crate's documentation): at least one byte
        /// and no superfluous zero byte at the high end
        #[verifier::external_body]
        pub fn to_bytes_le(&self) -> (r: (Sign, Vec<u8>))
            ensures r.0 == sign_of(self@), r.1@.len() >= 1, unsigned_le(r.1@) == abs(self@),
                    r.1@.len() == 1 || r.1@.last() != 0, r.1@.len() < 0x1000_0000_0000_0000
        { unimplemented!() }
        /// big-endian magnitude bytes with a sign (ASSUMED, from the crate's documentation)
        #[verifier::external_body]
        pub fn from_bytes_be(sign: Sign, bytes: &[u8]) -> (r: BigInt)
            ensures sign is Plus ==> r@ == unsigned_be(bytes@)
        { unimplemented!() }
    }
    pub open spec fn p256(n: nat) -> int decreases n { if n == 0 { 1 } else { 256 * p256((n - 1) as nat) } }
    pub open spec fn unsigned_le(bytes: Seq<u8>) -> int decreases bytes.len() {
        if bytes.len() == 0 { 0 } else { bytes[0] as int + 256 * unsigned_le(bytes.drop_first()) }
    }
    pub open spec fn signed_le(bytes: Seq<u8>) -> int {
        if bytes.len() > 0 && bytes.last() >= 0x80 { unsigned_le(bytes) - p256(bytes.len()) } else { unsigned_le(bytes) }
    }
    /// every byte complemented
    pub open spec fn flipped(bytes: Seq<u8>) -> Seq<u8> { Seq::new(bytes.len(), |j: int| !bytes[j]) }
    pub proof fn lemma_p256_pos(n: nat) ensures p256(n) >= 1 decreases n { if n > 0 { lemma_p256_pos((n - 1) as nat); } }
    pub proof fn lemma_p256_mono(a: nat, b: nat) requires a <= b ensures p256(a) <= p256(b) decreases b
    {
        if a < b { lemma_p256_mono(a, (b - 1) as nat); lemma_p256_pos((b - 1) as nat); }
    }
    /// 256^k == 2^(8k)
    pub proof fn lemma_p256_pow2(k: nat) ensures p256(k) == vstd::arithmetic::power2::pow2(8 * k) decreases k
    {
        if k == 0 { vstd::arithmetic::power2::lemma2_to64(); } else {
            lemma_p256_pow2((k - 1) as nat);
            vstd::arithmetic::power2::lemma2_to64();
            vstd::arithmetic::power2::lemma_pow2_adds(8, (8 * (k - 1)) as nat);
            assert(8 * k == 8 + 8 * (k - 1));
        }
    }
    /// a byte string whose last (most significant) byte is not zero is at least 256^(len-1)
    pub proof fn lemma_unsigned_le_lower(s: Seq<u8>)
        requires s.len() >= 1, s.last() != 0
        ensures unsigned_le(s) >= p256((s.len() - 1) as nat)
        decreases s.len()
    {
        if s.len() == 1 {
            assert(s.drop_first().len() == 0);
            assert(unsigned_le(s.drop_first()) == 0);
        } else {
            let t = s.drop_first();
            assert(t.last() == s.last());
            lemma_unsigned_le_lower(t);
        }
    }
    /// minimal little-endian bytes of a value below 256^k (k >= 1) are at most k bytes
    pub proof fn lemma_minimal_le_len(s: Seq<u8>, k: nat)
        requires s.len() >= 1, s.len() == 1 || s.last() != 0, unsigned_le(s) < p256(k), k >= 1
        ensures s.len() <= k
    {
        if s.len() > k {
            lemma_unsigned_le_lower(s);
            lemma_p256_mono(k, (s.len() - 1) as nat);
        }
    }
    /// a byte string that encodes 0 little-endian consists of zero bytes, so it encodes 0 big-endian too
    pub proof fn lemma_unsigned_le_zero_bytes(s: Seq<u8>)
        requires unsigned_le(s) == 0
        ensures forall|i: int| 0 <= i < s.len() ==> #[trigger] s[i] == 0
        decreases s.len()
    {
        if s.len() > 0 {
            lemma_unsigned_le_bound(s.drop_first());
            lemma_unsigned_le_zero_bytes(s.drop_first());
            assert forall|i: int| 0 <= i < s.len() implies #[trigger] s[i] == 0 by {
                if i > 0 { assert(s.drop_first()[i - 1] == s[i]); }
            }
        }
    }
    pub proof fn lemma_unsigned_be_zero(s: Seq<u8>)
        requires unsigned_le(s) == 0
        ensures unsigned_be(s) == 0
        decreases s.len()
    {
        lemma_unsigned_le_zero_bytes(s);
        lemma_unsigned_be_of_zero_bytes(s);
    }
    pub proof fn lemma_unsigned_be_of_zero_bytes(s: Seq<u8>)
        requires forall|i: int| 0 <= i < s.len() ==> #[trigger] s[i] == 0
        ensures unsigned_be(s) == 0
        decreases s.len()
    {
        if s.len() > 0 {
            assert forall|i: int| 0 <= i < s.drop_last().len() implies #[trigger] s.drop_last()[i] == 0 by { assert(s.drop_last()[i] == s[i]); }
            lemma_unsigned_be_of_zero_bytes(s.drop_last());
        }
    }
    pub proof fn lemma_unsigned_le_bound(s: Seq<u8>)
        ensures 0 <= unsigned_le(s) < p256(s.len())
        decreases s.len()
    {
        if s.len() > 0 { lemma_unsigned_le_bound(s.drop_first()); }
    }
    pub proof fn lemma_unsigned_le_push_zero(s: Seq<u8>)
        ensures unsigned_le(s.push(0u8)) == unsigned_le(s)
        decreases s.len()
    {
        if s.len() > 0 {
            lemma_unsigned_le_push_zero(s.drop_first());
            assert(s.push(0u8).drop_first() =~= s.drop_first().push(0u8));
            assert(s.push(0u8)[0] == s[0]);
        } else {
            assert(s.push(0u8).drop_first() =~= Seq::<u8>::empty());
            assert(s.push(0u8)[0] == 0u8);
            assert(unsigned_le(Seq::<u8>::empty()) == 0);
        }
    }
    pub proof fn lemma_unsigned_le_flipped(s: Seq<u8>)
        ensures unsigned_le(flipped(s)) + unsigned_le(s) == p256(s.len()) - 1
        decreases s.len()
    {
        if s.len() > 0 {
            lemma_unsigned_le_flipped(s.drop_first());
            assert(flipped(s).drop_first() =~= flipped(s.drop_first()));
            let b = s[0];
            assert((!b) as int == 255 - b as int) by (bit_vector);
        }
    }
    /// complementing every byte of a two's-complement encoding yields the encoding of -x - 1
    pub proof fn lemma_signed_le_flipped(s: Seq<u8>)
        requires s.len() >= 1
        ensures signed_le(flipped(s)) == -signed_le(s) - 1
    {
        lemma_unsigned_le_flipped(s);
        let b = s.last();
        assert(((!b) >= 0x80u8) == (b < 0x80u8)) by (bit_vector);
        assert(flipped(s).last() == !b);
    }

    // ---- conversions from primitive integers
    impl FromSpecImpl<i32> for BigInt {
        open spec fn obeys_from_spec() -> bool { true }
        open spec fn from_spec(x: i32) -> BigInt { mk(x as int) }
    }
    impl From<i32> for BigInt {
        #[verifier::external_body]
        fn from(x: i32) -> (r: BigInt) { unimplemented!() }
    }
    impl FromSpecImpl<usize> for BigInt {
        open spec fn obeys_from_spec() -> bool { true }
        open spec fn from_spec(x: usize) -> BigInt { mk(x as int) }
    }
    impl From<usize> for BigInt {
        #[verifier::external_body]
        fn from(x: usize) -> (r: BigInt) { unimplemented!() }
    }
    impl FromSpecImpl<u8> for BigInt {
        open spec fn obeys_from_spec() -> bool { true }
        open spec fn from_spec(x: u8) -> BigInt { mk(x as int) }
    }
    impl From<u8> for BigInt {
        #[verifier::external_body]
        fn from(x: u8) -> (r: BigInt) { unimplemented!() }
    }

    /// core's identity conversion `impl<T> From<T> for T` (vstd has no spec for it)
    pub broadcast axiom fn axiom_into_refl_obeys()
        ensures <BigInt as IntoSpec<BigInt>>::obeys_into_spec();
    pub broadcast axiom fn axiom_into_refl(x: BigInt)
        ensures #[trigger] <BigInt as IntoSpec<BigInt>>::into_spec(x) == x;

    // ---- comparisons
    impl PartialEq for BigInt {
        #[verifier::external_body]
        fn eq(&self, other: &BigInt) -> (r: bool) ensures r == (self@ == other@) { unimplemented!() }
    }
    pub open spec fn cmp_of(a: int, b: int) -> core::cmp::Ordering {
        if a < b { core::cmp::Ordering::Less } else if a == b { core::cmp::Ordering::Equal } else { core::cmp::Ordering::Greater }
    }
    impl PartialOrd for BigInt {
        #[verifier::external_body]
        fn partial_cmp(&self, other: &BigInt) -> (r: Option<core::cmp::Ordering>)
            ensures r == Some(cmp_of(self@, other@))
        { unimplemented!() }
        #[verifier::external_body]
        fn lt(&self, other: &BigInt) -> (r: bool) ensures r == (self@ < other@) { unimplemented!() }
    }

    // ---- operators (reference operands, as customasm uses them)
    impl<'a> AddSpecImpl<i32> for &'a BigInt {
        open spec fn obeys_add_spec() -> bool { true }
        open spec fn add_req(self, rhs: i32) -> bool { true }
        open spec fn add_spec(self, rhs: i32) -> BigInt { mk(self@ + rhs) }
    }
    impl<'a> core::ops::Add<i32> for &'a BigInt {
        type Output = BigInt;
        #[verifier::external_body]
        fn add(self, rhs: i32) -> (r: BigInt) { unimplemented!() }
    }

    //@@INCLUDE _shared/num_bigint_more.rs
    }
}
