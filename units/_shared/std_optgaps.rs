// ---- std gaps (ASSUMED): Option::map_or, slice last
pub mod std_optgaps {
    use vstd::prelude::*;
    verus! {
    pub assume_specification<T, U, F: FnOnce(T) -> U>[ Option::<T>::map_or ](o: Option<T>, default: U, f: F) -> (r: U)
        requires o is Some ==> call_requires(f, (o->0,)),
        ensures (match o { None => r == default, Some(x) => call_ensures(f, (x,), r) });
    }
}
