    // ---- bit-level lemmas (proved)

    /// setting bit i changes bit i only
    pub proof fn lemma_set_bit_get(v: int, i: nat, b: bool, j: nat)
        ensures bit_of(set_bit_spec(v, i, b), j) == (if i == j { b } else { bit_of(v, j) })
    {
        lemma_pow2_pos(i);
        lemma_pow2_pos(j);
        let pi = pow2(i) as int;
        let pj = pow2(j) as int;
        let w = set_bit_spec(v, i, b);
        if bit_of(v, i) == b {
        } else {
            let d: int = if b { pi } else { -pi };
            assert(w == v + d);
            if j == i {
                // (v + pi)/pi == v/pi + 1
                lemma_div_plus_one_generic(v, pi, if b { 1 } else { -1 });
            } else if j < i {
                // pi = pj * 2^(i-j), 2^(i-j) even
                let k = (i - j) as nat;
                lemma_pow2_adds(j, k);
                lemma_pow2_pos(k);
                lemma_pow2_unfold(k);
                let m = pow2(k) as int;
                assert(pi == pj * m);
                let half = pow2((k - 1) as nat) as int;
                assert(m == 2 * half);
                let s: int = if b { 1 } else { -1 };
                assert(d == pj * (s * m)) by (nonlinear_arith) requires d == s * pi, pi == pj * m;
                lemma_div_plus_one_generic(v, pj, s * m);
                assert(d == (s * m) * pj) by (nonlinear_arith) requires d == pj * (s * m);
                assert((v + d) / pj == v / pj + s * m);
                assert(s * m == 2 * (s * half)) by (nonlinear_arith) requires m == 2 * half;
                lemma_mod_plus_even(v / pj, s * half);
            } else {
                // j > i : v = q*pj + r with 0 <= r < pj ; r/pi's bit decides; adding +-pi keeps r within [0,pj)
                let k = (j - i) as nat;
                lemma_pow2_adds(i, k);
                lemma_pow2_pos(k);
                let m = pow2(k) as int;
                assert(pj == pi * m);
                lemma_fundamental_div_mod(v, pj);
                let q = v / pj;
                let r = v % pj;
                lemma_mod_bound(v, pj);
                // r = a*pi + c, 0 <= c < pi, 0 <= a < m
                lemma_fundamental_div_mod(r, pi);
                let a = r / pi;
                let c = r % pi;
                lemma_mod_bound(r, pi);
                assert(0 <= a < m) by (nonlinear_arith) requires r == pi * a + c, 0 <= c < pi, 0 <= r < pi * m, pi > 0;
                // bit i of v is parity of a (since pj/pi = m is even when k>=1)
                lemma_pow2_unfold(k);
                let half = pow2((k - 1) as nat) as int;
                assert(m == 2 * half);
                // v/pi = q*m + a
                assert(v == pi * (q * m + a) + c) by (nonlinear_arith) requires v == pj * q + r, pj == pi * m, r == pi * a + c;
                lemma_div_unique(v, pi, q * m + a, c);
                assert(v / pi == q * m + a);
                assert(q * m == 2 * (q * half)) by (nonlinear_arith) requires m == 2 * half;
                lemma_mod_plus_even(a, q * half);
                assert((v / pi) % 2 == a % 2);
                // b != bit_of(v,i): if b then a even -> a+1 <= m-1 ; else a odd -> a-1 >= 0
                let s: int = if b { 1 } else { -1 };
                assert(0 <= a + s < m) by {
                    if b { assert(a % 2 == 0); assert(m % 2 == 0); } else { assert(a % 2 == 1); }
                }
                assert(v + d == pj * q + (pi * (a + s) + c)) by (nonlinear_arith)
                    requires v == pj * q + r, r == pi * a + c, d == s * pi;
                assert(0 <= pi * (a + s) + c < pj) by (nonlinear_arith)
                    requires 0 <= a + s < m, 0 <= c < pi, pj == pi * m, pi > 0;
                lemma_div_unique(v + d, pj, q, pi * (a + s) + c);
            }
        }
    }

    pub proof fn lemma_div_unique(x: int, d: int, q: int, r: int)
        requires d > 0, x == d * q + r, 0 <= r < d
        ensures x / d == q, x % d == r
    {
        assert(d * q == q * d) by (nonlinear_arith);
        lemma_fundamental_div_mod_converse(x, d, q, r);
    }

    pub proof fn lemma_mod_bound(x: int, d: int)
        requires d > 0
        ensures 0 <= x % d < d
    {
        lemma_mod_division_less_than_divisor(x, d);
    }

    pub proof fn lemma_div_plus_one_generic(v: int, p: int, s: int)
        requires p > 0
        ensures (v + s * p) / p == v / p + s, (v + s * p) % p == v % p
    {
        lemma_fundamental_div_mod(v, p);
        lemma_mod_bound(v, p);
        assert(v + s * p == p * (v / p + s) + v % p) by (nonlinear_arith) requires v == p * (v / p) + v % p;
        lemma_div_unique(v + s * p, p, v / p + s, v % p);
    }

    pub proof fn lemma_mod_plus_even(a: int, h: int)
        ensures (a + 2 * h) % 2 == a % 2
    {
        lemma_div_plus_one_generic(a, 2, h);
        assert(h * 2 == 2 * h);
    }

    /// bit i of 0 is clear
    pub proof fn lemma_bit_of_zero(i: nat)
        ensures !bit_of(0, i)
    {
        lemma_pow2_pos(i);
        lemma_div_unique(0, pow2(i) as int, 0, 0);
    }

    /// a non-negative value below 2^n has no bit set at or above n
    pub proof fn lemma_bit_of_small(v: int, n: nat, i: nat)
        requires 0 <= v < pow2(n), i >= n
        ensures !bit_of(v, i)
    {
        lemma_pow2_pos(i);
        if i > n { lemma_pow2_strictly_increases(n, i); }
        lemma_div_unique(v, pow2(i) as int, 0, v);
    }

    // ---- magnitude bounds (C19: results stay below the global size cap)
    pub proof fn lemma_bitlen_sum(a: int, b: int, m: nat)
        requires bitlen(abs(a)) <= m, bitlen(abs(b)) <= m
        ensures bitlen(abs(a + b)) <= m + 1, bitlen(abs(a - b)) <= m + 1
    {
        lemma_bitlen_le(abs(a), m);
        lemma_bitlen_le(abs(b), m);
        lemma_pow2_unfold(m + 1);
        lemma_bitlen_le(abs(a + b), m + 1);
        lemma_bitlen_le(abs(a - b), m + 1);
    }

    pub proof fn lemma_bitlen_mul(a: int, b: int, m: nat, n: nat)
        requires bitlen(abs(a)) <= m, bitlen(abs(b)) <= n
        ensures bitlen(abs(a * b)) <= m + n
    {
        lemma_bitlen_le(abs(a), m);
        lemma_bitlen_le(abs(b), n);
        lemma_pow2_adds(m, n);
        let x = abs(a) as int;
        let y = abs(b) as int;
        let pm = pow2(m) as int;
        let pn = pow2(n) as int;
        assert(abs(a * b) as int == x * y) by (nonlinear_arith)
            requires x == (if a < 0 { -a } else { a }), y == (if b < 0 { -b } else { b }),
                     abs(a * b) as int == (if a * b < 0 { -(a * b) } else { a * b });
        assert(x * y < pm * pn) by (nonlinear_arith) requires 0 <= x < pm, 0 <= y < pn;
        lemma_bitlen_le(abs(a * b), m + n);
    }

    pub proof fn lemma_bitlen_shl(a: int, k: nat)
        ensures bitlen(abs(a * pow2(k))) <= bitlen(abs(a)) + k
    {
        let m = bitlen(abs(a));
        lemma_bitlen_le(abs(a), m);
        lemma_pow2_adds(m, k);
        lemma_pow2_pos(k);
        let x = abs(a) as int;
        let pk = pow2(k) as int;
        let pm = pow2(m) as int;
        assert(abs(a * pk) as int == x * pk) by (nonlinear_arith)
            requires x == (if a < 0 { -a } else { a }), pk > 0,
                     abs(a * pk) as int == (if a * pk < 0 { -(a * pk) } else { a * pk });
        assert(x * pk < pm * pk) by (nonlinear_arith) requires 0 <= x < pm, pk > 0;
        lemma_bitlen_le(abs(a * pk), m + k);
    }

    /// the top bit of a positive value is set
    pub proof fn lemma_top_bit(v: int)
        requires v > 0
        ensures bit_of(v, (bitlen(v as nat) - 1) as nat), bitlen(v as nat) >= 1
    {
        let m = bitlen(v as nat);
        lemma_bitlen_le(v as nat, m);
        lemma_bitlen_le(v as nat, (m - 1) as nat);
        lemma_pow2_unfold(m);
        lemma_pow2_pos((m - 1) as nat);
        let p = pow2((m - 1) as nat) as int;
        lemma_div_unique(v, p, 1, v - p);
    }

    /// a value whose bits at and above n are all clear lies in [0, 2^n)
    pub proof fn lemma_bits_bound(v: int, n: nat)
        requires forall|j: nat| j >= n ==> !#[trigger] bit_of(v, j)
        ensures 0 <= v < pow2(n)
    {
        if v < 0 {
            let w = (-v) as nat;
            let m = bitlen(w);
            let j = if m >= n { m } else { n };
            lemma_bitlen_le(w, m);
            if j > m { lemma_pow2_strictly_increases(m, j); }
            let p = pow2(j) as int;
            lemma_div_unique(v, p, -1, v + p);
            assert(bit_of(v, j));
        } else if v > 0 {
            lemma_top_bit(v);
            let m = bitlen(v as nat);
            if m > n {
                assert(bit_of(v, (m - 1) as nat));
                assert(false);
            }
            lemma_bitlen_le(v as nat, n);
        } else {
            lemma_pow2_pos(n);
        }
    }

    /// two integers with the same bits are equal
    pub proof fn lemma_same_bits_same_value(a: int, b: int)
        requires forall|j: nat| #[trigger] bit_of(a, j) == bit_of(b, j)
        ensures a == b
        decreases abs(a) + abs(b)
    {
        lemma2_to64();
        // bit 0 equal => same parity; halves have the same bits
        assert(bit_of(a, 0) == bit_of(b, 0));
        assert(pow2(0) == 1);
        let a2 = a / 2;
        let b2 = b / 2;
        if a == 0 && b == 0 {
        } else if a == -1 && b == -1 {
        } else if (a == 0 && b == -1) || (a == -1 && b == 0) {
            assert(bit_of(0, 0) != bit_of(-1, 0));
        } else {
            assert forall|j: nat| #[trigger] bit_of(a2, j) == bit_of(b2, j) by {
                lemma_bit_of_half(a, j);
                lemma_bit_of_half(b, j);
                assert(bit_of(a, j + 1) == bit_of(b, j + 1));
            }
            assert(abs(a2) + abs(b2) < abs(a) + abs(b)) by {
                lemma_half_smaller(a);
                lemma_half_smaller(b);
            }
            lemma_same_bits_same_value(a2, b2);
            lemma_fundamental_div_mod(a, 2);
            lemma_fundamental_div_mod(b, 2);
        }
    }

    pub proof fn lemma_half_smaller(a: int)
        ensures abs(a / 2) <= abs(a), (a != 0 && a != -1) ==> abs(a / 2) < abs(a)
    {
        lemma_fundamental_div_mod(a, 2);
    }

    pub proof fn lemma_bit_of_half(a: int, j: nat)
        ensures bit_of(a / 2, j) == bit_of(a, j + 1)
    {
        lemma_pow2_pos(j);
        lemma_pow2_unfold(j + 1);
        let p = pow2(j) as int;
        // (a/2)/p == a/(2p), for every integer a (floor division)
        let d = 2 * p;
        lemma_fundamental_div_mod(a, d);
        lemma_mod_bound(a, d);
        let q = a / d;
        let r = a % d;
        lemma_fundamental_div_mod(r, 2);
        lemma_mod_bound(r, 2);
        let h = r / 2;
        assert(0 <= h < p);
        assert(a == 2 * (p * q + h) + r % 2) by (nonlinear_arith) requires a == d * q + r, d == 2 * p, r == 2 * h + r % 2;
        lemma_div_unique(a, 2, p * q + h, r % 2);
        lemma_div_unique(a / 2, p, q, h);
        assert(2 * p == pow2(j + 1));
    }
