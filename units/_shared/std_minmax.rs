// ---- std gaps (ASSUMED): core::cmp::max / min on totally ordered values
pub mod std_minmax {
    use vstd::prelude::*;
    use vstd::std_specs::cmp::*;
    verus! {
    pub assume_specification<T: core::cmp::Ord>[ core::cmp::max ](a: T, b: T) -> (r: T)
        ensures
            <T as OrdSpec>::obeys_cmp_spec() ==> r == (if a.cmp_spec(&b) == core::cmp::Ordering::Greater { a } else { b });
    pub assume_specification<T: core::cmp::Ord>[ core::cmp::min ](a: T, b: T) -> (r: T)
        ensures
            <T as OrdSpec>::obeys_cmp_spec() ==> r == (if a.cmp_spec(&b) == core::cmp::Ordering::Greater { b } else { a });
    }
}
