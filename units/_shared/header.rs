// GENERATED FILE — do not edit. Produced by /verif/vfw/gen.py from /repo's working tree.
// Text between "//@@ITEMS" expansions is real source text cut from /repo (see evidence.extraction).
#![allow(unused_imports, unused_variables, dead_code, unused_mut, unused_parens, non_snake_case, unused_assignments, unreachable_code, unused_braces)]
use vstd::prelude::*;
fn main() {}
verus! {
global size_of usize == 8;
}
