    // util::ItemRef<T>: real struct extracted below; Clone/Copy impls are extracted too
