// ---- std gaps (ASSUMED specifications of std functions vstd does not cover)
pub mod std_gaps {
    use vstd::prelude::*;
    use vstd::std_specs::cmp::*;
    verus! {
    /// core::cmp::Ordering's derived PartialEq is structural equality (vstd has no spec for it)
    #[verifier::allow(broadcast_without_trigger)]
    pub broadcast axiom fn axiom_ordering_eq_obeys()
        ensures <core::cmp::Ordering as PartialEqSpec>::obeys_eq_spec();
    pub broadcast axiom fn axiom_ordering_eq(a: core::cmp::Ordering, b: core::cmp::Ordering)
        ensures #[trigger] PartialEqSpec::eq_spec(&a, &b) == (a == b);

    /// byte length of a String (value left unspecified)
    pub assume_specification[ String::len ](s: &String) -> usize;
    /// a Vec never holds more than usize::MAX elements (what Vec::len's usize result implies)
    pub broadcast axiom fn axiom_vec_len_fits<T>(v: &Vec<T>)
        ensures #[trigger] v@.len() <= usize::MAX;
    pub assume_specification<T>[ core::mem::replace ](dest: &mut T, src: T) -> (r: T)
        ensures r == *old(dest), *final(dest) == src;
    pub assume_specification<T, U, F: FnOnce(T) -> U>[ Option::<T>::map_or ](o: Option<T>, default: U, f: F) -> (r: U)
        requires o is Some ==> call_requires(f, (o->0,)),
        ensures (match o { None => r == default, Some(x) => call_ensures(f, (x,), r) });

    /// integer bit-counting helpers (values left uninterpreted; only the ranges are assumed)
    pub uninterp spec fn usize_trailing_zeros(x: usize) -> u32;
    pub assume_specification[ usize::trailing_zeros ](x: usize) -> (r: u32)
        ensures r == usize_trailing_zeros(x), r <= 64;
    pub assume_specification<T: core::cmp::Ord>[ core::cmp::max ](a: T, b: T) -> (r: T)
        ensures
            <T as OrdSpec>::obeys_cmp_spec() ==> r == (if a.cmp_spec(&b) == core::cmp::Ordering::Greater { a } else { b });
    pub assume_specification<T: core::cmp::Ord>[ core::cmp::min ](a: T, b: T) -> (r: T)
        ensures
            <T as OrdSpec>::obeys_cmp_spec() ==> r == (if a.cmp_spec(&b) == core::cmp::Ordering::Greater { b } else { a });
    }
}
