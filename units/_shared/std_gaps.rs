// ---- std gaps (ASSUMED specifications of std functions vstd does not cover)
pub mod std_gaps {
    use vstd::prelude::*;
    use vstd::std_specs::cmp::*;
    verus! {
    pub assume_specification<T: core::cmp::Ord>[ core::cmp::max ](a: T, b: T) -> (r: T)
        ensures
            <T as OrdSpec>::obeys_cmp_spec() ==> r == (if a.cmp_spec(&b) == core::cmp::Ordering::Greater { a } else { b });
    }
}
