    // ---- property text (C05): the value a literal's digits denote, ignoring '_' separators
    pub open spec fn is_digit_or_sep(c: char, radix: int) -> bool { c == '_' || spec_to_digit(c, radix as u32) is Some }
    pub open spec fn lit_value(s: Seq<char>, start: int, k: int, radix: int) -> int decreases k - start {
        if k <= start { 0 }
        else if s[k - 1] == '_' { lit_value(s, start, k - 1, radix) }
        else { lit_value(s, start, k - 1, radix) * radix + (match spec_to_digit(s[k - 1], radix as u32) { Some(d) => d as int, None => 0 }) }
    }
    pub open spec fn lit_digits(s: Seq<char>, start: int, k: int) -> int decreases k - start {
        if k <= start { 0 } else if s[k - 1] == '_' { lit_digits(s, start, k - 1) } else { lit_digits(s, start, k - 1) + 1 }
    }
    pub open spec fn all_digits(s: Seq<char>, start: int, k: int, radix: int) -> bool {
        forall|j: int| start <= j < k ==> is_digit_or_sep(#[trigger] s[j], radix)
    }
    pub proof fn lemma_lit_bounds(s: Seq<char>, start: int, k: int, radix: int)
        requires start <= k, radix >= 2
        ensures 0 <= lit_value(s, start, k, radix), 0 <= lit_digits(s, start, k) <= k - start
        decreases k - start
    {
        broadcast use axiom_to_digit_range;
        if k > start {
            lemma_lit_bounds(s, start, k - 1, radix);
            assert(lit_value(s, start, k - 1, radix) * radix >= 0) by (nonlinear_arith) requires lit_value(s, start, k - 1, radix) >= 0, radix >= 2;
        }
    }
    pub proof fn lemma_lit_monotone(s: Seq<char>, start: int, k: int, n: int, radix: int)
        requires start <= k <= n, radix >= 2
        ensures lit_value(s, start, k, radix) <= lit_value(s, start, n, radix)
        decreases n - k
    {
        broadcast use axiom_to_digit_range;
        if k < n {
            lemma_lit_monotone(s, start, k, n - 1, radix);
            lemma_lit_bounds(s, start, n - 1, radix);
            let v = lit_value(s, start, n - 1, radix);
            assert(v * radix >= v) by (nonlinear_arith) requires v >= 0, radix >= 2;
        }
    }
    /// property text: for power-of-two bases the size is digits x bits-per-digit, none for decimal
    pub open spec fn lit_size(radix: int, digits: int) -> Option<usize> {
        if radix == 2 { Some(digits as usize) } else if radix == 8 { Some((3 * digits) as usize) } else if radix == 16 { Some((4 * digits) as usize) } else { None }
    }
    /// radix prefix rule of the property text
    pub open spec fn radix_of(s: Seq<char>) -> (int, int) {
        if s[0] == '0' && 1 < s.len() {
            if s[1] == 'b' { (2, 2) } else if s[1] == 'o' { (8, 2) } else if s[1] == 'x' { (16, 2) } else { (10, 0) }
        } else {
            if s[0] == '%' { (2, 1) } else if s[0] == '$' { (16, 1) } else { (10, 0) }
        }
    }
