//@@INCLUDE _shared/header.rs
pub mod report_spec {
    use vstd::prelude::*;
    use crate::diagn::*;
    verus! {
    pub open spec fn count_errors(s: Seq<Message>) -> nat decreases s.len() {
        if s.len() == 0 { 0 } else { count_errors(s.drop_last()) + (if s.last().kind is Error { 1nat } else { 0nat }) }
    }
    pub broadcast proof fn lemma_count_push(s: Seq<Message>, m: Message)
        ensures #[trigger] count_errors(s.push(m)) == count_errors(s) + (if m.kind is Error { 1nat } else { 0nat })
    {
        assert(s.push(m).drop_last() =~= s);
    }
    pub proof fn lemma_count_zero(s: Seq<Message>)
        ensures count_errors(s) == 0 <==> forall|i: int| 0 <= i < s.len() ==> !((#[trigger] s[i]).kind is Error)
        decreases s.len()
    {
        if s.len() > 0 {
            lemma_count_zero(s.drop_last());
            assert forall|i: int| 0 <= i < s.len() - 1 implies s.drop_last()[i] == s[i] by {}
            if count_errors(s) == 0 {
                assert forall|i: int| 0 <= i < s.len() implies !((#[trigger] s[i]).kind is Error) by {
                    if i < s.len() - 1 { assert(s.drop_last()[i] == s[i]); }
                }
            } else {
                if !(s.last().kind is Error) {
                    let j = choose|j: int| 0 <= j < s.len() - 1 && (#[trigger] s.drop_last()[j]).kind is Error;
                    assert(s[j].kind is Error);
                }
            }
        }
    }

    }
}
pub mod diagn {
    use vstd::prelude::*;
    use crate::*;
    use crate::report_spec::*;
    verus! {
    broadcast use crate::report_spec::lemma_count_push;
    #[verifier::external_body]
    #[derive(Clone, Copy)]
    pub struct Span { _p: u8 }

    pub open spec fn msg_is_error(m: Message) -> bool { m.kind is Error }
    impl Report {
        /// the ghost observations the other units use on their opaque stand-in, here defined over the real fields
        pub open spec fn msgs(&self) -> nat { self.messages@.len() }
        pub open spec fn errors(&self) -> nat { count_errors(self.messages@) }
        pub open spec fn parents(&self) -> nat { self.parents@.len() }
    }
    /// C13: `r` is `m` wrapped in the contexts ps[i..], the outermost context (the one pushed first: the user's
    /// line) on top, each layer carrying its context's text, kind and location and exactly one inner message
    pub open spec fn nested_in(r: Message, ps: Seq<Message>, i: int, m: Message) -> bool
        decreases ps.len() - i
    {
        if i < 0 || i >= ps.len() { r == m } else {
            r.descr@ == ps[i].descr@ && r.kind == ps[i].kind && r.span == ps[i].span && r.short_excerpt == ps[i].short_excerpt
            && r.inner@.len() == 1 && nested_in(r.inner@[0], ps, i + 1, m)
        }
    }
    impl Clone for Message {
        #[verifier::external_body]
        fn clone(&self) -> (r: Message) ensures r == *self { unimplemented!() }
    }
    //@@ITEMS diagn
    }
}
