from vfw.spec import Unit, Fn, Type, Impl, C, Loop, Rewrite, Insert
from units.contracts_report import report_fns, F

def msg_ctor(name, kind):
    return Fn(F, name, impl="Message", slot="diagn", ret="res", key="Message::" + name, props=["C03"],
              ensures=[C("kind", "res.kind is %s && res.inner@.len() == 0" % kind, ["C03"])])

wrap = Fn(F, "wrap_in_parents", impl="Report", slot="diagn", ret="res", key="Report::wrap_in_parents", props=["C13", "C03"],
          ensures=[C("toplevel_kind", "res.kind == (if self.parents@.len() == 0 { msg.kind } else { self.parents@[0].kind })", ["C03"]),
                   C("identity_without_parents", "self.parents@.len() == 0 ==> res == msg", ["C03"]),
                   C("outermost_context_first", "nested_in(res, self.parents@, 0, msg)", ["C13"])],
          for_to_while=[1],
          loops={1: Loop(invariant=[
              C("cursor", "verif_vec_1@ == self.parents@ && verif_next_1 <= verif_vec_1@.len()"),
              C("wrapped_so_far", "nested_in(msg, self.parents@, verif_next_1 as int, msg0)"),
          ], decreases="verif_next_1", before="        let ghost msg0 = msg;")})

fns = report_fns("verify", "diagn")

UNIT = Unit(
    "U-report", "u_report/skeleton.rs",
    items=[
        Type(F, "struct", "Report", slot="diagn"),
        Type(F, "struct", "Message", slot="diagn"),
        Type(F, "enum", "MessageKind", slot="diagn", derive="Clone, Copy"),
        msg_ctor("error", "Error"), msg_ctor("error_span", "Error"), msg_ctor("warning", "Warning"), msg_ctor("warning_span", "Warning"),
        msg_ctor("note", "Note"), msg_ctor("note_span", "Note"), msg_ctor("short_note_span", "Note"),
        wrap,
    ] + fns,
    serves=["C03"],
    description="diagn::Report: the message-count contracts every other unit assumes, proved over the real fields",
)
