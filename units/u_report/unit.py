from vfw.spec import Unit, Fn, Type, Impl, C, Loop, Rewrite, Insert
from units.contracts_report import report_fns, F

def msg_ctor(name, kind):
    return Fn(F, name, impl="Message", slot="diagn", ret="res", key="Message::" + name, props=["C03"],
              ensures=[C("kind", "res.kind is %s && res.inner@.len() == 0" % kind, ["C03"])])

wrap = Fn(F, "wrap_in_parents", impl="Report", slot="diagn", mode="stub", ret="res", key="Report::wrap_in_parents",
          ensures=[C("toplevel_kind", "res.kind == (if self.parents@.len() == 0 { msg.kind } else { self.parents@[0].kind })"),
                   C("identity_without_parents", "self.parents@.len() == 0 ==> res == msg")])

fns = report_fns("verify", "diagn")

UNIT = Unit(
    "U-report", "u_report/skeleton.rs",
    items=[
        Type(F, "struct", "Report", slot="diagn"),
        Type(F, "struct", "Message", slot="diagn"),
        Type(F, "enum", "MessageKind", slot="diagn", derive="Clone, Copy"),
        msg_ctor("error", "Error"), msg_ctor("error_span", "Error"), msg_ctor("warning", "Warning"), msg_ctor("warning_span", "Warning"),
        msg_ctor("note", "Note"), msg_ctor("note_span", "Note"), msg_ctor("short_note_span", "Note"),
        wrap,
    ] + fns,
    serves=["C03"],
    description="diagn::Report: the message-count contracts every other unit assumes, proved over the real fields",
)
