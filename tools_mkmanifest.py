"""Regenerate MANIFEST.json from units/registry.py (checks + not_applicable)."""
import json, sys, os
sys.path.insert(0, os.path.dirname(os.path.abspath(__file__)))
from units.registry import PROPERTIES, NOT_APPLICABLE, UNITS

ALL = ["C%02d" % i for i in range(1, 20)]
checks = []
for p in sorted(PROPERTIES):
    d = PROPERTIES[p]
    checks.append({
        "property_id": p,
        "quick_cmd": "./check %s --tier quick" % p,
        "thorough_cmd": "./check %s --tier thorough" % p,
        "evidence_file": "evidence/%s.json" % p,
        "replay_cmd_template": "./check --replay {path}",
        "engine": "verus-extract",
        "level_claimed": {
            "category": "proof",
            "text": "partial proof, unbounded: Verus discharges every obligation of the contracts attached to the real functions of units %s (extracted from /repo on every run). Claim: %s Not reached by any contract: %s" % (", ".join(d["units"]), d["claim"], d.get("not_reached", "-")),
            "design_ref": "DESIGN.md section 6, %s" % p,
        },
        "level_note": "trusted: Verus+Z3+vstd, rustc front end, the mechanical extractor (rewrites logged in the evidence), and the assumed contracts listed in evidence.assumptions / coverage.trusted_base (external_body stubs for code outside the unit, num-bigint, std gaps). usize fixed to 64 bits.",
        "technique": "contract-based deductive verification: Verus requires/ensures/invariants on functions mechanically extracted from /repo",
    })
na = []
for p in ALL:
    if p in PROPERTIES:
        continue
    reason = NOT_APPLICABLE.get(p)
    if reason is None:
        reason = "not claimed in this revision: the unit carrying this property's contracts is not built yet (see DESIGN.md section 6)"
    na.append({"property_id": p, "reason": reason})
m = {
    "version": 1,
    "setup_cmd": "./setup.sh",
    "hooks": {
        "guard": "hlorenzi_customasm_verif",
        "enable": "no hooks are needed: checks read /repo's source text and verify mechanically extracted functions with Verus; nothing in /repo is built with a cfg flag",
        "baseline_off_cmd": "cd /repo && cargo test --workspace --no-fail-fast --offline",
        "source_commits": [],
        "add_only": True,
    },
    "engines": [{
        "name": "verus-extract", "path": "vfw/", "serves_properties": sorted(PROPERTIES),
        "kind_free_text": "contract-based deductive verification: real functions are cut from /repo on every run, contracts from units/*/unit.py are attached, Verus/Z3 discharges every obligation; failed obligations are mapped to stable IDs and to properties",
    }],
    "checks": checks,
    "not_applicable": na,
    "notes": "known findings: known_findings.json; design: DESIGN.md",
}
json.dump(m, open(os.path.join(os.path.dirname(os.path.abspath(__file__)), "MANIFEST.json"), "w"), indent=1)
print("MANIFEST.json: %d checks, %d not_applicable" % (len(checks), len(na)))
