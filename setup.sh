#!/bin/sh
# offline setup: nothing to build; verify tools are present and warm the Verus/vstd cache
set -e
cd "$(dirname "$0")"
command -v verus >/dev/null || { echo "verus not on PATH"; exit 1; }
command -v python3 >/dev/null || { echo "python3 missing"; exit 1; }
mkdir -p evidence replays
T=$(mktemp -d)
cat > "$T/warm.rs" <<'EOR'
use vstd::prelude::*;
verus! { proof fn warm() ensures 1 + 1 == 2int {} }
fn main() {}
EOR
verus "$T/warm.rs" >/dev/null 2>&1 || { echo "verus cannot verify a trivial file"; rm -rf "$T"; exit 1; }
rm -rf "$T"
echo "setup ok"
