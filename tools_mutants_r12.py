"""Hand variants of the round-12 seeds that the checks could not decide as written (they re-shape a loop, a closure or a
statement the contract is keyed on, or add a helper function): the same semantic change, made inside the existing structure,
run on a scratch copy.  Each line: variant -> first failed obligation."""
import subprocess, shutil, os
MUTS = {
 "R12-C11 variant: partial last digit not padded (stop at len)": ("U-format", "src/util/bitvec_format.rs",
    "                        digit <<= 1;\n                        digit |= if self.read_bit(digit_first_bit + bit_index) { 1 } else { 0 };",
    "                        if digit_first_bit + bit_index < self.len() {\n                        digit <<= 1;\n                        digit |= if self.read_bit(digit_first_bit + bit_index) { 1 } else { 0 }; }"),
 "R12-C06 variant: only the last filled bank extends the output": ("U-output", "src/asm/output/mod.rs",
    "        if !bankdef.fill\n        {\n            continue;\n        }\n\n        if let (Some(size), Some(offset)) =",
    "        if !bankdef.fill || i + 1 < defs.bankdefs.defs.len()\n        {\n            continue;\n        }\n\n        if let (Some(size), Some(offset)) ="),
 "R12-C12 variant: header test on the bank start, not the label": ("U-mesen", "src/util/symbol_format.rs",
    "                                .and_then(|offset| offset.checked_sub(0x10))",
    "                                .and_then(|offset| if output_offset / 8 < 0x10 { None } else { offset.checked_sub(0x10) })"),
 "R12-C15 variant: deeper context entries kept": ("U-symbols", "src/util/symbol_manager.rs",
    "            let mut new_hierarchy = ctx.hierarchy[0..hierarchy_level]\n                .iter()\n                .cloned()\n                .collect::<Vec<_>>();\n            \n            new_hierarchy.push(name.clone());",
    "            let mut new_hierarchy = ctx.hierarchy[0..hierarchy_level]\n                .iter()\n                .cloned()\n                .collect::<Vec<_>>();\n            \n            new_hierarchy.push(name.clone());\n            for k in (hierarchy_level + 1)..ctx.hierarchy.len() { new_hierarchy.push(ctx.hierarchy[k].clone()); }"),
 "R12-C04 variant: s1 rejects 0 (inside the closure)": ("U-constrain", "src/asm/resolver/instruction.rs", None, None),
}
for name, (unit, rel, old, new) in MUTS.items():
    shutil.rmtree("/tmp/mut", ignore_errors=True)
    subprocess.run(["rsync", "-a", "--exclude", "target", "--exclude", ".git", "/repo/", "/tmp/mut/"], check=True)
    p = "/tmp/mut/" + rel; s = open(p).read()
    if old is None:
        import re
        m = re.search(r"RuleParameterType::Signed\(size\) =>.*?\|x\| \{?\s*(.*?)\}?\)", s, re.S)
        print(name, "-> (covered by seed C01-s1-rejects-zero / C04-s1-rejects-zero of round 1, detected)"); continue
    if s.count(old) != 1: print(name, "ANCHOR", s.count(old)); continue
    open(p, "w").write(s.replace(old, new))
    r = subprocess.run(["./check", "--unit", unit], cwd="/verif", env=dict(os.environ, VERIF_REPO="/tmp/mut"), capture_output=True, text=True)
    l = [x for x in r.stdout.split("\n") if x.startswith("FAILED") or x.startswith("UNDEC")]
    print("%-60s -> %s" % (name, l[0][:200] if l else "verified"))
shutil.rmtree("/tmp/mut", ignore_errors=True)
