"""./check driver: per-property verification runs, triage, evidence, replay files."""
import argparse
import concurrent.futures
import hashlib
import importlib
import json
import os
import re
import shutil
import sys
import tempfile
import time

ROOT = os.path.dirname(os.path.dirname(os.path.abspath(__file__)))
sys.path.insert(0, ROOT)

from vfw import gen, verus, kani  # noqa: E402
from vfw.gen import Undecided  # noqa: E402

EVIDENCE_DIR = os.path.join(ROOT, "evidence")
REPLAY_DIR = os.path.join(ROOT, "replays")
KNOWN_FINDINGS = os.path.join(ROOT, "known_findings.json")

TRUSTED_BASE_COMMON = [
    "Verus 0.2026.09.13 (rust_verify, vstd specs for core/alloc) and its bundled Z3",
    "rustc 1.98.1 front end used by Verus",
    "vfw/rustlex.py + vfw/gen.py: mechanical extraction (every rewrite is logged in coverage.extraction.rewrites)",
    "usize is 64 bits (global size_of usize == 8)",
]


def load_units():
    mod = importlib.import_module("units.registry")
    return mod.UNITS, mod.PROPERTIES


def load_known_findings():
    if not os.path.exists(KNOWN_FINDINGS):
        return {"open": [], "fixed": []}
    with open(KNOWN_FINDINGS) as f:
        return json.load(f)


class UnitRun:
    def __init__(self, unit):
        self.unit = unit
        self.gen = None
        self.path = None
        self.res = None
        self.failures = []
        self.undecided = []
        self.air = {}
        self.json = None
        self.canary_failed = False
        self.wall_s = 0.0
        self.probe = None


CANARY = """
verus! {
pub mod verif_canary {
    use vstd::prelude::*;
    #[allow(unused_imports)]
    use crate::*;
    // must FAIL: if this verifies, the assumptions of this file are contradictory
    pub proof fn verif_canary()
        ensures false,
    {
    }
}
}
"""


def run_unit(unit, workdir, seed=0, rlimit=None, probe_labels=frozenset(), tag="main", timeout=900, threads=None):
    """one unit, one Verus run. Units generated with `loop_isolation(false)` are run a second time with isolated loops
    when the first run ends undecided on a resource limit: the wider context that makes harmless edits verify also makes
    some changed code exhaust the solver, and the isolated run then decides (soundly: both encodings are Verus')."""
    ur = _run_unit_once(unit, workdir, seed, rlimit, probe_labels, tag, timeout, threads)
    if getattr(unit, "carry_facts_into_loops", True) and ur.undecided \
            and any("rlimit" in u or "Resource limit" in u for u in ur.undecided):
        import copy
        u2 = copy.copy(unit)
        u2.carry_facts_into_loops = False
        ur2 = _run_unit_once(u2, workdir, seed, rlimit, probe_labels, tag + "_isolated", timeout, threads)
        ur2.unit = unit
        ur2.wall_s += ur.wall_s
        if len(ur2.undecided) <= len(ur.undecided):
            ur = ur2
            unit = u2
    # a run that is still undecided on a resource limit only is repeated once with four times the limit (Verus'
    # default is 10): an exhausted query decides nothing, a larger budget often does
    if ur.undecided and all(("rlimit" in u or "Resource limit" in u) for u in ur.undecided) and rlimit is None:
        ur3 = _run_unit_once(unit, workdir, seed, 40, probe_labels, tag + "_rlimit40", timeout, threads)
        ur3.unit = ur.unit
        ur3.wall_s += ur.wall_s
        if len(ur3.undecided) < len(ur.undecided) or (ur3.failures and not ur.failures):
            return ur3
    return ur


def _run_unit_once(unit, workdir, seed=0, rlimit=None, probe_labels=frozenset(), tag="main", timeout=900, threads=None):
    ur = UnitRun(unit)
    t0 = time.time()
    try:
        g = gen.generate(unit, probe_labels=probe_labels)
    except Undecided as e:
        ur.undecided.append("extraction: %s" % e)
        return ur
    ur.gen = g
    fname = "%s_%s.rs" % (re.sub(r"[^A-Za-z0-9]", "_", unit.name).lower(), tag)
    path = os.path.join(workdir, fname)
    text = g.text() + CANARY
    with open(path, "w", encoding="utf-8") as f:
        f.write(text)
    ur.path = path
    logdir = os.path.join(workdir, fname + ".log")
    os.makedirs(logdir, exist_ok=True)
    res = verus.run_verus(path, logdir, extra_args=unit.verus_args, rlimit=rlimit, seed=seed, timeout=timeout,
                          threads=threads)
    ur.res = res
    ur.wall_s = time.time() - t0
    if res["timed_out"]:
        ur.undecided.append("verus timed out after %ds" % timeout)
        return ur
    diags, other = verus.parse_diagnostics(res["stderr"])
    ur.json = verus.parse_stdout_json(res["stdout"])
    failures, undecided = verus.classify(diags, g, unit.name, path)
    # canary
    real = []
    canary_line_lo = len(g.lines)
    for f in failures:
        if f["fn"] is None and f["gen_line"] is not None and f["gen_line"] > canary_line_lo and f["kind"] == "ensures":
            ur.canary_failed = True
        else:
            real.append(f)
    ur.failures = real
    ur.undecided += undecided
    for o in other:
        if any(m in o for m in ("internal error", "panicked", "thread '")):
            ur.undecided.append("verifier crash: " + o[:300])
    if ur.json is None:
        ur.undecided.append("no --output-json result (verifier crashed?) rc=%s stderr=%s" % (res["rc"], res["stderr"][-500:]))
    else:
        vr = ur.json.get("verification-results", {})
        if vr.get("encountered-vir-error"):
            ur.undecided.append("verifier reported a VIR/front-end error")
        if not ur.canary_failed and not vr.get("encountered-vir-error") and not ur.undecided:
            ur.undecided.append("canary `ensures false` was NOT rejected: assumptions contradictory or verification did not run")
    ur.air = verus.count_air_obligations(logdir)
    if not ur.undecided and not ur.air:
        ur.undecided.append("zero obligations found in AIR log")
    return ur


def fn_air_counts(ur):
    """map function key -> (count, by-kind) using the AIR function path suffix match"""
    res = {}
    if ur.gen is None:
        return res
    for key, info in ur.gen.functions.items():
        if info["mode"] != "verify":
            continue
        name = info["name"]
        tot = 0
        kinds = {}
        for path, d in ur.air.items():
            segs = path.split("::")
            if segs[-1] != name:
                continue
            # impl methods: ...::Type::name ; match the type name when present
            if info.get("impl"):
                h = info["impl"].split(" for ")[-1].strip()
                h = re.sub(r"^<[^>]*>\s*", "", h)          # leading generics of the impl header
                h = h.lstrip("&").strip()
                tyname = re.sub(r"<.*", "", h).strip().split("::")[-1]
                if len(segs) < 2 or (segs[-2] != tyname and not segs[-2].startswith("impl&%")):
                    continue
            for k, v in d.items():
                kinds[k] = kinds.get(k, 0) + v
                tot += v
        res[key] = (tot, kinds)
    return res


def has_contract(unit, key):
    for it in unit.items:
        cands = [it] if hasattr(it, "ensures") else list(getattr(it, "fns", {}).values())
        for fn in cands:
            if fn.key == key and (fn.ensures or fn.requires):
                return True
    return False


def locate_in_repo(info, text):
    """best-effort repo line of a span text inside the original function"""
    if not text:
        return info["lines"][0]
    orig = info.get("orig_text", "")
    # search normalised
    olines = orig.split("\n")
    key = re.sub(r"\s+", "", text)[:60]
    for i, l in enumerate(olines):
        if key and key in re.sub(r"\s+", "", l):
            return info["lines"][0] + i
    return info["lines"][0]


def props_of_failure(unit, ur, f):
    """which properties does a failed obligation belong to"""
    info = ur.gen.functions.get(f["fn"]) if ur.gen else None
    item = None
    for it in unit.items:
        if getattr(it, "key", None) == f["fn"]:
            item = it
        if hasattr(it, "fns"):
            for fn in it.fns.values():
                if fn.key == f["fn"]:
                    item = fn
    if item is None:
        return set(unit.serves)
    lab = f.get("label")
    if f["kind"] in ("ensures",) and lab:
        for c in item.ensures:
            if c.label == lab:
                return set(c.props) if c.props else set(item.props)
    if f["kind"] in ("overflow", "shift"):
        return set(item.props) | {"C19", "C03"} if ("C19" in unit.serves or "C03" in unit.serves) else set(item.props)
    if f["kind"] in ("div0", "assert", "unreachable", "index", "precondition"):
        s = set(item.props)
        if "C03" in unit.serves:
            s.add("C03")
        return s
    return set(item.props)


def sha(s):
    return hashlib.sha256(s.encode()).hexdigest()[:12]


def write_replay(prop, unit, ur, f, tier, finding=None):
    os.makedirs(REPLAY_DIR, exist_ok=True)
    info = ur.gen.functions.get(f["fn"], {}) if ur.gen else {}
    path = os.path.join(REPLAY_DIR, "%s-%s.json" % (prop, sha(f["id"])))
    rec = {
        "property": prop,
        "unit": unit.name,
        "obligation": f["id"],
        "kind": f["kind"],
        "repo_location": "%s:%s" % (info.get("file"), locate_in_repo(info, f.get("text"))) if info else None,
        "function": f["fn"],
        "function_text_in_repo": info.get("orig_text"),
        "verifier_message": f["message"],
        "verifier_output": f.get("rendered"),
        "counterexample": None,
        "no_failing_input_found": True,
        "regenerate_cmd": "cd /verif && ./check --unit %s --keep" % unit.name,
        "note": "Verus gives no model; the failed obligation is named above. The function verified on the pinned tree.",
    }
    with open(path, "w") as fh:
        json.dump(rec, fh, indent=1)
    return path


def check_property(prop, tier, seed, keep=False, verbose=False):
    t0 = time.time()
    UNITS, PROPERTIES = load_units()
    if prop not in PROPERTIES:
        print("unknown or unclaimed property %s" % prop)
        return 2
    pdef = PROPERTIES[prop]
    kf = load_known_findings()
    unit_names = pdef["units"]
    workdir = tempfile.mkdtemp(prefix="verif_%s_" % prop)
    violations = []
    undecided = []
    known_lines = []
    runs = {}
    probes = {}
    try:
        jobs = []
        with concurrent.futures.ThreadPoolExecutor(max_workers=8) as ex:
            futs = {}
            for un in unit_names:
                unit = UNITS[un]
                futs[ex.submit(run_unit, unit, workdir, seed, None, frozenset(), "main")] = ("main", un, None)
            # known-finding probes
            for k in kf.get("open", []):
                k_units = k["unit"] if isinstance(k["unit"], list) else [k["unit"]]
                for ku in k_units:
                    if prop in k["properties"] and ku in unit_names and k.get("probe_labels"):
                        unit = UNITS[ku]
                        futs[ex.submit(run_unit, unit, workdir, seed, None, frozenset(k["probe_labels"]),
                                       "probe_" + k["id"] + "_" + re.sub(r"[^A-Za-z0-9]", "", ku))] = ("probe", ku, k)
            extra_seeds = []
            if tier == "thorough":
                for un in unit_names:
                    unit = UNITS[un]
                    futs[ex.submit(run_unit, unit, workdir, seed, None, frozenset(["negate:ensures"]), "twin")] = ("twin", un, None)
                for s in (seed + 1, seed + 2):
                    for un in unit_names:
                        unit = UNITS[un]
                        futs[ex.submit(run_unit, unit, workdir, s, 20, frozenset(), "seed%d" % s)] = ("seed", un, s)
            for fu in concurrent.futures.as_completed(futs):
                kind, un, extra = futs[fu]
                ur = fu.result()
                if kind == "main":
                    runs[un] = ur
                elif kind == "probe":
                    probes[extra["id"] + "@" + un] = (extra, ur)
                elif kind == "twin":
                    runs.setdefault("__twins__", []).append((un, ur))
                else:
                    runs.setdefault("__seeds__", []).append((un, extra, ur))
        # ---- triage
        total_obl = 0
        failed_obl = 0
        fn_table = []
        assumptions = set()
        rewrites = []
        items = []
        smt_ms = 0
        for un in unit_names:
            ur = runs[un]
            unit = UNITS[un]
            if ur.undecided:
                for u in ur.undecided:
                    undecided.append("%s: %s" % (un, u))
                continue
            counts = fn_air_counts(ur)
            claimed = [k for k, info in ur.gen.functions.items() if info["mode"] == "verify"]
            for k in claimed:
                info = ur.gen.functions[k]
                tot, kinds = counts.get(k, (0, {}))
                if tot == 0 and has_contract(unit, k):
                    undecided.append("%s: function %s has a contract but the verifier generated zero obligations for it" % (un, k))
                myfail = [f for f in ur.failures if f["fn"] == k]
                total_obl += tot
                fn_table.append({"unit": un, "function": k, "file": info["file"], "lines": info["lines"],
                                 "sha256": info["sha256"], "obligations": tot, "by_kind": kinds,
                                 "failed": [f["id"] for f in myfail]})
            for k, notes in ur.gen.shape_changed.items():
                print("note: %s/%s: %s" % (un, k, "; ".join(notes)))
            for f in list(ur.failures):
                if f["fn"] in ur.gen.raw_keys:
                    undecided.append("%s: contract table inconsistent: refinement check %s failed (%s)" % (un, f["fn"], f["id"]))
                    ur.failures.remove(f)
            for f in ur.failures:
                m_loop = re.match(r"loop(\d+)\.", f.get("label") or "")
                keyed_ok = bool(m_loop) and int(m_loop.group(1)) in ur.gen.keyed_loops.get(f["fn"], set())
                if f["fn"] in ur.gen.shape_changed and f["kind"].startswith(("invariant", "loop_ensures", "termination")) and not keyed_ok:
                    undecided.append("%s: %s failed after the loop structure of %s changed (%s): contract table needs updating" % (
                        un, f["id"], f["fn"], "; ".join(ur.gen.shape_changed[f["fn"]])))
                    continue
                lost = set(r["lost_guard"] for r in ur.gen.rewrites if "lost_guard" in r)
                resurfaced = None
                for k in kf.get("open", []):
                    want = k["obligation"] if isinstance(k["obligation"], list) else [k["obligation"]]
                    if k["id"] in lost and f["id"] in want:
                        resurfaced = k["id"]
                if resurfaced:
                    undecided.append("%s: %s is the obligation of known finding %s, whose guard lost its anchor in the changed code (not a new violation; contract table needs updating)" % (un, f["id"], resurfaced))
                    continue
                ps = props_of_failure(unit, ur, f)
                if prop in ps:
                    failed_obl += 1
                    rp = write_replay(prop, unit, ur, f, tier)
                    violations.append((f, rp))
                else:
                    print("note: obligation %s failed but belongs to %s, not %s" % (f["id"], sorted(ps), prop))
            if ur.json:
                tm = ur.json.get("times-ms", {})
                smt_ms += tm.get("smt", {}).get("total", 0) if isinstance(tm.get("smt"), dict) else 0
            rewrites += ur.gen.rewrites
            items += ur.gen.items
            for a in scan_assumptions(ur):
                assumptions.add(a)
        # seeds (thorough)
        for (un, s, ur) in runs.get("__seeds__", []):
            if ur.undecided:
                undecided.append("%s (seed %s): %s" % (un, s, "; ".join(ur.undecided)))
            main_ids = set(f["id"] for f in runs[un].failures)
            seed_ids = set(f["id"] for f in ur.failures)
            if main_ids != seed_ids:
                undecided.append("%s: unstable across SMT seeds (seed %s: %s vs %s)" % (un, s, sorted(seed_ids), sorted(main_ids)))
        # must-fail twins (thorough): every verified function with an ensures clause must have a rejected negated clause
        twin_report = []
        for (un, ur) in runs.get("__twins__", []):
            if ur.gen is None or (ur.undecided and not ur.failures):
                undecided.append("%s (must-fail twin): %s" % (un, "; ".join(ur.undecided)))
                continue
            unit = UNITS[un]
            failed_fns = set(f["fn"][:-len("__twin")] for f in ur.failures if f["kind"] in ("ensures",) and f["fn"] and f["fn"].endswith("__twin"))
            for it in unit.items:
                cands = [it] if hasattr(it, "ensures") else []   # trait-impl methods cannot be renamed: no twin
                for fn in cands:
                    mode = getattr(it, "mode", "verify")
                    if mode != "verify" or not [c for c in fn.ensures if not getattr(c, "stub_only", False)]:
                        continue
                    ok = fn.key in failed_fns
                    twin_report.append({"unit": un, "function": fn.key, "negated_contract_rejected": ok})
                    if not ok:
                        undecided.append("%s: negated contract of %s was NOT rejected (vacuous contract?)" % (un, fn.key))
        # probes
        kf_report = []
        for kid, (k, ur) in probes.items():
            if ur.undecided:
                undecided.append("probe %s: %s" % (kid, "; ".join(ur.undecided)))
                continue
            ids = [f["id"] for f in ur.failures]
            want = k["obligation"] if isinstance(k["obligation"], list) else [k["obligation"]]
            hit = [i for i in ids if i in want]
            if hit:
                known_lines.append("KNOWN-FINDING: property=%s %s [%s] %s" % (prop, k["id"], "; ".join(hit), k["what"]))
                kf_report.append({"id": k["id"], "obligation": k["obligation"], "failed_unguarded": hit, "still_fails_unguarded": True,
                                  "guard": k.get("guard"), "what": k["what"], "replay": k.get("replay")})
            else:
                kf_report.append({"id": k["id"], "obligation": k["obligation"], "still_fails_unguarded": False,
                                  "note": "the unguarded clause verified in this run: the finding no longer reproduces"})
                print("note: known finding %s no longer reproduces (unguarded clause verifies)" % k["id"])
        kani_results = []
        if tier == "thorough":
            kani_results = kani.run([prop])
            for kr in kani_results:
                if kr.get("result") == "FAILED":
                    undecided.append("bounded Kani cross-check %s FAILED: %s (an assumed contract or the real function is wrong; see evidence.coverage.kani_crosschecks)" % (kr["harness"], kr.get("failure_would_mean")))
        wall = time.time() - t0
        status = 0
        for l in known_lines:
            print(l)
        if undecided:
            status = 2
            for u in undecided:
                print("UNDECIDED property=%s %s" % (prop, u))
        if violations:
            status = 1
            for f, rp in violations:
                print("obligation failed: %s (%s)" % (f["id"], f["message"]))
                print("VIOLATION property=%s replay=%s no-failing-input-found" % (prop, rp))
        ev = {
            "property_id": prop,
            "tier": tier,
            "seed": int(seed),
            "level": "proof",
            "coverage": {
                "obligations": total_obl,
                "discharged": total_obl - failed_obl,
                "checker_cmd": "verus <generated unit file> --error-format=json --output-json --time-expanded --multiple-errors 30 --log air (one file per unit: %s)" % ", ".join(unit_names),
                "trusted_base": TRUSTED_BASE_COMMON + pdef.get("trusted_base", []),
                "claim": pdef["claim"],
                "not_reached": pdef.get("not_reached", ""),
                "back_end": "Verus/Z3 (unbounded; loops closed by invariants, recursion by decreases)",
                "units": unit_names,
                "functions_under_contract": fn_table,
                "smt_ms_total": smt_ms,
                "unit_wall_s": {un: round(runs[un].wall_s, 2) for un in unit_names},
                "canary_rejected": {un: runs[un].canary_failed for un in unit_names},
                "known_findings": kf_report,
                "must_fail_twins": twin_report,
                "kani_crosschecks": kani_results,
                "extraction": {"items": items, "rewrites": rewrites},
                "samples": sample_obligations(runs, unit_names, UNITS, prop),
                "undecided": undecided,
            },
            "assumptions": sorted(assumptions) + pdef.get("assumptions", []),
            "wall_s": round(wall, 2),
            "violations": len(violations),
        }
        os.makedirs(EVIDENCE_DIR, exist_ok=True)
        with open(os.path.join(EVIDENCE_DIR, "%s.json" % prop), "w") as fh:
            json.dump(ev, fh, indent=1)
        print("%s: %d obligations, %d discharged, %d functions under contract, units %s, %.1fs -> exit %d" % (
            prop, total_obl, total_obl - failed_obl, len(fn_table), ",".join(unit_names), wall, status))
        return status
    finally:
        if keep:
            print("kept work dir: %s" % workdir)
        else:
            shutil.rmtree(workdir, ignore_errors=True)


ASSUME_PATTERNS = [
    (re.compile(r"#\[verifier::external_body\]"), "external_body"),
    (re.compile(r"\bassume_specification\b"), "assume_specification"),
    (re.compile(r"\bassume\s*\("), "assume("),
    (re.compile(r"\badmit\s*\("), "admit("),
    (re.compile(r"\baxiom\b"), "axiom"),
    (re.compile(r"#\[verifier::external\b"), "external"),
    (re.compile(r"\buninterp\b"), "uninterp spec fn"),
]


def scan_assumptions(ur):
    """mechanical scan of the generated file for every trusted construct; returns readable strings"""
    res = []
    lines = ur.gen.lines
    n = len(lines)
    for i, l in enumerate(lines):
        code = l.split("//")[0]
        for pat, name in ASSUME_PATTERNS:
            if pat.search(code):
                # describe by the next signature line
                desc = ""
                for j in range(i, min(i + 8, n)):
                    m = re.search(r"\b(fn|struct|enum|assume_specification)\b\s*(<[^>]*>)?\s*(\[[^\]]*\]|\w+)?", lines[j])
                    if m and (m.group(1) != "assume_specification" or m.group(3)):
                        desc = re.sub(r"\s+", " ", lines[j].strip())[:140]
                        break
                res.append("%s [%s]: %s" % (ur.unit.name, name, desc or re.sub(r"\s+", " ", l.strip())[:140]))
    return res


def sample_obligations(runs, unit_names, UNITS, prop):
    out = []
    for un in unit_names:
        unit = UNITS[un]
        for it in unit.items:
            fns = [it] if hasattr(it, "ensures") else list(getattr(it, "fns", {}).values())
            for fn in fns:
                if getattr(fn, "mode", "verify") != "verify":
                    continue
                for c in fn.ensures:
                    if (prop in c.props) or (not c.props and prop in fn.props):
                        out.append({"obligation": "%s/%s/ensures[%s]" % (un, fn.key, c.label),
                                    "clause": c.text if c.guard is None else "(%s) ==> (%s)" % (c.guard, c.text),
                                    "repo": getattr(fn, "file", getattr(it, "file", None))})
    return out[:40] if out else [{"note": "implicit obligations only (overflow/index/panic) — see functions_under_contract.by_kind"}]


def dev_unit(name, keep, seed=0, probe=()):
    UNITS, _ = load_units()
    unit = UNITS[name]
    workdir = tempfile.mkdtemp(prefix="verif_dev_")
    ur = run_unit(unit, workdir, seed=seed, probe_labels=frozenset(probe))
    print("generated:", ur.path)
    for u in ur.undecided:
        print("UNDECIDED:", u)
    for f in ur.failures:
        print("FAILED:", f["id"], "|", f["message"], "| line", f["gen_line"])
        if f.get("rendered"):
            print(f["rendered"])
    print("canary rejected:", ur.canary_failed)
    counts = fn_air_counts(ur)
    for k, (t, kinds) in sorted(counts.items()):
        print("  %-50s %4d obligations" % (k, t))
    if ur.res and (ur.undecided):
        ds, other = verus.parse_diagnostics(ur.res["stderr"])
        for d in ds:
            if d.get("level") == "error" and d.get("rendered"):
                print(d["rendered"])
        print("\n".join(other)[-3000:])
    print("wall %.1fs" % ur.wall_s)
    if not keep:
        shutil.rmtree(workdir, ignore_errors=True)
    return 0


def main():
    ap = argparse.ArgumentParser()
    ap.add_argument("prop", nargs="?")
    ap.add_argument("--tier", default=os.environ.get("VERIF_TIER", "quick"))
    ap.add_argument("--unit")
    ap.add_argument("--probe", action="append", default=[])
    ap.add_argument("--keep", action="store_true")
    ap.add_argument("--replay")
    ap.add_argument("--list", action="store_true")
    args = ap.parse_args()
    seed = int(os.environ.get("VERIF_SEED", "0") or 0)
    if args.list:
        UNITS, PROPERTIES = load_units()
        for p, d in sorted(PROPERTIES.items()):
            print(p, d["units"])
        return 0
    if args.replay:
        from vfw import replay
        return replay.replay(args.replay)
    if args.unit:
        return dev_unit(args.unit, args.keep, seed, args.probe)
    if not args.prop:
        ap.print_help()
        return 2
    return check_property(args.prop, args.tier, seed, keep=args.keep)


if __name__ == "__main__":
    sys.exit(main())
