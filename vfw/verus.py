"""Run Verus on a generated file, classify the outcome, and map failures to obligation IDs."""
import glob
import json
import os
import re
import subprocess
import time

from .rustlex import norm_ws

PROOF_FAILURES = [
    ("postcondition not satisfied", "ensures"),
    ("precondition not satisfied", "precondition"),
    ("possible arithmetic underflow/overflow", "overflow"),
    ("possible division by zero", "div0"),
    ("possible bit shift underflow/overflow", "shift"),
    ("assertion failed", "assert"),
    ("invariant not satisfied before loop", "invariant_entry"),
    ("invariant not satisfied at end of loop body", "invariant_preserved"),
    ("loop invariant not satisfied", "invariant"),
    ("loop ensures not satisfied", "loop_ensures"),
    ("decreases not satisfied", "termination"),
    ("could not prove termination", "termination"),
    ("unable to prove post-condition of closure", "closure_ensures"),
    ("unable to prove assertion safety condition", "assert"),
    ("constructed value may fail to meet its declared type invariant", "type_invariant"),
    ("unreachable", "unreachable"),
    ("recommendation not met", "recommends"),
    ("index out of bounds", "index"),
    ("cannot show invariant holds", "invariant"),
    ("possible overflow", "overflow"),
]

UNDECIDED_MARKERS = [
    "Resource limit (rlimit) exceeded",
    "rlimit",
    "internal error",
    "not supported",
    "unsupported",
    "The verifier does not yet support",
    "panicked",
]


def span_text(sp):
    parts = []
    for t in sp.get("text", []):
        s = t["text"][max(t["highlight_start"] - 1, 0):max(t["highlight_end"] - 1, 0)]
        parts.append(s)
    return norm_ws(" ".join(parts))


def run_verus(path, logdir, extra_args=(), rlimit=None, seed=None, timeout=900, threads=None, functions=None):
    cmd = ["verus", path, "--error-format=json", "--output-json", "--time-expanded",
           "--multiple-errors", "30", "--log", "air", "--log-dir", logdir,
           "--triggers-mode", "silent", "--no-report-long-running"]
    if rlimit:
        cmd += ["--rlimit", str(rlimit)]
    if seed is not None and int(seed) != 0:
        cmd += ["--smt-option", "smt.random_seed=%d" % (int(seed) % 1000000)]
    if threads:
        cmd += ["--num-threads", str(threads)]
    cmd += list(extra_args)
    t0 = time.time()
    try:
        p = subprocess.run(cmd, stdout=subprocess.PIPE, stderr=subprocess.PIPE, timeout=timeout, text=True,
                           cwd=os.path.dirname(path))
        rc, out, err = p.returncode, p.stdout, p.stderr
        timed_out = False
    except subprocess.TimeoutExpired as e:
        rc, out, err = -9, (e.stdout or ""), (e.stderr or "")
        if isinstance(out, bytes):
            out = out.decode("utf-8", "replace")
        if isinstance(err, bytes):
            err = err.decode("utf-8", "replace")
        timed_out = True
    wall = time.time() - t0
    return {"cmd": cmd, "rc": rc, "stdout": out, "stderr": err, "wall_s": wall, "timed_out": timed_out}


def parse_stdout_json(out):
    """the --output-json blob is printed on stdout"""
    i = out.find("{")
    while i >= 0:
        try:
            return json.loads(out[i:])
        except json.JSONDecodeError:
            i = out.find("{", i + 1)
    return None


def parse_diagnostics(err):
    diags = []
    other = []
    for line in err.split("\n"):
        line = line.strip()
        if not line:
            continue
        if line.startswith("{"):
            try:
                d = json.loads(line)
            except json.JSONDecodeError:
                other.append(line)
                continue
            if d.get("$message_type") == "diagnostic" or "message" in d:
                diags.append(d)
        else:
            other.append(line)
    return diags, other


def count_air_obligations(logdir):
    """count (assert ...) nodes with a message tuple inside ';; Function-Def' sections of the AIR logs.
    returns dict function-path -> {kind-message: count}"""
    res = {}
    for f in sorted(glob.glob(os.path.join(logdir, "*.air"))):
        cur = None
        pending = False
        try:
            fh = open(f, encoding="utf-8", errors="replace")
        except OSError:
            continue
        with fh:
            for line in fh:
                if line.startswith(";; "):
                    m = re.match(r";; (Function-Def|Function-Decl-Check-Recommends|Function-Recommends|Function-Specs|Function-Termination|Function-Decreases)\s+(\S+)", line)
                    if m:
                        cur = m.group(2) if m.group(1) in ("Function-Def", "Function-Termination", "Function-Decreases") else None
                    elif not re.match(r";; \S+\.rs:", line):
                        cur = None
                    continue
                if cur is None:
                    continue
                s = line.strip()
                if pending:
                    pending = False
                    m = re.match(r'\("([^"]*)"', s)
                    msg = m.group(1) if m else "(unlabelled)"
                    d = res.setdefault(cur, {})
                    d[msg] = d.get(msg, 0) + 1
                if s == "(assert":
                    pending = True
    return res


def region_at(regions_by_line, line):
    return regions_by_line.get(line)


def classify(diags, gen, unit_name, gen_path):
    """-> (failures, undecided_reasons, warnings). failure = dict(id, fn, kind, label, message, text, gen_line)"""
    by_line = {}
    for (ln, r) in gen.regions:
        by_line[ln] = r
    base = os.path.basename(gen_path)
    failures = []
    undecided = []
    for d in diags:
        lvl = d.get("level")
        msg = d.get("message", "")
        if lvl not in ("error",):
            if lvl == "warning" and ("rlimit" in msg.lower()):
                undecided.append(msg)
            continue
        if msg.startswith("aborting due to"):
            continue
        kind = None
        for pat, k in PROOF_FAILURES:
            if pat in msg:
                kind = k
                break
        spans = d.get("spans", [])
        if kind is None:
            loc = ""
            for sp in spans:
                if sp.get("is_primary"):
                    loc = "%s:%s" % (sp.get("file_name"), sp.get("line_start"))
            undecided.append("verifier error (not a proof failure): %s @ %s" % (msg, loc))
            continue
        prim = None
        for sp in spans:
            if sp.get("is_primary") and os.path.basename(sp.get("file_name", "")) == base:
                prim = sp
        if prim is None:
            for sp in spans:
                if os.path.basename(sp.get("file_name", "")) == base:
                    prim = sp
                    break
        fnkey = None
        reg = None
        if prim is not None:
            for ln in range(prim["line_start"], prim["line_end"] + 1):
                reg = by_line.get(ln)
                if reg:
                    break
            if reg:
                fnkey = reg["item"]
        label = None
        text = span_text(prim) if prim else ""
        detail_text = text
        # secondary spans carry the failed clause
        for sp in spans:
            lab = sp.get("label") or ""
            if "failed this postcondition" in lab or "failed precondition" in lab or "failed this" in lab:
                if os.path.basename(sp.get("file_name", "")) == base:
                    r2 = None
                    for ln in range(sp["line_start"], sp["line_end"] + 1):
                        r2 = by_line.get(ln)
                        if r2 and r2.get("label"):
                            break
                    if r2 and r2.get("label"):
                        label = r2["label"]
                        if kind == "precondition":
                            label = "%s.%s" % (r2["item"], r2["label"])
                    else:
                        label = span_text(sp)
                else:
                    label = span_text(sp)
        if kind in ("invariant_entry", "invariant_preserved", "invariant", "loop_ensures") and prim is not None:
            if reg and reg.get("label"):
                label = reg["label"]
        if kind == "ensures" and label is None and reg and reg.get("label"):
            label = reg["label"]
        if kind == "precondition":
            oid = "%s/%s/precondition[%s] at `%s`" % (unit_name, fnkey, label, text)
        elif label is not None:
            oid = "%s/%s/%s[%s]" % (unit_name, fnkey, kind, label)
        else:
            oid = "%s/%s/%s: %s" % (unit_name, fnkey, kind, detail_text)
        failures.append({"id": oid, "fn": fnkey, "kind": kind, "label": label, "message": msg, "text": text,
                         "gen_line": prim["line_start"] if prim else None,
                         "rendered": d.get("rendered", "")})
    # de-duplicate (Verus may repeat an error in recommends re-checks)
    seen = set()
    uniq = []
    for f in failures:
        if f["id"] in seen:
            continue
        seen.add(f["id"])
        uniq.append(f)
    return uniq, undecided
